(* C09 exit-path placement, richer export: functions are exported as printed IR (opcode strings, operands as
   literals / SSA variables / block or function indices); THIS file resolves operands through `assign`
   chains, classifies every instruction against the lock parameters (Lock.v / LockTpl.lock_params) and the
   lock slot, decides which functions touch the lock, builds the abstract CFG and runs ExitCheck.check.
   The Python side is reduced to a printer (names -> indices) -- plus, for the legacy pipeline, the
   linearisation of the IR tree into blocks.

   Operand order is venom's internal one: sstore/tstore [value; key]; jnz [cond; then; else]. *)
From Coq Require Import ZArith List Bool String Arith Lia.
From Verif Require Import C09.Lock C09.LockTpl C09.ExitCheck.
Import ListNotations.
Open Scope string_scope.
Local Notation "a == b" := (String.eqb a b) (at level 70).

Inductive varg := ALit (z : Z) | AVar (x : N) | ALab (l : N).     (* ids are binary numbers: cheap to parse *)
Record rinstr := mkI { i_out : option N; i_op : string; i_args : list varg }.
Definition rblock := list rinstr.              (* last instruction = terminator *)
Definition rfunction := list rblock.           (* entry = block 0 *)
Definition rprogram := list rfunction.         (* invoke [ALab f; ...] refers to function index f *)

(* ---- operand resolution through assign chains (SSA: one definition per variable) ---- *)
Definition defs_of (f : rfunction) : list (N * varg) :=
  flat_map (fun b => flat_map (fun i =>
    match i_out i, i_args i with
    | Some x, [a] => if i_op i == "assign" then [(x, a)] else []
    | _, _ => []
    end) b) f.
Fixpoint lookup_def (d : list (N * varg)) (x : N) : option varg :=
  match d with [] => None | (y, a) :: r => if N.eqb x y then Some a else lookup_def r x end.
Fixpoint resolve (fuel : nat) (d : list (N * varg)) (a : varg) : option Z :=
  match a with
  | ALit z => Some z
  | ALab _ => None
  | AVar x => match fuel with
              | O => None
              | S k => match lookup_def d x with Some a' => resolve k d a' | None => None end
              end
  end.

(* ---- classification ---- *)
Record lockcfg := mkLC { lc_transient : bool; lc_slot : Z; lc_temp : Z; lc_final : Z }.
Definition lockcfg_of (cancun : bool) (slot : Z) : lockcfg :=
  mkLC cancun slot (p_temp (lock_params cancun)) (p_final (lock_params cancun)).

Inductive rk := RLock | RUnlock | RCall (f : nat) | ROther | RBad.
Definition classify (L : lockcfg) (d : list (N * varg)) (i : rinstr) : rk :=
  let op := i_op i in
  let is_lock_store := if lc_transient L then op == "tstore" else op == "sstore" in
  if is_lock_store then
    match i_args i with
    | [v; k] =>
      match resolve 32 d k with
      | None => ROther                      (* dynamic key: assumed not to alias the lock slot (C10) *)
      | Some kz =>
        if (kz =? lc_slot L)%Z then
          match resolve 32 d v with
          | Some vz => if (vz =? lc_temp L)%Z then RLock else if (vz =? lc_final L)%Z then RUnlock else RBad
          | None => RBad
          end
        else ROther
      end
    | _ => RBad
    end
  else if op == "invoke" then
    match i_args i with ALab f :: _ => RCall (N.to_nat f) | _ => RBad end
  else ROther.

Definition is_term (op : string) : bool :=
  (op == "jmp") || (op == "jnz") || (op == "djmp") || (op == "ret") || (op == "dret") || (op == "retfmp") ||
  (op == "return") || (op == "stop") || (op == "selfdestruct") || (op == "sink") || (op == "revert") || (op == "invalid").

Definition labels_of (l : list varg) : list nat :=
  flat_map (fun a => match a with ALab x => [N.to_nat x] | _ => [] end) l.
Definition term_of (i : rinstr) : option term :=
  let op := i_op i in
  if (op == "jmp") || (op == "jnz") || (op == "djmp") then Some (TJump (labels_of (i_args i)))
  else if (op == "ret") || (op == "dret") || (op == "retfmp") then Some TRet
  else if (op == "return") || (op == "stop") || (op == "selfdestruct") || (op == "sink") then Some TExit
  else if (op == "revert") || (op == "invalid") then Some TAbort
  else None.

(* does function f touch the lock (directly or through calls)?  fuel = call depth bound *)
Definition direct_lock (L : lockcfg) (f : rfunction) : bool :=
  let d := defs_of f in
  existsb (fun b => existsb (fun i => match classify L d i with RLock | RUnlock | RBad => true | _ => false end) b) f.
Definition callees (L : lockcfg) (f : rfunction) : list nat :=
  let d := defs_of f in
  flat_map (fun b => flat_map (fun i => match classify L d i with RCall g => [g] | _ => [] end) b) f.
Fixpoint touches (fuel : nat) (L : lockcfg) (p : rprogram) (f : nat) : bool :=
  match nth_error p f with
  | None => true                                     (* unknown callee: fail closed (treated as locking) *)
  | Some fn =>
    direct_lock L fn ||
    match fuel with
    | O => negb (match callees L fn with [] => true | _ => false end)   (* out of fuel with calls left: fail closed *)
    | S k => existsb (touches k L p) (callees L fn)
    end
  end.

Definition ik_of (L : lockcfg) (p : rprogram) (d : list (N * varg)) (i : rinstr) : option ik :=
  match classify L d i with
  | RLock => Some ILock
  | RUnlock => Some IUnlock
  | RCall g => Some (if touches (List.length p) L p g then ICallLock else IOther)
  | ROther => Some IOther
  | RBad => None
  end.

Fixpoint opt_map {A B} (f : A -> option B) (l : list A) : option (list B) :=
  match l with
  | [] => Some []
  | a :: r => match f a, opt_map f r with Some b, Some bs => Some (b :: bs) | _, _ => None end
  end.

Definition block_of (L : lockcfg) (p : rprogram) (d : list (N * varg)) (b : rblock) : option block :=
  match rev b with
  | [] => None
  | t :: body_rev =>
    if existsb (fun i => is_term (i_op i)) body_rev then None     (* a terminator in the middle of a block *)
    else match term_of t, opt_map (ik_of L p d) (rev body_rev) with
         | Some tm, Some ins => Some (mkB ins tm)
         | _, _ => None
         end
  end.
Definition cfg_of (L : lockcfg) (p : rprogram) (f : rfunction) : option cfg :=
  opt_map (block_of L p (defs_of f)) f.

Definition check_fn (L : lockcfg) (p : rprogram) (f : rfunction) (lab : list lset) : bool :=
  match cfg_of L p f with Some g => check g lab | None => false end.
Fixpoint check_all (L : lockcfg) (p : rprogram) (fs : rprogram) (labs : list (list lset)) : list bool :=
  match fs, labs with
  | f :: fr, l :: lr => check_fn L p f l :: check_all L p fr lr
  | [], [] => []
  | _, _ => [false]
  end.
Definition check_program (L : lockcfg) (p : rprogram) (labs : list (list lset)) : list bool := check_all L p p labs.

(* statistics for the evidence (non-vacuity): number of lock / unlock / call-lock sites and exits *)
Definition count_ik (g : cfg) (k : ik) : nat :=
  List.length (filter (fun i => match i, k with ILock, ILock | IUnlock, IUnlock | ICallLock, ICallLock => true | _, _ => false end)
                      (flat_map b_ins g)).
Definition count_term (g : cfg) (e : bool) : nat :=
  List.length (filter (fun b => match b_term b with TExit => e | TRet => negb e | _ => false end) g).
Definition stats_fn (L : lockcfg) (p : rprogram) (f : rfunction) : list Z :=
  match cfg_of L p f with
  | Some g => map Z.of_nat [List.length g; count_ik g ILock; count_ik g IUnlock; count_ik g ICallLock; count_term g true; count_term g false]
  | None => []
  end.
Definition stats_program (L : lockcfg) (p : rprogram) : list Z :=
  fold_right (fun f acc => match stats_fn L p f, acc with
                           | [a; b; c; d; e; g], [a'; b'; c'; d'; e'; g'] => [a + a'; b + b'; c + c'; d + d'; e + e'; g + g']%Z
                           | _, _ => acc end) [0; 0; 0; 0; 0; 0]%Z p.

(* ---- soundness: acceptance of the printed function gives the path property of ExitCheck ---- *)
Theorem check_fn_sound : forall L p f lab, check_fn L p f lab = true ->
  exists g, cfg_of L p f = Some g /\
  forall rest, is_path g 0%nat rest ->
  (last_term g (0%nat :: rest) = Some TExit \/ last_term g (0%nat :: rest) = Some TRet) ->
  trs false (path_ins g (0%nat :: rest)) = Some false /\
  forall pre post, path_ins g (0%nat :: rest) = (pre ++ ILock :: post)%list -> In IUnlock post.
Proof.
  intros L p f lab H. unfold check_fn in H. destruct (cfg_of L p f) as [g|]; [|discriminate].
  exists g. split; [reflexivity|]. intros rest Hp Hl. exact (exits_pass_unlock_thm g lab H rest Hp Hl).
Qed.

(* ---- link to Lock.v: the effect of an accepted exit path on the lock cell is that of `leave` ---- *)
Definition cell_step (P : params) (v : Z) (i : ik) : Z :=
  match i with ILock => p_temp P | IUnlock => p_final P | ICallLock => p_final P | IOther => v end.
Definition cell_effect (P : params) (t : list ik) (v : Z) : Z := fold_left (cell_step P) t v.
Definition lockish (i : ik) : bool := match i with IOther => false | _ => true end.

Lemma cell_effect_trs : forall P t a e v,
  trs a t = Some e -> (a = true -> v = p_temp P) ->
  (e = true -> cell_effect P t v = p_temp P) /\
  (e = false -> cell_effect P t v = if a || existsb lockish t then p_final P else v).
Proof.
  intros P t. induction t as [|i r IH]; intros a e v H Ha; simpl in H.
  - inversion H; subst. unfold cell_effect; simpl. split; intro E; subst; [apply Ha; reflexivity|reflexivity].
  - change (cell_effect P (i :: r) v) with (cell_effect P r (cell_step P v i)).
    destruct i; destruct a; simpl in H; try discriminate; simpl cell_step.
    + (* ILock from free *) destruct (IH true e (p_temp P) H (fun _ => eq_refl)) as [I1 I2]. split; auto.
    + (* IUnlock from held *) destruct (IH false e (p_final P) H (fun E => match Bool.diff_false_true E with end)) as [I1 I2].
      split; auto. intro E. rewrite (I2 E). simpl. destruct (existsb lockish r); reflexivity.
    + (* IUnlock from free *) destruct (IH false e (p_final P) H (fun E => match Bool.diff_false_true E with end)) as [I1 I2].
      split; auto. intro E. rewrite (I2 E). simpl. destruct (existsb lockish r); reflexivity.
    + (* ICallLock from free *) destruct (IH false e (p_final P) H (fun E => match Bool.diff_false_true E with end)) as [I1 I2].
      split; auto. intro E. rewrite (I2 E). simpl. destruct (existsb lockish r); reflexivity.
    + (* IOther held *) destruct (IH true e v H Ha) as [I1 I2]. split; auto.
    + (* IOther free *) destruct (IH false e v H Ha) as [I1 I2]. split; auto.
Qed.

(* Every accepted path from the entry to return/stop/ret leaves the lock cell exactly as Lock.leave does:
   `final` if the path took the lock (a protected non-view entry: kind Nonview), untouched otherwise
   (Unprot / View) -- the body shape that lock_released / no_reentry assume for every exit. *)
Theorem accepted_exit_matches_leave : forall P L p f lab, check_fn L p f lab = true ->
  exists g, cfg_of L p f = Some g /\
  forall rest v, is_path g 0%nat rest ->
  (last_term g (0%nat :: rest) = Some TExit \/ last_term g (0%nat :: rest) = Some TRet) ->
  let t := path_ins g (0%nat :: rest) in
  cell_effect P t v = if existsb lockish t then p_final P else v.
Proof.
  intros P L p f lab H. destruct (check_fn_sound L p f lab H) as [g [Hg Hs]].
  exists g. split; [exact Hg|]. intros rest v Hp Hl t.
  destruct (Hs rest Hp Hl) as [Ht _].
  destruct (cell_effect_trs P t false false v Ht (fun E => match Bool.diff_false_true E with end)) as [_ I2].
  rewrite (I2 eq_refl). reflexivity.
Qed.
