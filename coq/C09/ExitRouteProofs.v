From Coq Require Import List Bool String.
From Verif Require Import C09.ExitRoute.
Import ListNotations.
Open Scope string_scope.
Open Scope list_scope.

Lemma route_shape : forall lbl c,
  exists pre, route lbl c = pre ++ [RExitTo lbl (exit_args c)] /\
              existsb is_exit pre = false /\
              existsb is_unwind pre = r_inloop c.
Proof.
  intros lbl [i h l]. exists [RFill (i && h); (if l then RUnwind else RNop)].
  repeat split; destruct l; reflexivity.
Qed.

Lemma route_runs_cleanup : forall lbl c code, run_exit lbl code (route lbl c) = code.
Proof.
  intros lbl c code. unfold route, run_exit. cbn [flat_map].
  rewrite String.eqb_refl. destruct (r_inloop c); cbn [app]; rewrite app_nil_r; reflexivity.
Qed.

Lemma route_releases : forall lbl c post out,
  run_exit lbl (post ++ [out]) (route lbl c) = post ++ [out].
Proof. intros. apply route_runs_cleanup. Qed.

(* non-vacuity of the distinction the model makes: a statement that jumps to return_pc directly skips the release *)
Lemma direct_jump_skips_release :
  run_exit "f_cleanup" [EUnlock; EBackToCaller] [RFill false; RUnwind; RExitTo "return_pc" []] = [EBackToCaller].
Proof. vm_compute. reflexivity. Qed.
