(* C09 property theorems: every legacy `return` statement is routed through the function's exit sequence *)
From Coq Require Import List Bool String.
From Verif Require Import C09.ExitRoute C09.ExitRouteProofs C09.GenRoute C09.TieRoute.
Import ListNotations.
Open Scope string_scope.
Open Scope list_scope.

(* for EVERY context the emitted sequence ends in exactly one exit_to, whose target is the function's exit-sequence
   label; the loop state is unwound before it iff the statement sits in a loop *)
Theorem return_routes_through_exit_sequence : forall lbl c,
  exists pre, route lbl c = pre ++ [RExitTo lbl (exit_args c)] /\
              existsb is_exit pre = false /\ existsb is_unwind pre = r_inloop c.
Proof. exact route_shape. Qed.
Print Assumptions return_routes_through_exit_sequence.

(* executing it runs the code at the exit-sequence label -- release, then the way out -- whatever that code is *)
Theorem return_runs_release : forall lbl c post out,
  run_exit lbl (post ++ [out]) (route lbl c) = post ++ [out].
Proof. exact route_releases. Qed.
Print Assumptions return_runs_release.

(* the same for what the real generator emitted on this run, over the whole observed family *)
Theorem return_route_spec :
  List.length observed_routes = List.length route_family /\
  Forall (fun p => forall code, run_exit (snd (fst p)) code (snd p) = code) observed_routes.
Proof. exact return_route_spec_thm. Qed.
Print Assumptions return_route_spec.

Example route_examples :
  route "f_cleanup" (mk_rctx true false true) = [RFill false; RUnwind; RExitTo "f_cleanup" [true]] /\
  run_exit "f_cleanup" [EUnlock; EBackToCaller] (route "f_cleanup" (mk_rctx true false true)) = [EUnlock; EBackToCaller] /\
  run_exit "f_cleanup" [EUnlock; EBackToCaller] [RFill false; RUnwind; RExitTo "return_pc" []] = [EBackToCaller] /\
  List.length route_family = 16%nat.
Proof. vm_compute. repeat split; reflexivity. Qed.
