(* C09: the lock is not released before the protected function is really over -- placement of the release relative to
   control hand-over points, on every way out of a function including the halting instructions (selfdestruct) that do
   not pass the function's exit sequence.  The checker (HaltCheck.hcheck_program) is run by vm_compute on the printed
   IR of both code generators (tools/vlib/c09_halt.py). *)
From Coq Require Import ZArith List Bool String.
From Verif Require Import C09.Lock C09.LockTpl C09.ExitCheck C09.RichCfg C09.HaltCheck C09.HaltProofs.
Import ListNotations.
Open Scope list_scope.

(* If the checker accepts (g, lab) then along EVERY CFG path from the function entry (to any block):
   (1) the three-valued abstract machine (free / held / released) accepts the trace, and if the path ends in a way out
       -- return / stop, the halting selfdestruct, internal ret -- the lock is not held there;
   (2) there is no hand-over point (call / staticcall / delegatecall / create / create2 / invoke of a function that may
       hand over) between an unlock store and the end of the path, unless the lock has been taken again in between;
   (3) on a path to any way out every lock store is followed by a later unlock store. *)
Theorem no_handover_between_unlock_and_way_out : forall g lab, hcheck g lab = true ->
  forall rest, h_is_path g 0%nat rest ->
  let t := h_path_ins g (0%nat :: rest) in
  (exists e, htrs SFree t = Some e /\ (is_way_out (h_last_term g (0%nat :: rest)) = true -> e <> SHeld)) /\
  (forall pre mid post, t = pre ++ HUnlock :: mid ++ HHand :: post -> In HLock mid) /\
  (is_way_out (h_last_term g (0%nat :: rest)) = true -> forall pre post, t = pre ++ HLock :: post -> In HUnlock post).
Proof. exact hcheck_sound. Qed.
Print Assumptions no_handover_between_unlock_and_way_out.

(* the same for the checker that is run: it takes the printed IR of a function; classification of the stores against
   the lock slot / parameters, the hand-over closure over the call graph and CFG construction happen inside Coq *)
Theorem printed_function_no_handover_after_unlock : forall L p f lab, hcheck_fn L p f lab = true ->
  exists g, hcfg_of L p f = Some g /\
  forall rest, h_is_path g 0%nat rest ->
  let t := h_path_ins g (0%nat :: rest) in
  (exists e, htrs SFree t = Some e /\ (is_way_out (h_last_term g (0%nat :: rest)) = true -> e <> SHeld)) /\
  (forall pre mid post, t = pre ++ HUnlock :: mid ++ HHand :: post -> In HLock mid) /\
  (is_way_out (h_last_term g (0%nat :: rest)) = true -> forall pre post, t = pre ++ HLock :: post -> In HUnlock post).
Proof. exact hcheck_fn_sound. Qed.
Print Assumptions printed_function_no_handover_after_unlock.

(* link to Lock.v: at every hand-over point of an accepted trace that comes after a lock store, the lock cell holds
   `temp` -- the state in which Lock.held_blocks_all makes every protected entry of the contract revert *)
Theorem handover_after_lock_runs_under_held_lock : forall P t e pre post v,
  htrs SFree t = Some e -> t = pre ++ HHand :: post -> In HLock pre -> hcell P pre v = p_temp P.
Proof. exact hand_after_lock_is_held. Qed.
Print Assumptions handover_after_lock_runs_under_held_lock.

(* non-vacuity.  A protected function that ends in the halting instruction, with a hand-over point in the operand:
     good: lock; call; unlock; selfdestruct          bad: lock; unlock; call; selfdestruct
   abstract CFGs ... *)
Definition hx_good : hcfg :=
  [mkHB [HOther; HLock] (HJump [1; 2]%nat);
   mkHB [HHand; HOther; HUnlock] HHalt;
   mkHB [HHand; HUnlock] HExit].
Definition hx_bad : hcfg :=
  [mkHB [HOther; HLock] (HJump [1; 2]%nat);
   mkHB [HUnlock; HHand; HOther] HHalt;
   mkHB [HHand; HUnlock] HExit].
Definition hx_kept : hcfg :=       (* halting exit with the lock still held *)
  [mkHB [HOther; HLock] (HJump [1; 2]%nat);
   mkHB [HHand; HOther] HHalt;
   mkHB [HHand; HUnlock] HExit].
Definition hx_lab : list hset := [(true, false, false); (false, true, false); (false, true, false)].
Example halt_check_examples :
  hcheck hx_good hx_lab = true /\ hcheck hx_bad hx_lab = false /\ hcheck hx_kept hx_lab = false /\
  h_is_path hx_good 0%nat [1%nat] /\ h_last_term hx_good [0; 1]%nat = Some HHalt /\
  h_path_ins hx_good [0; 1]%nat = [HOther; HLock] ++ HHand :: [HOther; HUnlock] /\
  hcell transient_params [HOther; HLock] 0%Z = p_temp transient_params.
Proof.
  repeat split; try reflexivity; simpl; repeat (try eexists; try split; try reflexivity; simpl; auto).
Qed.

(* ... and printed IR: venom style (operands through assign chains; sstore/tstore [value; key]; the beneficiary comes
   from a call, directly or through invoke of function 1 which makes the call) *)
Open Scope string_scope.
Definition px_callee : rfunction :=
  [[mkI (Some 1%N) "gas" []; mkI (Some 2%N) "call" [AVar 1%N; ALit 0%Z; ALit 0%Z; ALit 0%Z; ALit 0%Z; ALit 0%Z; ALit 0%Z];
    mkI None "ret" [AVar 2%N]]].
Definition px_fn (early : bool) (through_invoke : bool) : rfunction :=
  let unlock := mkI None "tstore" [ALit 0%Z; ALit 0%Z] in
  let hand := if through_invoke then mkI (Some 9%N) "invoke" [ALab 1%N; AVar 4%N]
              else mkI (Some 9%N) "staticcall" [AVar 4%N; ALit 0%Z; ALit 0%Z; ALit 0%Z; ALit 0%Z; ALit 0%Z] in
  [[mkI (Some 1%N) "assign" [ALit 0%Z]; mkI (Some 2%N) "assign" [ALit 1%Z]; mkI (Some 3%N) "assign" [AVar 2%N];
    mkI None "tstore" [AVar 3%N; AVar 1%N]; mkI (Some 4%N) "calldatasize" []; mkI None "jnz" [AVar 4%N; ALab 1%N; ALab 2%N]];
   (if early then [unlock; hand; mkI None "selfdestruct" [AVar 9%N]] else [hand; unlock; mkI None "selfdestruct" [AVar 9%N]])%list;
   [unlock; mkI None "return" [ALit 0%Z; ALit 0%Z]]].
Definition px_labs : list hset := [(true, false, false); (false, true, false); (false, true, false)].
Definition px_prog (early through_invoke : bool) : rprogram := [px_fn early through_invoke; px_callee].
Example printed_halt_examples :
  hcheck_fn (lockcfg_of true 0) (px_prog false false) (px_fn false false) px_labs = true /\
  hcheck_fn (lockcfg_of true 0) (px_prog false true) (px_fn false true) px_labs = true /\
  hcheck_fn (lockcfg_of true 0) (px_prog true false) (px_fn true false) px_labs = false /\
  hcheck_fn (lockcfg_of true 0) (px_prog true true) (px_fn true true) px_labs = false /\
  hstats_program (lockcfg_of true 0) (px_prog false true) = [4; 1; 2; 0; 2; 1; 2]%Z.
Proof. vm_compute. repeat split; reflexivity. Qed.
