(* C09 O-tie: what the real generators emitted (GenLock.v, regenerated every run) is, for the whole
   family (nonreentrant? x mutability x evm version x key) and both pipelines, syntactically the
   output of the Coq generators -- hence computes Lock.enter / Lock.leave (LockTpl.gen_*_spec). *)
From Coq Require Import ZArith List Bool String.
From Verif Require Import C09.Lock C09.LockTpl C09.GenLock.
Import ListNotations.
Open Scope Z_scope.

Lemma observed_legacy_eq : observed_legacy = map (fun f => (f, gen_legacy f)) family.
Proof. vm_compute. reflexivity. Qed.

Lemma observed_venom_eq : observed_venom = map (fun f => (f, gen_venom f)) family.
Proof. vm_compute. reflexivity. Qed.

Definition tpl_is_model_legacy (f : fam) (t : list sx * list sx) : Prop :=
  match f with (nonre, mut, evm, key) =>
    forall st m,
      ev_list (fst t) st m = enter_mem (lock_params (is_cancun evm)) (is_cancun evm) key st (kind_of nonre mut) m /\
      ev_list (snd t) st m =
        (if st && (match kind_of nonre mut with Nonview => true | _ => false end) then None
         else Some (leave_mem (lock_params (is_cancun evm)) (is_cancun evm) key (kind_of nonre mut) m))
  end.
Definition tpl_is_model_venom (f : fam) (t : list vinst * list vinst) : Prop :=
  match f with (nonre, mut, evm, key) =>
    forall st m,
      vrun (fst t) st [] m = enter_mem (lock_params (is_cancun evm)) (is_cancun evm) key st (kind_of nonre mut) m /\
      vrun (snd t) st [] m =
        (if st && (match kind_of nonre mut with Nonview => true | _ => false end) then None
         else Some (leave_mem (lock_params (is_cancun evm)) (is_cancun evm) key (kind_of nonre mut) m))
  end.

Lemma lock_template_spec_thm :
  (List.length observed_legacy = List.length family /\ Forall (fun p => tpl_is_model_legacy (fst p) (snd p)) observed_legacy) /\
  (List.length observed_venom = List.length family /\ Forall (fun p => tpl_is_model_venom (fst p) (snd p)) observed_venom).
Proof.
  split; split.
  - rewrite observed_legacy_eq, map_length. reflexivity.
  - rewrite observed_legacy_eq. apply Forall_forall. intros [f t] H. apply in_map_iff in H.
    destruct H as [f0 [E _]]. inversion E; subst. destruct f as [[[nonre mut] evm] key].
    simpl. intros st m. apply gen_legacy_spec.
  - rewrite observed_venom_eq, map_length. reflexivity.
  - rewrite observed_venom_eq. apply Forall_forall. intros [f t] H. apply in_map_iff in H.
    destruct H as [f0 [E _]]. inversion E; subst. destruct f as [[[nonre mut] evm] key].
    simpl. intros st m. apply gen_venom_spec.
Qed.
