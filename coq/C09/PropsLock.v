(* C09 property theorems.  Model: Lock.v; proofs: LockProofs.v; template tie: LockTpl.v/TieLock.v. *)
From Coq Require Import ZArith List Bool String.
From Verif Require Import C09.Lock C09.LockProofs C09.LockTpl C09.GenLock C09.TieLock.
Import ListNotations.
Open Scope Z_scope.

(* While a protected non-view function of c is executing, any call reaching a protected entry point
   of c (view or not; any depth; any chain; static or not) reverts without changing anything. *)
Theorem no_reentry : forall P st c b s s1 st' k' b' s',
  enter P st c Nonview s = Some s1 ->
  vbody P st b s1 1 st' (Call c k' b') s' ->
  k' <> Unprot ->
  run P st' (Call c k' b') s' = (false, s', 0).
Proof. exact no_reentry_thm. Qed.
Print Assumptions no_reentry.

Theorem held_blocks_all : forall P st n s st' c k' b' s',
  cell s c = p_temp P -> vnode P st n s st' (Call c k' b') s' -> k' <> Unprot ->
  run P st' (Call c k' b') s' = (false, s', 0).
Proof. exact held_blocks_all_thm. Qed.
Print Assumptions held_blocks_all.

Theorem view_checks_only : forall P st c b s,
  (cell s c = p_temp P -> run P st (Call c View b) s = (false, s, 0)) /\
  (cell s c <> p_temp P -> run P st (Call c View b) s = run P st (Call c Unprot b) s) /\
  (static_body b = true -> forall c', cell (st_of (run P st (Call c View b) s)) c' = cell s c').
Proof. exact view_checks_only_thm. Qed.
Print Assumptions view_checks_only.

Theorem lock_released : forall P, params_ok P -> forall n s transient,
  quiescent P s ->
  let s' := st_of (run P false n s) in
  quiescent P s' /\ quiescent P (tx_end P transient s') /\
  (forall c k, enter P false c k s' <> None) /\
  (forall c k, enter P false c k (tx_end P transient s') <> None).
Proof. exact lock_released_thm. Qed.
Print Assumptions lock_released.

Theorem revert_rolls_back : forall P n st s, ok_of (run P st n s) = false -> st_of (run P st n s) = s.
Proof. exact run_fail_state. Qed.

Theorem lock_values_ok : params_ok transient_params /\ params_ok storage_params.
Proof. exact lock_values_ok_thm. Qed.
Print Assumptions lock_values_ok.

Theorem lock_template_spec :
  (List.length observed_legacy = List.length family /\ Forall (fun p => tpl_is_model_legacy (fst p) (snd p)) observed_legacy) /\
  (List.length observed_venom = List.length family /\ Forall (fun p => tpl_is_model_venom (fst p) (snd p)) observed_venom).
Proof. exact lock_template_spec_thm. Qed.
Print Assumptions lock_template_spec.

(* ---- non-vacuity ---- *)
Definition adv := 9%nat.
(* outer protected f of contract 0 calls the adversary, which re-enters protected g of 0 (caught),
   a protected view of 0 (caught), an unprotected entry of 0 (succeeds) and protected h of contract 1 (succeeds) *)
Definition ex_tree : node :=
  Call 0%nat Nonview (BSub (Call adv Unprot
     (BSub (Call 0%nat Nonview (BEnd true)) true false (Some 1)
     (BSub (Call 0%nat View (BEnd true)) true true None
     (BSub (Call 0%nat Unprot (BEnd true)) true false (Some 2)
     (BSub (Call 1%nat Nonview (BEnd true)) true false (Some 3) (BEnd true)))))) false false None (BEnd true)).
Example ex_run_transient :
  snd (observe transient_params ex_tree (init_state transient_params)) =
  [1; snd (run transient_params false ex_tree (init_state transient_params)); 0; 0; 0; 2; 5; 7].
Proof. vm_compute. reflexivity. Qed.
Example ex_run_storage :
  firstn 1 (snd (observe storage_params ex_tree (init_state storage_params))) = [1] /\
  skipn 2 (snd (observe storage_params ex_tree (init_state storage_params))) = [3; 3; 0; 2; 5; 7].
Proof. vm_compute. split; reflexivity. Qed.
(* hypotheses of no_reentry are satisfiable: the inner protected call is visited *)
Example ex_visit : exists s1 st' s',
  enter transient_params false 0%nat Nonview (init_state transient_params) = Some s1 /\
  vbody transient_params false
    (BSub (Call adv Unprot (BSub (Call 0%nat Nonview (BEnd true)) true false None (BEnd true))) false false None (BEnd true))
    s1 1 st' (Call 0%nat Nonview (BEnd true)) s'.
Proof.
  eexists; eexists; eexists; split; [reflexivity|].
  apply vb_sub. eapply vn_in; [reflexivity|]. apply vb_sub. apply vn_here.
Qed.
