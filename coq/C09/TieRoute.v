(* C09 O-tie: what the real make_return_stmt emitted (GenRoute.v, regenerated on every run) for every context
   (internal? x return type? x inside a for loop?) x exit-sequence label is the output of ExitRoute.route. *)
From Coq Require Import List Bool String.
From Verif Require Import C09.ExitRoute C09.ExitRouteProofs C09.GenRoute.
Import ListNotations.
Open Scope string_scope.
Open Scope list_scope.

Lemma observed_routes_eq : observed_routes = map (fun f => (f, route (snd f) (fst f))) route_family.
Proof. vm_compute. reflexivity. Qed.

Lemma return_route_spec_thm :
  List.length observed_routes = List.length route_family /\
  Forall (fun p => forall code, run_exit (snd (fst p)) code (snd p) = code) observed_routes.
Proof.
  split.
  - rewrite observed_routes_eq, map_length. reflexivity.
  - rewrite observed_routes_eq. apply Forall_forall. intros [[c l] ops] H. apply in_map_iff in H.
    destruct H as [f0 [E _]]. inversion E; subst. cbn [fst snd]. intros code. apply route_runs_cleanup.
Qed.
