(* C09 placement of the lock release relative to control hand-over points, on EVERY way out of a function,
   including the halting instructions that do not pass the function's exit sequence (selfdestruct).

   ExitCheck.v / RichCfg.v establish "every path to return/stop/ret passes the unlock store after the lock
   store".  That says nothing about WHAT may still run after the unlock store: a release that is emitted
   before an argument expression of the terminating statement is evaluated (e.g. the beneficiary of
   `selfdestruct(<expr>)`, where <expr> makes an external call) satisfies it, although foreign code then
   runs while the protected function is still executing and the lock is already free.

   This file: instruction classes extended by HHand (= the instruction hands control to foreign code: call /
   staticcall / delegatecall / callcode / create / create2, or invoke of a function that may do so,
   transitively), a three-valued abstract lock state
       SFree  never taken by this activation      SHeld  taken      SRel  released by this activation
   and a certificate checker (state sets per block) that rejects a hand-over point in state SRel, a lock store
   while held, and any exit -- return / stop, the HALTING selfdestruct, internal ret -- in state SHeld.
   The printed IR (RichCfg.rinstr, same printer) is classified and turned into a CFG inside Coq.
   Proofs: HaltProofs.v; theorems: PropsHalt.v. *)
From Coq Require Import ZArith List Bool String Arith Lia.
From Verif Require Import C09.Lock C09.LockTpl C09.ExitCheck C09.RichCfg.
Import ListNotations.
Open Scope string_scope.
Local Notation "a == b" := (String.eqb a b) (at level 70).

Inductive hk := HLock | HUnlock | HCallLock | HHand | HOther.
Inductive hs := SFree | SHeld | SRel.
Inductive hterm := HJump (ts : list nat) | HExit | HHalt | HRet | HAbort.
Record hblock := mkHB { hb_ins : list hk; hb_term : hterm }.
Definition hcfg := list hblock.

Definition htr (a : hs) (i : hk) : option hs :=
  match i, a with
  | HLock, SHeld => None
  | HLock, _ => Some SHeld
  | HUnlock, _ => Some SRel
  | HCallLock, SHeld => None          (* the callee takes the lock itself *)
  | HCallLock, a => Some a
  | HHand, SRel => None               (* foreign code after the release, before the function is over *)
  | HHand, a => Some a
  | HOther, a => Some a
  end.
Fixpoint htrs (a : hs) (l : list hk) : option hs :=
  match l with
  | [] => Some a
  | i :: r => match htr a i with Some a' => htrs a' r | None => None end
  end.

Definition is_held (a : hs) : bool := match a with SHeld => true | _ => false end.

(* certificate: per block the set of abstract states possible at its entry (free, held, released) *)
Definition hset := (bool * bool * bool)%type.
Definition hlab_at (lab : list hset) (i : nat) : hset := nth i lab (false, false, false).
Definition hhas (l : hset) (a : hs) : bool :=
  match l, a with (f, _, _), SFree => f | (_, h, _), SHeld => h | (_, _, r), SRel => r end.

Definition hcheck_state (lab : list hset) (b : hblock) (a : hs) : bool :=
  match htrs a (hb_ins b) with
  | None => false
  | Some e =>
    match hb_term b with
    | HJump ts => forallb (fun t => hhas (hlab_at lab t) e) ts
    | HExit | HHalt | HRet => negb (is_held e)
    | HAbort => true
    end
  end.
Definition hcheck_block (lab : list hset) (i : nat) (b : hblock) : bool :=
  (if hhas (hlab_at lab i) SFree then hcheck_state lab b SFree else true) &&
  (if hhas (hlab_at lab i) SHeld then hcheck_state lab b SHeld else true) &&
  (if hhas (hlab_at lab i) SRel then hcheck_state lab b SRel else true).
Fixpoint hcheck_from (lab : list hset) (i : nat) (g : hcfg) : bool :=
  match g with
  | [] => true
  | b :: r => hcheck_block lab i b && hcheck_from lab (S i) r
  end.
Definition hcheck (g : hcfg) (lab : list hset) : bool :=
  hhas (hlab_at lab 0) SFree && hcheck_from lab 0 g.

(* ---- paths ---- *)
Definition hblk (g : hcfg) (i : nat) : option hblock := nth_error g i.
Fixpoint h_is_path (g : hcfg) (i : nat) (rest : list nat) : Prop :=
  match rest with
  | [] => exists b, hblk g i = Some b
  | j :: r => (exists b ts, hblk g i = Some b /\ hb_term b = HJump ts /\ In j ts) /\ h_is_path g j r
  end.
Fixpoint h_path_ins (g : hcfg) (p : list nat) : list hk :=
  match p with
  | [] => []
  | i :: r => match hblk g i with Some b => hb_ins b ++ h_path_ins g r | None => h_path_ins g r end
  end.
Definition h_last_term (g : hcfg) (p : list nat) : option hterm :=
  match hblk g (last p 0%nat) with Some b => Some (hb_term b) | None => None end.
Definition is_way_out (t : option hterm) : bool :=
  match t with Some HExit | Some HHalt | Some HRet => true | _ => false end.

(* ---- from the printed IR (RichCfg.rinstr) to the abstract CFG ---- *)
Definition is_hand_op (op : string) : bool :=
  (op == "call") || (op == "staticcall") || (op == "delegatecall") || (op == "callcode") ||
  (op == "create") || (op == "create2").

Definition direct_hand (f : rfunction) : bool :=
  existsb (fun b => existsb (fun i => is_hand_op (i_op i)) b) f.
(* may function f hand control over (directly or through the functions it invokes)?  fuel = call depth bound *)
Fixpoint hands (fuel : nat) (L : lockcfg) (p : rprogram) (f : nat) : bool :=
  match nth_error p f with
  | None => true                                    (* unknown callee: fail closed *)
  | Some fn =>
    direct_hand fn ||
    match fuel with
    | O => negb (match callees L fn with [] => true | _ => false end)
    | S k => existsb (hands k L p) (callees L fn)
    end
  end.

Definition hk_of (L : lockcfg) (p : rprogram) (d : list (N * varg)) (i : rinstr) : option hk :=
  match classify L d i with
  | RLock => Some HLock
  | RUnlock => Some HUnlock
  | RCall g => Some (if touches (List.length p) L p g then HCallLock
                     else if hands (List.length p) L p g then HHand else HOther)
  | ROther => Some (if is_hand_op (i_op i) then HHand else HOther)
  | RBad => None
  end.

Definition hterm_of (i : rinstr) : option hterm :=
  let op := i_op i in
  if (op == "jmp") || (op == "jnz") || (op == "djmp") then Some (HJump (labels_of (i_args i)))
  else if (op == "ret") || (op == "dret") || (op == "retfmp") then Some HRet
  else if (op == "return") || (op == "stop") || (op == "sink") then Some HExit
  else if (op == "selfdestruct") then Some HHalt
  else if (op == "revert") || (op == "invalid") then Some HAbort
  else None.

Definition hblock_of (L : lockcfg) (p : rprogram) (d : list (N * varg)) (b : rblock) : option hblock :=
  match rev b with
  | [] => None
  | t :: body_rev =>
    if existsb (fun i => is_term (i_op i)) body_rev then None
    else match hterm_of t, opt_map (hk_of L p d) (rev body_rev) with
         | Some tm, Some ins => Some (mkHB ins tm)
         | _, _ => None
         end
  end.
Definition hcfg_of (L : lockcfg) (p : rprogram) (f : rfunction) : option hcfg :=
  opt_map (hblock_of L p (defs_of f)) f.

Definition hcheck_fn (L : lockcfg) (p : rprogram) (f : rfunction) (lab : list hset) : bool :=
  match hcfg_of L p f with Some g => hcheck g lab | None => false end.
Fixpoint hcheck_all (L : lockcfg) (p : rprogram) (fs : rprogram) (labs : list (list hset)) : list bool :=
  match fs, labs with
  | f :: fr, l :: lr => hcheck_fn L p f l :: hcheck_all L p fr lr
  | [], [] => []
  | _, _ => [false]
  end.
Definition hcheck_program (L : lockcfg) (p : rprogram) (labs : list (list hset)) : list bool := hcheck_all L p p labs.

(* statistics (non-vacuity, counted here): blocks, lock / unlock / call-lock / hand-over sites, halting exits,
   other exits (return/stop/ret) *)
Definition hk_eqb (a b : hk) : bool :=
  match a, b with
  | HLock, HLock | HUnlock, HUnlock | HCallLock, HCallLock | HHand, HHand | HOther, HOther => true
  | _, _ => false
  end.
Definition hcount (g : hcfg) (k : hk) : nat := List.length (filter (hk_eqb k) (flat_map hb_ins g)).
Definition hcount_term (g : hcfg) (halt : bool) : nat :=
  List.length (filter (fun b => match hb_term b with HHalt => halt | HExit | HRet => negb halt | _ => false end) g).
Definition hstats_fn (L : lockcfg) (p : rprogram) (f : rfunction) : list Z :=
  match hcfg_of L p f with
  | Some g => map Z.of_nat [List.length g; hcount g HLock; hcount g HUnlock; hcount g HCallLock; hcount g HHand;
                            hcount_term g true; hcount_term g false]
  | None => []
  end.
Definition hstats_program (L : lockcfg) (p : rprogram) : list Z :=
  fold_right (fun f acc => match hstats_fn L p f, acc with
                           | [a; b; c; d; e; g; h], [a'; b'; c'; d'; e'; g'; h'] =>
                             [a + a'; b + b'; c + c'; d + d'; e + e'; g + g'; h + h']%Z
                           | _, _ => acc end) [0; 0; 0; 0; 0; 0; 0]%Z p.
