(* C09: soundness of the certificate checker of HaltCheck.v *)
From Coq Require Import ZArith List Bool String Arith Lia.
From Verif Require Import C09.Lock C09.LockTpl C09.ExitCheck C09.RichCfg C09.HaltCheck.
Import ListNotations.
Open Scope list_scope.

Lemma hcheck_from_nth : forall g lab k i b,
  hcheck_from lab k g = true -> nth_error g i = Some b -> hcheck_block lab (k + i)%nat b = true.
Proof.
  induction g; intros lab k i b H Hn.
  - destruct i; discriminate.
  - simpl in H. apply andb_prop in H. destruct H as [H1 H2]. destruct i; simpl in Hn.
    + inversion Hn; subst. rewrite Nat.add_0_r. exact H1.
    + replace (k + S i)%nat with (S k + i)%nat by lia. eapply IHg; eauto.
Qed.

Lemma hcheck_block_state : forall lab i b a,
  hcheck_block lab i b = true -> hhas (hlab_at lab i) a = true -> hcheck_state lab b a = true.
Proof.
  intros lab i b a H Ha. unfold hcheck_block in H.
  apply andb_prop in H. destruct H as [H12 H3]. apply andb_prop in H12. destruct H12 as [H1 H2].
  destruct a; [rewrite Ha in H1; exact H1 | rewrite Ha in H2; exact H2 | rewrite Ha in H3; exact H3].
Qed.

Lemma htrs_app : forall l1 l2 a,
  htrs a (l1 ++ l2) = match htrs a l1 with Some a' => htrs a' l2 | None => None end.
Proof. induction l1; intros; simpl; auto. destruct (htr a0 a); auto. Qed.

(* the abstract machine never gets stuck along a path of an accepted CFG, and a way out is not taken while held *)
Lemma hpath_sound : forall g lab, hcheck_from lab 0 g = true ->
  forall rest i a, hhas (hlab_at lab i) a = true -> h_is_path g i rest ->
  exists e, htrs a (h_path_ins g (i :: rest)) = Some e /\
            (is_way_out (h_last_term g (i :: rest)) = true -> e <> SHeld).
Proof.
  intros g lab Hc. induction rest as [|j rest IHrest]; intros i a Hl Hp.
  - destruct Hp as [b Hb]. pose proof (hcheck_from_nth _ _ 0 _ _ Hc Hb) as Hk. simpl in Hk.
    pose proof (hcheck_block_state _ _ _ _ Hk Hl) as Hs. unfold hcheck_state in Hs.
    simpl. unfold hblk in *. rewrite Hb. rewrite app_nil_r.
    destruct (htrs a (hb_ins b)) as [e|]; [|discriminate]. exists e. split; auto.
    unfold h_last_term. simpl. unfold hblk. rewrite Hb.
    destruct (hb_term b); simpl; intro W; try discriminate; destruct e; simpl in Hs; congruence.
  - destruct Hp as [[b [ts [Hb [Ht Hin]]]] Hr].
    pose proof (hcheck_from_nth _ _ 0 _ _ Hc Hb) as Hk. simpl in Hk.
    pose proof (hcheck_block_state _ _ _ _ Hk Hl) as Hs. unfold hcheck_state in Hs.
    destruct (htrs a (hb_ins b)) as [e|] eqn:Et; [|discriminate].
    rewrite Ht in Hs. rewrite forallb_forall in Hs. specialize (Hs _ Hin).
    destruct (IHrest j e Hs Hr) as [e' [H1 H2]].
    exists e'. split.
    + change (h_path_ins g (i :: j :: rest)) with
        (match hblk g i with Some b => hb_ins b ++ h_path_ins g (j :: rest) | None => h_path_ins g (j :: rest) end).
      unfold hblk in *. rewrite Hb. rewrite htrs_app, Et. exact H1.
    + unfold h_last_term in *. change (last (i :: j :: rest) 0%nat) with (last (j :: rest) 0%nat). exact H2.
Qed.

(* ---- what an accepted trace looks like ---- *)
Lemma htrs_from_rel_no_lock : forall mid a, htrs SRel mid = Some a -> ~ In HLock mid -> a = SRel.
Proof.
  induction mid as [|i r IH]; intros a H N; simpl in H.
  - inversion H; reflexivity.
  - destruct i; simpl in H; try discriminate.
    + exfalso. apply N. left; reflexivity.
    + apply IH; auto. intro X; apply N; right; exact X.
    + apply IH; auto. intro X; apply N; right; exact X.
    + apply IH; auto. intro X; apply N; right; exact X.
Qed.

Lemma htrs_prefix : forall l1 l2 a e, htrs a (l1 ++ l2) = Some e -> exists m, htrs a l1 = Some m /\ htrs m l2 = Some e.
Proof.
  intros l1 l2 a e H. rewrite htrs_app in H. destruct (htrs a l1) as [m|]; [|discriminate]. exists m; auto.
Qed.

Lemma hk_dec : forall a b : hk, {a = b} + {a <> b}.
Proof. decide equality. Qed.

(* no hand-over point after an unlock store unless the lock has been taken again in between *)
Lemma htrs_no_hand_after_unlock : forall t a e pre mid post,
  htrs a t = Some e -> t = pre ++ HUnlock :: mid ++ HHand :: post -> In HLock mid.
Proof.
  intros t a e pre mid post H E. subst t.
  destruct (htrs_prefix _ _ _ _ H) as [m [_ H1]]. cbn [htrs] in H1.
  assert (Hu : htr m HUnlock = Some SRel) by (destruct m; reflexivity). rewrite Hu in H1.
  destruct (htrs_prefix _ _ _ _ H1) as [m2 [H2 H3]].
  destruct (in_dec hk_dec HLock mid) as [I|N]; [exact I|].
  rewrite (htrs_from_rel_no_lock _ _ H2 N) in H3. simpl in H3. discriminate.
Qed.

(* every hand-over point is executed in a state other than "released" *)
Lemma htrs_hand_state : forall t a e pre post,
  htrs a t = Some e -> t = pre ++ HHand :: post -> exists m, htrs a pre = Some m /\ m <> SRel.
Proof.
  intros t a e pre post H E. subst t. destruct (htrs_prefix _ _ _ _ H) as [m [H0 H1]].
  exists m. split; [exact H0|]. intro X; subst m. simpl in H1. discriminate.
Qed.

(* a lock store is followed by an unlock store on every accepted trace that does not end held *)
Lemma htrs_held_then_unlock : forall post e, htrs SHeld post = Some e -> e <> SHeld -> In HUnlock post.
Proof.
  induction post as [|i r IH]; intros e H Ne; simpl in H.
  - inversion H. congruence.
  - destruct i; simpl in H; try discriminate.
    + left; reflexivity.
    + right. eapply IH; eauto.
    + right. eapply IH; eauto.
Qed.

Lemma htrs_lock_then_unlock : forall t a e pre post,
  htrs a t = Some e -> e <> SHeld -> t = pre ++ HLock :: post -> In HUnlock post.
Proof.
  intros t a e pre post H Ne E. subst t. destruct (htrs_prefix _ _ _ _ H) as [m [_ H1]]. cbn [htrs] in H1.
  destruct (htr m HLock) as [m'|] eqn:El; [|discriminate].
  assert (m' = SHeld) by (destruct m; simpl in El; congruence). subst m'.
  eapply htrs_held_then_unlock; eauto.
Qed.

Theorem hcheck_sound : forall g lab, hcheck g lab = true ->
  forall rest, h_is_path g 0%nat rest ->
  let t := h_path_ins g (0%nat :: rest) in
  (* the abstract machine accepts the instruction trace of every path from the entry *)
  (exists e, htrs SFree t = Some e /\ (is_way_out (h_last_term g (0%nat :: rest)) = true -> e <> SHeld)) /\
  (* no hand-over point between an unlock store and the end of the path (unless the lock is taken again) *)
  (forall pre mid post, t = pre ++ HUnlock :: mid ++ HHand :: post -> In HLock mid) /\
  (* on a path to ANY way out -- return/stop, the halting selfdestruct, internal ret -- a lock store is followed by an unlock store *)
  (is_way_out (h_last_term g (0%nat :: rest)) = true -> forall pre post, t = pre ++ HLock :: post -> In HUnlock post).
Proof.
  intros g lab H rest Hp t. unfold hcheck in H. apply andb_prop in H. destruct H as [H0 Hc].
  destruct (hpath_sound g lab Hc rest 0%nat SFree H0 Hp) as [e [H1 H2]]. fold t in H1.
  split; [exists e; split; assumption|]. split.
  - intros pre mid post E. eapply htrs_no_hand_after_unlock; eauto.
  - intros W pre post E. eapply htrs_lock_then_unlock; eauto.
Qed.

Theorem hcheck_fn_sound : forall L p f lab, hcheck_fn L p f lab = true ->
  exists g, hcfg_of L p f = Some g /\
  forall rest, h_is_path g 0%nat rest ->
  let t := h_path_ins g (0%nat :: rest) in
  (exists e, htrs SFree t = Some e /\ (is_way_out (h_last_term g (0%nat :: rest)) = true -> e <> SHeld)) /\
  (forall pre mid post, t = pre ++ HUnlock :: mid ++ HHand :: post -> In HLock mid) /\
  (is_way_out (h_last_term g (0%nat :: rest)) = true -> forall pre post, t = pre ++ HLock :: post -> In HUnlock post).
Proof.
  intros L p f lab H. unfold hcheck_fn in H. destruct (hcfg_of L p f) as [g|]; [|discriminate].
  exists g. split; [reflexivity|]. intros rest Hp. exact (hcheck_sound g lab H rest Hp).
Qed.

(* ---- link to Lock.v: while foreign code runs from a function that has taken the lock, the cell holds `temp` ----
   concrete value of the lock cell along a trace (RichCfg.cell_step, transcribed for hk) *)
Definition hcell_step (P : params) (v : Z) (i : hk) : Z :=
  match i with HLock => p_temp P | HUnlock => p_final P | HCallLock => p_final P | _ => v end.
Definition hcell (P : params) (t : list hk) (v : Z) : Z := fold_left (hcell_step P) t v.

Lemma hcell_held : forall P t a e v, htrs a t = Some e -> (a = SHeld -> v = p_temp P) -> e = SHeld -> hcell P t v = p_temp P.
Proof.
  intros P t. induction t as [|i r IH]; intros a e v H Ha He; simpl in H.
  - inversion H; subst. apply Ha; reflexivity.
  - change (hcell P (i :: r) v) with (hcell P r (hcell_step P v i)).
    destruct (htr a i) as [a'|] eqn:E; [|discriminate].
    eapply IH; eauto. intro X; subst a'.
    destruct i; destruct a; simpl in E; try discriminate; simpl; auto.
Qed.

(* At every hand-over point of an accepted path that comes after a lock store of the same activation, the lock cell
   holds `temp` (so by Lock.held_blocks_all every protected entry of the contract reverts in the foreign code). *)
Theorem hand_after_lock_is_held : forall P t e pre post v,
  htrs SFree t = Some e -> t = pre ++ HHand :: post -> In HLock pre -> hcell P pre v = p_temp P.
Proof.
  intros P t e pre post v H E I. subst t. destruct (htrs_prefix _ _ _ _ H) as [m [H0 H1]].
  assert (Nm : m <> SRel) by (intro X; subst m; simpl in H1; discriminate).
  (* after a lock store the state is held or released, never free again *)
  assert (G : forall pre a m, htrs a pre = Some m -> In HLock pre \/ a <> SFree -> m <> SFree).
  { clear. induction pre as [|i r IH]; intros a m H D; simpl in H.
    - inversion H; subst. destruct D as [[]|D]; exact D.
    - destruct (htr a i) as [a'|] eqn:E; [|discriminate]. eapply IH; eauto.
      destruct D as [[D|D]|D].
      + subst i. right. destruct a; simpl in E; try discriminate; inversion E; discriminate.
      + left; exact D.
      + right. destruct i; destruct a; simpl in E; try discriminate; inversion E; try discriminate; congruence. }
  assert (m = SHeld).
  { pose proof (G pre SFree m H0 (or_introl I)). destruct m; congruence. }
  subst m. eapply hcell_held; eauto. discriminate.
Qed.
