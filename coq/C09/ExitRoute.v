(* C09: routing of a `return` statement to the function's exit sequence (legacy code generator,
   vyper/codegen/return_.py make_return_stmt).  MODEL ONLY (proofs: ExitRouteProofs.v).

   The lock release of a protected function is emitted once, in the function's exit sequence (label
   `<function>_cleanup`: internal_function.py / external_function.py put `nonreentrant_post` there, followed by the
   way out: `exit_to return_pc` / `return` / `stop`).  A `return` statement does not release the lock itself: it must
   JUMP to that label.  What make_return_stmt emits depends on the statement's context only through three bits:
   internal / external function, with / without a return type, inside / outside a `for` loop. *)
From Coq Require Import List Bool String.
Import ListNotations.
Open Scope string_scope.

Record rctx := mk_rctx { r_internal : bool; r_hasret : bool; r_inloop : bool }.

(* the emitted `seq`, abstracted node by node *)
Inductive rop :=
| RFill (stores : bool)                         (* first node: fills the return buffer (true) or is `seq` / `pass` *)
| RUnwind                                       (* cleanup_repeat: pops the loop state of the enclosing loops *)
| RNop                                          (* seq *)
| RExitTo (target : string) (args : list bool). (* exit_to target args; an argument is printed as true iff it is the symbol return_pc *)

Definition exit_args (c : rctx) : list bool :=
  if r_internal c then [true] else if r_hasret c then [false; false] else [].

(* Coq re-statement of make_return_stmt's routing; lbl = func_t._ir_info.exit_sequence_label *)
Definition route (lbl : string) (c : rctx) : list rop :=
  [RFill (r_internal c && r_hasret c); (if r_inloop c then RUnwind else RNop); RExitTo lbl (exit_args c)].

(* what happens when the emitted nodes are executed, as far as leaving the function is concerned: a jump to the
   function's exit-sequence label runs the code placed there; a jump to return_pc goes straight back to the caller *)
Inductive ev := EUnlock | EBackToCaller | EHalt | ELost.

Definition run_exit (cleanup : string) (cleanup_code : list ev) (ops : list rop) : list ev :=
  flat_map (fun o => match o with
                     | RExitTo t _ => if String.eqb t cleanup then cleanup_code
                                      else if String.eqb t "return_pc" then [EBackToCaller] else [ELost]
                     | _ => []
                     end) ops.

Definition is_exit (o : rop) : bool := match o with RExitTo _ _ => true | _ => false end.
Definition is_unwind (o : rop) : bool := match o with RUnwind => true | _ => false end.

Definition all_ctx : list rctx :=
  map (fun t => match t with (a, b, c) => mk_rctx a b c end)
      (list_prod (list_prod [false; true] [false; true]) [false; true]).

(* the family over which the real generator is observed on every run *)
Definition route_labels : list string := ["internal 7 _f(uint256)_cleanup"; "external 3 g(uint256)_cleanup"].
Definition route_family : list (rctx * string) := list_prod all_ctx route_labels.
