(* C09 template tie: tiny evaluators for what get_nonreentrant_lock (legacy s-expr IR) and
   emit_nonreentrant_lock/unlock (Venom instruction list) emit, Coq re-statements of the two
   generators, and the lemma that the generated templates compute exactly Lock.enter / Lock.leave
   on the lock cell.  GenLock.v (exported from the real generators each run) is compared with the
   generators' output over the whole finite family by kernel computation in TieLock.v. *)
From Coq Require Import ZArith List Bool String Lia.
From Verif Require Import C09.Lock.
Import ListNotations.
Open Scope string_scope.
Open Scope Z_scope.
Local Notation "a == b" := (String.eqb a b) (at level 70).

(* ---- memory: (transient?, key) -> word ---- *)
Definition mem := bool -> Z -> Z.
Definition mset (m : mem) (tr : bool) (k v : Z) : mem :=
  fun tr' k' => if Bool.eqb tr' tr && (k' =? k) then v else m tr' k'.

(* ---- legacy s-expressions ---- *)
Inductive sx := SL (n : Z) | SN (op : string) (args : list sx).

(* None = revert (or a construct outside this fragment: fail closed) *)
Fixpoint ev (e : sx) (st : bool) (m : mem) {struct e} : option (mem * Z) :=
  match e with
  | SL n => Some (m, n)
  | SN op args =>
    let evs := (fix evs (l : list sx) (m : mem) (last : Z) {struct l} : option (mem * Z) :=
                  match l with
                  | [] => Some (m, last)
                  | a :: r => match ev a st m with Some (m', v) => evs r m' v | None => None end
                  end) in
    if op == "pass" then match args with [] => Some (m, 0) | _ => None end
    else if op == "seq" then evs args m 0
    else if op == "assert" then
      match args with [a] => match ev a st m with Some (m', v) => if v =? 0 then None else Some (m', 0) | None => None end | _ => None end
    else if op == "ne" then
      match args with [a; b] =>
        match ev a st m with Some (m1, x) => match ev b st m1 with Some (m2, y) => Some (m2, if x =? y then 0 else 1) | None => None end | None => None end
      | _ => None end
    else if op == "tload" then
      match args with [a] => match ev a st m with Some (m1, k) => Some (m1, m1 true k) | None => None end | _ => None end
    else if op == "sload" then
      match args with [a] => match ev a st m with Some (m1, k) => Some (m1, m1 false k) | None => None end | _ => None end
    else if op == "tstore" then
      match args with [a; b] =>
        match ev a st m with Some (m1, k) => match ev b st m1 with Some (m2, v) => if st then None else Some (mset m2 true k v, 0) | None => None end | None => None end
      | _ => None end
    else if op == "sstore" then
      match args with [a; b] =>
        match ev a st m with Some (m1, k) => match ev b st m1 with Some (m2, v) => if st then None else Some (mset m2 false k v, 0) | None => None end | None => None end
      | _ => None end
    else None
  end.
Definition ev_list (l : list sx) (st : bool) (m : mem) : option mem :=
  match ev (SN "seq" l) st m with Some (m', _) => Some m' | None => None end.

(* ---- venom straight-line instructions (operands in venom's internal order: last = top of stack) ---- *)
Inductive vop := VLit (n : Z) | VVar (n : nat).
Record vinst := mkV { v_out : option nat; v_op : string; v_args : list vop }.
Definition env := list (nat * Z).
Fixpoint lookup (e : env) (x : nat) : option Z :=
  match e with [] => None | (y, v) :: r => if Nat.eqb x y then Some v else lookup r x end.
Definition opv (e : env) (o : vop) : option Z := match o with VLit n => Some n | VVar x => lookup e x end.
Definition bindo (e : env) (o : option nat) (v : Z) : option env :=
  match o with Some x => Some ((x, v) :: e) | None => None end.

Definition vstep (i : vinst) (st : bool) (e : env) (m : mem) : option (env * mem) :=
  let op := v_op i in
  match map (opv e) (v_args i) with
  | [Some k] =>
    if op == "tload" then match bindo e (v_out i) (m true k) with Some e' => Some (e', m) | None => None end
    else if op == "sload" then match bindo e (v_out i) (m false k) with Some e' => Some (e', m) | None => None end
    else if op == "iszero" then match bindo e (v_out i) (if k =? 0 then 1 else 0) with Some e' => Some (e', m) | None => None end
    else if op == "assert" then match v_out i with None => if k =? 0 then None else Some (e, m) | Some _ => None end
    else None
  | [Some a; Some b] =>
    if op == "eq" then match bindo e (v_out i) (if a =? b then 1 else 0) with Some e' => Some (e', m) | None => None end
    else if op == "tstore" then match v_out i with None => if st then None else Some (e, mset m true b a) | Some _ => None end
    else if op == "sstore" then match v_out i with None => if st then None else Some (e, mset m false b a) | Some _ => None end
    else None
  | _ => None
  end.
Fixpoint vrun (l : list vinst) (st : bool) (e : env) (m : mem) : option mem :=
  match l with
  | [] => Some m
  | i :: r => match vstep i st e m with Some (e', m') => vrun r st e' m' | None => None end
  end.

(* ---- the family and the Coq generators ---- *)
(* family member: (nonreentrant?, mutability code 0=view 1=nonpayable 2=payable, evm index, key) *)
Definition fam := (bool * Z * Z * Z)%type.
Definition EVMS : list string := ["london"; "paris"; "shanghai"; "cancun"; "prague"].
Definition is_cancun (evm : Z) : bool := 3 <=? evm.
Definition is_view (mut : Z) : bool := mut =? 0.
Definition lock_params (cancun : bool) : params := if cancun then transient_params else storage_params.
Definition kind_of (nonre : bool) (mut : Z) : kind :=
  if nonre then (if is_view mut then View else Nonview) else Unprot.

Definition family : list fam :=
  flat_map (fun nonre => flat_map (fun mut => flat_map (fun evm => map (fun key => (nonre, mut, evm, key)) [0; 5])
     [0; 1; 2; 3; 4]) [0; 1; 2]) [true; false].

Definition gen_legacy (f : fam) : list sx * list sx :=
  match f with (nonre, mut, evm, key) =>
    if negb nonre then ([SN "pass" []], [SN "pass" []]) else
    let tr := is_cancun evm in
    let P := lock_params tr in
    let LOAD := if tr then "tload" else "sload" in
    let STORE := if tr then "tstore" else "sstore" in
    let check := SN "assert" [SN "ne" [SL (p_temp P); SN LOAD [SL key]]] in
    if is_view mut then ([check], [SN "seq" []])
    else ([SN "seq" [check; SN STORE [SL key; SL (p_temp P)]]], [SN STORE [SL key; SL (p_final P)]])
  end.

Definition gen_venom (f : fam) : list vinst * list vinst :=
  match f with (nonre, mut, evm, key) =>
    if negb nonre then ([], []) else
    let tr := is_cancun evm in
    let P := lock_params tr in
    let LOAD := if tr then "tload" else "sload" in
    let STORE := if tr then "tstore" else "sstore" in
    let check := [mkV (Some 1%nat) LOAD [VLit key];
                  mkV (Some 2%nat) "eq" [VLit (p_temp P); VVar 1%nat];
                  mkV (Some 3%nat) "iszero" [VVar 2%nat];
                  mkV None "assert" [VVar 3%nat]] in
    if is_view mut then (check, [])
    else ((check ++ [mkV None STORE [VLit (p_temp P); VLit key]])%list, [mkV None STORE [VLit (p_final P); VLit key]])
  end.

(* ---- enter/leave restated on the memory, and their relation to Lock.enter/leave ---- *)
Definition enter_mem (P : params) (tr : bool) (key : Z) (st : bool) (k : kind) (m : mem) : option mem :=
  match k with
  | Unprot => Some m
  | View => if m tr key =? p_temp P then None else Some m
  | Nonview => if m tr key =? p_temp P then None else if st then None else Some (mset m tr key (p_temp P))
  end.
Definition leave_mem (P : params) (tr : bool) (key : Z) (k : kind) (m : mem) : mem :=
  match k with Nonview => mset m tr key (p_final P) | _ => m end.

Lemma mset_same : forall m tr k v, mset m tr k v tr k = v.
Proof. intros. unfold mset. rewrite Bool.eqb_reflx, Z.eqb_refl. reflexivity. Qed.

(* Lock.enter / Lock.leave are enter_mem / leave_mem seen through "cell of c = m[tr][key]" *)
Lemma enter_mem_refines : forall P tr key st c k s m,
  cell s c = m tr key ->
  match enter P st c k s, enter_mem P tr key st k m with
  | None, None => True
  | Some s1, Some m1 => cell s1 c = m1 tr key
  | _, _ => False
  end.
Proof.
  intros P tr key st c k s m H. unfold enter, enter_mem. rewrite H.
  destruct k; auto.
  - destruct (m tr key =? p_temp P); auto.
  - destruct (m tr key =? p_temp P); auto. destruct st; auto.
    unfold cell, set_cell; simpl. rewrite Nat.eqb_refl, mset_same. reflexivity.
Qed.
Lemma leave_mem_refines : forall P tr key c k s m,
  cell s c = m tr key -> cell (leave P c k s) c = leave_mem P tr key k m tr key.
Proof.
  intros P tr key c k s m H. unfold leave, leave_mem. destruct k; auto.
  unfold cell, set_cell; simpl. rewrite Nat.eqb_refl, mset_same. reflexivity.
Qed.

(* ---- the generated templates compute enter / leave, for every member, memory and static flag ---- *)
Definition fam_ok (f : fam) : Prop :=
  match f with (nonre, mut, evm, key) => True end.

Ltac tpl_crush :=
  repeat match goal with
  | |- context [?a =? ?b] =>
      lazymatch a with context [Z.eqb] => fail | _ => idtac end;
      lazymatch b with context [Z.eqb] => fail | _ => idtac end;
      destruct (Z.eqb_spec a b); cbn -[Z.eqb mset]
  end; try reflexivity; try lia; try congruence.

Lemma gen_legacy_spec : forall nonre mut evm key st m,
  let f := (nonre, mut, evm, key) in
  let tr := is_cancun evm in
  let P := lock_params tr in
  ev_list (fst (gen_legacy f)) st m = enter_mem P tr key st (kind_of nonre mut) m /\
  ev_list (snd (gen_legacy f)) st m =
    (if st && (match kind_of nonre mut with Nonview => true | _ => false end) then None
     else Some (leave_mem P tr key (kind_of nonre mut) m)).
Proof.
  intros nonre mut evm key st m f tr P. subst f. unfold gen_legacy, kind_of, enter_mem, leave_mem, ev_list.
  destruct nonre; simpl negb; cbv iota.
  2:{ split; simpl; [reflexivity|rewrite andb_false_r; reflexivity]. }
  fold tr. fold P.
  destruct (is_view mut); destruct tr; subst P; destruct st; cbn -[Z.eqb mset]; split; tpl_crush.
Qed.

Lemma gen_venom_spec : forall nonre mut evm key st m,
  let f := (nonre, mut, evm, key) in
  let tr := is_cancun evm in
  let P := lock_params tr in
  vrun (fst (gen_venom f)) st [] m = enter_mem P tr key st (kind_of nonre mut) m /\
  vrun (snd (gen_venom f)) st [] m =
    (if st && (match kind_of nonre mut with Nonview => true | _ => false end) then None
     else Some (leave_mem P tr key (kind_of nonre mut) m)).
Proof.
  intros nonre mut evm key st m f tr P. subst f. unfold gen_venom, kind_of, enter_mem, leave_mem.
  destruct nonre; simpl negb; cbv iota.
  2:{ split; simpl; [reflexivity|rewrite andb_false_r; reflexivity]. }
  fold tr. fold P.
  destruct (is_view mut); destruct tr; subst P; destruct st; cbn -[Z.eqb mset]; split; tpl_crush.
Qed.
