(* C09 exit-path placement: soundness of the certificate checker that the check runs (vm_compute) on the
   exported CFG of every function of every compiled victim contract. *)
From Coq Require Import List Bool.
From Verif Require Import C09.ExitCheck.
Import ListNotations.

(* If the checker accepts (g, lab) then along every CFG path from the function entry to a block ending in
   return/stop (TExit) or an internal-function return (TRet): the abstract lock state goes free -> free,
   i.e. no lock store happens while held and every lock store is followed by a later unlock store. *)
Theorem exits_pass_unlock : forall g lab, check g lab = true ->
  forall rest, is_path g 0 rest ->
  (last_term g (0 :: rest) = Some TExit \/ last_term g (0 :: rest) = Some TRet) ->
  trs false (path_ins g (0 :: rest)) = Some false /\
  forall pre post, path_ins g (0 :: rest) = pre ++ ILock :: post -> In IUnlock post.
Proof. exact exits_pass_unlock_thm. Qed.
Print Assumptions exits_pass_unlock.

(* non-vacuity: a function with a branch and a loop, unlock on both exits -> accepted; the same with the
   unlock missing on the early return -> rejected *)
Definition ex_good : cfg :=
  [mkB [IOther; ILock] (TJump [1; 2]);
   mkB [IUnlock] TExit;
   mkB [IOther] (TJump [3; 4]);
   mkB [] (TJump [2; 5]);
   mkB [IUnlock] TExit;
   mkB [] TAbort].
Definition ex_lab := [(true, false); (false, true); (false, true); (false, true); (false, true); (true, true)].
Definition ex_bad : cfg :=
  [mkB [IOther; ILock] (TJump [1; 2]);
   mkB [] TExit;
   mkB [IOther] (TJump [3; 4]);
   mkB [] (TJump [2; 5]);
   mkB [IUnlock] TExit;
   mkB [] TAbort].
Example exit_check_examples : check ex_good ex_lab = true /\ check ex_bad ex_lab = false /\
  is_path ex_good 0 [2; 3; 2; 4] /\ last_term ex_good [0; 2; 3; 2; 4] = Some TExit.
Proof.
  repeat split; try reflexivity; simpl; repeat (try eexists; try split; try reflexivity; simpl; auto).
Qed.
