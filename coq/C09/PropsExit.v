(* C09 exit-path placement: soundness of the certificate checker that the check runs (vm_compute) on the
   exported CFG of every function of every compiled victim contract. *)
From Coq Require Import List Bool.
From Coq Require Import ZArith String.
From Verif Require Import C09.Lock C09.LockTpl C09.ExitCheck C09.RichCfg.
Import ListNotations.

(* If the checker accepts (g, lab) then along every CFG path from the function entry to a block ending in
   return/stop (TExit) or an internal-function return (TRet): the abstract lock state goes free -> free,
   i.e. no lock store happens while held and every lock store is followed by a later unlock store. *)
Theorem exits_pass_unlock : forall g lab, check g lab = true ->
  forall rest, is_path g 0%nat rest ->
  (last_term g (0%nat :: rest) = Some TExit \/ last_term g (0%nat :: rest) = Some TRet) ->
  trs false (path_ins g (0%nat :: rest)) = Some false /\
  forall pre post, path_ins g (0%nat :: rest) = (pre ++ ILock :: post)%list -> In IUnlock post.
Proof. exact exits_pass_unlock_thm. Qed.
Print Assumptions exits_pass_unlock.

(* non-vacuity: a function with a branch and a loop, unlock on both exits -> accepted; the same with the
   unlock missing on the early return -> rejected *)
Definition ex_good : cfg :=
  [mkB [IOther; ILock] (TJump [1; 2]%nat);
   mkB [IUnlock] TExit;
   mkB [IOther] (TJump [3; 4]%nat);
   mkB [] (TJump [2; 5]%nat);
   mkB [IUnlock] TExit;
   mkB [] TAbort].
Definition ex_lab := [(true, false); (false, true); (false, true); (false, true); (false, true); (true, true)].
Definition ex_bad : cfg :=
  [mkB [IOther; ILock] (TJump [1; 2]%nat);
   mkB [] TExit;
   mkB [IOther] (TJump [3; 4]%nat);
   mkB [] (TJump [2; 5]%nat);
   mkB [IUnlock] TExit;
   mkB [] TAbort].
Example exit_check_examples : check ex_good ex_lab = true /\ check ex_bad ex_lab = false /\
  is_path ex_good 0%nat [2; 3; 2; 4]%nat /\ last_term ex_good [0; 2; 3; 2; 4]%nat = Some TExit.
Proof.
  repeat split; try reflexivity; simpl; repeat (try eexists; try split; try reflexivity; simpl; auto).
Qed.

(* The checker that is actually run takes the *printed IR* of a function: operand resolution through assign
   chains, classification of every store against the lock slot and the lock parameters, call-graph closure
   ("does the callee touch the lock") and CFG construction all happen inside Coq. *)
Theorem printed_function_exits_pass_unlock : forall L p f lab, check_fn L p f lab = true ->
  exists g, cfg_of L p f = Some g /\
  forall rest, is_path g 0%nat rest ->
  (last_term g (0%nat :: rest) = Some TExit \/ last_term g (0%nat :: rest) = Some TRet) ->
  trs false (path_ins g (0%nat :: rest)) = Some false /\
  forall pre post, path_ins g (0%nat :: rest) = (pre ++ ILock :: post)%list -> In IUnlock post.
Proof. exact check_fn_sound. Qed.
Print Assumptions printed_function_exits_pass_unlock.

(* ... and along every accepted exit path the lock cell ends exactly as Lock.leave leaves it: `final` when the
   path took the lock (entry kind Nonview), untouched otherwise (Unprot / View): the body shape that
   no_reentry / lock_released assume for every normal exit. *)
Theorem accepted_exit_matches_leave : forall P L p f lab, check_fn L p f lab = true ->
  exists g, cfg_of L p f = Some g /\
  forall rest v, is_path g 0%nat rest ->
  (last_term g (0%nat :: rest) = Some TExit \/ last_term g (0%nat :: rest) = Some TRet) ->
  let t := path_ins g (0%nat :: rest) in
  cell_effect P t v = if existsb lockish t then p_final P else v.
Proof. exact RichCfg.accepted_exit_matches_leave. Qed.
Print Assumptions accepted_exit_matches_leave.

(* non-vacuity: a printed venom-style function (lock through assign chains, unlock on both exits) is accepted;
   dropping one unlock, or storing an unexpected value to the lock slot, is rejected *)
Open Scope string_scope.
Definition ex_fn (second_unlock : list rinstr) (v : Z) : rfunction :=
  [[mkI (Some 1%N) "assign" [ALit 0%Z]; mkI (Some 2%N) "assign" [ALit v]; mkI (Some 3%N) "assign" [AVar 2%N];
    mkI None "tstore" [AVar 3%N; AVar 1%N]; mkI (Some 4%N) "calldatasize" []; mkI None "jnz" [AVar 4%N; ALab 1%N; ALab 2%N]];
   [mkI None "tstore" [ALit 0%Z; ALit 0%Z]; mkI None "stop" []];
   (second_unlock ++ [mkI None "return" [ALit 0%Z; ALit 0%Z]])%list].
Definition ex_labs : list lset := [(true, false); (false, true); (false, true)].
Example rich_examples :
  check_fn (lockcfg_of true 0) [] (ex_fn [mkI None "tstore" [ALit 0%Z; ALit 0%Z]] 1) ex_labs = true /\
  check_fn (lockcfg_of true 0) [] (ex_fn [] 1) ex_labs = false /\
  check_fn (lockcfg_of true 0) [] (ex_fn [mkI None "tstore" [ALit 0%Z; ALit 0%Z]] 5) ex_labs = false.
Proof. vm_compute. repeat split; reflexivity. Qed.
