(* C09 exit-path placement: a certificate checker over an exported control-flow graph, with
   soundness proof: if [check g lab] = true then every CFG path from the entry block to a block that
   ends the message call successfully (return/stop) or returns from an internal function (ret)
   executes, after every lock store, a later unlock store.

   Exported per function (tools/vlib/c09_cfg.py): blocks in order, entry = block 0; each instruction
   is classified ILock (store temp to the lock slot), IUnlock (store final to the lock slot),
   ICallLock (call of an internal function that itself takes and releases the lock; checked
   separately from its own entry), IOther.  [lab] is the certificate: the set of possible lock states at each
   block's entry (empty for unreachable blocks; both for code shared by tail merging), computed outside Coq and *checked* here. *)
From Coq Require Import List Bool Arith Lia.
Import ListNotations.

Inductive ik := ILock | IUnlock | ICallLock | IOther.
Inductive term := TJump (ts : list nat) | TExit | TRet | TAbort.
Record block := mkB { b_ins : list ik; b_term : term }.
Definition cfg := list block.

(* abstract lock state: false = free, true = held *)
Definition tr (a : bool) (i : ik) : option bool :=
  match i, a with
  | ILock, false => Some true
  | ILock, true => None
  | IUnlock, true => Some false
  | IUnlock, false => Some false   (* storing `final` into a free cell keeps it free (e.g. after the optimiser removed
                                       a lock store that was immediately overwritten by the unlock store) *)
  | ICallLock, false => Some false
  | ICallLock, true => None
  | IOther, a => Some a
  end.
Fixpoint trs (a : bool) (l : list ik) : option bool :=
  match l with
  | [] => Some a
  | i :: r => match tr a i with Some a' => trs a' r | None => None end
  end.

(* certificate: for each block the set of lock states (may be free, may be held) at its entry *)
Definition lset := (bool * bool)%type.
Definition lab_at (lab : list lset) (i : nat) : lset := nth i lab (false, false).
Definition has (l : lset) (a : bool) : bool := if a then snd l else fst l.

Definition check_state (lab : list lset) (b : block) (a : bool) : bool :=
  match trs a (b_ins b) with
  | None => false
  | Some e =>
    match b_term b with
    | TJump ts => forallb (fun t => has (lab_at lab t) e) ts
    | TExit | TRet => negb e
    | TAbort => true
    end
  end.
Definition check_block (lab : list lset) (i : nat) (b : block) : bool :=
  (if has (lab_at lab i) false then check_state lab b false else true) &&
  (if has (lab_at lab i) true then check_state lab b true else true).

Fixpoint check_from (lab : list lset) (i : nat) (g : cfg) : bool :=
  match g with
  | [] => true
  | b :: r => check_block lab i b && check_from lab (S i) r
  end.

Definition check (g : cfg) (lab : list lset) : bool :=
  has (lab_at lab 0) false && check_from lab 0 g.

(* ---- paths ---- *)
Definition blk (g : cfg) (i : nat) : option block := nth_error g i.

(* p is a path i0 -> i1 -> ... following jump edges *)
Fixpoint is_path (g : cfg) (i : nat) (rest : list nat) : Prop :=
  match rest with
  | [] => exists b, blk g i = Some b
  | j :: r => (exists b ts, blk g i = Some b /\ b_term b = TJump ts /\ In j ts) /\ is_path g j r
  end.
Fixpoint path_ins (g : cfg) (p : list nat) : list ik :=
  match p with
  | [] => []
  | i :: r => match blk g i with Some b => b_ins b ++ path_ins g r | None => path_ins g r end
  end.
Definition last_term (g : cfg) (p : list nat) : option term :=
  match blk g (last p 0) with Some b => Some (b_term b) | None => None end.

(* ---- soundness ---- *)
Lemma check_from_nth : forall g lab k i b,
  check_from lab k g = true -> nth_error g i = Some b -> check_block lab (k + i) b = true.
Proof.
  induction g; intros lab k i b H Hn.
  - destruct i; discriminate.
  - simpl in H. apply andb_prop in H. destruct H as [H1 H2]. destruct i; simpl in Hn.
    + inversion Hn; subst. rewrite Nat.add_0_r. exact H1.
    + replace (k + S i) with (S k + i) by lia. eapply IHg; eauto.
Qed.

Lemma check_block_state : forall lab i b a,
  check_block lab i b = true -> has (lab_at lab i) a = true -> check_state lab b a = true.
Proof.
  intros lab i b a H Ha. unfold check_block in H. apply andb_prop in H. destruct H as [H1 H2].
  destruct a; [rewrite Ha in H2; exact H2 | rewrite Ha in H1; exact H1].
Qed.

Lemma trs_app : forall l1 l2 a, trs a (l1 ++ l2) = match trs a l1 with Some a' => trs a' l2 | None => None end.
Proof. induction l1; intros; simpl; auto. destruct (tr a0 a); auto. Qed.

Lemma path_sound : forall g lab, check_from lab 0 g = true ->
  forall rest i a, has (lab_at lab i) a = true -> is_path g i rest ->
  exists e, trs a (path_ins g (i :: rest)) = Some e /\
            (match last_term g (i :: rest) with Some TExit | Some TRet => e = false | _ => True end).
Proof.
  intros g lab Hc. induction rest as [|j rest IHrest]; intros i a Hl Hp.
  - destruct Hp as [b Hb]. pose proof (check_from_nth _ _ 0 _ _ Hc Hb) as Hk. simpl in Hk.
    pose proof (check_block_state _ _ _ _ Hk Hl) as Hs. unfold check_state in Hs.
    simpl. unfold blk in *. rewrite Hb. rewrite app_nil_r.
    destruct (trs a (b_ins b)) as [e|]; [|discriminate]. exists e. split; auto.
    unfold last_term. simpl. unfold blk. rewrite Hb.
    destruct (b_term b); auto; destruct e; simpl in Hs; congruence.
  - destruct Hp as [[b [ts [Hb [Ht Hin]]]] Hr].
    pose proof (check_from_nth _ _ 0 _ _ Hc Hb) as Hk. simpl in Hk.
    pose proof (check_block_state _ _ _ _ Hk Hl) as Hs. unfold check_state in Hs.
    destruct (trs a (b_ins b)) as [e|] eqn:Et; [|discriminate].
    rewrite Ht in Hs. rewrite forallb_forall in Hs. specialize (Hs _ Hin).
    destruct (IHrest j e Hs Hr) as [e' [H1 H2]].
    exists e'. split.
    + change (path_ins g (i :: j :: rest)) with (match blk g i with Some b => b_ins b ++ path_ins g (j :: rest) | None => path_ins g (j :: rest) end).
      unfold blk in *. rewrite Hb. rewrite trs_app, Et. exact H1.
    + unfold last_term in *. change (last (i :: j :: rest) 0) with (last (j :: rest) 0). exact H2.
Qed.

(* a trace accepted from `free` to `free`: every lock store is followed by a later unlock store,
   and no lock is stored while held *)
Lemma trs_lock_then_unlock : forall t a pre post,
  trs a t = Some false -> t = pre ++ ILock :: post -> In IUnlock post.
Proof.
  intros t a pre. revert t a. induction pre; intros t a0 post H E; subst; simpl in H.
  - destruct a0; simpl in H; [discriminate|].
    clear -H. induction post as [|i post IH]; simpl in H.
    + discriminate.
    + destruct i; simpl in H; try discriminate.
      * left; reflexivity.
      * right; apply IH; exact H.
  - destruct (tr a0 a) eqn:E; [|discriminate]. eapply IHpre; eauto.
Qed.

Theorem exits_pass_unlock_thm : forall g lab, check g lab = true ->
  forall rest, is_path g 0 rest ->
  (last_term g (0 :: rest) = Some TExit \/ last_term g (0 :: rest) = Some TRet) ->
  trs false (path_ins g (0 :: rest)) = Some false /\
  forall pre post, path_ins g (0 :: rest) = pre ++ ILock :: post -> In IUnlock post.
Proof.
  intros g lab H rest Hp Hl. unfold check in H. apply andb_prop in H. destruct H as [H0 Hc].
  destruct (path_sound g lab Hc rest 0 false H0 Hp) as [e [H1 H2]].
  assert (e = false) by (destruct Hl as [Hl|Hl]; rewrite Hl in H2; exact H2). subst e.
  split; [exact H1|]. intros pre post E. eapply trs_lock_then_unlock; eauto.
Qed.
