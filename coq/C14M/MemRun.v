(* C14M / MemRun.v -- a concrete oracle for MemSem.v (word arithmetic from Base/Word256.v, calldata in the Env space,
   byte-accurate memory, storage, transient storage) and a renderer, so that hand-written IR can be executed by `run` under
   vm_compute and compared with the real back end on pyrevm.  Definitions only; used for ties and for the search. *)
From Coq Require Import ZArith NArith List Bool String.
From Verif Require Import Base.Word256 C14M.MemSem.
Import ListNotations.
Open Scope string_scope.
Open Scope Z_scope.

Definition CDSIZE_CELL : Z := -1.          (* Env cell holding calldatasize; cells 0.. hold the calldata bytes *)
Definition alloc_addr (id : Z) : Z := 4096 + id * 65536.

(* arguments in EVM order (first = top of stack) *)
Definition arith_evm (op : string) (a : list Z) : option Z :=
  match a with
  | [x; y] =>
      if op =s "add" then Some (w_add x y) else if op =s "sub" then Some (w_sub x y) else
      if op =s "mul" then Some (w_mul x y) else if op =s "div" then Some (w_div x y) else
      if op =s "mod" then Some (w_mod x y) else if op =s "lt" then Some (w_lt x y) else
      if op =s "gt" then Some (w_gt x y) else if op =s "eq" then Some (w_eq x y) else
      if op =s "and" then Some (w_and x y) else if op =s "or" then Some (w_or x y) else
      if op =s "xor" then Some (w_xor x y) else if op =s "shl" then Some (w_shl x y) else
      if op =s "shr" then Some (w_shr x y) else None
  | [x] => if op =s "iszero" then Some (w_iszero x) else if op =s "not" then Some (w_not x) else
           if op =s "assign" then Some x else None
  | _ => None
  end.

Definition nomask : sp -> Z -> bool := fun _ _ => false.
Definition res1 (v : Z) : ores := mkO [v] zero_store nomask false.

(* IR operand order (last = first EVM operand) *)
Definition Xc : oracle := fun op a t w =>
  let a0 := nth 0 a 0 in let a1 := nth 1 a 0 in
  if op =s "alloca" then res1 (alloc_addr a1)
  else if op =s "mstore" then mkO [] (fun s k => enc_byte a0 (k - a1)) nomask false
  else if op =s "sstore" then mkO [] (fun s k => a0) nomask false
  else if op =s "tstore" then mkO [] (fun s k => a0) nomask false
  else if op =s "mcopy" then mkO [] (fun s k => w Mem (a1 + (k - nth 2 a 0))) nomask false     (* [n; src; dst] *)
  else if op =s "mload" then res1 (dec32 (fun i => w Mem (a0 + i)))
  else if op =s "sload" then res1 (w Sto a0)
  else if op =s "tload" then res1 (w Tra a0)
  else if op =s "calldataload" then res1 (dec32 (fun i => w Env (a0 + i)))
  else if op =s "calldatasize" then res1 (w Env CDSIZE_CELL)
  else match arith_evm op (rev a) with
       | Some v => res1 v
       | None => mkO [] zero_store nomask false
       end.

Fixpoint cd_cell (cd : list Z) (k : Z) : Z :=
  match cd with [] => 0 | b :: t => if k =? 0 then b else cd_cell t (k - 1) end.
Definition store_of (cd : list Z) (sto : list (Z * Z)) : store :=
  fun s k => match s with
             | Env => if k =? CDSIZE_CELL then Z.of_nat (List.length cd) else if k <? 0 then 0 else cd_cell cd k
             | Sto => match find (fun kv => fst kv =? k) sto with Some kv => snd kv | None => 0 end
             | _ => 0
             end.
Definition cfg_of (cd : list Z) (sto : list (Z * Z)) : cfg := mkC (fun _ => 0) (store_of cd sto) 0.

(* [code; |data|; data...; storage values at `keys`...]   code: 0 stop 1 return 2 revert 3 other halt 5 out of fuel *)
Definition render (o : outcome) (keys : list Z) : list Z :=
  match o with
  | OFuel => [5]
  | OHalt op a v =>
      let data := match a with
                  | [n; p] => if (0 <=? n) && (n <=? 4096) then map (fun i => v Mem (p + Z.of_nat i)) (seq 0 (Z.to_nat n)) else []
                  | _ => []
                  end in
      if op =s "return" then 1 :: Z.of_nat (List.length data) :: data ++ map (v Sto) keys
      else if op =s "stop" then 0 :: 0 :: map (v Sto) keys
      else if op =s "revert" then 2 :: Z.of_nat (List.length data) :: data
      else [3]
  end.

Definition exec_render (f : func) (cd : list Z) (sto : list (Z * Z)) (keys : list Z) : list Z :=
  render (run 400 Xc f 0%N 0%N (cfg_of cd sto)) keys.
