(* C14M / MemFacts.v -- available facts, symbolic locations and the validator for the forward redundancy passes
   (LoadElimination, CSE).  Definitions only.

   A fact is something known about the current state at a program point:
     FEq v op args : executing the read-only, non-volatile instruction `op args` now would produce the value of v
     FCell s p v   : the cells [p, p + width s) of space s hold the encoding of the value of v
     FNz c         : the value of c is not zero (an `assert c` has passed)
   Facts are produced by the instructions of the ORIGINAL function, killed when a variable they mention is redefined
   or when an instruction may write a cell they read.  "May write" is decided on symbolic locations: pointers are
   resolved through the available facts to (allocation, offset) -- `alloca`, `add/sub` with a literal, `assign` -- and
   compared with MemoryLocation.may_overlap as translated from /repo (C14/GenMemLoc.v); two different allocations are
   only separated when both accesses are provably inside their allocation. *)
From Coq Require Import ZArith NArith List Bool String Lia.
From Verif Require Import Base.PyInt C14.MemLocBase C14.GenMemLoc C14M.MemSem.
Import ListNotations.
Open Scope string_scope.
Open Scope Z_scope.

Inductive fact := FEq (v : operand) (op : string) (args : list operand) | FCell (s : sp) (p v : operand) | FNz (c : operand).

Definition operand_eqb (a b : operand) : bool :=
  match a, b with
  | OLit x, OLit y => x =? y
  | OVar x, OVar y => N.eqb x y
  | OLab x, OLab y => N.eqb x y
  | _, _ => false
  end.
Fixpoint list_eqb {A} (e : A -> A -> bool) (a b : list A) : bool :=
  match a, b with
  | [], [] => true
  | x :: s, y :: t => e x y && list_eqb e s t
  | _, _ => false
  end.
Definition ops_eqb := list_eqb operand_eqb.
Definition inst_eqb (i j : inst) : bool :=
  (i_op i =s i_op j) && ops_eqb (i_args i) (i_args j) && list_eqb N.eqb (i_outs i) (i_outs j).
Definition fact_eqb (f g : fact) : bool :=
  match f, g with
  | FEq v op a, FEq v' op' a' => operand_eqb v v' && (op =s op') && ops_eqb a a'
  | FCell s p v, FCell s' p' v' => sp_eqb s s' && operand_eqb p p' && operand_eqb v v'
  | FNz c, FNz c' => operand_eqb c c'
  | _, _ => false
  end.
Definition has_fact (g : fact) (F : list fact) : bool := existsb (fact_eqb g) F.

Definition is_var (x : N) (o : operand) : bool := match o with OVar y => N.eqb x y | _ => false end.
Definition fact_ops (g : fact) : list operand :=
  match g with FEq v _ a => v :: a | FCell _ p v => [p; v] | FNz c => [c] end.
Definition mentions (g : fact) (x : N) : bool := existsb (is_var x) (fact_ops g).

Definition null {A} (l : list A) : bool := match l with [] => true | _ => false end.
(* instructions whose only effect is to define their output as a function of the arguments and the read footprint *)
Definition ro_ok (op : string) : bool :=
  let sh := shape_of op in
  null (sh_w sh) && null (sh_wall sh) && negb (sh_vol sh) && negb (sh_fail sh)
  && negb (is_in op HALT_OPS) && negb (is_in op CTL_OPS) && negb (op =s "phi").

(* ------------------------------------------------------------------ symbolic locations *)
Definition mkml (o s a : option Z) : memloc := {| ml_offset := o; ml_size := s; ml_alloca := a |}.

Fixpoint find_def (F : list fact) (x : N) : option (string * list operand) :=
  match F with
  | FEq (OVar y) op a :: t => if N.eqb x y then Some (op, a) else find_def t x
  | _ :: t => find_def t x
  | [] => None
  end.

(* (allocation, offset): the value of the operand is  base(allocation) + offset  exactly *)
Definition offset_by (asz : Z -> Z) (r : option Z * option Z) (d : Z) : option Z * option Z :=
  match r with
  | (None, Some o) => if (0 <=? o + d) && (o + d <? W) then (None, Some (o + d)) else (None, None)
  | (Some id, Some o) => if (0 <=? o + d) && (o + d <=? asz id) then (Some id, Some (o + d)) else (Some id, None)
  | (Some id, None) => (Some id, None)
  | _ => (None, None)
  end.
(* pointer plus a non-literal: same allocation, unknown offset (only useful to the liberal variant) *)
Definition in_alloca (r1 r2 : option Z * option Z) : option Z * option Z :=
  match fst r1, fst r2 with
  | Some id, None => (Some id, None)
  | None, Some id => (Some id, None)
  | _, _ => (None, None)
  end.

Fixpoint resolve (fuel : nat) (F : list fact) (asz : Z -> Z) (p : operand) : option Z * option Z :=
  match p with
  | OLit v => (None, Some (v mod W))
  | OLab _ => (None, None)
  | OVar x =>
    match fuel with
    | O => (None, None)
    | S n =>
      match find_def F x with
      | Some (op, a) =>
        if op =s "alloca" then
          match a with
          | [OLit sz; OLit id] => if sz mod W =? asz (id mod W) then (Some (id mod W), Some 0) else (None, None)
          | _ => (None, None)
          end
        else if op =s "assign" then match a with [q] => resolve n F asz q | _ => (None, None) end
        else if op =s "add" then
          match a with
          | [OLit k; q] => offset_by asz (resolve n F asz q) (k mod W)
          | [q; OLit k] => offset_by asz (resolve n F asz q) (k mod W)
          | [q1; q2] => in_alloca (resolve n F asz q1) (resolve n F asz q2)
          | _ => (None, None)
          end
        else if op =s "sub" then
          match a with
          | [OLit k; q] => offset_by asz (resolve n F asz q) (- (k mod W))
          | _ => (None, None)
          end
        else (None, None)
      | None => (None, None)
      end
    end
  end.
Definition RFUEL : nat := 24.

Definition same_fixed (r1 r2 : option Z * option Z) : bool :=
  match r1, r2 with
  | (b1, Some o1), (b2, Some o2) => (o1 =? o2) && match b1, b2 with None, None => true | Some i, Some j => i =? j | _, _ => false end
  | _, _ => false
  end.

(* value equivalence of two operands under the available facts: copies, equal resolved addresses, and congruence
   (both defined by the same read-only operation on equivalent arguments with no conflicting write since) *)
Fixpoint equiv (fuel : nat) (F : list fact) (asz : Z -> Z) (a b : operand) : bool :=
  operand_eqb a b ||
  match fuel with
  | O => false
  | S n =>
      let da := match a with OVar x => find_def F x | _ => None end in
      let db := match b with OVar y => find_def F y | _ => None end in
      match da with Some (op, [q]) => (op =s "assign") && equiv n F asz q b | _ => false end
      || match db with Some (op, [q]) => (op =s "assign") && equiv n F asz a q | _ => false end
      || match da, db with
         | Some (op, aa), Some (op', ab) =>
             (op =s op')
             && (list_eqb (equiv n F asz) aa ab
                 || (is_in op COMM_OPS && match aa with [x; y] => list_eqb (equiv n F asz) [y; x] ab | _ => false end))
         | _, _ => false
         end
      || same_fixed (resolve RFUEL F asz a) (resolve RFUEL F asz b)
  end.
Definition EFUEL : nat := 6.
Definition eqv (F : list fact) (asz : Z -> Z) : operand -> operand -> bool := equiv EFUEL F asz.

Definition sym_size (args : list operand) (z : asize) : option Z :=
  match z with
  | SzC n => Some n
  | SzA i => match aget (OLab 0) args i with OLit n => Some (n mod W) | _ => None end
  end.
Definition sym_loc (F : list fact) (asz : Z -> Z) (args : list operand) (r : srange) : memloc :=
  match sr_ptr r with
  | PConst z => mkml (Some z) (sym_size args (sr_size r)) None
  | PArg i => let '(b, o) := resolve RFUEL F asz (aget (OLab 0) args i) in mkml o (sym_size args (sr_size r)) b
  end.

Definition inb (asz : Z -> Z) (l : memloc) : bool :=
  match ml_alloca l, ml_offset l, ml_size l with
  | Some id, Some o, Some n => (0 <=? o) && (0 <=? n) && (o + n <=? asz id)
  | _, _, _ => false
  end.
(* `strict = false` trusts "different allocations never alias" without the in-bounds test, as /repo does: it is used
   only to classify a rejection as `unsupported`; no theorem covers it *)
Definition locs_disjoint (strict : bool) (asz : Z -> Z) (l1 l2 : memloc) : bool :=
  match may_overlap l1 l2 with
  | Ok false =>
      match ml_alloca l1, ml_alloca l2 with
      | None, None => true
      | Some i, Some j => (i =? j) || negb strict || (inb asz l1 && inb asz l2)
      | _, _ => false
      end
  | _ => false
  end.

(* ------------------------------------------------------------------ transfer function *)
Definition fact_reads (g : fact) : list sp * list (list operand * srange) :=
  match g with
  | FEq _ op a => (sh_rall (shape_of op), map (fun r => (a, r)) (sh_r (shape_of op)))
  | FCell s p _ => ([], [([p], mkSR s (PArg a0) (SzC (width s)))])
  | FNz _ => ([], [])
  end.

Definition sp_written (sh : shape) (s : sp) : bool := in_sps s (sh_wall sh).
(* the write footprint of an instruction, resolved once *)
Definition wlocs (F : list fact) (asz : Z -> Z) (sh : shape) (args : list operand) : list (sp * memloc) :=
  map (fun w => (sr_sp w, sym_loc F asz args w)) (sh_w sh).
Definition range_clear (strict : bool) (F : list fact) (asz : Z -> Z) (sh : shape) (wl : list (sp * memloc))
           (gargs : list operand) (r : srange) : bool :=
  negb (sp_written sh (sr_sp r)) &&
  forallb (fun w => negb (sp_eqb (fst w) (sr_sp r)) || locs_disjoint strict asz (snd w) (sym_loc F asz gargs r)) wl.
Definition survives (strict : bool) (F : list fact) (asz : Z -> Z) (outs : list N) (sh : shape) (wl : list (sp * memloc))
           (g : fact) : bool :=
  negb (existsb (mentions g) outs) &&
  (null wl && null (sh_wall sh) ||
   let rr := fact_reads g in
   forallb (fun s => negb (sp_written sh s) && forallb (fun w => negb (sp_eqb (fst w) s)) wl) (fst rr) &&
   forallb (fun ar => range_clear strict F asz sh wl (fst ar) (snd ar)) (snd rr)).

Definition store_space (op : string) : option sp :=
  if op =s "mstore" then Some Mem else if op =s "sstore" then Some Sto else if op =s "tstore" then Some Tra else None.

Definition load_space (op : string) : option sp :=
  if op =s "mload" then Some Mem else if op =s "sload" then Some Sto else if op =s "tload" then Some Tra else None.

Definition new_facts (i : inst) : list fact :=
  match i_outs i with
  | [x] => if ro_ok (i_op i) && negb (existsb (is_var x) (i_args i)) then
             FEq (OVar x) (i_op i) (i_args i)
             :: match load_space (i_op i), i_args i with Some s, [p] => [FCell s p (OVar x)] | _, _ => [] end
           else []
  | [] =>
      match store_space (i_op i), i_args i with
      | Some s, [v; p] => [FCell s p v]
      | _, _ => if i_op i =s "assert" then match i_args i with [c] => [FNz c] | _ => [] end else []
      end
  | _ => []
  end.

Definition facts_step (strict : bool) (F : list fact) (asz : Z -> Z) (i : inst) : list fact :=
  let sh := wshape (i_op i) in
  let wl := wlocs F asz sh (i_args i) in
  new_facts i ++ filter (survives strict F asz (i_outs i) sh wl) F.

(* ------------------------------------------------------------------ the validator for LoadElimination and CSE *)
Definition cell_known (F : list fact) (asz : Z -> Z) (s : sp) (p v : operand) : bool :=
  existsb (fun g => match g with FCell s' p' v' => sp_eqb s s' && eqv F asz p' p && eqv F asz v' v | _ => false end) F.
Definition value_known (F : list fact) (asz : Z -> Z) (op : string) (args : list operand) (v : operand) : bool :=
  existsb (fun g => match g with
                    | FEq w op' a' =>
                        (op' =s op)
                        && (list_eqb (eqv F asz) a' args
                            || (is_in op COMM_OPS && match args with [x; y] => list_eqb (eqv F asz) a' [y; x] | _ => false end))
                        && eqv F asz w v
                    | _ => false
                    end) F.
Definition nz_known (F : list fact) (asz : Z -> Z) (c : operand) : bool :=
  existsb (fun g => match g with FNz c' => eqv F asz c' c | _ => false end) F.

Definition justified (F : list fact) (asz : Z -> Z) (i i' : inst) : bool :=
  inst_eqb i i'
  || match i_outs i, i_args i' with
     | [x], [v] => (i_op i' =s "assign") && list_eqb N.eqb (i_outs i') [x] && ro_ok (i_op i)
                   && (value_known F asz (i_op i) (i_args i) v
                       || match load_space (i_op i), i_args i with Some s, [p] => cell_known F asz s p v | _, _ => false end)
     | _, _ => false
     end
  || ((i_op i' =s "nop") && null (i_outs i') && null (i_outs i)
      && match store_space (i_op i), i_args i with
         | Some s, [v; p] => cell_known F asz s p v
         | None, [c] => (i_op i =s "assert") && nz_known F asz c
         | _, _ => false
         end).

Definition succs (i : inst) : list N :=
  if is_in (i_op i) ["jmp"; "jnz"; "djmp"] then labels_of (i_args i) else [].
Definition phi_outs (b : block) : list N := flat_map (fun i => match phi_out i with Some o => [o] | None => [] end) (leading_phis b).

Definition cert := list (list fact).
Definition cert_at (C : cert) (b : N) : list fact := nth (N.to_nat b) C [].
(* the facts claimed at the entry of block s (after its phis) follow from those available before the jump *)
Definition edge_ok (f : func) (C : cert) (F : list fact) (s : N) : bool :=
  (N.ltb s (N.of_nat (List.length f))) &&
  forallb (fun g => has_fact g F && negb (existsb (mentions g) (phi_outs (nth_block f s)))) (cert_at C s).

(* a deleted store of a value the cell already holds changes nothing: the facts before it stay (this is what lets a
   pass that iterates, like CSE, remove a store and then merge the loads/hashes behind it) *)
Definition keep (F : list fact) (asz : Z -> Z) (i i' : inst) : bool :=
  (i_op i' =s "nop") && null (i_outs i') && null (i_outs i)
  && match store_space (i_op i), i_args i with
     | Some s, [v; p] => cell_known F asz s p v
     | _, _ => false
     end.
Definition next_facts (strict : bool) (F : list fact) (asz : Z -> Z) (i i' : inst) : list fact :=
  if keep F asz i i' then F else facts_step strict F asz i.

Fixpoint scan (strict : bool) (f : func) (C : cert) (asz : Z -> Z) (F : list fact) (l l' : list inst) : bool :=
  match l, l' with
  | [], [] => true
  | i :: t, i' :: t' =>
      justified F asz i i' && forallb (edge_ok f C F) (succs i) && scan strict f C asz (next_facts strict F asz i i') t t'
  | _, _ => false
  end.

Definition check_block (strict : bool) (f f' : func) (C : cert) (asz : Z -> Z) (b : N) : bool :=
  list_eqb inst_eqb (leading_phis (nth_block f b)) (leading_phis (nth_block f' b))
  && scan strict f C asz (cert_at C b) (body (nth_block f b)) (body (nth_block f' b)).

Definition fwd_check_with (strict : bool) (f f' : func) (C : cert) : bool :=
  Nat.eqb (List.length f) (List.length f') && negb (null f) && null (cert_at C 0%N)
  && (let asz := asz_of f in forallb (fun b => check_block strict f f' C asz (N.of_nat b)) (seq 0 (List.length f))).

(* ------------------------------------------------------------------ certificate inference (not trusted: `fwd_check_with`
   re-checks whatever this computes).  Round-robin must-analysis: None = not reached yet. *)
Definition meet (a : option (list fact)) (F : list fact) : option (list fact) :=
  match a with None => Some F | Some G => Some (filter (fun g => has_fact g F) G) end.

Fixpoint upd {A} (l : list A) (n : nat) (x : A) : list A :=
  match l, n with
  | [], _ => []
  | _ :: t, O => x :: t
  | y :: t, S k => y :: upd t k x
  end.

Fixpoint flow (strict : bool) (f : func) (asz : Z -> Z) (F : list fact) (l : list inst) (acc : list (option (list fact)))
  : list (option (list fact)) :=
  match l with
  | [] => acc
  | i :: t =>
      let acc' := fold_left (fun a s =>
                     let Fs := filter (fun g => negb (existsb (mentions g) (phi_outs (nth_block f s)))) F in
                     upd a (N.to_nat s) (meet (nth (N.to_nat s) a None) Fs)) (succs i) acc in
      flow strict f asz (facts_step strict F asz i) t acc'
  end.

Definition infer_round (strict : bool) (f : func) (asz : Z -> Z) (acc : list (option (list fact))) : list (option (list fact)) :=
  fold_left (fun a b =>
               match nth b a None with
               | None => a
               | Some F => flow strict f asz F (body (nth b f [])) a
               end) (seq 0 (List.length f)) acc.

Definition measure (acc : list (option (list fact))) : nat :=
  fold_left (fun n o => match o with None => S n | Some F => (n + 2 * List.length F)%nat end) acc O.
Fixpoint infer_iter (n : nat) (strict : bool) (f : func) (asz : Z -> Z) (acc : list (option (list fact))) : list (option (list fact)) :=
  match n with
  | O => acc
  | S k => let acc' := infer_round strict f asz acc in
           if Nat.eqb (measure acc') (measure acc) then acc' else infer_iter k strict f asz acc'
  end.

Definition infer (strict : bool) (f : func) : cert :=
  let init := Some [] :: repeat None (List.length f - 1) in
  map (fun o => match o with Some F => F | None => [] end) (let asz := asz_of f in infer_iter (4 + 2 * List.length f) strict f asz init).

Definition empty_cert (f : func) : cert := repeat [] (List.length f).

Definition fwd_check (f f' : func) : bool :=
  fwd_check_with true f f' (infer true f) || fwd_check_with true f f' (empty_cert f).
(* diagnosis only (no theorem): the provenance BasePtrAnalysis computes -- dynamic allocations (dalloca, bump) count as
   allocations, and a pointer computed by phi / add / sub from pointers into one allocation points into that allocation at
   an unknown offset.  `liberalize` rewrites such definitions into forms `resolve` understands. *)
Fixpoint pa_get (pa : list (N * Z)) (x : N) : option Z :=
  match pa with [] => None | (y, id) :: t => if N.eqb x y then Some id else pa_get t x end.
Definition pa_op (pa : list (N * Z)) (o : operand) : option Z := match o with OVar y => pa_get pa y | _ => None end.
Definition pa_inst (pa : list (N * Z)) (i : inst) : option Z :=
  if i_op i =s "alloca" then match i_args i with [_; OLit id] => Some (id mod W) | _ => None end
  else if is_in (i_op i) ["dalloca"; "bump"] then match i_outs i with x :: _ => Some (Z.of_N x) | [] => None end
  else if i_op i =s "assign" then match i_args i with [a] => pa_op pa a | _ => None end
  else if i_op i =s "add" then
    match i_args i with
    | [a; b] => match pa_op pa a, pa_op pa b with Some id, None => Some id | None, Some id => Some id | _, _ => None end
    | _ => None
    end
  else if i_op i =s "sub" then match i_args i with [b; a] => match pa_op pa b with None => pa_op pa a | _ => None end | _ => None end
  else if i_op i =s "phi" then
    match flat_map (fun o => match o with OVar y => [pa_get pa y] | _ => [] end) (i_args i) with
    | Some id :: t => if forallb (fun o => match o with Some id' => id' =? id | None => false end) t then Some id else None
    | _ => None
    end
  else None.
Definition pa_round (f : func) (pa : list (N * Z)) : list (N * Z) :=
  fold_left (fun acc i => match i_outs i with
                          | x :: _ => match pa_get acc x with
                                      | Some _ => acc
                                      | None => match pa_inst acc i with Some id => (x, id) :: acc | None => acc end
                                      end
                          | [] => acc
                          end) (List.concat f) pa.
Definition liberalize (f : func) : func :=
  let pa := pa_round f (pa_round f (pa_round f (pa_round f []))) in
  map (map (fun i =>
    match i_outs i with
    | [x] =>
        if is_in (i_op i) ["dalloca"; "bump"] then mkI "alloca" [OLit 0; OLit (Z.of_N x)] [x]
        else if is_in (i_op i) ["phi"; "add"; "sub"] then
          match pa_get pa x with
          | Some id =>
              let lit := existsb (fun o => match o with OLit _ => true | _ => false end) (i_args i) in
              if (i_op i =s "phi") || negb lit then mkI "add" [OVar (Z.to_N id); OLab 0] [x] else i
          | None => i
          end
        else i
    | x :: _ => if is_in (i_op i) ["dalloca"; "bump"] then mkI "alloca" [OLit 0; OLit (Z.of_N x)] [x] else i
    | [] => i
    end)) f.
Definition fwd_check_liberal (f0 f0' : func) : bool :=
  let f := liberalize f0 in let f' := liberalize f0' in
  fwd_check_with false f f' (infer false f) || fwd_check_with false f f' (empty_cert f).

(* ------------------------------------------------------------------ diagnosis (reports only) *)
Fixpoint scan_diag (strict : bool) (f : func) (C : cert) (asz : Z -> Z) (F : list fact) (l l' : list inst) (k : Z) : list Z :=
  match l, l' with
  | [], [] => []
  | i :: t, i' :: t' =>
      if negb (justified F asz i i') then [k; 1]
      else if negb (forallb (edge_ok f C F) (succs i)) then [k; 2]
      else scan_diag strict f C asz (next_facts strict F asz i i') t t' (k + 1)
  | _, _ => [k; 5]
  end.
Definition fwd_diag (strict : bool) (f0 f0' : func) : list Z :=
  let f := if strict then f0 else liberalize f0 in let f' := if strict then f0' else liberalize f0' in
  let C := infer strict f in
  let asz := asz_of f in
  flat_map (fun b => match scan_diag strict f C asz (cert_at C (N.of_nat b)) (body (nth b f [])) (body (nth b f' [])) 0 with
                     | [] => []
                     | r => Z.of_nat b :: Z.of_nat (List.length (leading_phis (nth b f []))) :: r
                     end) (seq 0 (List.length f)).
