(* C14M / MemDse.v -- the validator for DeadStoreElimination.  Definitions only.

   A deleted instruction (replaced by `nop`) must have no output, no whole-space write, must not be volatile or able
   to trap, and every range it writes must resolve to a fixed location (allocation, offset, size).  Those locations
   become PENDING: from there on the two executions may differ on them.  Every later instruction -- on every path --
   must not read a pending location (its read footprint, symbolically resolved, is disjoint from every pending item by
   MemoryLocation.may_overlap; halting instructions read what the outside world observes: `return` its buffer and all
   persistent spaces, `ret` everything, `revert` only its buffer), until an instruction whose write footprint is a
   must-write completely contains the item (MemoryLocation.completely_contains), which ends the pending state.
   Across blocks: Q_b (certificate) = items that may be pending at the entry of block b; every jump checks that what
   is pending there is listed in the target's Q. *)
From Coq Require Import ZArith NArith List Bool String Lia.
From Verif Require Import Base.PyInt C14.MemLocBase C14.GenMemLoc C14M.MemSem C14M.MemFacts.
Import ListNotations.
Open Scope string_scope.
Open Scope Z_scope.

Definition pitem := (sp * memloc)%type.
Definition oz_eqb (a b : option Z) : bool :=
  match a, b with None, None => true | Some x, Some y => x =? y | _, _ => false end.
Definition ml_eqb (a b : memloc) : bool :=
  oz_eqb (ml_offset a) (ml_offset b) && oz_eqb (ml_size a) (ml_size b) && oz_eqb (ml_alloca a) (ml_alloca b).
Definition pitem_eqb (a b : pitem) : bool := sp_eqb (fst a) (fst b) && ml_eqb (snd a) (snd b).
Definition has_item (x : pitem) (P : list pitem) : bool := existsb (pitem_eqb x) P.

Definition pure_fact (g : fact) : bool :=
  match g with
  | FEq _ op _ => null (sh_r (shape_of op)) && null (sh_rall (shape_of op))
  | _ => false
  end.
Definition pfacts_step (F : list fact) (asz : Z -> Z) (i : inst) : list fact := filter pure_fact (facts_step true F asz i).

Definition ml_fixed (l : memloc) : bool :=
  match ml_offset l, ml_size l with Some _, Some n => 0 <=? n | _, _ => false end.


Definition reads_clear (strict : bool) (F : list fact) (asz : Z -> Z) (i : inst) (x : pitem) : bool :=
  let sh := rshape (i_op i) in
  negb (in_sps (fst x) (sh_rall sh)) &&
  forallb (fun r => negb (sp_eqb (sr_sp r) (fst x)) || locs_disjoint strict asz (sym_loc F asz (i_args i) r) (snd x)) (sh_r sh).

Definition covered (F : list fact) (asz : Z -> Z) (i : inst) (x : pitem) : bool :=
  let sh := wshape (i_op i) in
  sh_must sh && negb (is_in (i_op i) HALT_OPS) &&
  existsb (fun w => sp_eqb (sr_sp w) (fst x) && ml_fixed (sym_loc F asz (i_args i) w) &&
                    match completely_contains (sym_loc F asz (i_args i) w) (snd x) with Ok true => true | _ => false end) (sh_w sh).

Definition deletable (op : string) : bool :=
  let sh := shape_of op in
  null (sh_wall sh) && negb (sh_vol sh) && negb (sh_fail sh) && negb (is_in op HALT_OPS) && negb (is_in op CTL_OPS)
  && negb (op =s "phi").

Definition deleted_items (F : list fact) (asz : Z -> Z) (i : inst) : option (list pitem) :=
  let ls := map (fun w => (sr_sp w, sym_loc F asz (i_args i) w)) (sh_w (shape_of (i_op i))) in
  if forallb (fun x => ml_fixed (snd x)) ls then Some ls else None.

Definition is_nop (i : inst) : bool := (i_op i =s "nop") && null (i_outs i) && null (i_args i).

Definition qcert := list (list pitem).
Definition q_at (Q : qcert) (b : N) : list pitem := nth (N.to_nat b) Q [].

Definition dedge_ok (f : func) (C : cert) (Q : qcert) (F : list fact) (P : list pitem) (s : N) : bool :=
  edge_ok f C F s && forallb (fun x => has_item x (q_at Q s)) P.

Fixpoint dscan (strict : bool) (f : func) (C : cert) (Q : qcert) (asz : Z -> Z) (F : list fact) (P : list pitem)
         (l l' : list inst) : bool :=
  match l, l' with
  | [], [] => true
  | i :: t, i' :: t' =>
      if inst_eqb i i' then
        forallb (reads_clear strict F asz i) P && forallb (dedge_ok f C Q F P) (succs i)
        && dscan strict f C Q asz (pfacts_step F asz i) (filter (fun x => negb (covered F asz i x)) P) t t'
      else
        is_nop i' && null (i_outs i) && deletable (i_op i)
        && match deleted_items F asz i with
           | Some ls => dscan strict f C Q asz (pfacts_step F asz i) (ls ++ P)%list t t'
           | None => false
           end
  | _, _ => false
  end.

Definition dcheck_block (strict : bool) (f f' : func) (C : cert) (Q : qcert) (asz : Z -> Z) (b : N) : bool :=
  list_eqb inst_eqb (leading_phis (nth_block f b)) (leading_phis (nth_block f' b))
  && dscan strict f C Q asz (cert_at C b) (q_at Q b) (body (nth_block f b)) (body (nth_block f' b)).

Definition dse_check_with (strict : bool) (f f' : func) (C : cert) (Q : qcert) : bool :=
  Nat.eqb (List.length f) (List.length f') && negb (null f) && null (cert_at C 0%N) && null (q_at Q 0%N)
  && forallb (fun g => pure_fact g) (List.concat C)
  && (let asz := asz_of f in forallb (fun b => dcheck_block strict f f' C Q asz (N.of_nat b)) (seq 0 (List.length f))).

(* ------------------------------------------------------------------ inference of Q (not trusted) *)
Definition add_items (P Q0 : list pitem) : list pitem :=
  fold_left (fun q x => if has_item x q then q else (q ++ [x])%list) P Q0.

Fixpoint dflow (f : func) (asz : Z -> Z) (F : list fact) (P : list pitem) (l l' : list inst) (acc : qcert) : qcert :=
  match l, l' with
  | i :: t, i' :: t' =>
      if inst_eqb i i' then
        let acc' := fold_left (fun a s => upd a (N.to_nat s) (add_items P (nth (N.to_nat s) a []))) (succs i) acc in
        dflow f asz (pfacts_step F asz i) (filter (fun x => negb (covered F asz i x)) P) t t' acc'
      else
        match deleted_items F asz i with
        | Some ls => dflow f asz (pfacts_step F asz i) (ls ++ P)%list t t' acc
        | None => acc
        end
  | _, _ => acc
  end.

Definition dinfer_round (f f' : func) (C : cert) (asz : Z -> Z) (acc : qcert) : qcert :=
  fold_left (fun a b => dflow f asz (cert_at C (N.of_nat b)) (nth b a [])
                              (body (nth b f [])) (body (nth b f' [])) a) (seq 0 (List.length f)) acc.
Definition qmeasure (acc : qcert) : nat := fold_left (fun n q => (n + List.length q)%nat) acc O.
Fixpoint dinfer_iter (n : nat) (f f' : func) (C : cert) (asz : Z -> Z) (acc : qcert) : qcert :=
  match n with
  | O => acc
  | S k => let acc' := dinfer_round f f' C asz acc in
           if Nat.eqb (qmeasure acc') (qmeasure acc) then acc' else dinfer_iter k f f' C asz acc'
  end.
Definition dinfer (f f' : func) (C : cert) : qcert :=
  let asz := asz_of f in dinfer_iter (4 + 2 * List.length f) f f' C asz (repeat [] (List.length f)).

Definition pure_cert (C : cert) : cert := map (filter pure_fact) C.

Definition dse_check (f f' : func) : bool :=
  let C := pure_cert (infer true f) in
  dse_check_with true f f' C (dinfer f f' C) || dse_check_with true f f' (empty_cert f) (dinfer f f' (empty_cert f)).
Definition dse_check_liberal (f0 f0' : func) : bool :=
  let f := liberalize f0 in let f' := liberalize f0' in
  let C := pure_cert (infer false f) in
  dse_check_with false f f' C (dinfer f f' C) || dse_check_with false f f' (empty_cert f) (dinfer f f' (empty_cert f)).

(* ------------------------------------------------------------------ diagnosis (reports only): first failing position of a block *)
Fixpoint dscan_diag (strict : bool) (f : func) (C : cert) (Q : qcert) (asz : Z -> Z) (F : list fact) (P : list pitem)
         (l l' : list inst) (k : Z) : list Z :=
  match l, l' with
  | [], [] => []
  | i :: t, i' :: t' =>
      if inst_eqb i i' then
        if negb (forallb (reads_clear strict F asz i) P) then [k; 1]
        else if negb (forallb (dedge_ok f C Q F P) (succs i)) then [k; 2]
        else dscan_diag strict f C Q asz (pfacts_step F asz i) (filter (fun x => negb (covered F asz i x)) P) t t' (k + 1)
      else
        if negb (is_nop i' && null (i_outs i) && deletable (i_op i)) then [k; 3]
        else match deleted_items F asz i with
             | Some ls => dscan_diag strict f C Q asz (pfacts_step F asz i) (ls ++ P)%list t t' (k + 1)
             | None => [k; 4]
             end
  | _, _ => [k; 5]
  end.
Definition dse_diag (strict : bool) (f0 f0' : func) : list Z :=
  let f := if strict then f0 else liberalize f0 in let f' := if strict then f0' else liberalize f0' in
  let C := pure_cert (infer strict f) in
  let Q := dinfer f f' C in
  let asz := asz_of f in
  flat_map (fun b => match dscan_diag strict f C Q asz (cert_at C (N.of_nat b)) (q_at Q (N.of_nat b))
                                     (body (nth b f [])) (body (nth b f' [])) 0 with
                     | [] => []
                     | r => Z.of_nat b :: Z.of_nat (List.length (leading_phis (nth b f []))) :: r
                     end) (seq 0 (List.length f)).
