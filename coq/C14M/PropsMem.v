(* C14M / PropsMem.v -- the theorems behind the validators of the memory/storage redundancy passes.

   `run fuel X f 0 0 c` executes the exported function f from its entry block in configuration c (any variable values,
   any well-formed store) under oracle X; `oeq` = same halting instruction, same argument values, same observed cells
   (or both out of fuel).  `good X A f`: the oracle treats equal views alike and computes assign/add/sub/alloca and the
   loads/stores of memory, storage and transient storage as the EVM does, with allocation addresses A that are pairwise
   disjoint.  Everything else (arithmetic, hashes, calls, environment, logs) is an arbitrary function of what the
   instruction may read. *)
From Coq Require Import ZArith NArith List Bool String Lia.
From Verif Require Import C14M.MemSem C14M.MemFacts C14M.MemDse C14M.MemSemProofs C14M.MemFactsProofs C14M.MemFwdProofs C14M.MemDseProofs.
Import ListNotations.
Open Scope string_scope.
Open Scope Z_scope.

Theorem le_check_sound : forall f f' X A, fwd_check f f' = true -> good X A f ->
  forall fuel c, wf_store (cs c) -> oeq (run fuel X f 0%N 0%N c) (run fuel X f' 0%N 0%N c).
Proof. exact fwd_check_sound. Qed.
Print Assumptions le_check_sound.

Theorem cse_check_sound : forall f f' X A, fwd_check f f' = true -> good X A f ->
  forall fuel c, wf_store (cs c) -> oeq (run fuel X f 0%N 0%N c) (run fuel X f' 0%N 0%N c).
Proof. exact fwd_check_sound. Qed.
Print Assumptions cse_check_sound.

Theorem dse_validator_sound : forall f f' X A, dse_check f f' = true -> good X A f ->
  forall fuel c, wf_store (cs c) -> oeq (run fuel X f 0%N 0%N c) (run fuel X f' 0%N 0%N c).
Proof. exact dse_check_sound. Qed.
Print Assumptions dse_validator_sound.

(* ------------------------------------------------------------------ non-vacuity: the checkers accept and reject *)
Definition v (n : N) := OVar n.
Definition ex_le_before : func :=
  [[mkI "mstore" [v 1; OLit 64] []; mkI "sstore" [v 1; OLit 7] []; mkI "mload" [OLit 64] [2%N]; mkI "return" [OLit 32; OLit 64] []]].
Definition ex_le_after : func :=
  [[mkI "mstore" [v 1; OLit 64] []; mkI "sstore" [v 1; OLit 7] []; mkI "assign" [v 1] [2%N]; mkI "return" [OLit 32; OLit 64] []]].
(* an overlapping store in between (offset 70 < 64 + 32) *)
Definition ex_le_bad : func :=
  [[mkI "mstore" [v 1; OLit 64] []; mkI "mstore" [v 3; OLit 70] []; mkI "mload" [OLit 64] [2%N]; mkI "return" [OLit 32; OLit 64] []]].
Definition ex_le_bad_after : func :=
  [[mkI "mstore" [v 1; OLit 64] []; mkI "mstore" [v 3; OLit 70] []; mkI "assign" [v 1] [2%N]; mkI "return" [OLit 32; OLit 64] []]].
Example le_accepts : fwd_check ex_le_before ex_le_after = true. Proof. vm_compute. reflexivity. Qed.
Example le_rejects : fwd_check ex_le_bad ex_le_bad_after = false. Proof. vm_compute. reflexivity. Qed.

Definition ex_cse_before : func :=
  [[mkI "add" [v 1; v 2] [3%N]; mkI "gas" [] [5%N]; mkI "add" [v 1; v 2] [4%N]; mkI "gas" [] [6%N]; mkI "stop" [] []]].
Definition ex_cse_after : func :=
  [[mkI "add" [v 1; v 2] [3%N]; mkI "gas" [] [5%N]; mkI "assign" [v 3] [4%N]; mkI "gas" [] [6%N]; mkI "stop" [] []]].
Definition ex_cse_bad_after : func :=
  [[mkI "add" [v 1; v 2] [3%N]; mkI "gas" [] [5%N]; mkI "add" [v 1; v 2] [4%N]; mkI "assign" [v 5] [6%N]; mkI "stop" [] []]].
Example cse_accepts : fwd_check ex_cse_before ex_cse_after = true. Proof. vm_compute. reflexivity. Qed.
Example cse_rejects_gas : fwd_check ex_cse_before ex_cse_bad_after = false. Proof. vm_compute. reflexivity. Qed.

Definition ex_dse_before : func :=
  [[mkI "sstore" [v 1; OLit 3] []; mkI "sload" [OLit 4] [2%N]; mkI "sstore" [v 2; OLit 3] []; mkI "stop" [] []]].
Definition ex_dse_after : func :=
  [[mkI "nop" [] []; mkI "sload" [OLit 4] [2%N]; mkI "sstore" [v 2; OLit 3] []; mkI "stop" [] []]].
(* a create in between may re-enter and read slot 3 *)
Definition ex_dse_bad : func :=
  [[mkI "sstore" [v 1; OLit 3] []; mkI "create" [OLit 0; OLit 0; OLit 0] [2%N]; mkI "sstore" [v 2; OLit 3] []; mkI "stop" [] []]].
Definition ex_dse_bad_after : func :=
  [[mkI "nop" [] []; mkI "create" [OLit 0; OLit 0; OLit 0] [2%N]; mkI "sstore" [v 2; OLit 3] []; mkI "stop" [] []]].
Example dse_accepts : dse_check ex_dse_before ex_dse_after = true. Proof. vm_compute. reflexivity. Qed.
Example dse_rejects_create : dse_check ex_dse_bad ex_dse_bad_after = false. Proof. vm_compute. reflexivity. Qed.

(* ------------------------------------------------------------------ non-vacuity: an oracle that satisfies `good` *)
Definition nomask : sp -> Z -> bool := fun _ _ => false.
Definition X0 : oracle := fun op a t w =>
  let a0 := nth 0 a 0 in let a1 := nth 1 a 0 in
  if op =s "assign" then mkO [a0] zero_store nomask false
  else if op =s "add" then mkO [(a1 + a0) mod W] zero_store nomask false
  else if op =s "sub" then mkO [(a1 - a0) mod W] zero_store nomask false
  else if op =s "alloca" then mkO [0] zero_store nomask false
  else if op =s "mstore" then mkO [] (fun s k => enc_byte a0 (k - a1)) nomask false
  else if op =s "sstore" then mkO [] (fun s k => a0) nomask false
  else if op =s "tstore" then mkO [] (fun s k => a0) nomask false
  else if op =s "mload" then mkO [dec32 (fun i => w Mem (a0 + i))] zero_store nomask false
  else if op =s "sload" then mkO [w Sto (a0 + 0)] zero_store nomask false
  else if op =s "tload" then mkO [w Tra (a0 + 0)] zero_store nomask false
  else mkO [] zero_store nomask false.

Lemma X0_ext : X_ext X0.
Proof.
  intros op a t w w' H. unfold X0.
  repeat match goal with |- context [if ?c then _ else _] => destruct c end;
    repeat split; cbn [o_outs o_fail o_cell o_mask]; try reflexivity; try (intros ? ?; reflexivity).
  - f_equal. apply decn_ext. intros i _. apply H.
  - f_equal. apply H.
  - f_equal. apply H.
Qed.

Lemma X0_good : good X0 (fun _ => 0) ex_le_before.
Proof.
  split; [exact X0_ext|]. constructor; intros; try reflexivity.
  - unfold is_in, COMM_OPS in H. cbn [existsb] in H.
    repeat (apply orb_true_iff in H; destruct H as [H|H]; [apply seqb_eq in H; subst op; try reflexivity|]); try discriminate.
    unfold X0. cbn. f_equal. f_equal. lia.
  - destruct s; try discriminate; cbn [store_op X0]; cbn.
    + replace (p + i - p) with i by lia. apply Z.mod_small. apply enc_byte_range.
    + apply Z.mod_small. assumption.
    + apply Z.mod_small. assumption.
  - destruct s; try discriminate; cbn [load_op dec].
    + change (X0 "mload" [p] t v0) with (mkO [dec32 (fun i => v0 Mem (p + i))] zero_store nomask false). reflexivity.
    + change (X0 "sload" [p] t v0) with (mkO [v0 Sto (p + 0)] zero_store nomask false). reflexivity.
    + change (X0 "tload" [p] t v0) with (mkO [v0 Tra (p + 0)] zero_store nomask false). reflexivity.
  - change (asz_of ex_le_before i) with 0. pose proof W_pos. lia.
  - change (asz_of ex_le_before i) with 0. change (asz_of ex_le_before j) with 0. lia.
Qed.

(* hence the behaviours of ex_le_before and ex_le_after coincide under X0, for every input state *)
Example le_nonvacuous : forall fuel c, wf_store (cs c) ->
  oeq (run fuel X0 ex_le_before 0%N 0%N c) (run fuel X0 ex_le_after 0%N 0%N c).
Proof. intros. exact (le_check_sound _ _ X0 (fun _ => 0) le_accepts X0_good fuel c H). Qed.
