(* C14M / MemSemProofs.v -- basic lemmas about the semantics of MemSem.v: byte encoding, footprints, and the
   simulation of one instruction executed in two states that agree outside a set of cells it does not read. *)
From Coq Require Import ZArith NArith List Bool String Lia.
From Verif Require Import C14M.MemSem.
Import ListNotations.
Open Scope string_scope.
Open Scope Z_scope.

Lemma W_pos : 0 < W. Proof. reflexivity. Qed.
Lemma W_256 : W = 256 ^ 32. Proof. reflexivity. Qed.

(* ------------------------------------------------------------------ bytes <-> words *)
Lemma decn_ext : forall n f g, (forall i, 0 <= i < Z.of_nat n -> f i = g i) -> decn n f = decn n g.
Proof.
  induction n; intros f g H; cbn [decn]; [reflexivity|].
  rewrite (IHn f g) by (intros; apply H; lia). rewrite H by lia. reflexivity.
Qed.

Lemma decn_enc : forall (n : nat) w, (n <= 32)%nat -> 0 <= w ->
  decn n (enc_byte w) = (w / 256 ^ (32 - Z.of_nat n)) mod 256 ^ Z.of_nat n.
Proof.
  induction n; intros w Hn Hw.
  - cbn [decn]. change (256 ^ Z.of_nat 0) with 1. rewrite Z.mod_1_r. reflexivity.
  - cbn [decn]. rewrite IHn by lia. unfold enc_byte.
    set (k := Z.of_nat n). assert (Hk : 0 <= k <= 31) by (subst k; lia).
    replace (Z.of_nat (S n)) with (k + 1) by (subst k; lia).
    replace (32 - k) with ((31 - k) + 1) by lia.
    replace (32 - (k + 1)) with (31 - k) by lia.
    set (u := w / 256 ^ (31 - k)).
    assert (Hdiv : w / 256 ^ (31 - k + 1) = u / 256).
    { subst u. rewrite Z.pow_add_r by lia. rewrite Z.pow_1_r. rewrite Z.div_div; [reflexivity| |lia].
      apply Z.pow_nonzero; lia. }
    rewrite Hdiv.
    rewrite (Z.pow_add_r 256 k 1) by lia. rewrite Z.pow_1_r.
    rewrite (Z.mul_comm (256 ^ k) 256).
    rewrite (Z.rem_mul_r u 256 (256 ^ k)) by (try lia; apply Z.pow_pos_nonneg; lia).
    lia.
Qed.

Lemma dec_enc : forall w, 0 <= w < W -> dec32 (enc_byte w) = w.
Proof.
  intros w Hw. unfold dec32. rewrite decn_enc by lia.
  change (32 - Z.of_nat 32) with 0. change (256 ^ 0) with 1. rewrite Z.div_1_r.
  change (256 ^ Z.of_nat 32) with W. apply Z.mod_small. exact Hw.
Qed.

Lemma decn_bounds : forall n b, (forall i, 0 <= i < Z.of_nat n -> 0 <= b i < 256) -> 0 <= decn n b < 256 ^ Z.of_nat n.
Proof.
  induction n; intros b H.
  - cbn. lia.
  - cbn [decn]. assert (IH := IHn b ltac:(intros; apply H; lia)).
    assert (Hb := H (Z.of_nat n) ltac:(lia)).
    replace (Z.of_nat (S n)) with (Z.of_nat n + 1) by lia.
    rewrite Z.pow_add_r by lia. rewrite Z.pow_1_r. nia.
Qed.

Lemma decn_digit : forall n b, (forall i, 0 <= i < Z.of_nat n -> 0 <= b i < 256) ->
  forall i, 0 <= i < Z.of_nat n -> (decn n b / 256 ^ (Z.of_nat n - 1 - i)) mod 256 = b i.
Proof.
  induction n; intros b H i Hi; [lia|].
  cbn [decn].
  assert (Hb := H (Z.of_nat n) ltac:(lia)).
  destruct (Z.eq_dec i (Z.of_nat n)) as [E|E].
  - subst i. replace (Z.of_nat (S n) - 1 - Z.of_nat n) with 0 by lia. change (256 ^ 0) with 1.
    rewrite Z.div_1_r. rewrite Z.add_comm. rewrite Z.mod_add by lia. apply Z.mod_small. lia.
  - replace (Z.of_nat (S n) - 1 - i) with ((Z.of_nat n - 1 - i) + 1) by lia.
    rewrite Z.pow_add_r by lia. rewrite Z.pow_1_r.
    rewrite (Z.mul_comm (256 ^ (Z.of_nat n - 1 - i)) 256).
    rewrite <- Z.div_div; [| lia | apply Z.pow_pos_nonneg; lia].
    rewrite Z.div_add_l by lia. rewrite (Z.div_small (b (Z.of_nat n)) 256) by lia. rewrite Z.add_0_r.
    apply IHn; [intros; apply H; lia | lia].
Qed.

Lemma enc_dec : forall b, (forall i, 0 <= i < 32 -> 0 <= b i < 256) ->
  0 <= dec32 b < W /\ forall i, 0 <= i < 32 -> enc_byte (dec32 b) i = b i.
Proof.
  intros b H. unfold dec32. split.
  - exact (decn_bounds 32 b H).
  - intros i Hi. unfold enc_byte. exact (decn_digit 32 b H i Hi).
Qed.

Lemma enc_byte_range : forall w i, 0 <= enc_byte w i < 256.
Proof. intros. unfold enc_byte. apply Z.mod_pos_bound. lia. Qed.

(* ------------------------------------------------------------------ operands and variables *)
Lemma oval_range : forall c o, 0 <= oval c o < W.
Proof. intros c [v|x|l]; cbn; apply Z.mod_pos_bound; exact W_pos. Qed.

Lemma oval_ext : forall c c' o, (forall x, c x = c' x) -> oval c o = oval c' o.
Proof. intros c c' [v|x|l] H; cbn; try reflexivity. rewrite H. reflexivity. Qed.

Lemma ovals_ext : forall c c' l, (forall x, c x = c' x) -> map (oval c) l = map (oval c') l.
Proof. intros. apply map_ext. intros. apply oval_ext. assumption. Qed.

Lemma bind_other : forall outs c vals x, ~ In x outs -> bind c outs vals x = c x.
Proof.
  induction outs as [|o t IH]; intros c vals x H; cbn [bind]; [reflexivity|].
  rewrite IH by (intro; apply H; right; assumption).
  destruct (N.eqb x o) eqn:E; [|reflexivity]. apply N.eqb_eq in E. exfalso. apply H. left. congruence.
Qed.

Lemma bind_ext : forall outs c c' vals, (forall x, c x = c' x) -> forall x, bind c outs vals x = bind c' outs vals x.
Proof.
  induction outs as [|o t IH]; intros c c' vals H x; cbn [bind]; [apply H|].
  apply IH. intros y. destruct (N.eqb y o); [reflexivity|apply H].
Qed.

Lemma bind_one : forall c x vals, bind c [x] vals x = hd 0 vals mod W.
Proof. intros. cbn. rewrite N.eqb_refl. reflexivity. Qed.

(* ------------------------------------------------------------------ footprints *)
Lemma view_ext : forall sh a st st', (forall s k, rd sh a s k = true -> st s k = st' s k) ->
  store_eq (view sh a st) (view sh a st').
Proof. intros sh a st st' H s k. unfold view. destruct (rd sh a s k) eqn:E; [apply H; exact E|reflexivity]. Qed.

Lemma sp_eqb_eq : forall a b, sp_eqb a b = true <-> a = b.
Proof. intros a b; split; [destruct a, b; cbn; intros; try reflexivity; discriminate | intros ->; destruct b; reflexivity]. Qed.

Lemma seqb_eq : forall a b : string, (a =s b) = true <-> a = b.
Proof. intros. apply String.eqb_eq. Qed.

Lemma no_writes_merge : forall sh a r st, sh_w sh = [] -> sh_wall sh = [] -> store_eq (merge sh a r st) st.
Proof. intros sh a r st H1 H2 s k. unfold merge, wr. rewrite H1, H2. reflexivity. Qed.

Lemma norm_wf : forall s v, match s with Mem => 0 <= norm s v < 256 | Sto | Tra => 0 <= norm s v < W | _ => True end.
Proof. intros [] v; cbn; try exact I; apply Z.mod_pos_bound; try lia; exact W_pos. Qed.

Lemma merge_wf : forall sh a r st, wf_store st -> wf_store (merge sh a r st).
Proof.
  intros sh a r st H k. unfold merge. destruct (H k) as [H1 [H2 H3]].
  repeat split; match goal with |- context [if ?c then _ else _] => destruct c end; try lia;
    try (pose proof (norm_wf Mem (o_cell r Mem k)); cbn in *; lia);
    try (pose proof (norm_wf Sto (o_cell r Sto k)); cbn in *; lia);
    try (pose proof (norm_wf Tra (o_cell r Tra k)); cbn in *; lia).
Qed.

(* ------------------------------------------------------------------ one instruction in two related states *)
Definition ceq (P : sp -> Z -> Prop) (c c' : cfg) : Prop :=
  (forall x, cv c x = cv c' x) /\ ct c = ct c' /\ (forall s k, ~ P s k -> cs c s k = cs c' s k).

Definition sres_rel (P : sp -> Z -> Prop) (r r' : sres) : Prop :=
  match r, r' with
  | SNext c, SNext c' => ceq P c c'
  | SJump l c, SJump l' c' => l = l' /\ ceq P c c'
  | SHalt op a v, SHalt op' a' v' => op = op' /\ a = a' /\ store_eq v v'
  | _, _ => False
  end.


(* cells on which the two states may still differ after the instruction: a must-write ends the difference *)
Definition Pafter (P : sp -> Z -> Prop) (sh : shape) (a : list Z) : sp -> Z -> Prop :=
  fun s k => P s k /\ ~ (wr sh a s k = true /\ sh_must sh = true).

Lemma ceq_weaken : forall (P Q : sp -> Z -> Prop) c c', (forall s k, P s k -> Q s k) -> ceq P c c' -> ceq Q c c'.
Proof. intros P Q c c' H [H1 [H2 H3]]. repeat split; auto; try (intros s k N; apply H3; intro; apply N; auto). Qed.

Lemma store_eq_refl : forall s, store_eq s s. Proof. intros s a k. reflexivity. Qed.

Lemma step_rel : forall X P i c c',
  X_ext X -> ceq P c c' ->
  (forall s k, rd (rshape (i_op i)) (map (oval (cv c)) (i_args i)) s k = true -> ~ P s k) ->
  sres_rel (Pafter P (wshape (i_op i)) (map (oval (cv c)) (i_args i))) (step X i c) (step X i c').
Proof.
  intros X P i c c' HX [Hv [Ht Hs]] Hrd.
  assert (Ha : map (oval (cv c)) (i_args i) = map (oval (cv c')) (i_args i)) by (apply ovals_ext; exact Hv).
  assert (Hc1 : forall Q : sp -> Z -> Prop, (forall s k, Q s k -> P s k) ->
                ceq Q (mkC (cv c) (cs c) (ct c + 1)) (mkC (cv c') (cs c') (ct c' + 1)) -> True) by (intros; exact I).
  assert (Hctl : is_in (i_op i) CTL_OPS = true ->
                 ceq (Pafter P (wshape (i_op i)) (map (oval (cv c)) (i_args i)))
                     (mkC (cv c) (cs c) (ct c + 1)) (mkC (cv c') (cs c') (ct c' + 1))).
  { intros E. unfold wshape. rewrite E. repeat split; cbn [cv cs ct]; auto; [lia|].
    intros s k N. apply Hs. intro Pk. apply N. split; [exact Pk|]. intros [Wr _]. unfold wr in Wr. cbn in Wr. discriminate. }
  unfold step. rewrite <- Ha.
  set (a := map (oval (cv c)) (i_args i)) in *.
  unfold rshape, wshape in Hrd.
  destruct (i_op i =s "jmp") eqn:E1.
  { destruct (i_args i) as [|[v|x|l] [|? ?]]; cbn; auto using store_eq_refl.
    split; [reflexivity|]. apply Hctl. unfold is_in, CTL_OPS. cbn. rewrite E1. reflexivity. }
  destruct (i_op i =s "jnz") eqn:E2.
  { assert (Hj : is_in (i_op i) CTL_OPS = true) by (unfold is_in, CTL_OPS; cbn; rewrite E2; apply orb_true_r).
    destruct (i_args i) as [|cond [|[v|x|l] [|[v2|x2|l2] [|? ?]]]]; cbn; auto using store_eq_refl.
    split; [|apply Hctl; exact Hj]. rewrite (oval_ext (cv c) (cv c') cond Hv). reflexivity. }
  destruct (i_op i =s "djmp") eqn:E3.
  { assert (Hj : is_in (i_op i) CTL_OPS = true) by (unfold is_in, CTL_OPS; cbn; rewrite E3; rewrite !orb_true_r; reflexivity).
    destruct (labels_of (i_args i)); cbn; auto using store_eq_refl. }
  destruct (is_in (i_op i) HALT_OPS) eqn:E4.
  { cbn. repeat split; auto. apply view_ext. intros s k R. apply Hs. apply Hrd. exact R. }
  destruct (i_op i =s "assert") eqn:E5.
  { assert (Hj : is_in (i_op i) CTL_OPS = true) by (unfold is_in, CTL_OPS; cbn; rewrite E5; rewrite !orb_true_r; reflexivity).
    destruct (hd 0 a =? 0); cbn; auto using store_eq_refl. }
  destruct (i_op i =s "assert_unreachable") eqn:E6.
  { assert (Hj : is_in (i_op i) CTL_OPS = true) by (unfold is_in, CTL_OPS; cbn; rewrite E6; rewrite !orb_true_r; reflexivity).
    destruct (hd 0 a =? 0); cbn; auto using store_eq_refl. }
  assert (Hn : is_in (i_op i) CTL_OPS = false) by (unfold is_in, CTL_OPS; cbn; rewrite E1, E2, E3, E5, E6; reflexivity).
  rewrite Hn in Hrd. unfold wshape. rewrite Hn.
  set (sh := shape_of (i_op i)) in *.
  assert (Hview : store_eq (view sh a (cs c)) (view sh a (cs c'))).
  { apply view_ext. intros s k R. apply Hs. apply Hrd. exact R. }
  rewrite Ht.
  destruct (HX (i_op i) a (if sh_vol sh then ct c' else 0) _ _ Hview) as [Ho [Hf [Hcell Hmask]]].
  rewrite Hf.
  destruct (sh_fail sh && o_fail (X (i_op i) a (if sh_vol sh then ct c' else 0) (view sh a (cs c')))); cbn; auto using store_eq_refl.
  repeat split; cbn [cv cs ct]; auto.
  - intros x. rewrite Ho. apply bind_ext. exact Hv.
  - intros s k N. unfold merge. rewrite Hmask, Hcell.
    destruct (wr sh a s k) eqn:Wr; cbn [andb].
    + destruct (sh_must sh) eqn:M; cbn [orb].
      * reflexivity.
      * destruct (o_mask _ s k); [reflexivity|]. apply Hs. intro Pk. apply N. split; [exact Pk|]. intros [_ F]. congruence.
    + apply Hs. intro Pk. apply N. split; [exact Pk|]. intros [F _]. congruence.
Qed.
