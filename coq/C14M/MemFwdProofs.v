(* C14M / MemFwdProofs.v -- soundness of the validator for LoadElimination and CSE (fwd_check). *)
From Coq Require Import ZArith NArith List Bool String Lia.
From Verif Require Import Base.PyInt C14.MemLocBase C14.GenMemLoc C14M.MemSem C14M.MemFacts C14M.MemSemProofs C14M.MemFactsProofs.
Import ListNotations.
Open Scope string_scope.
Open Scope Z_scope.

Lemma exec_not_next : forall X l c c', exec X l c <> SNext c'.
Proof.
  intros X. induction l as [|i t IH]; intros c c'; cbn [exec]; [discriminate|].
  destruct (step X i c) eqn:E; try discriminate. apply IH.
Qed.

Lemma nth_mod_in : forall (z : Z) (l0 : N) ls,
  In (nth (Z.to_nat (z mod Z.of_nat (List.length (l0 :: ls)))) (l0 :: ls) 0%N) (l0 :: ls).
Proof.
  intros. apply nth_In. apply Nat2Z.inj_lt.
  assert (0 < Z.of_nat (List.length (l0 :: ls))) by (cbn [List.length]; lia).
  rewrite Z2Nat.id; apply Z.mod_pos_bound; assumption.
Qed.

Lemma jump_in_succs : forall X i c s c2, step X i c = SJump s c2 -> In s (succs i).
Proof.
  intros X i c s c2 H. unfold step in H. unfold succs, is_in. cbn [existsb].
  destruct (i_op i =s "jmp") eqn:E1.
  { cbn [orb]. destruct (i_args i) as [|[v|x|l] [|? ?]]; try discriminate. inversion H; subst. cbn. left. reflexivity. }
  destruct (i_op i =s "jnz") eqn:E2.
  { cbn [orb]. destruct (i_args i) as [|cond [|[v|x|l] [|[v2|x2|l2] [|? ?]]]]; try discriminate.
    inversion H; subst. unfold labels_of. cbn [flat_map]. apply in_or_app. right. cbn.
    destruct (oval (cv c) cond =? 0); auto. }
  destruct (i_op i =s "djmp") eqn:E3.
  { cbn [orb]. destruct (labels_of (i_args i)) as [|l0 ls] eqn:L; [discriminate|]. injection H as <- _.
    exact (nth_mod_in _ l0 ls). }
  destruct (is_in (i_op i) HALT_OPS); [discriminate|].
  destruct (i_op i =s "assert"); [destruct (hd 0 _ =? 0); discriminate|].
  destruct (i_op i =s "assert_unreachable"); [destruct (hd 0 _ =? 0); discriminate|].
  cbn zeta in H. destruct (sh_fail _ && _); discriminate.
Qed.

Lemma jump_state : forall X i c s c2, step X i c = SJump s c2 -> c2 = mkC (cv c) (cs c) (ct c + 1).
Proof.
  intros X i c s c2 H.
  destruct (is_in (i_op i) CTL_OPS) eqn:C.
  - pose proof (step_ctl X i c C) as S. rewrite H in S. exact S.
  - exfalso. destruct (is_in (i_op i) HALT_OPS) eqn:Hh.
    + unfold step in H.
      rewrite (is_in_false_not _ _ C "jmp") in H by (cbn; auto).
      rewrite (is_in_false_not _ _ C "jnz") in H by (cbn; auto).
      rewrite (is_in_false_not _ _ C "djmp") in H by (cbn; auto 6).
      rewrite Hh in H. discriminate.
    + rewrite (step_generic X i c C Hh) in H. cbn zeta in H. destruct (sh_fail _ && _); discriminate.
Qed.

Lemma holds_agree : forall X c c' st g, (forall o, In o (fact_ops g) -> oval c' o = oval c o) -> holds X c st g -> holds X c' st g.
Proof.
  intros X c c' st [v op args|s p v|x] H Hh; cbn [holds fact_ops] in *.
  - destruct Hh as [R Hh]. split; [exact R|]. rewrite (H v (or_introl eq_refl)).
    replace (map (oval c') args) with (map (oval c) args); [exact Hh|].
    apply map_ext_in. intros o Ho. symmetry. apply H. right. exact Ho.
  - destruct Hh as [R Hh]. split; [exact R|]. rewrite (H p (or_introl eq_refl)), (H v (or_intror (or_introl eq_refl))). exact Hh.
  - rewrite (H x (or_introl eq_refl)). exact Hh.
Qed.

Lemma do_phis_other : forall phis p c x, ~ In x (flat_map (fun i => match phi_out i with Some o => [o] | None => [] end) phis) ->
  do_phis phis p c x = c x.
Proof.
  intros phis p c x H. unfold do_phis.
  destruct (find _ phis) as [i|] eqn:E; [|reflexivity]. exfalso. apply find_some in E. destruct E as [Hin E].
  apply H. apply in_flat_map. exists i. split; [exact Hin|]. destruct (phi_out i) as [o|]; [|discriminate].
  apply N.eqb_eq in E. subst. left. reflexivity.
Qed.

Lemma do_phis_ext : forall phis p c c', (forall x, c x = c' x) -> forall x, do_phis phis p c x = do_phis phis p c' x.
Proof.
  intros phis p c c' H x. unfold do_phis. destruct (find _ phis); [|apply H].
  unfold phi_val. destruct (phi_pick p (i_args i)); [apply oval_ext; exact H|reflexivity].
Qed.

Lemma unmentioned_ops : forall g outs c c', (forall x, ~ In x outs -> c' x = c x) ->
  (forall x, In x outs -> mentions g x = false) -> forall o, In o (fact_ops g) -> oval c' o = oval c o.
Proof.
  intros g outs c c' Hc Hm o Ho. apply (oval_unmentioned c c' outs o Hc).
  intros x Hx. specialize (Hm x Hx). unfold mentions in Hm. destruct (is_var x o) eqn:E; [|reflexivity]. exfalso.
  assert (existsb (is_var x) (fact_ops g) = true) by (apply existsb_exists; exists o; split; assumption). congruence.
Qed.

Section Fwd.
Variable X : oracle.
Variable A : Z -> Z.
Variables f f' : func.
Variable C : cert.
Hypothesis HX : X_ext X.
Hypothesis HE : exact X A (asz_of f).

(* what a jump into block s guarantees *)
Definition entry_ok (s : N) (c : cfg) : Prop :=
  (N.to_nat s < List.length f)%nat /\
  forall g, In g (cert_at C s) -> holds X (cv c) (cs c) g /\ forall x, In x (phi_outs (nth_block f s)) -> mentions g x = false.

Lemma edge_ok_sound : forall F s c, edge_ok f C F s = true -> all_hold X (cv c) (cs c) F -> entry_ok s c.
Proof.
  intros F s c H HF. unfold edge_ok in H. apply andb_true_iff in H. destruct H as [H1 H2]. split.
  - apply N.ltb_lt in H1. lia.
  - intros g Hg. rewrite forallb_forall in H2. specialize (H2 g Hg). apply andb_true_iff in H2. destruct H2 as [H2 H3].
    split; [apply HF; apply has_fact_in; exact H2|].
    intros x Hx. apply negb_true_iff in H3. destruct (mentions g x) eqn:E; [|reflexivity].
    assert (existsb (mentions g) (phi_outs (nth_block f s)) = true) by (apply existsb_exists; exists x; split; assumption). congruence.
Qed.

Lemma scan_sound : forall l l' F c c1,
  scan true f C (asz_of f) F l l' = true -> all_hold X (cv c) (cs c) F -> wf_store (cs c) -> ceq P0 c c1 ->
  match exec X l c, exec X l' c1 with
  | SHalt op a v, SHalt op' a' v' => op = op' /\ a = a' /\ store_eq v v'
  | SJump s c2, SJump s' c2' => s = s' /\ ceq P0 c2 c2' /\ wf_store (cs c2) /\ entry_ok s c2
  | _, _ => False
  end.
Proof.
  induction l as [|i t IH]; intros [|i' t'] F c c1 H HF Hwf Hc; cbn [scan] in H; try discriminate.
  - cbn. repeat split; auto; apply store_eq_refl.
  - apply andb_true_iff in H. destruct H as [H H3]. apply andb_true_iff in H. destruct H as [H1 H2].
    pose proof (justified_sound X A (asz_of f) HX HE F i i' c c1 HF Hwf Hc H1) as R.
    cbn [exec]. destruct (step X i c) as [c2|s c2|op a v] eqn:E; destruct (step X i' c1) as [c2'|s' c2'|op' a' v'] eqn:E';
      cbn [sres_rel] in R; try contradiction.
    + apply (IH t' (next_facts true F (asz_of f) i i') c2 c2' H3); [| |exact R].
      * exact (next_facts_sound X A (asz_of f) HX HE F i i' c c2 HF Hwf E).
      * destruct (step_post X i c c2 (or_introl E)) as [_ [_ W]]. apply W. exact Hwf.
    + destruct R as [-> R]. split; [reflexivity|]. split; [exact R|].
      pose proof (jump_state X i c s' c2 E) as ->. cbn [cs cv]. split; [exact Hwf|].
      rewrite forallb_forall in H2. apply (edge_ok_sound F s' _ (H2 s' (jump_in_succs X i c s' _ E))). exact HF.
    + exact R.
Qed.

Hypothesis Hchk : fwd_check_with true f f' C = true.

Lemma run_sim : forall fuel b p c c1, entry_ok b c -> ceq P0 c c1 -> wf_store (cs c) ->
  oeq (run fuel X f b p c) (run fuel X f' b p c1).
Proof.
  induction fuel as [|n IH]; intros b p c c1 [Hb Hent] Hc Hwf; cbn [run]; [exact I|].
  pose proof Hchk as K0. unfold fwd_check_with in K0.
  apply andb_true_iff in K0. destruct K0 as [K K4]. apply andb_true_iff in K. destruct K as [K K3].
  apply andb_true_iff in K. destruct K as [K1 K2].
  cbn zeta in K4. rewrite forallb_forall in K4. specialize (K4 (N.to_nat b) ltac:(apply in_seq; lia)).
  rewrite N2Nat.id in K4. unfold check_block in K4. apply andb_true_iff in K4. destruct K4 as [Kp Ks].
  apply (list_eqb_eq _ inst_eqb inst_eqb_eq) in Kp. rewrite <- Kp.
  set (phis := leading_phis (nth_block f b)) in *.
  assert (Hc0 : ceq P0 (mkC (do_phis phis p (cv c)) (cs c) (ct c)) (mkC (do_phis phis p (cv c1)) (cs c1) (ct c1))).
  { destruct Hc as [Hv [Ht Hs]]. repeat split; cbn [cv cs ct]; auto. apply do_phis_ext. exact Hv. }
  assert (HF0 : all_hold X (do_phis phis p (cv c)) (cs c) (cert_at C b)).
  { intros g Hg. destruct (Hent g Hg) as [Hh Hm]. apply (holds_agree X (cv c)); [|exact Hh].
    apply (unmentioned_ops g (phi_outs (nth_block f b))); [|exact Hm].
    intros x Hx. apply do_phis_other. exact Hx. }
  pose proof (scan_sound _ _ _ (mkC (do_phis phis p (cv c)) (cs c) (ct c)) (mkC (do_phis phis p (cv c1)) (cs c1) (ct c1)) Ks HF0 Hwf Hc0) as S.
  destruct (exec X (body (nth_block f b)) _) as [c2|s c2|op a v] eqn:E1;
    destruct (exec X (body (nth_block f' b)) _) as [c2'|s' c2'|op' a' v'] eqn:E2; try contradiction.
  - destruct S as [<- [S1 [S2 S3]]]. apply IH; assumption.
  - exact S.
Qed.
End Fwd.

Theorem fwd_check_sound : forall f f' X A, fwd_check f f' = true -> good X A f ->
  forall fuel c, wf_store (cs c) -> oeq (run fuel X f 0%N 0%N c) (run fuel X f' 0%N 0%N c).
Proof.
  intros f f' X A H [HX HE] fuel c Hwf.
  assert (exists C, fwd_check_with true f f' C = true) as [C HC].
  { unfold fwd_check in H. apply orb_true_iff in H. destruct H as [H|H]; eexists; exact H. }
  apply (run_sim X A f f' C HX HE HC).
  - pose proof HC as K. unfold fwd_check_with in K.
    apply andb_true_iff in K. destruct K as [K _]. apply andb_true_iff in K. destruct K as [K K3].
    apply andb_true_iff in K. destruct K as [_ K2]. split.
    + destruct f; [discriminate|]. cbn. lia.
    + destruct (cert_at C 0%N); [intros g []|discriminate].
  - repeat split; auto.
  - exact Hwf.
Qed.
