(* C14M / MemDseProofs.v -- soundness of the validator for DeadStoreElimination (dse_check). *)
From Coq Require Import ZArith NArith List Bool String Lia.
From Verif Require Import Base.PyInt C14.MemLocBase C14.GenMemLoc C14.MemLocSound
  C14M.MemSem C14M.MemFacts C14M.MemDse C14M.MemSemProofs C14M.MemFactsProofs C14M.MemFwdProofs.
Import ListNotations.
Open Scope string_scope.
Open Scope Z_scope.

Lemma pitem_eqb_eq : forall a b, pitem_eqb a b = true -> a = b.
Proof.
  intros [s [o n a]] [s' [o' n' a']] H. unfold pitem_eqb, ml_eqb in H. cbn in H.
  apply andb_true_iff in H. destruct H as [H1 H]. apply andb_true_iff in H. destruct H as [H H4].
  apply andb_true_iff in H. destruct H as [H2 H3]. apply sp_eqb_eq in H1.
  assert (E : forall x y, oz_eqb x y = true -> x = y).
  { intros [x|] [y|] E; cbn in E; try discriminate; [apply Z.eqb_eq in E; congruence|reflexivity]. }
  apply E in H2, H3, H4. congruence.
Qed.

Section Dse.
Variable X : oracle.
Variable A : Z -> Z.
Variables f f' : func.
Variable C : cert.
Variable Q : qcert.
Hypothesis HX : X_ext X.
Hypothesis HE : exact X A (asz_of f).
Let asz := asz_of f.

(* the cells of the pending items *)
Definition Pden (P : list pitem) : sp -> Z -> Prop := fun s k => exists x, In x P /\ fst x = s /\ aden A (snd x) k.

Lemma Pden_mono : forall P P' s k, (forall x, In x P -> In x P') -> Pden P s k -> Pden P' s k.
Proof. intros P P' s k H [x [Hx R]]. exists x. split; [apply H; exact Hx|exact R]. Qed.

Lemma reads_clear_sound : forall F i c P, all_hold X (cv c) (cs c) F ->
  forallb (reads_clear true F asz i) P = true ->
  forall s k, rd (rshape (i_op i)) (map (oval (cv c)) (i_args i)) s k = true -> ~ Pden P s k.
Proof.
  intros F i c P HF H s k Rd [x [Hx [Es Ad]]]. rewrite forallb_forall in H. specialize (H x Hx).
  unfold reads_clear in H. apply andb_true_iff in H. destruct H as [H1 H2]. apply negb_true_iff in H1.
  unfold rd in Rd. apply orb_true_iff in Rd. destruct Rd as [Rd|Rd].
  - rewrite Es in H1. congruence.
  - apply existsb_exists in Rd. destruct Rd as [r [Hr Hin]].
    destruct (sym_loc_sound X A asz HE F (cv c) (cs c) (i_args i) r s k HF Hin) as [Sp Ad'].
    rewrite forallb_forall in H2. specialize (H2 r Hr). rewrite Sp, Es, sp_eqb_refl in H2. cbn [negb orb] in H2.
    exact (locs_disjoint_sound X A asz HE _ _ k H2 Ad' Ad).
Qed.

(* a fully resolved symbolic location denotes exactly the concrete range *)
Lemma sym_loc_complete : forall F c st args r k, all_hold X c st F ->
  ml_fixed (sym_loc F asz args r) = true -> aden A (sym_loc F asz args r) k ->
  in_cr (conc_range (map (oval c) args) r) (sr_sp r) k = true.
Proof.
  intros F c st args r k HF Hfix [j [D K]]. unfold in_cr, conc_range. cbn [cr_sp cr_lo cr_len]. rewrite sp_eqb_refl. cbn [andb].
  unfold sym_loc in *. pose proof (sym_size_ok c args (sr_size r)) as Hsz.
  destruct (sr_ptr r) as [i|z].
  - rewrite aget_oval.
    pose proof (resolve_sound X A asz HE RFUEL F c st (aget (OLab 0) args i) HF) as R.
    destruct (resolve RFUEL F asz (aget (OLab 0) args i)) as [b o].
    unfold ml_fixed in Hfix. cbn [mkml ml_offset ml_size ml_alloca] in *.
    destruct o as [o|]; [|discriminate]. destruct (sym_size args (sr_size r)) as [n|]; [|discriminate].
    specialize (Hsz n eq_refl). cbn in R. destruct R as [R1 _].
    destruct D as [_ [_ D]]. cbn [ml_offset ml_size mkml] in D.
    apply andb_true_iff. split; [apply Z.leb_le|apply Z.ltb_lt]; lia.
  - unfold ml_fixed in Hfix. cbn [mkml ml_offset ml_size ml_alloca base] in *.
    destruct (sym_size args (sr_size r)) as [n|]; [|discriminate]. specialize (Hsz n eq_refl).
    destruct D as [_ [_ D]]. cbn [ml_offset ml_size mkml] in D.
    apply andb_true_iff. split; [apply Z.leb_le|apply Z.ltb_lt]; lia.
Qed.

Lemma covered_sound : forall F i c x k, all_hold X (cv c) (cs c) F -> covered F asz i x = true -> aden A (snd x) k ->
  wr (wshape (i_op i)) (map (oval (cv c)) (i_args i)) (fst x) k = true /\ sh_must (wshape (i_op i)) = true.
Proof.
  intros F i c x k HF H [j [D K]]. unfold covered in H.
  apply andb_true_iff in H. destruct H as [H H3]. apply andb_true_iff in H. destruct H as [H1 _].
  split; [|exact H1]. apply existsb_exists in H3. destruct H3 as [w [Hw H3]].
  apply andb_true_iff in H3. destruct H3 as [H3 H5]. apply andb_true_iff in H3. destruct H3 as [H3 H4].
  apply sp_eqb_eq in H3.
  destruct (completely_contains (sym_loc F asz (i_args i) w) (snd x)) as [[|]|] eqn:CC; try discriminate.
  pose proof (completely_contains_sound _ _ CC _ _ D) as D'.
  assert (Ea : ml_alloca (snd x) = ml_alloca (sym_loc F asz (i_args i) w)) by (destruct D' as [_ [E _]]; exact E).
  assert (Ad : aden A (sym_loc F asz (i_args i) w) k).
  { exists j. rewrite <- Ea. split; [exact D'|exact K]. }
  pose proof (sym_loc_complete F (cv c) (cs c) (i_args i) w k HF H4 Ad) as In.
  unfold wr. apply orb_true_iff. right. apply existsb_exists. exists w. split; [exact Hw|]. rewrite <- H3. exact In.
Qed.

Lemma has_item_in : forall x P, has_item x P = true -> In x P.
Proof.
  intros x P H. unfold has_item in H. apply existsb_exists in H. destruct H as [y [Hy E]].
  apply pitem_eqb_eq in E. subst. exact Hy.
Qed.

Lemma pfacts_hold : forall F i c c', all_hold X (cv c) (cs c) F -> wf_store (cs c) -> continues (step X i c) c' ->
  all_hold X (cv c') (cs c') (pfacts_step F asz i).
Proof.
  intros F i c c' HF Hwf Hst g Hg. unfold pfacts_step in Hg. apply filter_In in Hg. destruct Hg as [Hg _].
  exact (facts_step_sound X A asz HX HE F i c c' HF Hwf Hst g Hg).
Qed.

Lemma deletable_inv : forall op, deletable op = true ->
  sh_wall (shape_of op) = [] /\ sh_fail (shape_of op) = false /\ is_in op HALT_OPS = false /\ is_in op CTL_OPS = false.
Proof.
  intros op H. unfold deletable in H. repeat (apply andb_true_iff in H; destruct H as [H ?]).
  repeat match goal with Hn : negb _ = true |- _ => apply negb_true_iff in Hn end.
  destruct (sh_wall (shape_of op)); [|discriminate]. auto.
Qed.

Lemma dscan_sound : forall l l' F P c c1,
  dscan true f C Q asz F P l l' = true -> all_hold X (cv c) (cs c) F -> wf_store (cs c) -> ceq (Pden P) c c1 ->
  match exec X l c, exec X l' c1 with
  | SHalt op a v, SHalt op' a' v' => op = op' /\ a = a' /\ store_eq v v'
  | SJump s c2, SJump s' c2' => s = s' /\ ceq (Pden (q_at Q s)) c2 c2' /\ wf_store (cs c2) /\ entry_ok X f C s c2
  | _, _ => False
  end.
Proof.
  induction l as [|i t IH]; intros [|i' t'] F P c c1 H HF Hwf Hc; cbn [dscan] in H; try discriminate.
  - cbn. repeat split; auto; apply store_eq_refl.
  - destruct (inst_eqb i i') eqn:Ei.
    + apply inst_eqb_eq in Ei. subst i'.
      apply andb_true_iff in H. destruct H as [H H3]. apply andb_true_iff in H. destruct H as [H1 H2].
      pose proof (step_rel X (Pden P) i c c1 HX Hc (reads_clear_sound F i c P HF H1)) as R.
      cbn [exec]. destruct (step X i c) as [c2|s c2|op a v] eqn:E; destruct (step X i c1) as [c2'|s' c2'|op' a' v'] eqn:E';
        cbn [sres_rel] in R; try contradiction.
      * apply (IH t' _ _ c2 c2' H3).
        -- apply (pfacts_hold F i c c2 HF Hwf). left. exact E.
        -- destruct (step_post X i c c2 (or_introl E)) as [_ [_ Wf]]. apply Wf. exact Hwf.
        -- eapply ceq_weaken; [|exact R]. intros s k [[x [Hx [Es Ad]]] Nw].
           destruct (covered F asz i x) eqn:Cv.
           ++ exfalso. apply Nw. rewrite <- Es. exact (covered_sound F i c x k HF Cv Ad).
           ++ exists x. split; [apply filter_In; split; [exact Hx|rewrite Cv; reflexivity]|split; assumption].
      * destruct R as [-> R]. split; [reflexivity|].
        rewrite forallb_forall in H2. specialize (H2 s' (jump_in_succs X i c s' _ E)).
        unfold dedge_ok in H2. apply andb_true_iff in H2. destruct H2 as [He Hq].
        pose proof (jump_state X i c s' c2 E) as ->. cbn [cs cv]. split; [|split; [exact Hwf|]].
        -- eapply ceq_weaken; [|exact R]. intros s k [Pk _]. eapply Pden_mono; [|exact Pk].
           intros x Hx. rewrite forallb_forall in Hq. apply has_item_in. apply Hq. exact Hx.
        -- apply (edge_ok_sound X f C F s' _ He). exact HF.
      * exact R.
    + apply andb_true_iff in H. destruct H as [H H4]. apply andb_true_iff in H. destruct H as [H H3].
      apply andb_true_iff in H. destruct H as [H1 H2].
      destruct (deleted_items F asz i) as [ls|] eqn:Dl; [|discriminate].
      destruct (deletable_inv _ H3) as [Wall [Fl [Hh Hctl]]].
      unfold is_nop in H1. apply andb_true_iff in H1. destruct H1 as [H1 Na]. apply andb_true_iff in H1. destruct H1 as [Eop No].
      apply seqb_eq in Eop. destruct (i_outs i') eqn:Ho'; [|discriminate]. destruct (i_outs i) eqn:Ho; [|discriminate].
      assert (Ro' : ro_ok (i_op i') = true) by (rewrite Eop; reflexivity).
      destruct (ro_step X i' c1 Ro') as [st1 [E2 S2]].
      cbn [exec]. rewrite E2. rewrite (step_generic X i c Hctl Hh). cbn zeta. rewrite Fl. cbn [andb].
      set (a := map (oval (cv c)) (i_args i)). set (sh := shape_of (i_op i)) in *.
      set (r := X (i_op i) a (if sh_vol sh then ct c else 0) (view sh a (cs c))).
      assert (Est : step X i c = SNext (mkC (bind (cv c) (i_outs i) (o_outs r)) (merge sh a r (cs c)) (ct c + 1))).
      { rewrite (step_generic X i c Hctl Hh). cbn zeta. fold sh. rewrite Fl. reflexivity. }
      apply (IH t' _ _ _ _ H4).
      * apply (pfacts_hold F i c _ HF Hwf). left. exact Est.
      * cbn [cs]. apply merge_wf. exact Hwf.
      * destruct Hc as [Hv [Ht Hs]]. rewrite Ho, Ho'. repeat split; cbn [cv cs ct bind]; [exact Hv|lia|].
        intros s k Np. rewrite S2. unfold merge.
        destruct (wr sh a s k) eqn:Wr.
        -- exfalso. apply Np. unfold wr in Wr. rewrite Wall in Wr. cbn [in_sps existsb orb] in Wr.
           apply existsb_exists in Wr. destruct Wr as [w [Hw Hin]].
           destruct (sym_loc_sound X A asz HE F (cv c) (cs c) (i_args i) w s k HF Hin) as [Sp Ad].
           exists (sr_sp w, sym_loc F asz (i_args i) w). split; [|split; [exact Sp|exact Ad]].
           apply in_or_app. left. unfold deleted_items in Dl. fold sh in Dl.
           destruct (forallb _ _) in Dl; [|discriminate]. injection Dl as <-.
           apply (in_map (fun w0 : srange => (sr_sp w0, sym_loc F asz (i_args i) w0))). exact Hw.
        -- cbn [andb]. apply Hs. intro Pk. apply Np. eapply Pden_mono; [|exact Pk]. intros x Hx. apply in_or_app. right. exact Hx.
Qed.

Hypothesis Hchk : dse_check_with true f f' C Q = true.

Lemma drun_sim : forall fuel b p c c1, entry_ok X f C b c -> ceq (Pden (q_at Q b)) c c1 -> wf_store (cs c) ->
  oeq (run fuel X f b p c) (run fuel X f' b p c1).
Proof.
  induction fuel as [|n IH]; intros b p c c1 [Hb Hent] Hc Hwf; cbn [run]; [exact I|].
  pose proof Hchk as K0. unfold dse_check_with in K0.
  apply andb_true_iff in K0. destruct K0 as [K K4]. apply andb_true_iff in K. destruct K as [K _].
  cbn zeta in K4. rewrite forallb_forall in K4. specialize (K4 (N.to_nat b) ltac:(apply in_seq; lia)).
  rewrite N2Nat.id in K4. unfold dcheck_block in K4. apply andb_true_iff in K4. destruct K4 as [Kp Ks].
  apply (list_eqb_eq _ inst_eqb inst_eqb_eq) in Kp. rewrite <- Kp.
  set (phis := leading_phis (nth_block f b)) in *.
  assert (Hc0 : ceq (Pden (q_at Q b)) (mkC (do_phis phis p (cv c)) (cs c) (ct c)) (mkC (do_phis phis p (cv c1)) (cs c1) (ct c1))).
  { destruct Hc as [Hv [Ht Hs]]. repeat split; cbn [cv cs ct]; auto. apply do_phis_ext. exact Hv. }
  assert (HF0 : all_hold X (do_phis phis p (cv c)) (cs c) (cert_at C b)).
  { intros g Hg. destruct (Hent g Hg) as [Hh Hm]. apply (holds_agree X (cv c)); [|exact Hh].
    apply (unmentioned_ops g (phi_outs (nth_block f b))); [|exact Hm].
    intros x Hx. apply do_phis_other. exact Hx. }
  pose proof (dscan_sound _ _ _ _ (mkC (do_phis phis p (cv c)) (cs c) (ct c)) (mkC (do_phis phis p (cv c1)) (cs c1) (ct c1)) Ks HF0 Hwf Hc0) as S.
  destruct (exec X (body (nth_block f b)) _) as [c2|s c2|op a v] eqn:E1;
    destruct (exec X (body (nth_block f' b)) _) as [c2'|s' c2'|op' a' v'] eqn:E2; try contradiction.
  - destruct S as [<- [S1 [S2 S3]]]. apply IH; assumption.
  - exact S.
Qed.
End Dse.

Theorem dse_check_sound : forall f f' X A, dse_check f f' = true -> good X A f ->
  forall fuel c, wf_store (cs c) -> oeq (run fuel X f 0%N 0%N c) (run fuel X f' 0%N 0%N c).
Proof.
  intros f f' X A H [HX HE] fuel c Hwf.
  assert (exists C Q, dse_check_with true f f' C Q = true) as [C [Q HC]].
  { unfold dse_check in H. cbn zeta in H. apply orb_true_iff in H. destruct H as [H|H]; do 2 eexists; exact H. }
  apply (drun_sim X A f f' C Q HX HE HC).
  - pose proof HC as K. unfold dse_check_with in K.
    apply andb_true_iff in K. destruct K as [K _]. apply andb_true_iff in K. destruct K as [K _].
    apply andb_true_iff in K. destruct K as [K _]. apply andb_true_iff in K. destruct K as [K K3].
    apply andb_true_iff in K. destruct K as [_ K2]. split.
    + destruct f; [discriminate|]. cbn. lia.
    + destruct (cert_at C 0%N); [intros g []|discriminate].
  - repeat split; auto.
  - exact Hwf.
Qed.
