(* C14M / MemTie.v -- the footprints of MemSem.v (`shape_of`, written from the EVM definition) against /repo's effect
   tables (C14M/GenMemEffects.v, regenerated from vyper/venom/effects.py on every run): every space the model says an
   instruction reads / writes must be listed by the table the passes consult.  Env (calldata, code, environment) is
   never written and has no row in effects.py. *)
From Coq Require Import ZArith List Bool String.
From Verif Require Import C14M.MemSem C14M.GenMemEffects.
Import ListNotations.
Open Scope string_scope.

Definition model_reads (op : string) : list sp := sh_rall (shape_of op) ++ map sr_sp (sh_r (shape_of op)).
Definition model_writes (op : string) : list sp := sh_wall (shape_of op) ++ map sr_sp (sh_w (shape_of op)).
Definition covered_by (a b : list sp) : bool := forallb (fun s => sp_eqb s Env || in_sps s b) a.

(* the non-halting instructions that have a footprint in the model *)
Definition TIE_OPS : list string :=
  ["mload"; "sload"; "tload"; "iload"; "mstore"; "sstore"; "tstore"; "istore"; "mcopy"; "calldatacopy"; "codecopy";
   "dloadbytes"; "returndatacopy"; "extcodecopy"; "dload"; "sha3"; "log"; "call"; "delegatecall"; "staticcall";
   "create"; "create2"; "balance"; "selfbalance"; "extcodesize"; "extcodehash"; "returndatasize"; "revert";
   "getfmp"; "setfmp"; "dalloca"; "bump"].

Definition tie_bad : list string :=
  filter (fun op => negb (covered_by (model_reads op) (gen_reads op ++ gen_writes op)
                          && covered_by (model_writes op) (gen_writes op))) TIE_OPS.

Theorem model_covered_by_effects : tie_bad = [].
Proof. vm_compute. reflexivity. Qed.
