(* C14M / MemSem.v -- semantics of Venom functions for the memory/storage redundancy passes (definitions only).

   State      : variables hold words; a `store` has one cell map per address space.  The spaces are the rows of
                vyper/venom/effects.py (Mem Sto Tra Imm Ret Log Bal Ext Fmp) plus Env (calldata, code, block/tx
                environment: never written).  Memory is byte addressed, storage/transient word addressed.
   Footprints : `shape_of op` says which cells an instruction may read / write, as a function of its argument VALUES
                (location granular: `mstore v p` writes Mem[p, p+32), `call` reads Mem[argoff, argoff+argsz) and every
                non-memory space, ...).  It is written from the EVM/Venom definition, independent of /repo's tables,
                and compared with them on every run (C14M/MemTie.v).  An opcode that is not in the table reads and
                writes everything and is volatile.
   Oracle     : every non-control instruction is executed by an ORACLE `X op args tick view`: it sees only the cells in
                the read footprint (`view`), its result is installed only on the write footprint (`merge`); a volatile
                instruction (gas, calls, param, ...) additionally sees the instruction counter `tick`; an instruction
                that may trap (returndatacopy, calls, ...) may end the execution with everything reverted.  The theorems
                hold for EVERY oracle that computes assign/add/sub/alloca/loads/stores as the EVM does (`exact`) and
                treats extensionally equal views alike (`X_ext`): the arithmetic, hashing, calls, environment are
                arbitrary functions of what they may read.
   Control    : jmp/jnz/djmp, head phis executed in parallel on block entry, assert/assert_unreachable, halting
                instructions observe (opcode, argument values, view of their read footprint): `return` shows its
                buffer and all persistent spaces, `revert` only its buffer, `stop` no memory, `ret` everything. *)
From Coq Require Import ZArith NArith List Bool String Lia.
Import ListNotations.
Open Scope string_scope.
Open Scope Z_scope.

Definition W : Z := Eval compute in 2 ^ 256.

Inductive sp := Mem | Sto | Tra | Imm | Ret | Log | Bal | Ext | Fmp | Env.
Definition sp_eqb (a b : sp) : bool :=
  match a, b with
  | Mem, Mem | Sto, Sto | Tra, Tra | Imm, Imm | Ret, Ret | Log, Log | Bal, Bal | Ext, Ext | Fmp, Fmp | Env, Env => true
  | _, _ => false
  end.

(* ------------------------------------------------------------------ syntax (operands in IRInstruction.operands order:
   the LAST operand is the first EVM operand; `alloca` is exported as [size; id]) *)
Inductive operand := OLit (v : Z) | OVar (x : N) | OLab (l : N).
Record inst := mkI { i_op : string; i_args : list operand; i_outs : list N }.
Definition block := list inst.
Definition func := list block.          (* label = index, entry = 0 *)

(* ------------------------------------------------------------------ footprints *)
Inductive aidx := Ix (i : nat) | IxEnd (i : nat).
Definition aget {A} (d : A) (l : list A) (i : aidx) : A :=
  match i with Ix k => nth k l d | IxEnd k => nth k (rev l) d end.
Inductive aptr := PArg (i : aidx) | PConst (z : Z).
Inductive asize := SzC (n : Z) | SzA (i : aidx).
Record srange := mkSR { sr_sp : sp; sr_ptr : aptr; sr_size : asize }.
Record shape := mkSh {
  sh_r : list srange; sh_w : list srange;      (* ranges read / written *)
  sh_rall : list sp; sh_wall : list sp;        (* whole spaces read / written *)
  sh_must : bool;                              (* every cell of the write footprint is overwritten *)
  sh_vol : bool;                               (* result depends on when it is executed *)
  sh_fail : bool }.                            (* may trap *)

Definition ALLSP : list sp := [Mem; Sto; Tra; Imm; Ret; Log; Bal; Ext; Fmp; Env].
Definition WORLD : list sp := [Sto; Tra; Imm; Ret; Log; Bal; Ext; Env].       (* what a callee can see *)
Definition CALLW : list sp := [Sto; Tra; Ret; Log; Bal; Ext].                 (* what a callee can change *)
Definition PERSIST : list sp := [Sto; Tra; Log; Bal; Ext].                    (* what outlives a successful halt *)

Definition sh_pure : shape := mkSh [] [] [] [] true false false.
Definition sh_read (l : list sp) : shape := mkSh [] [] l [] true false false.
Definition sh_unknown : shape := mkSh [] [] ALLSP ALLSP false true true.
Definition a0 := Ix 0. Definition a1 := Ix 1. Definition a2 := Ix 2. Definition a3 := Ix 3.
Definition mem_r (p : aidx) (n : asize) : srange := mkSR Mem (PArg p) n.

Notation "a =s b" := (String.eqb a b) (at level 70).
Definition is_in (op : string) (l : list string) : bool := existsb (String.eqb op) l.

Definition PURE_OPS : list string :=
  ["add"; "sub"; "mul"; "div"; "sdiv"; "mod"; "smod"; "exp"; "addmod"; "mulmod"; "lt"; "gt"; "slt"; "sgt"; "eq"; "iszero";
   "and"; "or"; "xor"; "not"; "byte"; "shl"; "shr"; "sar"; "signextend"; "assign"; "alloca"; "offset"; "nop"].
Definition ENV_OPS : list string :=
  ["calldataload"; "calldatasize"; "caller"; "callvalue"; "address"; "origin"; "codesize"; "gasprice"; "coinbase";
   "timestamp"; "number"; "prevrandao"; "gaslimit"; "chainid"; "basefee"; "blobbasefee"; "blockhash"; "blobhash"; "initial_fmp"].

Definition shape_of (op : string) : shape :=
  if is_in op PURE_OPS then sh_pure else
  if is_in op ENV_OPS then sh_read [Env] else
  if is_in op ["balance"; "selfbalance"] then sh_read [Bal] else
  if is_in op ["extcodesize"; "extcodehash"] then sh_read [Ext] else
  if op =s "returndatasize" then sh_read [Ret] else
  if is_in op ["gas"; "param"; "fmp_param"; "retpc_param"; "pc"] then mkSh [] [] [] [] true true false else
  if op =s "mload" then mkSh [mem_r a0 (SzC 32)] [] [] [] true false false else
  if op =s "sload" then mkSh [mkSR Sto (PArg a0) (SzC 1)] [] [] [] true false false else
  if op =s "tload" then mkSh [mkSR Tra (PArg a0) (SzC 1)] [] [] [] true false false else
  if op =s "iload" then sh_read [Imm; Mem] else
  (* the free-memory-pointer register *)
  if op =s "getfmp" then sh_read [Fmp] else
  if is_in op ["dalloca"; "bump"; "setfmp"] then mkSh [] [] [Fmp] [Fmp] false false false else
  if op =s "mstore" then mkSh [] [mem_r a1 (SzC 32)] [] [] true false false else
  if op =s "sstore" then mkSh [] [mkSR Sto (PArg a1) (SzC 1)] [] [] true false false else
  if op =s "tstore" then mkSh [] [mkSR Tra (PArg a1) (SzC 1)] [] [] true false false else
  if op =s "istore" then mkSh [] [] [] [Imm; Mem] false false false else
  if op =s "mcopy" then mkSh [mem_r a1 (SzA a0)] [mem_r a2 (SzA a0)] [] [] true false false else
  if is_in op ["calldatacopy"; "codecopy"; "dloadbytes"] then mkSh [] [mem_r a2 (SzA a0)] [Env] [] true false false else
  if op =s "returndatacopy" then mkSh [] [mem_r a2 (SzA a0)] [Ret] [] true false true else
  if op =s "extcodecopy" then mkSh [] [mem_r a2 (SzA a0)] [Ext] [] true false false else
  if op =s "dload" then mkSh [] [mkSR Mem (PConst 0) (SzC 32)] [Env] [] true false false else
  if op =s "sha3" then mkSh [mem_r a1 (SzA a0)] [] [] [] true false false else
  if op =s "log" then mkSh [mem_r (IxEnd 0) (SzA (IxEnd 1))] [] [Log] [Log] false false false else
  (* call [retsz; retoff; argsz; argoff; value; addr; gas]: the output buffer is written only partially *)
  if op =s "call" then mkSh [mem_r a3 (SzA a2)] [mem_r a1 (SzA a0)] WORLD CALLW false true true else
  if op =s "delegatecall" then mkSh [mem_r a3 (SzA a2)] [mem_r a1 (SzA a0)] WORLD CALLW false true true else
  if op =s "staticcall" then mkSh [mem_r a3 (SzA a2)] [mem_r a1 (SzA a0)] WORLD [Ret] false true true else
  (* create [size; off; value]   create2 [salt; size; off; value]: the constructor may re-enter *)
  if op =s "create" then mkSh [mem_r a1 (SzA a0)] [] WORLD CALLW false true true else
  if op =s "create2" then mkSh [mem_r a2 (SzA a1)] [] WORLD CALLW false true true else
  (* halting instructions: what the rest of the world observes *)
  if op =s "return" then mkSh [mem_r a1 (SzA a0)] [] PERSIST [] true false false else
  if op =s "revert" then mkSh [mem_r a1 (SzA a0)] [] [] [] true false false else
  if op =s "stop" then sh_read PERSIST else
  if op =s "selfdestruct" then sh_read PERSIST else
  if op =s "invalid" then sh_pure else
  sh_unknown.      (* invoke, ret, dret, retfmp, sink, msize, ... *)

(* control instructions are executed by `step` itself and leave the store alone *)
Definition CTL_OPS : list string := ["jmp"; "jnz"; "djmp"; "assert"; "assert_unreachable"].
Definition HALT_OPS : list string := ["return"; "revert"; "stop"; "invalid"; "selfdestruct"; "ret"; "dret"; "retfmp"; "sink"].
(* what an instruction may write / what it reads (for a halting instruction: what is observed) *)
Definition wshape (op : string) : shape := if is_in op CTL_OPS then sh_pure else shape_of op.
Definition rshape (op : string) : shape := if is_in op HALT_OPS then shape_of op else wshape op.

Record crange := mkCR { cr_sp : sp; cr_lo : Z; cr_len : Z }.
Definition conc_range (a : list Z) (r : srange) : crange :=
  mkCR (sr_sp r) (match sr_ptr r with PArg i => aget 0 a i | PConst z => z end)
       (match sr_size r with SzC n => n | SzA i => aget 0 a i end).
Definition in_cr (r : crange) (s : sp) (k : Z) : bool :=
  sp_eqb (cr_sp r) s && (cr_lo r <=? k) && (k <? cr_lo r + cr_len r).
Definition in_sps (s : sp) (l : list sp) : bool := existsb (sp_eqb s) l.
Definition rd (sh : shape) (a : list Z) (s : sp) (k : Z) : bool :=
  in_sps s (sh_rall sh) || existsb (fun r => in_cr (conc_range a r) s k) (sh_r sh).
Definition wr (sh : shape) (a : list Z) (s : sp) (k : Z) : bool :=
  in_sps s (sh_wall sh) || existsb (fun r => in_cr (conc_range a r) s k) (sh_w sh).

(* ------------------------------------------------------------------ state and oracle *)
Definition store := sp -> Z -> Z.
Definition zero_store : store := fun _ _ => 0.
Record ores := mkO { o_outs : list Z; o_cell : store; o_mask : sp -> Z -> bool; o_fail : bool }.
Definition oracle := string -> list Z -> Z -> store -> ores.

Definition view (sh : shape) (a : list Z) (st : store) : store := fun s k => if rd sh a s k then st s k else 0.
(* memory cells are bytes, storage cells are words *)
Definition norm (s : sp) (v : Z) : Z := match s with Mem => v mod 256 | Sto | Tra => v mod W | _ => v end.
Definition merge (sh : shape) (a : list Z) (r : ores) (st : store) : store :=
  fun s k => if wr sh a s k && (sh_must sh || o_mask r s k) then norm s (o_cell r s k) else st s k.
Definition wf_store (st : store) : Prop :=
  forall k, 0 <= st Mem k < 256 /\ 0 <= st Sto k < W /\ 0 <= st Tra k < W.

Record cfg := mkC { cv : N -> Z; cs : store; ct : Z }.

Definition oval (c : N -> Z) (o : operand) : Z :=
  match o with OLit v => v mod W | OVar x => c x mod W | OLab l => Z.of_N l mod W end.

Fixpoint bind (c : N -> Z) (outs : list N) (vals : list Z) : N -> Z :=
  match outs with
  | [] => c
  | x :: t => bind (fun y => if N.eqb y x then (hd 0 vals) mod W else c y) t (tl vals)
  end.

(* ------------------------------------------------------------------ one instruction *)
Inductive sres := SNext (c : cfg) | SJump (l : N) (c : cfg) | SHalt (op : string) (a : list Z) (v : store).

Definition labels_of (l : list operand) : list N := flat_map (fun o => match o with OLab x => [x] | _ => [] end) l.
Definition stuck : sres := SHalt "stuck" [] zero_store.

Definition step (X : oracle) (i : inst) (c : cfg) : sres :=
  let op := i_op i in
  let a := map (oval (cv c)) (i_args i) in
  let c1 := mkC (cv c) (cs c) (ct c + 1) in
  if op =s "jmp" then match i_args i with [OLab l] => SJump l c1 | _ => stuck end
  else if op =s "jnz" then
    match i_args i with
    | [cond; OLab t; OLab f] => SJump (if oval (cv c) cond =? 0 then f else t) c1
    | _ => stuck
    end
  else if op =s "djmp" then
    match labels_of (i_args i) with
    | [] => stuck
    | ls => SJump (nth (Z.to_nat (hd 0 a mod Z.of_nat (List.length ls))) ls 0%N) c1
    end
  else if is_in op HALT_OPS then SHalt op a (view (shape_of op) a (cs c))
  else if op =s "assert" then (if hd 0 a =? 0 then SHalt "assert-failed" [] zero_store else SNext c1)
  else if op =s "assert_unreachable" then (if hd 0 a =? 0 then SHalt "unreachable-failed" [] zero_store else SNext c1)
  else
    let sh := shape_of op in
    let r := X op a (if sh_vol sh then ct c else 0) (view sh a (cs c)) in
    if sh_fail sh && o_fail r then SHalt "trap" [] zero_store
    else SNext (mkC (bind (cv c) (i_outs i) (o_outs r)) (merge sh a r (cs c)) (ct c + 1)).

(* ------------------------------------------------------------------ blocks and functions *)
Definition is_phi (i : inst) : bool := i_op i =s "phi".
Fixpoint leading_phis (b : block) : list inst :=
  match b with i :: t => if is_phi i then i :: leading_phis t else [] | [] => [] end.
Fixpoint body (b : block) : list inst :=
  match b with i :: t => if is_phi i then body t else b | [] => [] end.
Definition nth_block (f : func) (b : N) : block := nth (N.to_nat b) f [].

Fixpoint phi_pick (p : N) (l : list operand) : option operand :=
  match l with
  | OLab q :: v :: t => if N.eqb q p then Some v else phi_pick p t
  | _ => None
  end.
Definition phi_out (i : inst) : option N := match i_outs i with [o] => Some o | _ => None end.
Definition phi_val (c : N -> Z) (p : N) (i : inst) : Z :=
  match phi_pick p (i_args i) with Some v => oval c v | None => 0 end.
(* all head phis read the variables as they were when the block was entered *)
Definition do_phis (phis : list inst) (p : N) (c : N -> Z) : N -> Z :=
  fun x => match find (fun i => match phi_out i with Some o => N.eqb o x | None => false end) phis with
           | Some i => phi_val c p i
           | None => c x
           end.

Fixpoint exec (X : oracle) (l : list inst) (c : cfg) : sres :=
  match l with
  | [] => SHalt "fallthrough" [] zero_store
  | i :: t => match step X i c with SNext c' => exec X t c' | r => r end
  end.

Inductive outcome := OFuel | OHalt (op : string) (a : list Z) (v : store).

Fixpoint run (fuel : nat) (X : oracle) (f : func) (b p : N) (c : cfg) : outcome :=
  match fuel with
  | O => OFuel
  | S n =>
      let blk := nth_block f b in
      match exec X (body blk) (mkC (do_phis (leading_phis blk) p (cv c)) (cs c) (ct c)) with
      | SNext _ => OHalt "fallthrough" [] zero_store
      | SJump l c' => run n X f l b c'
      | SHalt op a v => OHalt op a v
      end
  end.

(* observable equivalence of two executions *)
Definition store_eq (a b : store) : Prop := forall s k, a s k = b s k.
Definition oeq (x y : outcome) : Prop :=
  match x, y with
  | OFuel, OFuel => True
  | OHalt op a v, OHalt op' a' v' => op = op' /\ a = a' /\ store_eq v v'
  | _, _ => False
  end.

(* ------------------------------------------------------------------ what is assumed of the oracle *)
Definition ores_eq (r r' : ores) : Prop :=
  o_outs r = o_outs r' /\ o_fail r = o_fail r' /\ store_eq (o_cell r) (o_cell r') /\ (forall s k, o_mask r s k = o_mask r' s k).
Definition X_ext (X : oracle) : Prop := forall op a t v v', store_eq v v' -> ores_eq (X op a t v) (X op a t v').

(* big-endian bytes of a word *)
Definition enc_byte (w i : Z) : Z := (w / 256 ^ (31 - i)) mod 256.
Fixpoint decn (n : nat) (f : Z -> Z) : Z :=
  match n with O => 0 | S k => decn k f * 256 + f (Z.of_nat k) end.
Definition dec32 (f : Z -> Z) : Z := decn 32 f.

Definition load_op (s : sp) : string := match s with Mem => "mload" | Sto => "sload" | _ => "tload" end.
Definition store_op (s : sp) : string := match s with Mem => "mstore" | Sto => "sstore" | _ => "tstore" end.
Definition width (s : sp) : Z := match s with Mem => 32 | _ => 1 end.
Definition enc (s : sp) (w i : Z) : Z := match s with Mem => enc_byte w i | _ => w end.
Definition dec (s : sp) (f : Z -> Z) : Z := match s with Mem => dec32 f | _ => f 0 end.
Definition is_cell_sp (s : sp) : bool := match s with Mem | Sto | Tra => true | _ => false end.

(* A: address of each allocation, asz: its size.  Distinct allocations are disjoint regions below 2^256: the
   allocator's obligation (C04 concretize_interfering_disjoint), assumed here as in MemLocSound.v *)
(* commutative EVM operations (vyper/venom/basicblock.py COMMUTATIVE_INSTRUCTIONS without the non-EVM `smul`) *)
Definition COMM_OPS : list string := ["add"; "mul"; "or"; "xor"; "and"; "eq"].

Record exact (X : oracle) (A asz : Z -> Z) : Prop := {
  ex_comm : forall op a b t v, is_in op COMM_OPS = true -> o_outs (X op [a; b] t v) = o_outs (X op [b; a] t v);
  ex_assign : forall a t v, o_outs (X "assign" [a] t v) = [a];
  ex_add : forall a b t v, o_outs (X "add" [b; a] t v) = [(a + b) mod W];
  ex_sub : forall a b t v, o_outs (X "sub" [b; a] t v) = [(a - b) mod W];
  ex_alloca : forall id t v, o_outs (X "alloca" [asz id; id] t v) = [A id];
  ex_store : forall s, is_cell_sp s = true -> forall p w t v i, 0 <= w < W -> 0 <= i < width s ->
      norm s (o_cell (X (store_op s) [w; p] t v) s (p + i)) = enc s w i;
  ex_load : forall s, is_cell_sp s = true -> forall p t v, o_outs (X (load_op s) [p] t v) = [dec s (fun i => v s (p + i))];
  ex_A : forall i, 0 <= A i /\ 0 <= asz i /\ A i + asz i < W;
  ex_disj : forall i j, i <> j -> A i + asz i <= A j \/ A j + asz j <= A i }.

(* size of the allocation `id` as declared in f (first declaration wins) *)
Definition alloc_table (f : func) : list (Z * Z) :=
  flat_map (fun i => if i_op i =s "alloca" then match i_args i with [OLit sz; OLit d] => [(d mod W, sz mod W)] | _ => [] end else [])
           (List.concat f).
Fixpoint lookup (T : list (Z * Z)) (id : Z) : Z :=
  match T with [] => 0 | (d, sz) :: t => if d =? id then sz else lookup t id end.
Definition asz_of (f : func) : Z -> Z := lookup (alloc_table f).

Definition good (X : oracle) (A : Z -> Z) (f : func) : Prop := X_ext X /\ exact X A (asz_of f).
