(* C14M / MemFactsProofs.v -- soundness of the available facts of MemFacts.v: resolved addresses, symbolic locations and
   their disjointness (through may_overlap_sound), operand equivalence, the transfer function, and the justification
   of a replaced instruction. *)
From Coq Require Import ZArith NArith List Bool String Lia.
From Verif Require Import Base.PyInt C14.MemLocBase C14.GenMemLoc C14.MemLocSound C14M.MemSem C14M.MemFacts C14M.MemSemProofs.
Import ListNotations.
Open Scope string_scope.
Open Scope Z_scope.

Lemma operand_eqb_eq : forall a b, operand_eqb a b = true -> a = b.
Proof.
  intros [x|x|x] [y|y|y]; cbn; intros H; try discriminate.
  - apply Z.eqb_eq in H. congruence.
  - apply N.eqb_eq in H. congruence.
  - apply N.eqb_eq in H. congruence.
Qed.

Lemma list_eqb_eq : forall A (e : A -> A -> bool), (forall a b, e a b = true -> a = b) ->
  forall l l', list_eqb e l l' = true -> l = l'.
Proof.
  intros A e He. induction l as [|x t IH]; intros [|y t'] H; cbn in H; try discriminate; [reflexivity|].
  apply andb_true_iff in H. destruct H as [H1 H2]. f_equal; [apply He; exact H1 | apply IH; exact H2].
Qed.

Lemma inst_eqb_eq : forall i j, inst_eqb i j = true -> i = j.
Proof.
  intros [o a u] [o' a' u'] H. unfold inst_eqb in H. cbn in H.
  apply andb_true_iff in H. destruct H as [H H3]. apply andb_true_iff in H. destruct H as [H1 H2].
  apply seqb_eq in H1. apply (list_eqb_eq _ _ operand_eqb_eq) in H2.
  apply (list_eqb_eq _ N.eqb (fun a b => proj1 (N.eqb_eq a b))) in H3. congruence.
Qed.

Lemma fact_eqb_eq : forall f g, fact_eqb f g = true -> f = g.
Proof.
  intros [v op a|s p v|c] [v' op' a'|s' p' v'|c'] H; cbn in H; try discriminate.
  - apply andb_true_iff in H. destruct H as [H H3]. apply andb_true_iff in H. destruct H as [H1 H2].
    apply operand_eqb_eq in H1. apply seqb_eq in H2. apply (list_eqb_eq _ _ operand_eqb_eq) in H3. congruence.
  - apply andb_true_iff in H. destruct H as [H H3]. apply andb_true_iff in H. destruct H as [H1 H2].
    apply sp_eqb_eq in H1. apply operand_eqb_eq in H2. apply operand_eqb_eq in H3. congruence.
  - apply operand_eqb_eq in H. congruence.
Qed.

Lemma has_fact_in : forall g F, has_fact g F = true -> In g F.
Proof.
  intros g F H. unfold has_fact in H. apply existsb_exists in H. destruct H as [x [Hin He]].
  apply fact_eqb_eq in He. subst. exact Hin.
Qed.

Lemma aget_map : forall A B (f : A -> B) d l i, aget (f d) (map f l) i = f (aget d l i).
Proof. intros A B f d l [k|k]; cbn; [apply map_nth | rewrite <- map_rev; apply map_nth]. Qed.

Lemma is_in_false_not : forall op l, is_in op l = false -> forall x, In x l -> (op =s x) = false.
Proof.
  intros op l H x Hin. unfold is_in in H. destruct (op =s x) eqn:E; [|reflexivity].
  assert (existsb (String.eqb op) l = true) by (apply existsb_exists; exists x; split; assumption). congruence.
Qed.

Section Facts.
Variable X : oracle.
Variable A : Z -> Z.
Variable asz : Z -> Z.
Hypothesis HX : X_ext X.
Hypothesis HE : exact X A asz.

Definition out1 (op : string) (a : list Z) (st : store) : Z :=
  hd 0 (o_outs (X op a 0 (view (shape_of op) a st))) mod W.

Definition holds (c : N -> Z) (st : store) (g : fact) : Prop :=
  match g with
  | FEq v op args => ro_ok op = true /\ out1 op (map (oval c) args) st = oval c v
  | FCell s p v => is_cell_sp s = true /\ forall i, 0 <= i < width s -> st s (oval c p + i) = enc s (oval c v) i
  | FNz x => oval c x <> 0
  end.
Definition all_hold (c : N -> Z) (st : store) (F : list fact) : Prop := forall g, In g F -> holds c st g.

Definition base (b : option Z) : Z := match b with None => 0 | Some id => A id end.
Definition aden (l : memloc) (k : Z) : Prop := exists j, den l (ml_alloca l) j /\ k = base (ml_alloca l) + j.

Lemma comm_pure : forall op, is_in op COMM_OPS = true -> shape_of op = sh_pure.
Proof.
  intros op H. unfold is_in, COMM_OPS in H. cbn [existsb] in H.
  repeat (apply orb_true_iff in H; destruct H as [H|H]; [apply seqb_eq in H; subst op; reflexivity|]). discriminate.
Qed.

Lemma out1_comm : forall op a b st, is_in op COMM_OPS = true -> out1 op [a; b] st = out1 op [b; a] st.
Proof.
  intros op a b st H. unfold out1. rewrite (ex_comm X A asz HE op a b _ _ H).
  assert (V : store_eq (view (shape_of op) [a; b] st) (view (shape_of op) [b; a] st)).
  { rewrite (comm_pure op H). intros s k. reflexivity. }
  destruct (HX op [b; a] 0 _ _ V) as [Ho _]. rewrite Ho. reflexivity.
Qed.

(* ------------------------------------------------------------------ resolved addresses *)
Lemma find_def_in : forall F x op a, find_def F x = Some (op, a) -> In (FEq (OVar x) op a) F.
Proof.
  induction F as [|g t IH]; intros x op a H; cbn in H; [discriminate|].
  destruct g as [v op' a'|s p v|c]; try (right; apply IH; exact H).
  destruct v as [z|y|l]; try (right; apply IH; exact H).
  destruct (N.eqb x y) eqn:E.
  - apply N.eqb_eq in E. inversion H. subst. left. reflexivity.
  - right. apply IH. exact H.
Qed.

Definition res_ok (c : N -> Z) (p : operand) (r : option Z * option Z) : Prop :=
  match r with
  | (b, Some o) => oval c p = base b + o /\ match b with None => 0 <= o < W | Some id => 0 <= o <= asz id end
  | _ => True
  end.

Lemma offset_by_ok : forall c q r d v, res_ok c q r -> v = (oval c q + d) mod W -> forall p, oval c p = v ->
  res_ok c p (offset_by asz r d).
Proof.
  intros c q [[id|] [o|]] d v H Hv p Hp; cbn; try exact I.
  - destruct ((0 <=? o + d) && (o + d <=? asz id)) eqn:E; cbn; [|exact I].
    apply andb_true_iff in E. destruct E as [E1 E2]. apply Z.leb_le in E1, E2.
    destruct H as [H1 H2]. destruct (ex_A X A asz HE id) as [A1 [A2 A3]].
    split; [|lia]. rewrite Hp, Hv, H1. cbn [base]. rewrite Z.mod_small by lia. lia.
  - destruct ((0 <=? o + d) && (o + d <? W)) eqn:E; cbn; [|exact I].
    apply andb_true_iff in E. destruct E as [E1 E2]. apply Z.leb_le in E1. apply Z.ltb_lt in E2.
    destruct H as [H1 H2]. split; [|lia]. rewrite Hp, Hv, H1. cbn [base]. rewrite Z.mod_small by lia. lia.
Qed.

Lemma in_alloca_ok : forall c p r1 r2, res_ok c p (in_alloca r1 r2).
Proof. intros c p [[?|] ?] [[?|] ?]; cbn; exact I. Qed.

Lemma hd_mod_small : forall v, 0 <= v < W -> hd 0 [v] mod W = v.
Proof. intros. cbn. apply Z.mod_small. assumption. Qed.

Lemma resolve_sound : forall n F c st p, all_hold c st F -> res_ok c p (resolve n F asz p).
Proof.
  induction n; intros F c st p HF.
  - destruct p as [v|x|l]; cbn; try exact I. split; [lia|]. apply Z.mod_pos_bound. exact W_pos.
  - destruct p as [v|x|l]; cbn [resolve]; try exact I.
    { cbn. split; [lia|]. apply Z.mod_pos_bound. exact W_pos. }
    destruct (find_def F x) as [[op a]|] eqn:D; [|exact I].
    apply find_def_in in D. pose proof (HF _ D) as HD. cbn in HD. destruct HD as [_ HD]. unfold out1 in HD.
    destruct (op =s "alloca") eqn:E1.
    { apply seqb_eq in E1. subst op.
      destruct a as [|[sz|?|?] [|[id|?|?] [|? ?]]]; try exact I.
      destruct (sz mod W =? asz (id mod W)) eqn:E; [|exact I]. apply Z.eqb_eq in E.
      cbn [map oval] in HD. rewrite E in HD. rewrite (ex_alloca X A asz HE) in HD.
      destruct (ex_A X A asz HE (id mod W)) as [A1 [A2 A3]].
      rewrite hd_mod_small in HD by lia. cbn. split; lia. }
    destruct (op =s "assign") eqn:E2.
    { apply seqb_eq in E2. subst op. destruct a as [|q [|? ?]]; try exact I.
      cbn [map] in HD. rewrite (ex_assign X A asz HE) in HD.
      rewrite hd_mod_small in HD by apply oval_range.
      pose proof (IHn F c st q HF) as IH. destruct (resolve n F asz q) as [b [o|]]; [|exact I].
      cbn in IH |- *. rewrite <- HD. exact IH. }
    destruct (op =s "add") eqn:E3.
    { apply seqb_eq in E3. subst op.
      destruct a as [|a1 [|a2 [|? ?]]]; try (destruct a1; exact I); try (destruct a1, a2; exact I).
      cbn [map] in HD. rewrite (ex_add X A asz HE) in HD.
      rewrite hd_mod_small in HD by (apply Z.mod_pos_bound; exact W_pos).
      destruct a1 as [k|y|l]; destruct a2 as [k2|y2|l2]; cbn beta iota; try apply in_alloca_ok.
      all: try (eapply (offset_by_ok c _ _ _ _ (IHn F c st _ HF)); [reflexivity | etransitivity; [symmetry; exact HD|]; cbn [oval]; f_equal; lia]).
}
    destruct (op =s "sub") eqn:E4.
    { apply seqb_eq in E4. subst op.
      destruct a as [|a1 [|a2 [|? ?]]]; try (destruct a1; exact I); try (destruct a1, a2; exact I).
      cbn [map] in HD. rewrite (ex_sub X A asz HE) in HD.
      rewrite hd_mod_small in HD by (apply Z.mod_pos_bound; exact W_pos).
      destruct a1 as [k|y|l]; try exact I.
      eapply (offset_by_ok c _ _ _ _ (IHn F c st _ HF)); [reflexivity | etransitivity; [symmetry; exact HD|]; cbn [oval]; f_equal; lia]. }
    exact I.
Qed.

(* ------------------------------------------------------------------ symbolic locations *)
Lemma aget_oval : forall c l i, aget 0 (map (oval c) l) i = oval c (aget (OLab 0) l i).
Proof. intros. exact (aget_map _ _ (oval c) (OLab 0) l i). Qed.

Lemma sym_size_ok : forall c args z n, sym_size args z = Some n ->
  (match z with SzC m => m | SzA i => aget 0 (map (oval c) args) i end) = n.
Proof.
  intros c args [m|i] n H; cbn in H.
  - congruence.
  - rewrite aget_oval.
    destruct (aget (OLab 0) args i) as [v|x|l]; try discriminate. cbn. congruence.
Qed.

Lemma sym_loc_sound : forall F c st args r s k, all_hold c st F ->
  in_cr (conc_range (map (oval c) args) r) s k = true ->
  sr_sp r = s /\ aden (sym_loc F asz args r) k.
Proof.
  intros F c st args r s k HF H. unfold in_cr, conc_range in H. cbn [cr_sp cr_lo cr_len] in H.
  apply andb_true_iff in H. destruct H as [H H3]. apply andb_true_iff in H. destruct H as [H1 H2].
  apply sp_eqb_eq in H1. apply Z.leb_le in H2. apply Z.ltb_lt in H3. split; [exact H1|].
  unfold sym_loc, aden.
  pose proof (sym_size_ok c args (sr_size r)) as Hsz.
  set (len := match sr_size r with SzC m => m | SzA i => aget 0 (map (oval c) args) i end) in *.
  destruct (sr_ptr r) as [i|z].
  - rewrite aget_oval in H2, H3.
    pose proof (resolve_sound RFUEL F c st (aget (OLab 0) args i) HF) as R.
    destruct (resolve RFUEL F asz (aget (OLab 0) args i)) as [b o].
    exists (k - base b). cbn [mkml ml_alloca]. split; [|lia].
    unfold den. destruct (sym_size args (sr_size r)) as [n|] eqn:S.
    + specialize (Hsz n eq_refl). cbn [ml_is_empty ml_size ml_alloca ml_offset mkml].
      split; [apply Z.eqb_neq; lia|]. split; [reflexivity|].
      destruct o as [o|]; [|exact I]. cbn in R. destruct R as [R1 _]. lia.
    + cbn [ml_is_empty ml_size ml_alloca ml_offset mkml]. split; [reflexivity|]. split; [reflexivity|].
      destruct o as [o|]; [|exact I]. cbn in R. destruct R as [R1 _]. split; [lia|exact I].
  - exists k. cbn [mkml ml_alloca base]. split; [|lia].
    unfold den. destruct (sym_size args (sr_size r)) as [n|] eqn:S.
    + specialize (Hsz n eq_refl). cbn [ml_is_empty ml_size ml_alloca ml_offset mkml].
      split; [apply Z.eqb_neq; lia|]. split; [reflexivity|]. lia.
    + cbn [ml_is_empty ml_size ml_alloca ml_offset mkml]. split; [reflexivity|]. split; [reflexivity|]. split; [lia|exact I].
Qed.

Lemma inb_range : forall l id j, inb asz l = true -> ml_alloca l = Some id -> den l (Some id) j -> 0 <= j < asz id.
Proof.
  intros [[o|] [n|] [a|]] id j H Ha D; cbn in H, Ha; try discriminate.
  inversion Ha; subst a. apply andb_true_iff in H. destruct H as [H H3]. apply andb_true_iff in H. destruct H as [H1 H2].
  apply Z.leb_le in H1, H2, H3. destruct D as [_ [_ D]]. cbn in D. lia.
Qed.

Lemma locs_disjoint_sound : forall l1 l2 k, locs_disjoint true asz l1 l2 = true -> aden l1 k -> aden l2 k -> False.
Proof.
  intros l1 l2 k H [j1 [D1 K1]] [j2 [D2 K2]]. unfold locs_disjoint in H.
  destruct (may_overlap l1 l2) as [[|]|] eqn:M; try discriminate.
  destruct (ml_alloca l1) as [i|] eqn:A1; destruct (ml_alloca l2) as [j|] eqn:A2; try discriminate.
  - cbn [negb orb] in H. rewrite orb_false_r in H. apply orb_true_iff in H. destruct H as [H|H].
    + apply Z.eqb_eq in H. subst j. cbn [base] in K1, K2. assert (j1 = j2) by lia. subst j2.
      exact (may_overlap_sound l1 l2 M (Some i) j1 D1 D2).
    + apply andb_true_iff in H. destruct H as [I1 I2].
      pose proof (inb_range l1 i j1 I1 A1 D1) as R1. pose proof (inb_range l2 j j2 I2 A2 D2) as R2.
      cbn [base] in K1, K2.
      destruct (Z.eq_dec i j) as [E|E].
      * subst j. assert (j1 = j2) by lia. subst j2. exact (may_overlap_sound l1 l2 M (Some i) j1 D1 D2).
      * destruct (ex_disj X A asz HE i j E); lia.
  - cbn [base] in K1, K2. assert (j1 = k) by lia. assert (j2 = k) by lia. subst j1 j2.
    exact (may_overlap_sound l1 l2 M None k D1 D2).
Qed.

(* ------------------------------------------------------------------ operand equivalence *)
Lemma list_eqb_vals : forall (e : operand -> operand -> bool) c,
  forall l l', (forall a b, In a l -> e a b = true -> oval c a = oval c b) ->
  list_eqb e l l' = true -> map (oval c) l = map (oval c) l'.
Proof.
  intros e c. induction l as [|x t IH]; intros [|y t'] He H; cbn in H; try discriminate; [reflexivity|].
  apply andb_true_iff in H. destruct H as [H1 H2]. cbn [map]. f_equal.
  - apply He; [left; reflexivity | exact H1].
  - apply IH; [intros a b Ha; apply He; right; exact Ha | exact H2].
Qed.

Lemma same_fixed_sound : forall c p q r1 r2, res_ok c p r1 -> res_ok c q r2 -> same_fixed r1 r2 = true -> oval c p = oval c q.
Proof.
  intros c p q [b1 [o1|]] [b2 [o2|]] R1 R2 H; cbn in H; try discriminate.
  apply andb_true_iff in H. destruct H as [H1 H2]. apply Z.eqb_eq in H1. subst o2.
  destruct R1 as [R1 _]. destruct R2 as [R2 _]. rewrite R1, R2.
  destruct b1 as [i|]; destruct b2 as [j|]; try discriminate; [apply Z.eqb_eq in H2; subst j|]; reflexivity.
Qed.

Lemma equiv_sound : forall n F c st a b, all_hold c st F -> equiv n F asz a b = true -> oval c a = oval c b.
Proof.
  induction n; intros F c st a b HF H; cbn [equiv] in H.
  - rewrite orb_false_r in H. apply operand_eqb_eq in H. congruence.
  - apply orb_true_iff in H. destruct H as [H|H]; [apply operand_eqb_eq in H; congruence|].
    apply orb_true_iff in H. destruct H as [H|H]; [|eapply same_fixed_sound; [| |exact H]; eapply resolve_sound; exact HF].
    apply orb_true_iff in H. destruct H as [H|H].
    + apply orb_true_iff in H. destruct H as [H|H].
      * destruct a as [?|x|?]; try discriminate. destruct (find_def F x) as [[op [|q [|? ?]]]|] eqn:D; try discriminate.
        apply andb_true_iff in H. destruct H as [H1 H2]. apply seqb_eq in H1. subst op.
        apply find_def_in in D. destruct (HF _ D) as [_ HD]. unfold out1 in HD. cbn [map] in HD.
        rewrite (ex_assign X A asz HE) in HD. rewrite hd_mod_small in HD by apply oval_range.
        rewrite <- HD. eapply IHn; eassumption.
      * destruct b as [?|y|?]; try discriminate. destruct (find_def F y) as [[op [|q [|? ?]]]|] eqn:D; try discriminate.
        apply andb_true_iff in H. destruct H as [H1 H2]. apply seqb_eq in H1. subst op.
        apply find_def_in in D. destruct (HF _ D) as [_ HD]. unfold out1 in HD. cbn [map] in HD.
        rewrite (ex_assign X A asz HE) in HD. rewrite hd_mod_small in HD by apply oval_range.
        rewrite <- HD. eapply IHn; eassumption.
    + destruct a as [?|x|?]; try discriminate. destruct (find_def F x) as [[op aa]|] eqn:Da; try discriminate.
      destruct b as [?|y|?]; try discriminate. destruct (find_def F y) as [[op' ab]|] eqn:Db; try discriminate.
      apply andb_true_iff in H. destruct H as [H1 H2]. apply seqb_eq in H1. subst op'.
      apply find_def_in in Da. apply find_def_in in Db.
      destruct (HF _ Da) as [_ Ha]. destruct (HF _ Db) as [_ Hb].
      rewrite <- Ha, <- Hb.
      assert (Hl : forall l l', list_eqb (equiv n F asz) l l' = true -> map (oval c) l = map (oval c) l').
      { intros l l' Hl. eapply list_eqb_vals; [|exact Hl]. intros a b _ E. eapply IHn; eassumption. }
      apply orb_true_iff in H2. destruct H2 as [H2|H2].
      * rewrite (Hl _ _ H2). reflexivity.
      * apply andb_true_iff in H2. destruct H2 as [Hc H2]. destruct aa as [|x0 [|y0 [|? ?]]]; try discriminate.
        rewrite <- (Hl _ _ H2). cbn [map]. apply out1_comm. exact Hc.
Qed.

Lemma eqv_sound : forall F c st a b, all_hold c st F -> eqv F asz a b = true -> oval c a = oval c b.
Proof. intros. eapply equiv_sound; eassumption. Qed.

(* ------------------------------------------------------------------ shapes of the modelled loads and stores *)
Lemma store_space_op : forall op s, store_space op = Some s -> op = store_op s /\ is_cell_sp s = true.
Proof.
  intros op s H. unfold store_space in H.
  destruct (op =s "mstore") eqn:E1; [apply seqb_eq in E1; inversion H; subst; split; reflexivity|].
  destruct (op =s "sstore") eqn:E2; [apply seqb_eq in E2; inversion H; subst; split; reflexivity|].
  destruct (op =s "tstore") eqn:E3; [apply seqb_eq in E3; inversion H; subst; split; reflexivity|discriminate].
Qed.
Lemma load_space_op : forall op s, load_space op = Some s -> op = load_op s /\ is_cell_sp s = true.
Proof.
  intros op s H. unfold load_space in H.
  destruct (op =s "mload") eqn:E1; [apply seqb_eq in E1; inversion H; subst; split; reflexivity|].
  destruct (op =s "sload") eqn:E2; [apply seqb_eq in E2; inversion H; subst; split; reflexivity|].
  destruct (op =s "tload") eqn:E3; [apply seqb_eq in E3; inversion H; subst; split; reflexivity|discriminate].
Qed.

Lemma shape_load : forall s, is_cell_sp s = true ->
  shape_of (load_op s) = mkSh [mkSR s (PArg a0) (SzC (width s))] [] [] [] true false false.
Proof. intros [] H; try discriminate; reflexivity. Qed.
Lemma shape_store : forall s, is_cell_sp s = true ->
  shape_of (store_op s) = mkSh [] [mkSR s (PArg a1) (SzC (width s))] [] [] true false false.
Proof. intros [] H; try discriminate; reflexivity. Qed.
Lemma store_not_ctl : forall s, is_cell_sp s = true -> is_in (store_op s) CTL_OPS = false /\ is_in (store_op s) HALT_OPS = false.
Proof. intros [] H; try discriminate; split; reflexivity. Qed.

Lemma sp_eqb_refl : forall s, sp_eqb s s = true. Proof. destruct s; reflexivity. Qed.

Lemma in_width : forall s p i, 0 <= i < width s -> in_cr (mkCR s p (width s)) s (p + i) = true.
Proof.
  intros s p i H. unfold in_cr. cbn [cr_sp cr_lo cr_len]. rewrite sp_eqb_refl. cbn [andb].
  apply andb_true_iff. split; [apply Z.leb_le; lia | apply Z.ltb_lt; lia].
Qed.

(* ------------------------------------------------------------------ the shape of a step *)
Lemma step_generic : forall i c, is_in (i_op i) CTL_OPS = false -> is_in (i_op i) HALT_OPS = false ->
  step X i c =
    let a := map (oval (cv c)) (i_args i) in
    let sh := shape_of (i_op i) in
    let r := X (i_op i) a (if sh_vol sh then ct c else 0) (view sh a (cs c)) in
    if sh_fail sh && o_fail r then SHalt "trap" [] zero_store
    else SNext (mkC (bind (cv c) (i_outs i) (o_outs r)) (merge sh a r (cs c)) (ct c + 1)).
Proof.
  intros i c H1 H2. unfold step.
  rewrite (is_in_false_not _ _ H1 "jmp") by (cbn; auto).
  rewrite (is_in_false_not _ _ H1 "jnz") by (cbn; auto).
  rewrite (is_in_false_not _ _ H1 "djmp") by (cbn; auto 6).
  rewrite H2.
  rewrite (is_in_false_not _ _ H1 "assert") by (cbn; auto 6).
  rewrite (is_in_false_not _ _ H1 "assert_unreachable") by (cbn; auto 8).
  reflexivity.
Qed.

Lemma step_ctl : forall i c, is_in (i_op i) CTL_OPS = true ->
  match step X i c with
  | SNext c' | SJump _ c' => c' = mkC (cv c) (cs c) (ct c + 1)
  | SHalt _ _ _ => True
  end.
Proof.
  intros i c H. unfold step.
  destruct (i_op i =s "jmp") eqn:E1.
  { destruct (i_args i) as [|[v|x|l] [|? ?]]; cbn; auto. }
  destruct (i_op i =s "jnz") eqn:E2.
  { destruct (i_args i) as [|cond [|[v|x|l] [|[v2|x2|l2] [|? ?]]]]; cbn; auto. }
  destruct (i_op i =s "djmp") eqn:E3.
  { destruct (labels_of (i_args i)); cbn; auto. }
  destruct (is_in (i_op i) HALT_OPS) eqn:E4; [exact I|].
  destruct (i_op i =s "assert") eqn:E5.
  { destruct (hd 0 (map (oval (cv c)) (i_args i)) =? 0); cbn; auto. }
  destruct (i_op i =s "assert_unreachable") eqn:E6.
  { destruct (hd 0 (map (oval (cv c)) (i_args i)) =? 0); cbn; auto. }
  exfalso. unfold is_in, CTL_OPS in H. cbn in H. rewrite E1, E2, E3, E5, E6 in H. discriminate.
Qed.

Definition continues (r : sres) (c' : cfg) : Prop := r = SNext c' \/ exists l, r = SJump l c'.

Lemma step_post : forall i c c', continues (step X i c) c' ->
  (forall x, ~ In x (i_outs i) -> cv c' x = cv c x) /\
  (forall s k, wr (wshape (i_op i)) (map (oval (cv c)) (i_args i)) s k = false -> cs c' s k = cs c s k) /\
  (wf_store (cs c) -> wf_store (cs c')).
Proof.
  intros i c c' H.
  destruct (is_in (i_op i) CTL_OPS) eqn:C.
  - pose proof (step_ctl i c C) as S.
    assert (c' = mkC (cv c) (cs c) (ct c + 1)) as ->.
    { destruct H as [H|[l H]]; rewrite H in S; exact S. }
    cbn [cv cs ct]. split; [intros; reflexivity|]. split; [intros; reflexivity|]. intros; assumption.
  - destruct (is_in (i_op i) HALT_OPS) eqn:Hh.
    { exfalso. unfold step in H.
      rewrite (is_in_false_not _ _ C "jmp") in H by (cbn; auto).
      rewrite (is_in_false_not _ _ C "jnz") in H by (cbn; auto).
      rewrite (is_in_false_not _ _ C "djmp") in H by (cbn; auto 6).
      rewrite Hh in H. destruct H as [H|[l H]]; discriminate. }
    rewrite (step_generic i c C Hh) in H. cbn zeta in H.
    unfold wshape. rewrite C.
    destruct (sh_fail (shape_of (i_op i)) && _) in H; [destruct H as [H|[l H]]; discriminate|].
    destruct H as [H|[l H]]; [|discriminate]. inversion H; subst c'; clear H. cbn [cv cs ct].
    split; [intros; apply bind_other; assumption|]. split.
    + intros s k Wr. unfold merge. rewrite Wr. reflexivity.
    + apply merge_wf.
Qed.

Lemma out1_ext : forall op a st st', store_eq st st' -> out1 op a st = out1 op a st'.
Proof.
  intros op a st st' H. unfold out1.
  assert (V : store_eq (view (shape_of op) a st) (view (shape_of op) a st')) by (apply view_ext; intros; apply H).
  destruct (HX op a 0 _ _ V) as [Ho _]. rewrite Ho. reflexivity.
Qed.

Lemma out1_ext_rd : forall op a st st', (forall s k, rd (shape_of op) a s k = true -> st s k = st' s k) -> out1 op a st = out1 op a st'.
Proof.
  intros op a st st' H. unfold out1.
  destruct (HX op a 0 _ _ (view_ext _ _ _ _ H)) as [Ho _]. rewrite Ho. reflexivity.
Qed.

Lemma oval_unmentioned : forall c c' outs o, (forall x, ~ In x outs -> c' x = c x) ->
  (forall x, In x outs -> is_var x o = false) -> oval c' o = oval c o.
Proof.
  intros c c' outs [v|y|l] Hc Hm; cbn; try reflexivity.
  rewrite Hc; [reflexivity|]. intro Hin. specialize (Hm y Hin). cbn in Hm. rewrite N.eqb_refl in Hm. discriminate.
Qed.

Lemma vals_unmentioned : forall c c' outs l, (forall x, ~ In x outs -> c' x = c x) ->
  (forall x, In x outs -> existsb (is_var x) l = false) -> map (oval c') l = map (oval c) l.
Proof.
  intros c c' outs l Hc Hm. apply map_ext_in. intros o Ho. apply (oval_unmentioned c c' outs o); [assumption|].
  intros x Hx. specialize (Hm x Hx). destruct (is_var x o) eqn:E; [|reflexivity]. exfalso.
  assert (existsb (is_var x) l = true) by (apply existsb_exists; exists o; split; assumption). congruence.
Qed.

(* ------------------------------------------------------------------ facts survive instructions that do not touch them *)
Lemma wr_clear_all : forall F sh iargs a s k, sp_written sh s = false ->
  forallb (fun w : sp * memloc => negb (sp_eqb (fst w) s)) (wlocs F asz sh iargs) = true -> wr sh a s k = false.
Proof.
  intros F sh iargs a s k H1 H2. unfold wr. unfold sp_written in H1. rewrite H1. cbn [orb].
  apply not_true_is_false. intro E. apply existsb_exists in E. destruct E as [r [Hr Hin]].
  unfold in_cr in Hin. apply andb_true_iff in Hin. destruct Hin as [Hin _]. apply andb_true_iff in Hin. destruct Hin as [Hin _].
  cbn [conc_range cr_sp] in Hin.
  rewrite forallb_forall in H2. specialize (H2 (sr_sp r, sym_loc F asz iargs r)).
  unfold wlocs in H2. specialize (H2 (in_map _ _ _ Hr)). cbn [fst] in H2. rewrite Hin in H2. discriminate.
Qed.

Lemma wr_clear_range : forall F c st sh iargs gargs r' s k, all_hold c st F ->
  range_clear true F asz sh (wlocs F asz sh iargs) gargs r' = true ->
  in_cr (conc_range (map (oval c) gargs) r') s k = true -> wr sh (map (oval c) iargs) s k = false.
Proof.
  intros F c st sh iargs gargs r' s k HF H Hin. unfold range_clear in H. apply andb_true_iff in H. destruct H as [H1 H2].
  destruct (sym_loc_sound F c st gargs r' s k HF Hin) as [Sp' Ad'].
  unfold wr. unfold sp_written in H1. rewrite Sp' in H1. apply negb_true_iff in H1. rewrite H1. cbn [orb].
  apply not_true_is_false. intro E. apply existsb_exists in E. destruct E as [r [Hr Hin2]].
  destruct (sym_loc_sound F c st iargs r s k HF Hin2) as [Sp Ad].
  rewrite forallb_forall in H2. specialize (H2 (sr_sp r, sym_loc F asz iargs r)).
  unfold wlocs in H2. specialize (H2 (in_map _ _ _ Hr)). cbn [fst snd] in H2.
  rewrite Sp, Sp', sp_eqb_refl in H2. cbn [negb orb] in H2.
  exact (locs_disjoint_sound _ _ k H2 Ad Ad').
Qed.

Lemma survives_sound : forall F i c c' g, all_hold (cv c) (cs c) F -> continues (step X i c) c' -> In g F ->
  survives true F asz (i_outs i) (wshape (i_op i)) (wlocs F asz (wshape (i_op i)) (i_args i)) g = true ->
  holds (cv c') (cs c') g.
Proof.
  intros F i c c' g HF Hst Hg S. destruct (step_post i c c' Hst) as [Hv [Hs _]].
  set (sh := wshape (i_op i)) in *. set (a := map (oval (cv c)) (i_args i)) in *.
  unfold survives in S. apply andb_true_iff in S. destruct S as [M R]. apply negb_true_iff in M.
  assert (Hm : forall x, In x (i_outs i) -> existsb (is_var x) (fact_ops g) = false).
  { intros x Hx. destruct (existsb (is_var x) (fact_ops g)) eqn:E; [|reflexivity].
    assert (existsb (mentions g) (i_outs i) = true) by (apply existsb_exists; exists x; split; assumption). congruence. }
  pose proof (vals_unmentioned (cv c) (cv c') (i_outs i) (fact_ops g) Hv Hm) as Vals.
  (* cells read by g are not written *)
  assert (Hcell : forall s k,
            (in_sps s (fst (fact_reads g)) = true \/
             exists ar, In ar (snd (fact_reads g)) /\ in_cr (conc_range (map (oval (cv c)) (fst ar)) (snd ar)) s k = true) ->
            cs c' s k = cs c s k).
  { intros s k Hrd. apply Hs. fold sh. fold a.
    apply orb_true_iff in R. destruct R as [R|R].
    - apply andb_true_iff in R. destruct R as [R1 R2]. unfold wr.
      destruct (sh_wall sh); [|discriminate]. cbn [in_sps existsb orb].
      unfold wlocs in R1. destruct (sh_w sh); [reflexivity|discriminate].
    - apply andb_true_iff in R. destruct R as [R1 R2]. destruct Hrd as [Hrd|[ar [Har Hin]]].
      + unfold in_sps in Hrd. apply existsb_exists in Hrd. destruct Hrd as [s' [Hs' E]]. apply sp_eqb_eq in E. subst s'.
        rewrite forallb_forall in R1. specialize (R1 s Hs'). apply andb_true_iff in R1. destruct R1 as [R1a R1b].
        apply negb_true_iff in R1a. exact (wr_clear_all F sh (i_args i) a s k R1a R1b).
      + rewrite forallb_forall in R2. specialize (R2 ar Har).
        exact (wr_clear_range F (cv c) (cs c) sh (i_args i) (fst ar) (snd ar) s k HF R2 Hin). }
  specialize (HF g Hg). destruct g as [v op args|s p v|x]; cbn [holds] in HF |- *.
  - destruct HF as [Ro HF]. split; [exact Ro|]. cbn [fact_ops map] in Vals. inversion Vals as [[V1 V2]].
    rewrite V1, V2. rewrite <- HF. apply out1_ext_rd. intros s k Rd. apply Hcell. cbn [fact_reads fst snd].
    unfold rd in Rd. apply orb_true_iff in Rd. destruct Rd as [Rd|Rd]; [left; exact Rd|right].
    apply existsb_exists in Rd. destruct Rd as [r [Hr Hin]]. exists (args, r). split; [apply in_map; exact Hr|exact Hin].
  - destruct HF as [Cs HF]. split; [exact Cs|]. cbn [fact_ops map] in Vals. inversion Vals as [[V1 V2]].
    intros j Hj. rewrite V1, V2. rewrite <- (HF j Hj). apply Hcell. right. cbn [fact_reads fst snd].
    exists ([p], mkSR s (PArg a0) (SzC (width s))). split; [left; reflexivity|]. cbn [fst snd map conc_range sr_sp sr_ptr sr_size aget a0 nth].
    apply in_width. exact Hj.
  - cbn [fact_ops map] in Vals. inversion Vals as [V1]. rewrite V1. exact HF.
Qed.

(* ------------------------------------------------------------------ loads, stores and the cells they touch *)
Lemma rd_load : forall s p i, is_cell_sp s = true -> 0 <= i < width s -> rd (shape_of (load_op s)) [p] s (p + i) = true.
Proof.
  intros s p i Hs Hi. rewrite (shape_load s Hs). unfold rd. apply orb_true_iff. right.
  cbn [sh_r existsb]. apply orb_true_iff. left. exact (in_width s p i Hi).
Qed.

Lemma out1_load : forall s p st, is_cell_sp s = true ->
  out1 (load_op s) [p] st = dec s (fun i => view (shape_of (load_op s)) [p] st s (p + i)) mod W.
Proof. intros s p st Hs. unfold out1. rewrite (ex_load X A asz HE s Hs). reflexivity. Qed.

Lemma load_cell : forall s p st, is_cell_sp s = true -> wf_store st ->
  forall i, 0 <= i < width s -> st s (p + i) = enc s (out1 (load_op s) [p] st) i.
Proof.
  intros s p st Hs Hwf i Hi. rewrite (out1_load s p st Hs).
  set (b := fun j => view (shape_of (load_op s)) [p] st s (p + j)).
  assert (Hb : forall j, 0 <= j < width s -> b j = st s (p + j)).
  { intros j Hj. subst b. cbn beta. unfold view. rewrite (rd_load s p j Hs Hj). reflexivity. }
  destruct s; try discriminate; cbn [dec enc width] in *.
  - assert (R : forall j, 0 <= j < 32 -> 0 <= b j < 256) by (intros j Hj; rewrite (Hb j Hj); apply Hwf).
    destruct (enc_dec b R) as [B1 B2]. rewrite Z.mod_small by exact B1. rewrite (B2 i Hi). symmetry. apply Hb. exact Hi.
  - assert (i = 0) by lia. subst i. rewrite (Hb 0 Hi). symmetry. apply Z.mod_small. apply Hwf.
  - assert (i = 0) by lia. subst i. rewrite (Hb 0 Hi). symmetry. apply Z.mod_small. apply Hwf.
Qed.

Lemma cell_load_mem : forall p st w, 0 <= w < W ->
  (forall i, 0 <= i < 32 -> st Mem (p + i) = enc_byte w i) -> out1 (load_op Mem) [p] st = w.
Proof.
  intros p st w Hw Hc. rewrite (out1_load Mem p st eq_refl). cbn [dec].
  assert (E : dec32 (fun i : Z => view (shape_of (load_op Mem)) [p] st Mem (p + i)) = dec32 (enc_byte w)).
  { apply decn_ext. intros j Hj. change (Z.of_nat 32) with 32 in Hj. unfold view. rewrite (rd_load Mem p j eq_refl Hj). apply Hc. exact Hj. }
  rewrite E. rewrite (dec_enc w Hw). apply Z.mod_small. exact Hw.
Qed.

Lemma cell_load : forall s p st w, is_cell_sp s = true -> 0 <= w < W ->
  (forall i, 0 <= i < width s -> st s (p + i) = enc s w i) -> out1 (load_op s) [p] st = w.
Proof.
  intros s p st w Hs Hw Hc. destruct s; try discriminate.
  - apply cell_load_mem; assumption.
  - rewrite (out1_load Sto p st eq_refl). cbn [dec]. unfold view. rewrite (rd_load Sto p 0 eq_refl) by (cbn; lia).
    rewrite (Hc 0) by (cbn; lia). cbn [enc]. apply Z.mod_small. exact Hw.
  - rewrite (out1_load Tra p st eq_refl). cbn [dec]. unfold view. rewrite (rd_load Tra p 0 eq_refl) by (cbn; lia).
    rewrite (Hc 0) by (cbn; lia). cbn [enc]. apply Z.mod_small. exact Hw.
Qed.

Lemma ro_ok_inv : forall op, ro_ok op = true ->
  sh_w (shape_of op) = [] /\ sh_wall (shape_of op) = [] /\ sh_vol (shape_of op) = false /\ sh_fail (shape_of op) = false
  /\ is_in op HALT_OPS = false /\ is_in op CTL_OPS = false.
Proof.
  intros op H. unfold ro_ok in H. repeat (apply andb_true_iff in H; destruct H as [H ?]).
  repeat match goal with Hn : negb _ = true |- _ => apply negb_true_iff in Hn end.
  destruct (sh_w (shape_of op)); [|discriminate]. destruct (sh_wall (shape_of op)); [|discriminate]. auto 10.
Qed.

Lemma ro_step : forall i c, ro_ok (i_op i) = true ->
  exists st', step X i c = SNext (mkC (bind (cv c) (i_outs i)
       (o_outs (X (i_op i) (map (oval (cv c)) (i_args i)) 0 (view (shape_of (i_op i)) (map (oval (cv c)) (i_args i)) (cs c)))))
       st' (ct c + 1)) /\ store_eq st' (cs c).
Proof.
  intros i c H. destruct (ro_ok_inv _ H) as [W1 [W2 [V [Fl [Hh Hc]]]]].
  rewrite (step_generic i c Hc Hh). cbn zeta. rewrite V, Fl. cbn [andb].
  eexists. split; [reflexivity|]. apply no_writes_merge; assumption.
Qed.

Lemma new_facts_sound : forall i c c' g, wf_store (cs c) -> continues (step X i c) c' -> In g (new_facts i) ->
  holds (cv c') (cs c') g.
Proof.
  intros i c c' g Hwf Hst Hg. unfold new_facts in Hg.
  destruct (i_outs i) as [|x [|? ?]] eqn:Ho; [| |destruct Hg].
  - (* no output: store or assert *)
    destruct (store_space (i_op i)) as [s|] eqn:Ss.
    + destruct (store_space_op _ _ Ss) as [Eop Hs].
      assert (Na : (i_op i =s "assert") = false) by (rewrite Eop; destruct s; try discriminate; reflexivity).
      rewrite Na in Hg.
      destruct (i_args i) as [|v [|p [|? ?]]] eqn:Ha; try contradiction.
      destruct Hg as [<-|[]].
      destruct (store_not_ctl s Hs) as [Hc Hh]. rewrite <- Eop in Hc, Hh.
      rewrite (step_generic i c Hc Hh) in Hst. cbn zeta in Hst. rewrite Eop in Hst. rewrite (shape_store s Hs) in Hst.
      cbn [sh_fail sh_vol andb] in Hst. destruct Hst as [Hst|[l Hst]]; [|discriminate]. inversion Hst; subst c'; clear Hst.
      rewrite Ho, Ha. cbn [cv cs bind holds]. split; [exact Hs|]. intros j Hj.
      unfold merge. cbn [map].
      assert (Wr : wr (mkSh [] [mkSR s (PArg a1) (SzC (width s))] [] [] true false false) [oval (cv c) v; oval (cv c) p] s (oval (cv c) p + j) = true).
      { unfold wr. apply orb_true_iff. right. cbn [sh_w existsb]. apply orb_true_iff. left. exact (in_width s _ j Hj). }
      rewrite Wr. cbn [sh_must orb andb].
      apply (ex_store X A asz HE s Hs); [apply oval_range|exact Hj].
    + destruct (i_op i =s "assert") eqn:Ea; [|destruct Hg].
      destruct (i_args i) as [|x [|? ?]] eqn:Ha; try contradiction. destruct Hg as [<-|[]].
      cbn [holds]. unfold step in Hst. apply seqb_eq in Ea. rewrite Ea in Hst. cbn in Hst. rewrite Ha in Hst. cbn [map hd] in Hst.
      destruct (oval (cv c) x =? 0) eqn:E.
      * destruct Hst as [Hst|[l Hst]]; discriminate.
      * destruct Hst as [Hst|[l Hst]]; [|discriminate]. inversion Hst; subst c'. cbn [cv]. apply Z.eqb_neq. exact E.
  - (* one output *)
    destruct (ro_ok (i_op i) && negb (existsb (is_var x) (i_args i))) eqn:Hr; [|destruct Hg].
    apply andb_true_iff in Hr. destruct Hr as [Ro Nm]. apply negb_true_iff in Nm.
    destruct (ro_step i c Ro) as [st' [Est Hst']]. rewrite Est in Hst.
    destruct Hst as [Hst|[l Hst]]; [|discriminate]. inversion Hst; subst c'; clear Hst. cbn [cv cs].
    rewrite Ho.
    set (a := map (oval (cv c)) (i_args i)) in *.
    set (outs := o_outs (X (i_op i) a 0 (view (shape_of (i_op i)) a (cs c)))) in *.
    assert (Va : map (oval (bind (cv c) [x] outs)) (i_args i) = a).
    { apply (vals_unmentioned (cv c) _ [x]); [intros y Hy; apply bind_other; exact Hy|].
      intros y [<-|[]]. exact Nm. }
    assert (Vx : oval (bind (cv c) [x] outs) (OVar x) = out1 (i_op i) a (cs c)).
    { cbn [oval]. rewrite bind_one. unfold out1. fold outs. apply Z.mod_mod. pose proof W_pos; lia. }
    assert (Hfe : holds (bind (cv c) [x] outs) st' (FEq (OVar x) (i_op i) (i_args i))).
    { cbn [holds]. split; [exact Ro|]. rewrite Va, Vx. apply out1_ext. exact Hst'. }
    destruct Hg as [<-|Hg]; [exact Hfe|].
    assert (Hop : forall o, In o (i_args i) -> oval (bind (cv c) [x] outs) o = oval (cv c) o).
    { intros o Hin. apply (oval_unmentioned (cv c) _ [x]); [intros y Hy; apply bind_other; exact Hy|].
      intros y [<-|[]]. destruct (is_var x o) eqn:E; [|reflexivity]. exfalso.
      assert (existsb (is_var x) (i_args i) = true) by (apply existsb_exists; exists o; split; assumption). congruence. }
    destruct (load_space (i_op i)) as [s|] eqn:Ls; [|destruct Hg].
    destruct (load_space_op _ _ Ls) as [Eop Hs].
    destruct (i_args i) as [|p [|? ?]] eqn:Ha; try contradiction. destruct Hg as [<-|[]].
    cbn [holds]. split; [exact Hs|]. intros j Hj.
    rewrite (Hop p (or_introl eq_refl)). rewrite Vx. rewrite Hst'.
    subst a. cbn [map]. rewrite Eop. apply load_cell; assumption.
Qed.

Lemma facts_step_sound : forall F i c c', all_hold (cv c) (cs c) F -> wf_store (cs c) -> continues (step X i c) c' ->
  all_hold (cv c') (cs c') (facts_step true F asz i).
Proof.
  intros F i c c' HF Hwf Hst g Hg. unfold facts_step in Hg. apply in_app_or in Hg. destruct Hg as [Hg|Hg].
  - eapply new_facts_sound; eassumption.
  - apply filter_In in Hg. destruct Hg as [Hin Hs]. eapply survives_sound; eassumption.
Qed.

(* ------------------------------------------------------------------ a replaced instruction behaves like the original *)
Definition P0 : sp -> Z -> Prop := fun _ _ => False.

Lemma sres_rel_weaken : forall (P Q : sp -> Z -> Prop) r r', (forall s k, P s k -> Q s k) -> sres_rel P r r' -> sres_rel Q r r'.
Proof.
  intros P Q [c|l c|op a v] [c'|l' c'|op' a' v'] H R; cbn in *; try contradiction; try exact R.
  - eapply ceq_weaken; eassumption.
  - destruct R as [R1 R2]. split; [exact R1|eapply ceq_weaken; eassumption].
Qed.

Lemma ceq0_store : forall c c1, ceq P0 c c1 -> store_eq (cs c) (cs c1).
Proof. intros c c1 [_ [_ H]] s k. apply H. intros []. Qed.

Lemma cell_known_sound : forall F c st s p v, all_hold c st F -> cell_known F asz s p v = true ->
  is_cell_sp s = true /\ forall j, 0 <= j < width s -> st s (oval c p + j) = enc s (oval c v) j.
Proof.
  intros F c st s p v HF H. unfold cell_known in H. apply existsb_exists in H. destruct H as [g [Hg H]].
  destruct g as [| s' p' v' |]; try discriminate.
  apply andb_true_iff in H. destruct H as [H H3]. apply andb_true_iff in H. destruct H as [H1 H2].
  apply sp_eqb_eq in H1. subst s'. destruct (HF _ Hg) as [Hs Hc].
  rewrite <- (eqv_sound F c st p' p HF H2). rewrite <- (eqv_sound F c st v' v HF H3). split; assumption.
Qed.

Lemma value_known_sound : forall F c st op args v, all_hold c st F -> value_known F asz op args v = true ->
  out1 op (map (oval c) args) st = oval c v.
Proof.
  intros F c st op args v HF H. unfold value_known in H. apply existsb_exists in H. destruct H as [g [Hg H]].
  destruct g as [w op' a' | |]; try discriminate.
  apply andb_true_iff in H. destruct H as [H H3]. apply andb_true_iff in H. destruct H as [H1 H2].
  apply seqb_eq in H1. subst op'. destruct (HF _ Hg) as [_ Hv].
  rewrite <- (eqv_sound F c st w v HF H3). rewrite <- Hv.
  assert (Hl : forall l, list_eqb (eqv F asz) a' l = true -> map (oval c) a' = map (oval c) l).
  { intros l Hl. eapply list_eqb_vals; [|exact Hl]. intros a b _ E. eapply eqv_sound; eassumption. }
  apply orb_true_iff in H2. destruct H2 as [H2|H2].
  - rewrite (Hl _ H2). reflexivity.
  - apply andb_true_iff in H2. destruct H2 as [Hc H2]. destruct args as [|x [|y [|? ?]]]; try discriminate.
    rewrite (Hl _ H2). cbn [map]. apply out1_comm. exact Hc.
Qed.

Lemma justified_sound : forall F i i' c c1, all_hold (cv c) (cs c) F -> wf_store (cs c) -> ceq P0 c c1 ->
  justified F asz i i' = true -> sres_rel P0 (step X i c) (step X i' c1).
Proof.
  intros F i i' c c1 HF Hwf Hc J. unfold justified in J.
  apply orb_true_iff in J. destruct J as [J|J]; [apply orb_true_iff in J; destruct J as [J|J]|].
  - apply inst_eqb_eq in J. subst i'.
    eapply sres_rel_weaken; [|apply (step_rel X P0 i c c1 HX Hc); intros s k _ []]. intros s k [[] _].
  - (* replaced by a copy *)
    destruct (i_outs i) as [|x [|? ?]] eqn:Ho; try discriminate.
    destruct (i_args i') as [|v [|? ?]] eqn:Ha'; try discriminate.
    apply andb_true_iff in J. destruct J as [J K]. apply andb_true_iff in J. destruct J as [J Ro].
    apply andb_true_iff in J. destruct J as [Eop Eo]. apply seqb_eq in Eop.
    apply (list_eqb_eq _ N.eqb (fun a b => proj1 (N.eqb_eq a b))) in Eo.
    destruct (ro_step i c Ro) as [st [E1 S1]]. rewrite E1.
    assert (Ro' : ro_ok (i_op i') = true) by (rewrite Eop; reflexivity).
    destruct (ro_step i' c1 Ro') as [st1 [E2 S2]]. rewrite E2. rewrite Eop, Ha', Eo, Ho. cbn [map].
    rewrite (ex_assign X A asz HE).
    destruct Hc as [Hv [Ht Hs]].
    assert (Val : out1 (i_op i) (map (oval (cv c)) (i_args i)) (cs c) = oval (cv c) v).
    { apply orb_true_iff in K. destruct K as [K|K]; [eapply value_known_sound; eassumption|].
      destruct (load_space (i_op i)) as [s|] eqn:Ls; [|discriminate].
      destruct (i_args i) as [|p [|? ?]]; try discriminate.
      destruct (load_space_op _ _ Ls) as [Eo' Hs']. destruct (cell_known_sound F _ _ s p v HF K) as [_ Hcell].
      rewrite Eo'. cbn [map]. apply cell_load; [exact Hs'|apply oval_range|exact Hcell]. }
    cbn [sres_rel]. repeat split; cbn [cv cs ct].
    + intros y. cbn [bind hd tl]. destruct (N.eqb y x); [|apply Hv].
      unfold out1 in Val. rewrite Val. rewrite (oval_ext _ _ v Hv). symmetry. apply Z.mod_small. apply oval_range.
    + lia.
    + intros s k _. rewrite S1, S2. apply Hs. intros [].
  - (* deleted: the cell already holds the value / the assertion has already passed *)
    apply andb_true_iff in J. destruct J as [J K]. apply andb_true_iff in J. destruct J as [J No].
    apply andb_true_iff in J. destruct J as [Eop No']. apply seqb_eq in Eop.
    destruct (i_outs i') eqn:Ho'; [|discriminate]. destruct (i_outs i) eqn:Ho; [|discriminate].
    assert (Ro' : ro_ok (i_op i') = true) by (rewrite Eop; reflexivity).
    destruct (ro_step i' c1 Ro') as [st1 [E2 S2]]. rewrite E2. rewrite Ho'. cbn [bind].
    destruct Hc as [Hv [Ht Hs]].
    destruct (store_space (i_op i)) as [s|] eqn:Ss.
    + destruct (i_args i) as [|v [|p [|? ?]]] eqn:Ha; try discriminate.
      destruct (store_space_op _ _ Ss) as [Eo Hs']. destruct (store_not_ctl s Hs') as [Hc Hh]. rewrite <- Eo in Hc, Hh.
      rewrite (step_generic i c Hc Hh). cbn zeta. rewrite Eo. rewrite (shape_store s Hs').
      cbn [sh_fail sh_vol andb]. rewrite Ho, Ha. cbn [bind map sres_rel]. repeat split; cbn [cv cs ct]; [exact Hv|lia|].
      intros s' k _. rewrite S2. rewrite <- (Hs s' k (fun f => f)).
      destruct (cell_known_sound F _ _ s p v HF K) as [_ Hcell].
      unfold merge. destruct (wr _ _ s' k) eqn:Wr; [|reflexivity]. cbn [sh_must orb andb].
      unfold wr in Wr. cbn [sh_wall sh_w in_sps existsb orb] in Wr. rewrite orb_false_r in Wr.
      unfold in_cr, conc_range in Wr. cbn [cr_sp cr_lo cr_len sr_sp sr_ptr sr_size aget a1 nth] in Wr.
      apply andb_true_iff in Wr. destruct Wr as [Wr W3]. apply andb_true_iff in Wr. destruct Wr as [W1 W2].
      apply sp_eqb_eq in W1. subst s'. apply Z.leb_le in W2. apply Z.ltb_lt in W3.
      replace k with (oval (cv c) p + (k - oval (cv c) p)) by lia.
      rewrite (ex_store X A asz HE s Hs') by (try apply oval_range; lia).
      symmetry. apply Hcell. lia.
    + destruct (i_args i) as [|x [|? ?]] eqn:Ha; try discriminate.
      apply andb_true_iff in K. destruct K as [Ea K]. apply seqb_eq in Ea.
      unfold nz_known in K. apply existsb_exists in K. destruct K as [g [Hg K]]. destruct g as [| |x']; try discriminate.
      pose proof (HF _ Hg) as Nz. cbn [holds] in Nz. rewrite (eqv_sound F _ _ x' x HF K) in Nz.
      unfold step. rewrite Ea. cbn. rewrite Ha. cbn [map hd].
      destruct (oval (cv c) x =? 0) eqn:E; [apply Z.eqb_eq in E; contradiction|].
      cbn [sres_rel]. repeat split; cbn [cv cs ct]; [exact Hv|lia|]. intros s k _. rewrite S2. apply Hs. intros [].
Qed.
Lemma holds_store_ext : forall c st st' g, store_eq st st' -> holds c st g -> holds c st' g.
Proof.
  intros c st st' [v op args|s p v|x] H Hh; cbn [holds] in *.
  - destruct Hh as [R Hh]. split; [exact R|]. rewrite <- Hh. symmetry. apply out1_ext. exact H.
  - destruct Hh as [R Hh]. split; [exact R|]. intros j Hj. rewrite <- (H s). apply Hh. exact Hj.
  - exact Hh.
Qed.

Lemma keep_sound : forall F i i' c c2, all_hold (cv c) (cs c) F -> keep F asz i i' = true -> step X i c = SNext c2 ->
  all_hold (cv c2) (cs c2) F.
Proof.
  intros F i i' c c2 HF K E. unfold keep in K.
  apply andb_true_iff in K. destruct K as [K K4]. apply andb_true_iff in K. destruct K as [K No].
  destruct (i_outs i) eqn:Ho; [|discriminate].
  destruct (store_space (i_op i)) as [s|] eqn:Ss; [|discriminate].
  destruct (i_args i) as [|v [|p [|? ?]]] eqn:Ha; try discriminate.
  destruct (store_space_op _ _ Ss) as [Eo Hs']. destruct (store_not_ctl s Hs') as [Hc Hh]. rewrite <- Eo in Hc, Hh.
  rewrite (step_generic i c Hc Hh) in E. cbn zeta in E. rewrite Eo in E. rewrite (shape_store s Hs') in E.
  cbn [sh_fail sh_vol andb] in E. rewrite Ho, Ha in E. cbn [bind map] in E. inversion E; subst c2; clear E. cbn [cv cs].
  destruct (cell_known_sound F _ _ s p v HF K4) as [_ Hcell].
  intros g Hg. apply (holds_store_ext (cv c) (cs c)); [|apply HF; exact Hg].
  intros s' k. unfold merge. destruct (wr _ _ s' k) eqn:Wr; [|reflexivity]. cbn [sh_must orb andb].
  unfold wr in Wr. cbn [sh_wall sh_w in_sps existsb orb] in Wr. rewrite orb_false_r in Wr.
  unfold in_cr, conc_range in Wr. cbn [cr_sp cr_lo cr_len sr_sp sr_ptr sr_size aget a1 nth] in Wr.
  apply andb_true_iff in Wr. destruct Wr as [Wr W3]. apply andb_true_iff in Wr. destruct Wr as [W1 W2].
  apply sp_eqb_eq in W1. subst s'. apply Z.leb_le in W2. apply Z.ltb_lt in W3.
  replace k with (oval (cv c) p + (k - oval (cv c) p)) by lia.
  rewrite (ex_store X A asz HE s Hs') by (try apply oval_range; lia).
  apply Hcell. lia.
Qed.

Lemma next_facts_sound : forall F i i' c c2, all_hold (cv c) (cs c) F -> wf_store (cs c) -> step X i c = SNext c2 ->
  all_hold (cv c2) (cs c2) (next_facts true F asz i i').
Proof.
  intros F i i' c c2 HF Hwf E. unfold next_facts. destruct (keep F asz i i') eqn:K.
  - eapply keep_sound; eassumption.
  - apply (facts_step_sound F i c c2 HF Hwf). left. exact E.
Qed.
End Facts.
