(* C14M / MemFactsProofs.v -- soundness of the available facts of MemFacts.v: resolved addresses, symbolic locations and
   their disjointness (through may_overlap_sound), operand equivalence, the transfer function, and the justification
   of a replaced instruction. *)
From Coq Require Import ZArith NArith List Bool String Lia.
From Verif Require Import Base.PyInt C14.MemLocBase C14.GenMemLoc C14.MemLocSound C14M.MemSem C14M.MemFacts C14M.MemSemProofs.
Import ListNotations.
Open Scope string_scope.
Open Scope Z_scope.

Lemma operand_eqb_eq : forall a b, operand_eqb a b = true -> a = b.
Proof.
  intros [x|x|x] [y|y|y]; cbn; intros H; try discriminate.
  - apply Z.eqb_eq in H. congruence.
  - apply N.eqb_eq in H. congruence.
  - apply N.eqb_eq in H. congruence.
Qed.

Lemma list_eqb_eq : forall A (e : A -> A -> bool), (forall a b, e a b = true -> a = b) ->
  forall l l', list_eqb e l l' = true -> l = l'.
Proof.
  intros A e He. induction l as [|x t IH]; intros [|y t'] H; cbn in H; try discriminate; [reflexivity|].
  apply andb_true_iff in H. destruct H as [H1 H2]. f_equal; [apply He; exact H1 | apply IH; exact H2].
Qed.

Lemma inst_eqb_eq : forall i j, inst_eqb i j = true -> i = j.
Proof.
  intros [o a u] [o' a' u'] H. unfold inst_eqb in H. cbn in H.
  apply andb_true_iff in H. destruct H as [H H3]. apply andb_true_iff in H. destruct H as [H1 H2].
  apply seqb_eq in H1. apply (list_eqb_eq _ _ operand_eqb_eq) in H2.
  apply (list_eqb_eq _ N.eqb (fun a b => proj1 (N.eqb_eq a b))) in H3. congruence.
Qed.

Lemma fact_eqb_eq : forall f g, fact_eqb f g = true -> f = g.
Proof.
  intros [v op a|s p v|c] [v' op' a'|s' p' v'|c'] H; cbn in H; try discriminate.
  - apply andb_true_iff in H. destruct H as [H H3]. apply andb_true_iff in H. destruct H as [H1 H2].
    apply operand_eqb_eq in H1. apply seqb_eq in H2. apply (list_eqb_eq _ _ operand_eqb_eq) in H3. congruence.
  - apply andb_true_iff in H. destruct H as [H H3]. apply andb_true_iff in H. destruct H as [H1 H2].
    apply sp_eqb_eq in H1. apply operand_eqb_eq in H2. apply operand_eqb_eq in H3. congruence.
  - apply operand_eqb_eq in H. congruence.
Qed.

Lemma has_fact_in : forall g F, has_fact g F = true -> In g F.
Proof.
  intros g F H. unfold has_fact in H. apply existsb_exists in H. destruct H as [x [Hin He]].
  apply fact_eqb_eq in He. subst. exact Hin.
Qed.

Lemma aget_map : forall A B (f : A -> B) d l i, aget (f d) (map f l) i = f (aget d l i).
Proof. intros A B f d l [k|k]; cbn; [apply map_nth | rewrite <- map_rev; apply map_nth]. Qed.

Lemma is_in_false_not : forall op l, is_in op l = false -> forall x, In x l -> (op =s x) = false.
Proof.
  intros op l H x Hin. unfold is_in in H. destruct (op =s x) eqn:E; [|reflexivity].
  assert (existsb (String.eqb op) l = true) by (apply existsb_exists; exists x; split; assumption). congruence.
Qed.

Section Facts.
Variable X : oracle.
Variable A : Z -> Z.
Variable asz : Z -> Z.
Hypothesis HX : X_ext X.
Hypothesis HE : exact X A asz.

Definition out1 (op : string) (a : list Z) (st : store) : Z :=
  hd 0 (o_outs (X op a 0 (view (shape_of op) a st))) mod W.

Definition holds (c : N -> Z) (st : store) (g : fact) : Prop :=
  match g with
  | FEq v op args => ro_ok op = true /\ out1 op (map (oval c) args) st = oval c v
  | FCell s p v => is_cell_sp s = true /\ forall i, 0 <= i < width s -> st s (oval c p + i) = enc s (oval c v) i
  | FNz x => oval c x <> 0
  end.
Definition all_hold (c : N -> Z) (st : store) (F : list fact) : Prop := forall g, In g F -> holds c st g.

Definition base (b : option Z) : Z := match b with None => 0 | Some id => A id end.
Definition aden (l : memloc) (k : Z) : Prop := exists j, den l (ml_alloca l) j /\ k = base (ml_alloca l) + j.

(* ------------------------------------------------------------------ resolved addresses *)
Lemma find_def_in : forall F x op a, find_def F x = Some (op, a) -> In (FEq (OVar x) op a) F.
Proof.
  induction F as [|g t IH]; intros x op a H; cbn in H; [discriminate|].
  destruct g as [v op' a'|s p v|c]; try (right; apply IH; exact H).
  destruct v as [z|y|l]; try (right; apply IH; exact H).
  destruct (N.eqb x y) eqn:E.
  - apply N.eqb_eq in E. inversion H. subst. left. reflexivity.
  - right. apply IH. exact H.
Qed.

Definition res_ok (c : N -> Z) (p : operand) (r : option Z * option Z) : Prop :=
  match r with
  | (b, Some o) => oval c p = base b + o /\ match b with None => 0 <= o < W | Some id => 0 <= o <= asz id end
  | _ => True
  end.

Lemma offset_by_ok : forall c q r d v, res_ok c q r -> v = (oval c q + d) mod W -> forall p, oval c p = v ->
  res_ok c p (offset_by asz r d).
Proof.
  intros c q [[id|] [o|]] d v H Hv p Hp; cbn; try exact I.
  - destruct ((0 <=? o + d) && (o + d <=? asz id)) eqn:E; cbn; [|exact I].
    apply andb_true_iff in E. destruct E as [E1 E2]. apply Z.leb_le in E1, E2.
    destruct H as [H1 H2]. destruct (ex_A X A asz HE id) as [A1 [A2 A3]].
    split; [|lia]. rewrite Hp, Hv, H1. cbn [base]. rewrite Z.mod_small by lia. lia.
  - destruct ((0 <=? o + d) && (o + d <? W)) eqn:E; cbn; [|exact I].
    apply andb_true_iff in E. destruct E as [E1 E2]. apply Z.leb_le in E1. apply Z.ltb_lt in E2.
    destruct H as [H1 H2]. split; [|lia]. rewrite Hp, Hv, H1. cbn [base]. rewrite Z.mod_small by lia. lia.
Qed.

Lemma in_alloca_ok : forall c p r1 r2, res_ok c p (in_alloca r1 r2).
Proof. intros c p [[?|] ?] [[?|] ?]; cbn; exact I. Qed.

Lemma hd_mod_small : forall v, 0 <= v < W -> hd 0 [v] mod W = v.
Proof. intros. cbn. apply Z.mod_small. assumption. Qed.

Lemma resolve_sound : forall n F c st p, all_hold c st F -> res_ok c p (resolve n F asz p).
Proof.
  induction n; intros F c st p HF.
  - destruct p as [v|x|l]; cbn; try exact I. split; [lia|]. apply Z.mod_pos_bound. exact W_pos.
  - destruct p as [v|x|l]; cbn [resolve]; try exact I.
    { cbn. split; [lia|]. apply Z.mod_pos_bound. exact W_pos. }
    destruct (find_def F x) as [[op a]|] eqn:D; [|exact I].
    apply find_def_in in D. pose proof (HF _ D) as HD. cbn in HD. destruct HD as [_ HD]. unfold out1 in HD.
    destruct (op =s "alloca") eqn:E1.
    { apply seqb_eq in E1. subst op.
      destruct a as [|[sz|?|?] [|[id|?|?] [|? ?]]]; try exact I.
      destruct (sz mod W =? asz (id mod W)) eqn:E; [|exact I]. apply Z.eqb_eq in E.
      cbn [map oval] in HD. rewrite E in HD. rewrite (ex_alloca X A asz HE) in HD.
      destruct (ex_A X A asz HE (id mod W)) as [A1 [A2 A3]].
      rewrite hd_mod_small in HD by lia. cbn. split; lia. }
    destruct (op =s "assign") eqn:E2.
    { apply seqb_eq in E2. subst op. destruct a as [|q [|? ?]]; try exact I.
      cbn [map] in HD. rewrite (ex_assign X A asz HE) in HD.
      rewrite hd_mod_small in HD by apply oval_range.
      pose proof (IHn F c st q HF) as IH. destruct (resolve n F asz q) as [b [o|]]; [|exact I].
      cbn in IH |- *. rewrite <- HD. exact IH. }
    destruct (op =s "add") eqn:E3.
    { apply seqb_eq in E3. subst op.
      destruct a as [|a1 [|a2 [|? ?]]]; try (destruct a1; exact I); try (destruct a1, a2; exact I).
      cbn [map] in HD. rewrite (ex_add X A asz HE) in HD.
      rewrite hd_mod_small in HD by (apply Z.mod_pos_bound; exact W_pos).
      destruct a1 as [k|y|l]; destruct a2 as [k2|y2|l2]; cbn beta iota; try apply in_alloca_ok.
      all: try (eapply (offset_by_ok c _ _ _ _ (IHn F c st _ HF)); [reflexivity | etransitivity; [symmetry; exact HD|]; cbn [oval]; f_equal; lia]).
}
    destruct (op =s "sub") eqn:E4.
    { apply seqb_eq in E4. subst op.
      destruct a as [|a1 [|a2 [|? ?]]]; try (destruct a1; exact I); try (destruct a1, a2; exact I).
      cbn [map] in HD. rewrite (ex_sub X A asz HE) in HD.
      rewrite hd_mod_small in HD by (apply Z.mod_pos_bound; exact W_pos).
      destruct a1 as [k|y|l]; try exact I.
      eapply (offset_by_ok c _ _ _ _ (IHn F c st _ HF)); [reflexivity | etransitivity; [symmetry; exact HD|]; cbn [oval]; f_equal; lia]. }
    exact I.
Qed.

(* ------------------------------------------------------------------ symbolic locations *)
Lemma aget_oval : forall c l i, aget 0 (map (oval c) l) i = oval c (aget (OLab 0) l i).
Proof. intros. exact (aget_map _ _ (oval c) (OLab 0) l i). Qed.

Lemma sym_size_ok : forall c args z n, sym_size args z = Some n ->
  (match z with SzC m => m | SzA i => aget 0 (map (oval c) args) i end) = n.
Proof.
  intros c args [m|i] n H; cbn in H.
  - congruence.
  - rewrite aget_oval.
    destruct (aget (OLab 0) args i) as [v|x|l]; try discriminate. cbn. congruence.
Qed.

Lemma sym_loc_sound : forall F c st args r s k, all_hold c st F ->
  in_cr (conc_range (map (oval c) args) r) s k = true ->
  sr_sp r = s /\ aden (sym_loc F asz args r) k.
Proof.
  intros F c st args r s k HF H. unfold in_cr, conc_range in H. cbn [cr_sp cr_lo cr_len] in H.
  apply andb_true_iff in H. destruct H as [H H3]. apply andb_true_iff in H. destruct H as [H1 H2].
  apply sp_eqb_eq in H1. apply Z.leb_le in H2. apply Z.ltb_lt in H3. split; [exact H1|].
  unfold sym_loc, aden.
  pose proof (sym_size_ok c args (sr_size r)) as Hsz.
  set (len := match sr_size r with SzC m => m | SzA i => aget 0 (map (oval c) args) i end) in *.
  destruct (sr_ptr r) as [i|z].
  - rewrite aget_oval in H2, H3.
    pose proof (resolve_sound RFUEL F c st (aget (OLab 0) args i) HF) as R.
    destruct (resolve RFUEL F asz (aget (OLab 0) args i)) as [b o].
    exists (k - base b). cbn [mkml ml_alloca]. split; [|lia].
    unfold den. destruct (sym_size args (sr_size r)) as [n|] eqn:S.
    + specialize (Hsz n eq_refl). cbn [ml_is_empty ml_size ml_alloca ml_offset mkml].
      split; [apply Z.eqb_neq; lia|]. split; [reflexivity|].
      destruct o as [o|]; [|exact I]. cbn in R. destruct R as [R1 _]. lia.
    + cbn [ml_is_empty ml_size ml_alloca ml_offset mkml]. split; [reflexivity|]. split; [reflexivity|].
      destruct o as [o|]; [|exact I]. cbn in R. destruct R as [R1 _]. split; [lia|exact I].
  - exists k. cbn [mkml ml_alloca base]. split; [|lia].
    unfold den. destruct (sym_size args (sr_size r)) as [n|] eqn:S.
    + specialize (Hsz n eq_refl). cbn [ml_is_empty ml_size ml_alloca ml_offset mkml].
      split; [apply Z.eqb_neq; lia|]. split; [reflexivity|]. lia.
    + cbn [ml_is_empty ml_size ml_alloca ml_offset mkml]. split; [reflexivity|]. split; [reflexivity|]. split; [lia|exact I].
Qed.

Lemma inb_range : forall l id j, inb asz l = true -> ml_alloca l = Some id -> den l (Some id) j -> 0 <= j < asz id.
Proof.
  intros [[o|] [n|] [a|]] id j H Ha D; cbn in H, Ha; try discriminate.
  inversion Ha; subst a. apply andb_true_iff in H. destruct H as [H H3]. apply andb_true_iff in H. destruct H as [H1 H2].
  apply Z.leb_le in H1, H2, H3. destruct D as [_ [_ D]]. cbn in D. lia.
Qed.

Lemma locs_disjoint_sound : forall l1 l2 k, locs_disjoint true asz l1 l2 = true -> aden l1 k -> aden l2 k -> False.
Proof.
  intros l1 l2 k H [j1 [D1 K1]] [j2 [D2 K2]]. unfold locs_disjoint in H.
  destruct (may_overlap l1 l2) as [[|]|] eqn:M; try discriminate.
  destruct (ml_alloca l1) as [i|] eqn:A1; destruct (ml_alloca l2) as [j|] eqn:A2; try discriminate.
  - cbn [negb orb] in H. rewrite orb_false_r in H. apply orb_true_iff in H. destruct H as [H|H].
    + apply Z.eqb_eq in H. subst j. cbn [base] in K1, K2. assert (j1 = j2) by lia. subst j2.
      exact (may_overlap_sound l1 l2 M (Some i) j1 D1 D2).
    + apply andb_true_iff in H. destruct H as [I1 I2].
      pose proof (inb_range l1 i j1 I1 A1 D1) as R1. pose proof (inb_range l2 j j2 I2 A2 D2) as R2.
      cbn [base] in K1, K2.
      destruct (Z.eq_dec i j) as [E|E].
      * subst j. assert (j1 = j2) by lia. subst j2. exact (may_overlap_sound l1 l2 M (Some i) j1 D1 D2).
      * destruct (ex_disj X A asz HE i j E); lia.
  - cbn [base] in K1, K2. assert (j1 = k) by lia. assert (j2 = k) by lia. subst j1 j2.
    exact (may_overlap_sound l1 l2 M None k D1 D2).
Qed.

(* ------------------------------------------------------------------ operand equivalence *)
Lemma list_eqb_vals : forall (e : operand -> operand -> bool) c,
  forall l l', (forall a b, In a l -> e a b = true -> oval c a = oval c b) ->
  list_eqb e l l' = true -> map (oval c) l = map (oval c) l'.
Proof.
  intros e c. induction l as [|x t IH]; intros [|y t'] He H; cbn in H; try discriminate; [reflexivity|].
  apply andb_true_iff in H. destruct H as [H1 H2]. cbn [map]. f_equal.
  - apply He; [left; reflexivity | exact H1].
  - apply IH; [intros a b Ha; apply He; right; exact Ha | exact H2].
Qed.

Lemma same_fixed_sound : forall c p q r1 r2, res_ok c p r1 -> res_ok c q r2 -> same_fixed r1 r2 = true -> oval c p = oval c q.
Proof.
  intros c p q [b1 [o1|]] [b2 [o2|]] R1 R2 H; cbn in H; try discriminate.
  apply andb_true_iff in H. destruct H as [H1 H2]. apply Z.eqb_eq in H1. subst o2.
  destruct R1 as [R1 _]. destruct R2 as [R2 _]. rewrite R1, R2.
  destruct b1 as [i|]; destruct b2 as [j|]; try discriminate; [apply Z.eqb_eq in H2; subst j|]; reflexivity.
Qed.

Lemma equiv_sound : forall n F c st a b, all_hold c st F -> equiv n F asz a b = true -> oval c a = oval c b.
Proof.
  induction n; intros F c st a b HF H; cbn [equiv] in H.
  - rewrite orb_false_r in H. apply operand_eqb_eq in H. congruence.
  - apply orb_true_iff in H. destruct H as [H|H]; [apply operand_eqb_eq in H; congruence|].
    apply orb_true_iff in H. destruct H as [H|H]; [|eapply same_fixed_sound; [| |exact H]; eapply resolve_sound; exact HF].
    apply orb_true_iff in H. destruct H as [H|H].
    + apply orb_true_iff in H. destruct H as [H|H].
      * destruct a as [?|x|?]; try discriminate. destruct (find_def F x) as [[op [|q [|? ?]]]|] eqn:D; try discriminate.
        apply andb_true_iff in H. destruct H as [H1 H2]. apply seqb_eq in H1. subst op.
        apply find_def_in in D. destruct (HF _ D) as [_ HD]. unfold out1 in HD. cbn [map] in HD.
        rewrite (ex_assign X A asz HE) in HD. rewrite hd_mod_small in HD by apply oval_range.
        rewrite <- HD. eapply IHn; eassumption.
      * destruct b as [?|y|?]; try discriminate. destruct (find_def F y) as [[op [|q [|? ?]]]|] eqn:D; try discriminate.
        apply andb_true_iff in H. destruct H as [H1 H2]. apply seqb_eq in H1. subst op.
        apply find_def_in in D. destruct (HF _ D) as [_ HD]. unfold out1 in HD. cbn [map] in HD.
        rewrite (ex_assign X A asz HE) in HD. rewrite hd_mod_small in HD by apply oval_range.
        rewrite <- HD. eapply IHn; eassumption.
    + destruct a as [?|x|?]; try discriminate. destruct (find_def F x) as [[op aa]|] eqn:Da; try discriminate.
      destruct b as [?|y|?]; try discriminate. destruct (find_def F y) as [[op' ab]|] eqn:Db; try discriminate.
      apply andb_true_iff in H. destruct H as [H1 H2]. apply seqb_eq in H1. subst op'.
      apply find_def_in in Da. apply find_def_in in Db.
      destruct (HF _ Da) as [_ Ha]. destruct (HF _ Db) as [_ Hb].
      rewrite <- Ha, <- Hb. f_equal.
      eapply list_eqb_vals; [|exact H2]. intros a b _ E. eapply IHn; eassumption.
Qed.

Lemma eqv_sound : forall F c st a b, all_hold c st F -> eqv F asz a b = true -> oval c a = oval c b.
Proof. intros. eapply equiv_sound; eassumption. Qed.
End Facts.
