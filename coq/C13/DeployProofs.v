(* C13 proofs about Deploy.v. *)
From Coq Require Import ZArith List Bool Lia ZifyBool.
From Verif Require Import Base.PyInt C13.Deploy.
Import ListNotations.
Open Scope Z_scope.

Lemma mread_length : forall m off n, List.length (mread m off n) = n.
Proof. intros. unfold mread. rewrite map_length, seq_length. reflexivity. Qed.

Lemma mread_ext : forall m1 m2 off n,
  (forall a, off <= a < off + Z.of_nat n -> m1 a = m2 a) -> mread m1 off n = mread m2 off n.
Proof.
  intros. unfold mread. apply map_ext_in. intros i I. apply in_seq in I. apply H. lia.
Qed.

Lemma seq_shift_map : forall (f : nat -> Z) a n, map f (seq a n) = map (fun i => f (a + i)%nat) (seq 0 n).
Proof.
  intros f a n. revert a. induction n; intros a; [reflexivity |].
  cbn [seq map]. rewrite Nat.add_0_r. f_equal.
  rewrite (IHn (S a)). rewrite <- seq_shift, map_map. apply map_ext. intros. f_equal. lia.
Qed.

Lemma mread_app : forall m off a b,
  mread m off (a + b) = mread m off a ++ mread m (off + Z.of_nat a) b.
Proof.
  intros. unfold mread. rewrite seq_app, map_app. f_equal.
  cbn [plus]. rewrite seq_shift_map. apply map_ext. intros. f_equal. lia.
Qed.

Lemma map_nth_seq : forall (l : list Z), map (fun i => nth i l 0) (seq 0 (List.length l)) = l.
Proof.
  induction l as [| a l IH]; [reflexivity |].
  cbn [List.length seq map nth]. f_equal. rewrite <- seq_shift, map_map. exact IH.
Qed.

Lemma mread_mwrite_same : forall m off bs, mread (mwrite m off bs) off (List.length bs) = bs.
Proof.
  intros. unfold mread. rewrite <- (map_nth_seq bs) at 2. apply map_ext_in.
  intros i I. apply in_seq in I. unfold mwrite, zlen.
  destruct ((off <=? off + Z.of_nat i) && (off + Z.of_nat i <? off + Z.of_nat (List.length bs))) eqn:E; [| lia].
  replace (off + Z.of_nat i - off) with (Z.of_nat i) by lia. rewrite Nat2Z.id. reflexivity.
Qed.

Lemma mread_mwrite_disjoint : forall m off bs off2 n,
  off2 + Z.of_nat n <= off \/ off + zlen bs <= off2 ->
  mread (mwrite m off bs) off2 n = mread m off2 n.
Proof.
  intros. apply mread_ext. intros a A. unfold mwrite.
  destruct ((off <=? a) && (a <? off + zlen bs)) eqn:E; [| reflexivity]. unfold zlen in *. lia.
Qed.

(* ---------- legacy *)
Section Legacy.
  Variable offsets : Z -> Z -> res (Z * Z).
  (* what the regenerated _runtime_code_offsets must satisfy (proved for it in PropsDeploy.v) *)
  Hypothesis offsets_spec : forall c l, offsets c l = Ok (Z.max c l - l, Z.max c l).

  Theorem legacy_deploy_correct_model : forall ctor_mem codelen imm runtime immvals (m : mem),
    0 <= ctor_mem -> zlen runtime = codelen -> zlen immvals = imm ->
    (* the constructor left the immutables (istore k v writes mem_deploy_end + k) in place *)
    mread m (Z.max ctor_mem codelen) (Z.to_nat imm) = immvals ->
    legacy_epilogue offsets ctor_mem codelen imm runtime m = Ok (runtime ++ immvals) /\
    (* layout: runtime copy [start, end) starts at a non-negative address, ends exactly where the
       immutables begin, and the constructor frame [0, ctor_mem) lies below the immutables *)
    (let s := Z.max ctor_mem codelen - codelen in let e := Z.max ctor_mem codelen in
     0 <= s /\ s + codelen = e /\ ctor_mem <= e).
  Proof.
    intros ctor_mem codelen imm runtime immvals m C L I M. split; [| lia].
    unfold legacy_epilogue. rewrite offsets_spec. cbn [bind].
    set (e := Z.max ctor_mem codelen) in *. set (s := e - codelen).
    unfold zlen in *. pose proof (Nat2Z.is_nonneg (List.length runtime)).
    pose proof (Nat2Z.is_nonneg (List.length immvals)).
    replace (Z.to_nat (codelen + imm)) with (List.length runtime + List.length immvals)%nat by lia.
    rewrite mread_app. apply f_equal. f_equal.
    - apply mread_mwrite_same.
    - rewrite mread_mwrite_disjoint by (unfold zlen; lia).
      replace (s + Z.of_nat (List.length runtime)) with e by (unfold s; lia).
      transitivity (mread m e (Z.to_nat imm)); [f_equal; lia | exact M].
  Qed.

  (* writes confined to the constructor frame [0, ctor_mem) cannot change the immutables region *)
  Theorem frame_disjoint_immutables : forall ctor_mem codelen imm (m m' : mem),
    (forall a, ctor_mem <= a -> m' a = m a) ->
    mread m' (Z.max ctor_mem codelen) imm = mread m (Z.max ctor_mem codelen) imm.
  Proof. intros. apply mread_ext. intros a A. apply H. lia. Qed.
End Legacy.

Theorem msize_guard_model : forall e imm, 0 <= e -> 0 < imm -> e + imm <= msize_after_guard e imm.
Proof.
  intros. unfold msize_after_guard, ceil32.
  pose proof (Z.div_mod (e + Z.max 0 (imm - 32) + 32 + 31) 32 ltac:(lia)).
  pose proof (Z.mod_pos_bound (e + Z.max 0 (imm - 32) + 32 + 31) 32 ltac:(lia)). lia.
Qed.

(* ---------- venom: correct for every destination d and staging address src, even overlapping ones,
   because the copy reads its source before writing and the runtime copy comes last *)
Theorem venom_deploy_correct_model : forall src d codelen imm runtime immvals (m : mem),
  zlen runtime = codelen -> zlen immvals = imm ->
  mread m src (Z.to_nat imm) = immvals ->
  venom_epilogue src d codelen imm runtime m = runtime ++ immvals.
Proof.
  intros src d codelen imm runtime immvals m L I M. unfold venom_epilogue. rewrite M.
  unfold zlen in *.
  replace (Z.to_nat (codelen + imm)) with (List.length runtime + List.length immvals)%nat by lia.
  rewrite mread_app. f_equal.
  - apply mread_mwrite_same.
  - rewrite mread_mwrite_disjoint by (unfold zlen; lia). rewrite <- L. apply mread_mwrite_same.
Qed.

Lemma venom_no_immutables : forall d codelen runtime (m : mem),
  zlen runtime = codelen -> mread (mwrite m d runtime) d (Z.to_nat (codelen + 0)) = runtime ++ [].
Proof.
  intros d codelen runtime m L. rewrite app_nil_r, Z.add_0_r. unfold zlen in L. rewrite <- L, Nat2Z.id.
  apply mread_mwrite_same.
Qed.

Theorem venom_cancun_correct_model : forall src d codelen imm runtime immvals (m : mem),
  zlen runtime = codelen -> zlen immvals = imm -> mread m src (Z.to_nat imm) = immvals ->
  venom_epilogue_cancun src d codelen imm runtime m = runtime ++ immvals.
Proof.
  intros src d codelen imm runtime immvals m L I M. unfold venom_epilogue_cancun, mcopy.
  destruct (0 <? imm) eqn:E.
  - apply (venom_deploy_correct_model src d codelen imm runtime immvals m L I M).
  - assert (imm = 0) as -> by (unfold zlen in I; lia).
    destruct immvals; [| discriminate I]. apply venom_no_immutables. exact L.
Qed.

Theorem venom_precancun_correct_model : forall src d codelen imm runtime immvals (m : mem),
  zlen runtime = codelen -> zlen immvals = imm -> mread m src (Z.to_nat imm) = immvals ->
  venom_epilogue_precancun src d codelen imm runtime m = runtime ++ immvals.
Proof.
  intros src d codelen imm runtime immvals m L I M. unfold venom_epilogue_precancun, identity_call.
  destruct (0 <? imm) eqn:E.
  - rewrite firstn_all2 by (rewrite mread_length; lia).
    apply (venom_deploy_correct_model src d codelen imm runtime immvals m L I M).
  - assert (imm = 0) as -> by (unfold zlen in I; lia).
    destruct immvals; [| discriminate I]. apply venom_no_immutables. exact L.
Qed.

(* ---------- blueprint stub *)
Lemma code_at_app_r : forall (p x : list Z) i, 0 <= i -> code_at (p ++ x) (zlen p + i) = code_at x i.
Proof.
  intros. unfold code_at, zlen. destruct (Z.of_nat (List.length p) + i <? 0) eqn:E; [lia |].
  destruct (i <? 0) eqn:E2; [lia |]. rewrite app_nth2 by lia. f_equal. lia.
Qed.

Lemma code_slice_suffix : forall (p x : list Z), code_slice (p ++ x) (zlen p) (List.length x) = x.
Proof.
  intros. unfold code_slice. rewrite <- (map_nth_seq x) at 2. apply map_ext_in.
  intros i I. apply in_seq in I. rewrite code_at_app_r by lia.
  unfold code_at. destruct (Z.of_nat i <? 0) eqn:E; [lia |]. rewrite Nat2Z.id. reflexivity.
Qed.

Theorem blueprint_stub_correct_model : forall X, zlen X < 65536 ->
  run 7 (stub (zlen X) ++ X) init_st = Some X.
Proof.
  intros X H. pose proof (Nat2Z.is_nonneg (List.length X)) as P. fold (zlen X) in P.
  assert (zlen X / 256 * 256 + zlen X mod 256 = zlen X) as V by (pose proof (Z.div_mod (zlen X) 256); lia).
  unfold stub, init_st. cbn [app].
  remember (zlen X / 256) as hi. remember (zlen X mod 256) as lo.
  set (code := 97 :: hi :: lo :: 61 :: 129 :: 96 :: 10 :: 61 :: 57 :: 243 :: X).
  set (m0 := fun _ : Z => 0). set (v := hi * 256 + lo) in *.
  assert (S1 : step code (mk 0 [] m0) = Next (mk 3 [v] m0)) by reflexivity.
  assert (S2 : step code (mk 3 [v] m0) = Next (mk 4 [0; v] m0)) by reflexivity.
  assert (S3 : step code (mk 4 [0; v] m0) = Next (mk 5 [v; 0; v] m0)) by reflexivity.
  assert (S4 : step code (mk 5 [v; 0; v] m0) = Next (mk 7 [10; v; 0; v] m0)) by reflexivity.
  assert (S5 : step code (mk 7 [10; v; 0; v] m0) = Next (mk 8 [0; 10; v; 0; v] m0)) by reflexivity.
  assert (S6 : step code (mk 8 [0; 10; v; 0; v] m0) =
               Next (mk 9 [0; v] (mwrite m0 0 (code_slice code 10 (Z.to_nat v))))) by reflexivity.
  assert (S7 : forall m, step code (mk 9 [0; v] m) = Halt (mread m 0 (Z.to_nat v))) by (intro; reflexivity).
  cbn [run]. rewrite S1. cbn [run]. rewrite S2. cbn [run]. rewrite S3. cbn [run]. rewrite S4.
  cbn [run]. rewrite S5. cbn [run]. rewrite S6. cbn [run]. rewrite S7.
  f_equal. rewrite V. unfold zlen. rewrite Nat2Z.id.
  change code with ([97; hi; lo; 61; 129; 96; 10; 61; 57; 243] ++ X).
  change 10 with (zlen [97; hi; lo; 61; 129; 96; 10; 61; 57; 243]) at 2.
  rewrite code_slice_suffix. apply mread_mwrite_same.
Qed.
