(* C13 property theorems; _runtime_code_offsets is the function regenerated from
   vyper/ir/compile_ir.py (GenDeployOffsets.v). *)
From Coq Require Import ZArith List Bool Lia.
From Verif Require Import Base.PyInt C13.Deploy C13.DeployProofs C13.GenDeployOffsets.
Import ListNotations.
Open Scope Z_scope.

Lemma offsets_translated_spec : forall c l, _runtime_code_offsets c l = Ok (Z.max c l - l, Z.max c l).
Proof. intros. reflexivity. Qed.

(* legacy pipeline: for every constructor frame size, runtime length and immutables, whatever else the
   constructor left in memory, the returned bytes are runtime ++ immutables, and the three regions
   (constructor frame / runtime copy / immutables) are laid out without trampling the immutables *)
Theorem legacy_deploy_correct : forall ctor_mem codelen imm runtime immvals (m : mem),
  0 <= ctor_mem -> zlen runtime = codelen -> zlen immvals = imm ->
  mread m (Z.max ctor_mem codelen) (Z.to_nat imm) = immvals ->
  legacy_epilogue _runtime_code_offsets ctor_mem codelen imm runtime m = Ok (runtime ++ immvals) /\
  (let s := Z.max ctor_mem codelen - codelen in let e := Z.max ctor_mem codelen in
   0 <= s /\ s + codelen = e /\ ctor_mem <= e).
Proof. exact (legacy_deploy_correct_model _runtime_code_offsets offsets_translated_spec). Qed.
Print Assumptions legacy_deploy_correct.

Theorem ctor_frame_cannot_reach_immutables : forall ctor_mem codelen imm (m m' : mem),
  (forall a, ctor_mem <= a -> m' a = m a) ->
  mread m' (Z.max ctor_mem codelen) imm = mread m (Z.max ctor_mem codelen) imm.
Proof. exact frame_disjoint_immutables. Qed.

Theorem msize_guard : forall e imm, 0 <= e -> 0 < imm -> e + imm <= msize_after_guard e imm.
Proof. exact msize_guard_model. Qed.

Theorem venom_deploy_correct : forall src d codelen imm runtime immvals (m : mem),
  zlen runtime = codelen -> zlen immvals = imm -> mread m src (Z.to_nat imm) = immvals ->
  venom_epilogue src d codelen imm runtime m = runtime ++ immvals.
Proof. exact venom_deploy_correct_model. Qed.
Print Assumptions venom_deploy_correct.

(* the two instruction-level variants: MCOPY (cancun+) and the identity-precompile STATICCALL (pre-cancun) *)
Theorem venom_deploy_correct_cancun : forall src d codelen imm runtime immvals (m : mem),
  zlen runtime = codelen -> zlen immvals = imm -> mread m src (Z.to_nat imm) = immvals ->
  venom_epilogue_cancun src d codelen imm runtime m = runtime ++ immvals.
Proof. exact venom_cancun_correct_model. Qed.

Theorem venom_deploy_correct_precancun : forall src d codelen imm runtime immvals (m : mem),
  zlen runtime = codelen -> zlen immvals = imm -> mread m src (Z.to_nat imm) = immvals ->
  venom_epilogue_precancun src d codelen imm runtime m = runtime ++ immvals.
Proof. exact venom_precancun_correct_model. Qed.
Print Assumptions venom_deploy_correct_precancun.

(* the 10-byte stub returns exactly the payload, for every payload shorter than 2^16; the payload of a
   blueprint is FE 71 00 ++ initcode, so code_offset = 3 recovers the initcode *)
Theorem blueprint_stub_correct : forall initcode bp,
  blueprint initcode = Ok bp ->
  run 7 bp init_st = Some (ERC5202_PREFIX ++ initcode) /\
  skipn 3 (ERC5202_PREFIX ++ initcode) = initcode /\ firstn 3 (ERC5202_PREFIX ++ initcode) = [0xFE; 0x71; 0x00].
Proof.
  intros initcode bp H. unfold blueprint in H.
  destruct (zlen (ERC5202_PREFIX ++ initcode) <? 65536) eqn:E; [| discriminate].
  injection H as <-. split; [| split; reflexivity].
  apply blueprint_stub_correct_model. apply Z.ltb_lt. exact E.
Qed.
Print Assumptions blueprint_stub_correct.

Example deploy_nonvacuous :
  legacy_epilogue _runtime_code_offsets 100 3 2 [1; 2; 3] (mwrite (fun _ => 7) 100 [8; 9]) = Ok [1; 2; 3; 8; 9] /\
  legacy_epilogue _runtime_code_offsets 1 3 2 [1; 2; 3] (mwrite (fun _ => 7) 3 [8; 9]) = Ok [1; 2; 3; 8; 9] /\
  venom_epilogue 0 1 3 2 [1; 2; 3] (mwrite (fun _ => 7) 0 [8; 9]) = [1; 2; 3; 8; 9] /\
  (exists bp, blueprint [0x60; 0x00] = Ok bp /\ run 7 bp init_st = Some [0xFE; 0x71; 0x00; 0x60; 0x00]).
Proof. repeat split; try (vm_compute; reflexivity). eexists. split; vm_compute; reflexivity. Qed.
