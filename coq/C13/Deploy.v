(* C13 model: byte-addressed memory, the two deploy epilogues as memory programs, and a mini EVM that
   runs the 10-byte ERC-5202 blueprint deploy stub.  No proofs here.
   Legacy  (vyper/ir/compile_ir.py `deploy` node, vyper/codegen/module.py):
       start, end = _runtime_code_offsets(ctor_mem_size, runtime_codesize)     (GenDeployOffsets.v, regenerated)
       CODECOPY(start, runtime_begin, runtime_codesize); RETURN(start, runtime_codesize + immutables_len)
       istore/iload k  address memory  mem_deploy_end + k  with  mem_deploy_end = end
   Venom   (vyper/codegen_venom/module.py:_emit_deploy_epilogue):
       dst = alloca(total); mcopy(dst + codesize, immutables_alloca (=0), immutables_len)   [or identity precompile]
       codecopy(dst, runtime_begin, codesize); return(dst, total) *)
From Coq Require Import ZArith List Bool.
From Verif Require Import Base.PyInt.
Import ListNotations.
Open Scope Z_scope.

Definition mem := Z -> Z.
Definition zlen {A} (l : list A) : Z := Z.of_nat (List.length l).

Definition mread (m : mem) (off : Z) (n : nat) : list Z :=
  map (fun i => m (off + Z.of_nat i)) (seq 0 n).

Definition mwrite (m : mem) (off : Z) (bs : list Z) : mem :=
  fun a => if (off <=? a) && (a <? off + zlen bs) then nth (Z.to_nat (a - off)) bs 0 else m a.

Definition ceil32 (x : Z) : Z := (x + 31) / 32 * 32.

(* ---- legacy epilogue, parametric in the offset function (instantiated with the translated one) *)
Definition legacy_epilogue (offsets : Z -> Z -> res (Z * Z))
           (ctor_mem codelen imm : Z) (runtime : list Z) (m : mem) : res (list Z) :=
  '(s, e) <- offsets ctor_mem codelen ;;
  let m' := mwrite m s runtime in
  Ok (mread m' s (Z.to_nat (codelen + imm))).

(* memory touched by the msize guard `iload max(0, imm-32)`: 32 bytes from end + max(0, imm-32);
   msize afterwards (EVM: highest touched byte rounded up to a word) *)
Definition msize_after_guard (e imm : Z) : Z := ceil32 (e + Z.max 0 (imm - 32) + 32).

(* ---- venom epilogue: immutables staged at [src, src+imm) (src = 0: pinned alloca), dst = d.
   mcopy and the identity-precompile call both read the whole source before writing. *)
Definition venom_epilogue (src d codelen imm : Z) (runtime : list Z) (m : mem) : list Z :=
  let m1 := mwrite m (d + codelen) (mread m src (Z.to_nat imm)) in
  let m2 := mwrite m1 d runtime in
  mread m2 d (Z.to_nat (codelen + imm)).

(* the two concrete copy instructions of _emit_deploy_epilogue:
   cancun+     MCOPY(dst, src, len)                              (EIP-5656: as if the source were read first)
   pre-cancun  STATICCALL(gas, 0x04, src, len, dst, len)         (identity precompile: the input is read, the call
               returns it as return data, and min(out_len, returndatasize) bytes are written to dst; the epilogue
               asserts success) *)
Definition mcopy (m : mem) (dst src : Z) (len : nat) : mem := mwrite m dst (mread m src len).
Definition identity_call (m : mem) (src : Z) (in_len : nat) (dst : Z) (out_len : nat) : mem :=
  let returndata := mread m src in_len in
  mwrite m dst (firstn out_len returndata).

Definition venom_epilogue_cancun (src d codelen imm : Z) (runtime : list Z) (m : mem) : list Z :=
  let m1 := if 0 <? imm then mcopy m (d + codelen) src (Z.to_nat imm) else m in
  let m2 := mwrite m1 d runtime in
  mread m2 d (Z.to_nat (codelen + imm)).

Definition venom_epilogue_precancun (src d codelen imm : Z) (runtime : list Z) (m : mem) : list Z :=
  let m1 := if 0 <? imm then identity_call m src (Z.to_nat imm) (d + codelen) (Z.to_nat imm) else m in
  let m2 := mwrite m1 d runtime in
  mread m2 d (Z.to_nat (codelen + imm)).

(* ---- mini EVM for the blueprint stub *)
Record st := mk { pc : Z; stk : list Z; mm : mem }.

Definition code_at (code : list Z) (i : Z) : Z := if i <? 0 then 0 else nth (Z.to_nat i) code 0.
Definition code_slice (code : list Z) (off : Z) (n : nat) : list Z :=
  map (fun i => code_at code (off + Z.of_nat i)) (seq 0 n).

Inductive outcome := Next (s : st) | Halt (out : list Z) | Bad.

Definition step (code : list Z) (s : st) : outcome :=
  let op := code_at code (pc s) in
  if op =? 0x61 then Next (mk (pc s + 3) (code_at code (pc s + 1) * 256 + code_at code (pc s + 2) :: stk s) (mm s))
  else if op =? 0x60 then Next (mk (pc s + 2) (code_at code (pc s + 1) :: stk s) (mm s))
  else if op =? 0x3d then Next (mk (pc s + 1) (0 :: stk s) (mm s))          (* RETURNDATASIZE: no call made yet *)
  else if op =? 0x81 then match stk s with a :: b :: r => Next (mk (pc s + 1) (b :: a :: b :: r) (mm s)) | _ => Bad end
  else if op =? 0x39 then match stk s with
                          | dst :: off :: len :: r => Next (mk (pc s + 1) r (mwrite (mm s) dst (code_slice code off (Z.to_nat len))))
                          | _ => Bad end
  else if op =? 0xf3 then match stk s with off :: len :: _ => Halt (mread (mm s) off (Z.to_nat len)) | _ => Bad end
  else Bad.

Fixpoint run (fuel : nat) (code : list Z) (s : st) : option (list Z) :=
  match fuel with
  | O => None
  | S f => match step code s with Next s' => run f code s' | Halt out => Some out | Bad => None end
  end.

Definition init_st : st := mk 0 [] (fun _ => 0).

(* phases.py blueprint_bytecode: b"\x61" + len.to_bytes(2,"big") + b"\x3d\x81\x60\x0a\x3d\x39\xf3" *)
Definition stub (n : Z) : list Z := [0x61; n / 256; n mod 256; 0x3d; 0x81; 0x60; 0x0a; 0x3d; 0x39; 0xf3].
Definition ERC5202_PREFIX : list Z := [0xFE; 0x71; 0x00].
Definition blueprint (initcode : list Z) : res (list Z) :=
  let x := ERC5202_PREFIX ++ initcode in
  if zlen x <? 65536 then Ok (stub (zlen x) ++ x) else Err Raised.   (* to_bytes(2) OverflowError *)
