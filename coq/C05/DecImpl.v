(* C05 implementation-level models of the two memory decoders (the `hi` discipline):
     ldec  legacy  core.py make_setter(hi) / clamp_bytestring / clamp_dyn_array / _getelemptr_abi_helper
     vdec  venom   abi_decoder.py _abi_decode_to_buf / _decode_complex / _decode_dyn_array / _getelemptr_abi
   Unlike the acceptance model (Dec.v: relative positions, unbounded arithmetic) these work as the compiled code does:
   ABSOLUTE 256-bit addresses with wrapping add/mul, a memory image that holds the payload in [M, M+L) and ARBITRARY
   stale bytes elsewhere, the checks of each implementation in ITS order, and the one EVM fact the code relies on:
   touching memory at or beyond MEMLIM = 2^32 runs out of gas.  No proofs here. *)
From Coq Require Import ZArith List Bool.
From Verif Require Import C06.Abi C06.ZeroPad C05.Dec.
Import ListNotations.
Open Scope Z_scope.

Definition MEMLIM : Z := 2 ^ 32.
Definition wmul (a b : Z) : Z := (a * b) mod W256.

Inductive impl := Legacy | Venom.

Definition obind {A B} (o : option A) (k : A -> option B) : option B := match o with Some x => k x | None => None end.
Notation "x <- m ;; k" := (obind m (fun x => k)) (at level 61, m at next level, right associativity).
Definition guard (b : bool) : option unit := if b then Some tt else None.

Section Impl.
Variable I : impl. (*section*)
Variable img : mem. (*section*)          (* byte at every absolute address *)
Variable hi : Z. (*section*)             (* absolute end of the payload *)

(* mload: 32 raw bytes; out of gas when the access reaches MEMLIM *)
Definition mloadb (A : Z) : option (list Z) := if A + 32 <=? MEMLIM then Some (mread img A 32) else None.
Definition mloadw (A : Z) : option Z := raw <- mloadb A ;; Some (unbe raw).

Definition idec_t := Z -> option val.

(* children of an item whose body starts at absolute address [base]; [ho] = static offset of the next child
   (for dynamic-array elements ho = i * elem_head).  [chk]: venom checks the static footprint of a dynamic
   ARRAY ELEMENT (ptr + elem_head <= hi) before recursing; tuple / static-array members have no such check. *)
Fixpoint iseq (chk : bool) (cs : list (bool * Z * idec_t)) (base ho : Z) : option (list val) :=
  match cs with
  | [] => Some []
  | (dyn, hs, d) :: r =>
      v <- (if dyn : bool then
              off <- mloadw (wadd base ho) ;;
              let ptr := wadd base off in
              _ <- guard (base <=? ptr) ;;                         (* no-wrap guard (both implementations) *)
              _ <- guard (if chk then wadd ptr hs <=? hi else true) ;;
              d ptr
            else d (wadd base ho)) ;;
      vs <- iseq chk r base (ho + hs) ;;
      Some (v :: vs)
  end.

Definition elem_chk : bool := match I with Venom => true | Legacy => false end.

Fixpoint idec (t : ty) : idec_t := fun A =>
  match t with
  | TBytes b | TString b =>
      len <- mloadw A ;;
      let item_end := wadd (wadd A 32) len in
      _ <- (match I with
            | Legacy => _ <- guard (item_end <=? hi) ;; guard (len <=? b)      (* hi check first *)
            | Venom => _ <- guard (len <=? b) ;; guard (item_end <=? hi) end) ;;
      if A + 32 + len <=? MEMLIM then Some (VBytes (mread img (A + 32) (Z.to_nat len))) else None
  | TDArr t' b =>
      n <- mloadw A ;;
      let es := emb_static t' in
      let item_end := wadd A (wadd (wmul n es) 32) in
      _ <- (match I with
            | Legacy => _ <- guard (item_end <=? hi) ;; guard (n <=? b)
            | Venom => _ <- guard (n <=? b) ;; guard (item_end <=? hi) end) ;;
      vs <- iseq elem_chk (repeat (is_dynamic t', es, idec t') (Z.to_nat n)) (wadd A 32) 0 ;;
      Some (VList vs)
  | TSArr t' n =>
      _ <- guard (wadd A (static_size t) <=? hi) ;;
      vs <- iseq false (repeat (is_dynamic t', emb_static t', idec t') (Z.to_nat n)) A 0 ;;
      Some (VList vs)
  | TTuple ts =>
      _ <- guard (wadd A (static_size t) <=? hi) ;;
      vs <- iseq false (map (fun t' => (is_dynamic t', emb_static t', idec t')) ts) A 0 ;;
      Some (VList vs)
  | _ => raw <- mloadb A ;; dec_at t raw 0          (* one word; clamp = the range checks of the spec decoder *)
  end.
End Impl.

(* abi_decode(b, T): payload of length L at absolute address M, stale memory elsewhere *)
Definition image (M : Z) (payload : list Z) (stale : mem) : mem :=
  fun a => if (M <=? a) && (a <? M + zlen payload) then nth (Z.to_nat (a - M)) payload 0 else stale a.

Definition abi_decode_impl (I : impl) (M : Z) (stale : mem) (t : ty) (payload : list Z) : option val :=
  let L := zlen payload in
  if (static_size t <=? L) && (L <=? size_bound t) then idec I (image M payload stale) (M + L) t M else None.
Definition ldec := abi_decode_impl Legacy.
Definition vdec := abi_decode_impl Venom.
