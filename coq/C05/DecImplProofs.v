(* C05: the implementation-level decoders (DecImpl.v: absolute wrapping addresses, stale memory around the
   payload, each implementation's checks in its order, out-of-gas beyond MEMLIM) compute exactly the acceptance
   model accept_mem (Dec.v) -- for every payload, every stale memory, every payload address. *)
From Coq Require Import ZArith List Bool Lia ZifyBool.
From Verif Require Import C06.Abi C06.AbiLemmas C06.Roundtrip C06.ZeroPad C05.Dec C05.DecProofs C05.ReadsInside C05.DecImpl.
Import ListNotations.
Open Scope Z_scope.
Ltac Zify.zify_post_hook ::= Z.to_euclidean_division_equations.

Definition accept_core (t : ty) (bs : list Z) (p L : Z) : option val :=
  if inb t bs p L then dec_at t bs p else None.

(* sizes small enough that address arithmetic inside the payload never wraps (vyper: bounds < 2^64) *)
Fixpoint small_ty (t : ty) : bool :=
  match t with
  | TBytes b | TString b => b <? 2 ^ 64
  | TSArr t' n => (static_size t <? 2 ^ 64) && small_ty t'
  | TDArr t' b => (b <? 2 ^ 64) && (emb_static t' <? 2 ^ 64) && small_ty t'
  | TTuple ts => (static_size t <? 2 ^ 64) && forallb small_ty ts
  | _ => true
  end.

(* ---------- the acceptance model as a sequential computation ---------- *)
Fixpoint cseq (ts : list ty) (bs : list Z) (loc L ho : Z) : option (list val) :=
  match ts with
  | [] => Some []
  | t :: r =>
      v <- accept_core t bs (if is_dynamic t then loc + rd bs (loc + ho) else loc + ho) L ;;
      vs <- cseq r bs loc L (ho + emb_static t) ;;
      Some (v :: vs)
  end.

Lemma cseq_eq ts bs loc L : forall ho,
  cseq ts bs loc L ho =
  if inb_seq (map cs_of ts) bs loc L ho then run_seq_g Z.add (map ds_of ts) bs loc ho else None.
Proof.
  induction ts as [|t ts IH]; intro ho; cbn [cseq map inb_seq run_seq_g]. reflexivity.
  unfold cs_of at 1, ds_of at 1. unfold accept_core, dec_at. rewrite IH.
  destruct (is_dynamic t).
  - destruct (inb t bs (loc + rd bs (loc + ho)) L); destruct (dec_at_g Z.add t bs (loc + rd bs (loc + ho)));
      destruct (inb_seq (map cs_of ts) bs loc L (ho + emb_static t));
      destruct (run_seq_g Z.add (map ds_of ts) bs loc (ho + emb_static t)); reflexivity.
  - destruct (inb t bs (loc + ho) L); destruct (dec_at_g Z.add t bs (loc + ho));
      destruct (inb_seq (map cs_of ts) bs loc L (ho + emb_static t));
      destruct (run_seq_g Z.add (map ds_of ts) bs loc (ho + emb_static t)); reflexivity.
Qed.

Lemma opt_list_if (c : bool) o : opt_list (if c then o else None) = if c then opt_list o else None.
Proof. destruct c; reflexivity. Qed.

Lemma core_tuple ts bs p L :
  accept_core (TTuple ts) bs p L =
  if p + static_size (TTuple ts) <=? L then opt_list (cseq ts bs p L 0) else None.
Proof.
  unfold accept_core, dec_at. cbn [inb dec_at_g].
  change (map (fun t' => (is_dynamic t', emb_static t', inb t')) ts) with (map cs_of ts).
  change (map (fun t' => (is_dynamic t', emb_static t', dec_at_g Z.add t')) ts) with (map ds_of ts).
  rewrite cseq_eq. destruct (p + static_size (TTuple ts) <=? L); [|reflexivity].
  destruct (inb_seq (map cs_of ts) bs p L 0); reflexivity.
Qed.
Lemma core_sarr t n bs p L :
  accept_core (TSArr t n) bs p L =
  if p + static_size (TSArr t n) <=? L then opt_list (cseq (repeat t (Z.to_nat n)) bs p L 0) else None.
Proof.
  unfold accept_core, dec_at. cbn [inb dec_at_g].
  change (repeat (is_dynamic t, emb_static t, inb t) (Z.to_nat n)) with (repeat (cs_of t) (Z.to_nat n)).
  change (repeat (is_dynamic t, emb_static t, dec_at_g Z.add t) (Z.to_nat n)) with (repeat (ds_of t) (Z.to_nat n)).
  rewrite (map_repeat' cs_of), (map_repeat' ds_of), cseq_eq.
  destruct (p + static_size (TSArr t n) <=? L); [|reflexivity].
  destruct (inb_seq _ bs p L 0); reflexivity.
Qed.
Lemma core_darr t b bs p L :
  accept_core (TDArr t b) bs p L =
  let n := rd bs p in
  if n <=? b then
    if p + 32 + n * emb_static t <=? L then opt_list (cseq (repeat t (Z.to_nat n)) bs (p + 32) L 0) else None
  else None.
Proof.
  unfold accept_core, dec_at. cbn [inb dec_at_g]. cbn zeta.
  change (repeat (is_dynamic t, emb_static t, inb t) (Z.to_nat (rd bs p))) with (repeat (cs_of t) (Z.to_nat (rd bs p))).
  change (repeat (is_dynamic t, emb_static t, dec_at_g Z.add t) (Z.to_nat (rd bs p)))
    with (repeat (ds_of t) (Z.to_nat (rd bs p))).
  rewrite (map_repeat' cs_of), (map_repeat' ds_of), cseq_eq.
  destruct (rd bs p <=? b); [|reflexivity].
  destruct (p + 32 + rd bs p * emb_static t <=? L); [|reflexivity].
  destruct (inb_seq _ bs (p + 32) L 0); reflexivity.
Qed.

(* ---------- reading the payload through the memory image ---------- *)
Lemma skipn_nth_cons {A} (l : list A) k d : (k < length l)%nat -> skipn k l = nth k l d :: skipn (S k) l.
Proof. revert k. induction l; intros k H; cbn in *. lia. destruct k. reflexivity. cbn. apply IHl. lia. Qed.

Lemma length_mread (m : mem) p k : length (mread m p k) = k.
Proof. revert p. induction k; intro p; cbn; auto. Qed.

Lemma slice_self x n : zlen x = n -> slice x 0 n = x.
Proof.
  intro H. unfold slice. subst n. destruct (Z.leb_spec (zlen x) 0).
  - assert (x = []) by (destruct x; [reflexivity | rewrite zlen_cons in *; pose proof (zlen_nonneg x); lia]). now subst x.
  - cbn [Z.to_nat skipn]. rewrite to_nat_zlen, firstn_all, Z.sub_diag. cbn. apply app_nil_r.
Qed.

Section Img.
Variable I : impl. (*section*)
Variable M : Z. (*section*)
Variable payload : list Z. (*section*)
Variable stale : mem. (*section*)
Hypothesis HM0 : 0 <= M. (*section*)
Hypothesis HML : M + zlen payload + 32 <= MEMLIM. (*section*)
Hypothesis Hb : bytes_ok payload. (*section*)
Hypothesis Hst : forall a, 0 <= stale a < 256. (*section*)

Let L := zlen payload.
Let img := image M payload stale.
Let hi := M + L.

Lemma MEMLIM_val : MEMLIM = 4294967296. Proof. reflexivity. Qed.
Lemma W256_big : MEMLIM + 2 ^ 130 < W256. Proof. reflexivity. Qed.

Lemma img_read n : forall p, 0 <= p -> p + Z.of_nat n <= L ->
  mread img (M + p) n = firstn n (skipn (Z.to_nat p) payload).
Proof.
  induction n; intros p Hp Hl; cbn [mread firstn]. reflexivity.
  rewrite (skipn_nth_cons payload (Z.to_nat p) 0) by (unfold L, zlen in *; lia). cbn [firstn]. f_equal.
  - unfold img, image. fold L. replace ((M <=? M + p) && (M + p <? M + L)) with true by lia.
    f_equal. lia.
  - replace (M + p + 1) with (M + (p + 1)) by lia. rewrite IHn by lia. do 2 f_equal. lia.
Qed.

Lemma img_slice p n : 0 <= p -> 0 <= n -> p + n <= L -> mread img (M + p) (Z.to_nat n) = slice payload p n.
Proof.
  intros Hp Hn Hl. rewrite img_read by lia. unfold slice. fold L.
  destruct (Z.leb_spec L p).
  - assert (n = 0) by lia. subst n. reflexivity.
  - assert (Hlen : zlen (firstn (Z.to_nat n) (skipn (Z.to_nat p) payload)) = n).
    { unfold zlen. rewrite firstn_length_le. lia. rewrite skipn_length. unfold L, zlen in *. lia. }
    rewrite Hlen, Z.sub_diag. cbn. now rewrite app_nil_r.
Qed.

Lemma mloadb_inside p : 0 <= p -> p + 32 <= L -> mloadb img (M + p) = Some (slice payload p 32).
Proof.
  intros. unfold mloadb. fold L in HML. replace (M + p + 32 <=? MEMLIM) with true by lia.
  f_equal. apply (img_slice p 32); lia.
Qed.
Lemma mloadw_inside p : 0 <= p -> p + 32 <= L -> mloadw img (M + p) = Some (rd payload p).
Proof. intros. unfold mloadw. rewrite mloadb_inside by lia. reflexivity. Qed.

Lemma img_bytes a : 0 <= img a < 256.
Proof.
  unfold img, image. destruct ((M <=? a) && (a <? M + zlen payload)) eqn:E; [|apply Hst].
  unfold bytes_ok in Hb. rewrite forallb_forall in Hb.
  assert (Hin : In (nth (Z.to_nat (a - M)) payload 0) payload) by (apply nth_In; unfold zlen in *; lia).
  specialize (Hb _ Hin). unfold byteb in Hb. lia.
Qed.
Lemma mread_bytes_ok A n : bytes_ok (mread img A n).
Proof.
  unfold bytes_ok. revert A. induction n; intro A; cbn [mread forallb]. reflexivity.
  rewrite IHn. pose proof (img_bytes A). unfold byteb. lia.
Qed.
Lemma mloadw_range A w : mloadw img A = Some w -> 0 <= w < W256 /\ A + 32 <= MEMLIM.
Proof.
  unfold mloadw, mloadb. destruct (Z.leb_spec (A + 32) MEMLIM); [|discriminate]. cbn [obind].
  pose proof (mread_bytes_ok A 32) as Hbk.
  assert (Hlen : zlen (mread img A 32) = 32) by (unfold zlen; now rewrite length_mread).
  remember (mread img A 32) as raw eqn:Eraw. clear Eraw.
  intro Hq. assert (Hw : w = unbe raw) by congruence. subst w.
  split; [|lia]. pose proof (fold_unbe_bounds raw Hbk 0 ltac:(lia)) as B.
  unfold unbe. rewrite Hlen in B. change (256 ^ 32) with W256 in B. lia.
Qed.
Lemma mloadw_oog A : MEMLIM < A + 32 -> mloadw img A = None.
Proof. intro. unfold mloadw, mloadb. replace (A + 32 <=? MEMLIM) with false by lia. reflexivity. Qed.

(* ---------- scalar words ---------- *)
Lemma scalar_dec_slice t bs p : scalar_like t = true -> 0 <= p -> dec_at t bs p = dec_at t (slice bs p 32) 0.
Proof.
  intros Hs Hp. pose proof (zlen_slice bs p 32 ltac:(lia)) as Hl.
  assert (E : slice (slice bs p 32) 0 32 = slice bs p 32) by (apply slice_self; exact Hl).
  destruct t; try discriminate; unfold dec_at; cbn [dec_at_g]; unfold rd; rewrite ?E; reflexivity.
Qed.

(* ---------- far away items are rejected by the model ---------- *)
Lemma dyn_head_pos ts : forallb wf_ty ts = true -> existsb is_dynamic ts = true -> 32 <= zsum (map emb_static ts).
Proof.
  induction ts as [|t ts IH]; cbn [forallb existsb map]; intros Hw Hd. discriminate.
  apply andb_prop in Hw as [Hwt Hwl]. rewrite zsum_cons.
  pose proof (emb_static_nonneg t Hwt).
  assert (0 <= zsum (map emb_static ts)).
  { apply zsum_nonneg. apply Forall_forall. intros x Hx. apply in_map_iff in Hx as (y & <- & Hy).
    apply emb_static_nonneg. rewrite forallb_forall in Hwl. auto. }
  destruct (is_dynamic t) eqn:E. unfold emb_static at 1. rewrite E. lia.
  cbn [orb] in Hd. specialize (IH Hwl Hd). lia.
Qed.

Lemma inb_far t p : wf_ty t = true -> is_dynamic t = true -> 0 <= p -> L < p + 32 -> inb t payload p L = false.
Proof.
  intros Hw Hd Hp Hfar. pose proof (rd_range payload p Hb) as Hr.
  destruct t; cbn [is_dynamic] in Hd; try discriminate; cbn [inb wf_ty] in *.
  - destruct (rd payload p <=? bound); lia.
  - destruct (rd payload p <=? bound); lia.
  - apply andb_prop in Hw as [Hn Hw]. cbn [static_size]. rewrite Hd.
    destruct (Z.leb_spec (p + n * 32) L); [lia | reflexivity].
  - apply andb_prop in Hw as [Hn Hw]. pose proof (emb_static_nonneg t Hw).
    destruct (rd payload p <=? bound); [|reflexivity].
    destruct (Z.leb_spec (p + 32 + rd payload p * emb_static t) L); [nia | reflexivity].
  - pose proof (dyn_head_pos ts Hw Hd) as H32.
    change (static_size (TTuple ts)) with (zsum (map emb_static ts)).
    destruct (Z.leb_spec (p + zsum (map emb_static ts)) L); [lia | reflexivity].
Qed.
Lemma core_far t p : wf_ty t = true -> is_dynamic t = true -> 0 <= p -> L < p + 32 -> accept_core t payload p L = None.
Proof. intros. unfold accept_core. now rewrite inb_far. Qed.

(* ---------- anything decoded at an address past MEMLIM-32 reverts ---------- *)
Lemma idec_oog : forall t, wf_ty t = true -> forall A, 0 <= A < W256 -> MEMLIM < A + 32 -> idec I img hi t A = None.
Proof.
  assert (Hhi : hi + 32 <= MEMLIM) by (unfold hi, L; lia).
  induction t using ty_ind'; intros Hw A HA Hoog;
    try (cbn [idec]; unfold mloadb; replace (A + 32 <=? MEMLIM) with false by lia; reflexivity);
    try (cbn [idec]; rewrite mloadw_oog by lia; reflexivity).
  - (* sarr *)
    cbn [idec wf_ty] in *. apply andb_prop in Hw as [Hn Hw].
    destruct (wadd A (static_size (TSArr t n)) <=? hi); cbn [guard obind]; [|reflexivity].
    destruct (Z.to_nat n) eqn:En; [lia|]. cbn [repeat iseq].
    assert (E0 : wadd A 0 = A) by (unfold wadd; rewrite Z.add_0_r, Z.mod_small; lia). rewrite E0.
    destruct (is_dynamic t).
    + rewrite mloadw_oog by lia. reflexivity.
    + rewrite (IHt Hw A HA Hoog). reflexivity.
  - (* tuple *)
    cbn [idec wf_ty] in *.
    assert (E0 : wadd A 0 = A) by (unfold wadd; rewrite Z.add_0_r, Z.mod_small; lia).
    destruct ts as [|t ts].
    + cbn [static_size map zsum fold_right]. rewrite E0. replace (A <=? hi) with false by lia. reflexivity.
    + destruct (wadd A (static_size (TTuple (t :: ts))) <=? hi); cbn [guard obind]; [|reflexivity].
      cbn [map iseq]. rewrite E0. inversion H as [|? ? Ht Hts]; subst.
      cbn [forallb] in Hw. apply andb_prop in Hw as [Hwt Hwl].
      destruct (is_dynamic t).
      * rewrite mloadw_oog by lia. reflexivity.
      * rewrite (Ht Hwt A HA Hoog). reflexivity.
Qed.

(* ---------- refinement ---------- *)
Definition RR (t : ty) : Prop :=
  wf_ty t = true -> small_ty t = true -> forall p, 0 <= p -> M + p + 32 <= MEMLIM ->
    (scalar_like t = true -> p + 32 <= L) ->
    idec I img hi t (M + p) = accept_core t payload p L.

Lemma wadd_small a b : 0 <= a -> 0 <= b -> a + b < W256 -> wadd a b = a + b.
Proof. intros. unfold wadd. apply Z.mod_small. lia. Qed.

Lemma iseq_cseq chk ts : Forall RR ts -> forallb wf_ty ts = true -> forallb small_ty ts = true ->
  forall bp ho S, 0 <= bp -> 0 <= ho -> ho + zsum (map emb_static ts) <= S -> bp + S <= L ->
    iseq img hi chk (map (fun t' => (is_dynamic t', emb_static t', idec I img hi t')) ts) (M + bp) ho =
    cseq ts payload bp L ho.
Proof.
  pose proof W256_big as HW. pose proof MEMLIM_val as HMv.
  induction 1 as [|t ts Ht HF IH]; intros Hwf Hsm bp ho S Hbp Hho Hsum HS; cbn [map iseq cseq]. reflexivity.
  cbn [forallb] in Hwf, Hsm. apply andb_prop in Hwf as [Hwt Hwl]. apply andb_prop in Hsm as [Hst' Hsl].
  cbn [map] in Hsum. rewrite zsum_cons in Hsum.
  pose proof (emb_static_nonneg t Hwt) as He.
  assert (Hrest : 0 <= zsum (map emb_static ts)).
  { apply zsum_nonneg. apply Forall_forall. intros x Hx. apply in_map_iff in Hx as (y & <- & Hy).
    apply emb_static_nonneg. rewrite forallb_forall in Hwl. auto. }
  fold L in HML.
  rewrite (wadd_small (M + bp) ho) by lia.
  rewrite (IH Hwl Hsl bp (ho + emb_static t) S Hbp ltac:(lia) ltac:(lia) HS).
  destruct (is_dynamic t) eqn:Hd.
  - assert (He32 : emb_static t = 32) by (unfold emb_static; now rewrite Hd). rewrite He32 in *.
    replace (M + bp + ho) with (M + (bp + ho)) by lia. rewrite mloadw_inside by lia. cbn [obind].
    pose proof (rd_range payload (bp + ho) Hb) as Hr. set (off := rd payload (bp + ho)) in *.
    destruct (Z.lt_ge_cases (M + bp + off) W256) as [Hnw|Hw].
    + rewrite (wadd_small (M + bp) off) by lia. replace (M + bp <=? M + bp + off) with true by lia. cbn [guard obind].
      destruct (Z.le_gt_cases (M + bp + off + 32) MEMLIM) as [Hin|Hout].
      * rewrite (wadd_small (M + bp + off) 32) by lia.
        destruct chk.
        -- destruct (Z.leb_spec (M + bp + off + 32) hi) as [Hc|Hc]; cbn [guard obind].
           ++ replace (M + bp + off) with (M + (bp + off)) by lia.
              rewrite (Ht Hwt Hst' (bp + off)) by (try lia; rewrite (dyn_not_scalar t Hd); discriminate). reflexivity.
           ++ rewrite (core_far t (bp + off) Hwt Hd) by (unfold hi in Hc; lia). reflexivity.
        -- cbn [guard obind]. replace (M + bp + off) with (M + (bp + off)) by lia.
           rewrite (Ht Hwt Hst' (bp + off)) by (try lia; rewrite (dyn_not_scalar t Hd); discriminate). reflexivity.
      * rewrite (idec_oog t Hwt (M + bp + off)) by lia.
        rewrite (core_far t (bp + off) Hwt Hd) by lia.
        destruct (guard (if chk then wadd (M + bp + off) 32 <=? hi else true)); reflexivity.
    + assert (Hp : wadd (M + bp) off = M + bp + off - W256).
      { unfold wadd. symmetry. apply (Z.mod_unique _ _ 1); lia. }
      rewrite Hp. replace (M + bp <=? M + bp + off - W256) with false by lia. cbn [guard obind].
      rewrite (core_far t (bp + off) Hwt Hd) by lia. reflexivity.
  - replace (M + bp + ho) with (M + (bp + ho)) by lia.
    rewrite (Ht Hwt Hst' (bp + ho)); try lia. reflexivity.
    intro Hsc. rewrite (scalar_emb t Hsc) in *. lia.
Qed.

Lemma Forall_RR_repeat t n : RR t -> Forall RR (repeat t n).
Proof. intro. apply Forall_repeat. assumption. Qed.

Theorem idec_refines : forall t, RR t.
Proof.
  pose proof W256_big as HW. pose proof MEMLIM_val as HMv.
  induction t using ty_ind'; intros Hwf Hsm p Hp Hmem Hsc; fold L in HML.
  1-7: (cbn [idec]; specialize (Hsc eq_refl); rewrite mloadb_inside by lia; cbn [obind];
        unfold accept_core; cbn [inb]; symmetry; apply scalar_dec_slice; [reflexivity | lia]).
  - (* bytes *)
    rename b into BB.
    cbn [idec wf_ty small_ty] in *. unfold accept_core, dec_at. cbn [inb dec_at_g].
    pose proof (rd_range payload p Hb) as Hr0.
    destruct (Z.le_gt_cases (p + 32) L) as [Hin|Hout].
    + rewrite mloadw_inside by lia. cbn [obind]. set (n := rd payload p) in *.
      destruct (Z.leb_spec n BB) as [Hnb|Hnb].
      * rewrite (wadd_small (M + p) 32) by lia. rewrite (wadd_small (M + p + 32) n) by lia.
        destruct (Z.leb_spec (p + 32 + n) L) as [Hc|Hc].
        -- replace (M + p + 32 + n <=? hi) with true by (unfold hi; lia).
           replace (M + p + 32 + n <=? MEMLIM) with true by lia.
           replace (M + p + 32) with (M + (p + 32)) by lia. rewrite img_slice by lia.
           destruct I; reflexivity.
        -- replace (M + p + 32 + n <=? hi) with false by (unfold hi; lia). destruct I; reflexivity.
      * destruct I; cbn [guard obind]; [|reflexivity].
        destruct (wadd (wadd (M + p) 32) n <=? hi); reflexivity.
    + assert (Hspec : (if rd payload p <=? BB then if p + 32 + rd payload p <=? L then @Some val (VBytes (slice payload (p + 32) (rd payload p))) else None else None) = None).
      { destruct (rd payload p <=? BB); [|reflexivity]. destruct (Z.leb_spec (p + 32 + rd payload p) L); [lia|reflexivity]. }
      transitivity (@None val); [|symmetry; destruct (rd payload p <=? BB); [destruct (Z.leb_spec (p + 32 + rd payload p) L); [lia|reflexivity]|reflexivity]].
      destruct (mloadw img (M + p)) as [w|] eqn:Ew; [|reflexivity]. cbn [obind].
      destruct (mloadw_range _ _ Ew) as [Hw Hm].
      destruct (Z.leb_spec w BB) as [Hwb|Hwb].
      * rewrite (wadd_small (M + p) 32) by lia. rewrite (wadd_small (M + p + 32) w) by lia.
        replace (M + p + 32 + w <=? hi) with false by (unfold hi; lia). destruct I; reflexivity.
      * destruct I; cbn [guard obind]; [|reflexivity].
        destruct (wadd (wadd (M + p) 32) w <=? hi); reflexivity.
  - (* string *)
    rename b into BB.
    cbn [idec wf_ty small_ty] in *. unfold accept_core, dec_at. cbn [inb dec_at_g].
    pose proof (rd_range payload p Hb) as Hr0.
    destruct (Z.le_gt_cases (p + 32) L) as [Hin|Hout].
    + rewrite mloadw_inside by lia. cbn [obind]. set (n := rd payload p) in *.
      destruct (Z.leb_spec n BB) as [Hnb|Hnb].
      * rewrite (wadd_small (M + p) 32) by lia. rewrite (wadd_small (M + p + 32) n) by lia.
        destruct (Z.leb_spec (p + 32 + n) L) as [Hc|Hc].
        -- replace (M + p + 32 + n <=? hi) with true by (unfold hi; lia).
           replace (M + p + 32 + n <=? MEMLIM) with true by lia.
           replace (M + p + 32) with (M + (p + 32)) by lia. rewrite img_slice by lia.
           destruct I; reflexivity.
        -- replace (M + p + 32 + n <=? hi) with false by (unfold hi; lia). destruct I; reflexivity.
      * destruct I; cbn [guard obind]; [|reflexivity].
        destruct (wadd (wadd (M + p) 32) n <=? hi); reflexivity.
    + assert (Hspec : (if rd payload p <=? BB then if p + 32 + rd payload p <=? L then @Some val (VBytes (slice payload (p + 32) (rd payload p))) else None else None) = None).
      { destruct (rd payload p <=? BB); [|reflexivity]. destruct (Z.leb_spec (p + 32 + rd payload p) L); [lia|reflexivity]. }
      transitivity (@None val); [|symmetry; destruct (rd payload p <=? BB); [destruct (Z.leb_spec (p + 32 + rd payload p) L); [lia|reflexivity]|reflexivity]].
      destruct (mloadw img (M + p)) as [w|] eqn:Ew; [|reflexivity]. cbn [obind].
      destruct (mloadw_range _ _ Ew) as [Hw Hm].
      destruct (Z.leb_spec w BB) as [Hwb|Hwb].
      * rewrite (wadd_small (M + p) 32) by lia. rewrite (wadd_small (M + p + 32) w) by lia.
        replace (M + p + 32 + w <=? hi) with false by (unfold hi; lia). destruct I; reflexivity.
      * destruct I; cbn [guard obind]; [|reflexivity].
        destruct (wadd (wadd (M + p) 32) w <=? hi); reflexivity.
  - (* sarr *)
    cbn [idec]. rewrite core_sarr. cbn [wf_ty small_ty] in Hwf, Hsm.
    apply andb_prop in Hwf as [Hn Hw]. apply andb_prop in Hsm as [Hss Hsmt].
    set (ss := static_size (TSArr t n)) in *.
    assert (Hss0 : 0 <= ss) by (apply (sizes_nonneg (TSArr t n)); cbn [wf_ty]; now rewrite Hn, Hw).
    rewrite (wadd_small (M + p) ss) by lia.
    destruct (Z.leb_spec (p + ss) L) as [Hc|Hc].
    + replace (M + p + ss <=? hi) with true by (unfold hi; lia). cbn [guard obind].
      match goal with |- context [iseq img hi false ?l (M + p) 0] =>
        assert (E : l = map (fun t' => (is_dynamic t', emb_static t', idec I img hi t')) (repeat t (Z.to_nat n)))
          by (generalize (Z.to_nat n); intro k; induction k; cbn [repeat map]; congruence);
        rewrite E; clear E end.
      rewrite (iseq_cseq false (repeat t (Z.to_nat n)) (Forall_RR_repeat t _ IHt)
                         (forallb_repeat wf_ty t _ Hw) (forallb_repeat small_ty t _ Hsmt) p 0 ss); try lia.
      * destruct (cseq (repeat t (Z.to_nat n)) payload p L 0); reflexivity.
      * rewrite <- map_repeat', zsum_repeat. unfold ss. cbn [static_size]. fold (emb_static t). unfold emb_static. lia.
    + replace (M + p + ss <=? hi) with false by (unfold hi; lia). reflexivity.
  - (* darr *)
    cbn [idec wf_ty small_ty] in *. rewrite core_darr. cbn zeta.
    apply andb_prop in Hwf as [Hn Hw]. apply andb_prop in Hsm as [Hsm1 Hsmt]. apply andb_prop in Hsm1 as [Hb64 He64].
    pose proof (emb_static_nonneg t Hw) as He0. set (es := emb_static t) in *.
    pose proof (rd_range payload p Hb) as Hr0.
    destruct (Z.le_gt_cases (p + 32) L) as [Hin|Hout].
    + rewrite mloadw_inside by lia. cbn [obind]. set (n := rd payload p) in *.
      destruct (Z.leb_spec n b) as [Hnb|Hnb].
      * assert (Hprod : 0 <= n * es <= 2 ^ 64 * 2 ^ 64) by nia.
        assert (Hwm : wmul n es = n * es) by (unfold wmul; apply Z.mod_small; lia).
        rewrite Hwm. rewrite (wadd_small (n * es) 32) by lia. rewrite (wadd_small (M + p) (n * es + 32)) by lia.
        rewrite (wadd_small (M + p) 32) by lia.
        destruct (Z.leb_spec (p + 32 + n * es) L) as [Hc|Hc].
        -- replace (M + p + (n * es + 32) <=? hi) with true by (unfold hi; lia).
           assert (Hiseq : forall l, l = map (fun t' => (is_dynamic t', emb_static t', idec I img hi t')) (repeat t (Z.to_nat n)) ->
                           iseq img hi (elem_chk I) l (M + p + 32) 0 = cseq (repeat t (Z.to_nat n)) payload (p + 32) L 0).
           { intros l ->. replace (M + p + 32) with (M + (p + 32)) by lia.
             apply (iseq_cseq (elem_chk I) (repeat t (Z.to_nat n)) (Forall_RR_repeat t _ IHt)
                              (forallb_repeat wf_ty t _ Hw) (forallb_repeat small_ty t _ Hsmt) (p + 32) 0 (n * es)); try lia.
             rewrite <- map_repeat', zsum_repeat. fold es. lia. }
           match goal with |- context [iseq img hi (elem_chk I) ?l (M + p + 32) 0] =>
             rewrite (Hiseq l) by (unfold es; generalize (Z.to_nat n); intro k; induction k; cbn [repeat map]; congruence) end.
           destruct I; cbn [guard obind];
             destruct (cseq (repeat t (Z.to_nat n)) payload (p + 32) L 0); reflexivity.
        -- replace (M + p + (n * es + 32) <=? hi) with false by (unfold hi; lia). destruct I; reflexivity.
      * destruct I; cbn [guard obind]; [|reflexivity].
        destruct (wadd (M + p) (wadd (wmul n es) 32) <=? hi); reflexivity.
    + transitivity (@None val).
      2:{ symmetry. destruct (rd payload p <=? b); [|reflexivity].
          destruct (Z.leb_spec (p + 32 + rd payload p * es) L); [nia|reflexivity]. }
      destruct (mloadw img (M + p)) as [w|] eqn:Ew; [|reflexivity]. cbn [obind].
      destruct (mloadw_range _ _ Ew) as [Hw' Hm].
      destruct (Z.leb_spec w b) as [Hwb|Hwb].
      * assert (Hprod : 0 <= w * es <= 2 ^ 64 * 2 ^ 64) by nia.
        assert (Hwm : wmul w es = w * es) by (unfold wmul; apply Z.mod_small; lia).
        rewrite Hwm. rewrite (wadd_small (w * es) 32) by lia. rewrite (wadd_small (M + p) (w * es + 32)) by lia.
        replace (M + p + (w * es + 32) <=? hi) with false by (unfold hi; lia). destruct I; reflexivity.
      * destruct I; cbn [guard obind]; [|reflexivity].
        destruct (wadd (M + p) (wadd (wmul w es) 32) <=? hi); reflexivity.
  - (* tuple *)
    cbn [idec]. rewrite core_tuple. cbn [wf_ty small_ty] in Hwf, Hsm.
    apply andb_prop in Hsm as [Hss Hsmt].
    set (ss := static_size (TTuple ts)) in *.
    assert (Hss0 : 0 <= ss) by (apply (sizes_nonneg (TTuple ts)); exact Hwf).
    rewrite (wadd_small (M + p) ss) by lia.
    destruct (Z.leb_spec (p + ss) L) as [Hc|Hc].
    + replace (M + p + ss <=? hi) with true by (unfold hi; lia). cbn [guard obind].
      rewrite (iseq_cseq false ts H Hwf Hsmt p 0 ss); try lia.
      * destruct (cseq ts payload p L 0); reflexivity.
      * unfold ss. cbn [static_size]. change (fun t' => if is_dynamic t' then 32 else static_size t') with emb_static. lia.
    + replace (M + p + ss <=? hi) with false by (unfold hi; lia). reflexivity.
Qed.
End Img.

(* ---------- top level: abi_decode through either implementation = the acceptance model ---------- *)
Theorem impl_refines_model : forall I M stale t payload,
  0 <= M -> M + zlen payload + 32 <= MEMLIM -> bytes_ok payload -> (forall a, 0 <= stale a < 256) ->
  wf_ty t = true -> small_ty t = true -> scalar_like t = false ->
  abi_decode_impl I M stale t payload = accept_mem t payload.
Proof.
  intros I M stale t payload HM HML Hb Hst Hwf Hsm Hsc. unfold abi_decode_impl, accept_mem. cbn zeta.
  destruct ((static_size t <=? zlen payload) && (zlen payload <=? size_bound t)); [|reflexivity].
  pose proof (idec_refines I M payload stale HM HML Hb Hst t Hwf Hsm 0 ltac:(lia)) as R.
  rewrite Z.add_0_r in R. rewrite R.
  - reflexivity.
  - pose proof (zlen_nonneg payload). lia.
  - rewrite Hsc. discriminate.
Qed.
