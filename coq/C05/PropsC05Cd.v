(* C05 extension: property theorems for CALLDATA-source (external-function arguments, keyword-argument entry points)
   and CODE-source (constructor arguments) decoding at the implementation level (models: C05/CdImpl.v cdec Legacy /
   cdec Venom; acceptance model C05/Dec.v over the shared ABI spec C06/Abi.v).
   Hypotheses: well-formed argument types whose dynamic-array footprints do not wrap ([fits]: bound * element head
   < 2^64; vyper: the type must fit in memory), byte region shorter than 2^64. *)
From Coq Require Import ZArith List Bool Lia.
From Verif Require Import C06.Abi C06.AbiLemmas C06.Roundtrip C06.ZeroPad C05.Dec C05.DecProofs C05.DecImpl C05.CdImpl
  C05.CdImplProofs.
Import ListNotations.
Open Scope Z_scope.

(* core: at every pointer, with wrapping pointer arithmetic but NON-wrapping EVM copies, bulk copies and each
   implementation's copy start, both implementation-level decoders compute exactly the follow decoder *)
Theorem cd_impl_refines_model : forall I data code_end t A,
  zlen data < 2 ^ 64 -> wf_ty t = true -> fits t = true -> 0 <= A < 2 ^ 256 ->
  cdec I data code_end t A = dec_follow t data (wadd code_end A).
Proof. intros I data ce t A Hl Hwf Hf HA. exact (cdec_refines I data ce Hl t Hwf Hf A HA). Qed.
Print Assumptions cd_impl_refines_model.

(* external-function arguments (and every keyword-argument entry point, with its prefix tuple): if execution
   proceeds past decoding, the observed value is exactly the offset-following ABI decoding of the call data
   (zero-extended reads: every read is inside the call data or reads zero) and lies in its declared type *)
Theorem cd_sound_lv : forall I targs calldata v,
  wf_ty targs = true -> fits targs = true -> bytes_ok calldata -> zlen calldata < 2 ^ 64 ->
  cd_entry I targs calldata = Some v ->
  in_type targs v = true /\ dec_follow targs calldata 4 = Some v /\ 4 + static_size targs <= zlen calldata.
Proof.
  intros I t cd v Hwf Hf Hb Hl H. rewrite (cd_entry_is_model I t cd Hwf Hf Hl) in H.
  split. exact (DecProofs.dec_sound t cd v Hwf Hb H).
  unfold accept_call in H. destruct (Z.ltb_spec (zlen cd) (4 + static_size t)); [discriminate | auto].
Qed.
Print Assumptions cd_sound_lv.

(* canonical encodings of in-type values are always accepted by both implementations, and decode to the value *)
Theorem cd_complete_lv : forall I targs v sel,
  wf_ty targs = true -> fits targs = true -> in_type targs v = true -> zlen sel = 4 -> 4 + zlen (enc targs v) < 2 ^ 64 ->
  cd_entry I targs (sel ++ enc targs v) = Some v.
Proof.
  intros I t v sel Hwf Hf Hin Hs Hl. rewrite cd_entry_is_model; auto.
  - apply DecProofs.dec_complete; auto. unfold W256. assert (2 ^ 64 < 2 ^ 256) by reflexivity. lia.
  - rewrite zlen_app. lia.
Qed.
Print Assumptions cd_complete_lv.

(* the two implementations accept exactly the same call data with the same values *)
Theorem cd_same_lv : forall targs calldata,
  wf_ty targs = true -> fits targs = true -> zlen calldata < 2 ^ 64 ->
  cd_entry Legacy targs calldata = cd_entry Venom targs calldata.
Proof. intros. now rewrite !cd_entry_is_model. Qed.
Print Assumptions cd_same_lv.

(* constructor arguments: appended to the init code, every read at (code_end + p) mod 2^256 *)
Theorem code_sound_lv : forall I targs initcode args v,
  wf_ty targs = true -> fits targs = true -> bytes_ok (initcode ++ args) -> zlen (initcode ++ args) < 2 ^ 64 ->
  ctor_entry I targs initcode args = Some v ->
  in_type targs v = true /\ dec_follow targs (initcode ++ args) (zlen initcode) = Some v /\ static_size targs <= zlen args.
Proof.
  intros I t ic args v Hwf Hf Hb Hl H. rewrite (ctor_entry_is_model I t ic args Hwf Hf Hl) in H.
  split. exact (dec_sound_at (zlen ic) t (ic ++ args) v Hwf Hb H).
  unfold accept_ctor, accept_at in H. rewrite zlen_app in H.
  destruct (Z.ltb_spec (zlen ic + zlen args) (zlen ic + static_size t)); [discriminate|]. split; [exact H | lia].
Qed.
Print Assumptions code_sound_lv.

Theorem code_complete_lv : forall I targs v initcode,
  wf_ty targs = true -> fits targs = true -> in_type targs v = true -> zlen initcode + zlen (enc targs v) < 2 ^ 64 ->
  ctor_entry I targs initcode (enc targs v) = Some v.
Proof.
  intros I t v ic Hwf Hf Hin Hl. rewrite ctor_entry_is_model; auto.
  - unfold accept_ctor. apply dec_complete_at; auto. unfold W256. assert (2 ^ 64 < 2 ^ 256) by reflexivity. lia.
  - rewrite zlen_app. lia.
Qed.
Print Assumptions code_complete_lv.

(* non-vacuity *)
Definition TC := TTuple [TDArr (TBytes 3) 2; TInt 8; TDArr (TUInt 256) 3].
Definition VC := VList [VList [VBytes [1;2;3]; VBytes []]; VInt (-128); VList [VInt 5; VInt 6]].
Example c05cd_nonvacuous :
  wf_ty TC = true /\ fits TC = true /\ in_type TC VC = true /\
  cd_entry Legacy TC ([1;2;3;4] ++ enc TC VC) = Some VC /\ cd_entry Venom TC ([1;2;3;4] ++ enc TC VC) = Some VC /\
  ctor_entry Legacy TC (repeat 96 37) (enc TC VC) = Some VC /\ ctor_entry Venom TC (repeat 96 37) (enc TC VC) = Some VC /\
  (* out-of-range int8 rejected; over-long array rejected *)
  cd_entry Venom (TTuple [TInt 8]) ([1;2;3;4] ++ word 128) = None /\
  cd_entry Legacy (TTuple [TDArr (TUInt 256) 1]) ([1;2;3;4] ++ word 32 ++ word 2 ++ word 1 ++ word 1) = None /\
  (* an offset 2^256-4 wraps into the selector bytes: followed, as the compiled code does *)
  cd_entry Legacy (TTuple [TUInt 256; TBytes 40]) ([0;0;0;0] ++ word (2 * 256 ^ 4) ++ word (2 ^ 256 - 4)) =
    Some (VList [VInt (2 * 256 ^ 4); VBytes [0; 0]]) /\
  (* truncated call data (static part missing) rejected *)
  cd_entry Legacy (TTuple [TUInt 256]) ([1;2;3;4] ++ zeros 31) = None.
Proof. vm_compute. repeat split; reflexivity. Qed.
