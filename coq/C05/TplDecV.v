(* C05: parametric model of the VENOM ABI decoder as a TEMPLATE GENERATOR: the Venom function body that
   vyper/codegen_venom/abi/abi_decoder.py:abi_decode_to_buf emits for a MEMORY source with bound hi
   (src = %1, dst = %2, hi = %3, EVM >= cancun), as a function of the type shape.  Tied syntactically in TieDecV.v. *)
From Coq Require Import ZArith List Bool String Ascii.
From Verif Require Import C06.Abi C06.Sexp C06.TplEncL C06.TplEncV C05.Dec.
Import ListNotations.
Open Scope string_scope.
Open Scope list_scope.
Open Scope Z_scope.

Definition b_assert (c : sx) := emit0 "assert" [c].
(* assert not (a > b) *)
Definition assert_le (a b : sx) : M unit := g <- emit "gt" [a; b] ;; z <- emit "iszero" [g] ;; b_assert z.

Definition int_clamp (bits : Z) (signed : bool) (val : sx) : M sx :=
  if signed then
    c <- emit "signextend" [SI (bits / 8 - 1); val] ;; e <- emit "eq" [val; c] ;; b_assert e ;;; ret val
  else
    s <- emit "shr" [SI bits; val] ;; z <- emit "iszero" [s] ;; b_assert z ;;; ret val.

Definition clamp_word (t : ty) (val : sx) : M sx :=
  match t with
  | TUInt b => if b =? 256 then ret val else int_clamp b false val
  | TInt b => if b =? 256 then ret val else int_clamp b true val
  | TDecimal => int_clamp 168 true val
  | TFlag m => int_clamp m false val
  | TAddress => int_clamp 160 false val
  | TBool => int_clamp 1 false val
  | TBytesM m => if m =? 32 then ret val
                 else s <- emit "shl" [SI (m * 8); val] ;; z <- emit "iszero" [s] ;; b_assert z ;;; ret val
  | _ => ret val
  end.

(* _getelemptr_abi(parent, member, static_offset, hi) *)
Definition getelemptr_abi (dyn : bool) (parent : sx) (so : Z) (hi : sx) : M sx :=
  static_loc <- b_add parent (SI so) ;;
  if dyn then
    off <- b_mload static_loc ;; p <- b_add parent off ;;
    l <- emit "lt" [p; parent] ;; z <- emit "iszero" [l] ;; b_assert z ;;; ret p
  else ret static_loc.

Fixpoint vdec_tpl (t : ty) (dst src hi : sx) : M unit :=
  match t with
  | TBytes b | TString b =>
      length <- b_mload src ;;
      assert_le length (SI b) ;;;
      e1 <- b_add src (SI 32) ;; e2 <- b_add e1 length ;; assert_le e2 hi ;;;
      b_mcopy dst src (SI (32 + ceil32 b))
  | TDArr t' b =>
      let es := emb_static t' in
      count <- b_mload src ;;
      assert_le count (SI b) ;;;
      ps <- b_mul count (SI es) ;; ps2 <- b_add ps (SI 32) ;; ie <- b_add src ps2 ;; assert_le ie hi ;;;
      count2 <- b_mload src ;; b_mstore dst count2 ;;;
      if negb (needs_clamp t') && negb (is_dynamic t') then
        size <- b_mul count2 (SI (vmem_size t')) ;; sd <- b_add src (SI 32) ;; dd <- b_add dst (SI 32) ;;
        b_mcopy dd sd size
      else
        hdr <- create_block "darr_dec_hdr" ;; append_block hdr ;;;
        body <- create_block "darr_dec_body" ;; append_block body ;;;
        exit <- create_block "darr_dec_exit" ;; append_block exit ;;;
        i_val <- b_alloca 32 ;; b_mstore i_val (SI 0) ;;;
        emit0 "jmp" [lbl hdr] ;;;
        set_block hdr ;;;
        i <- b_mload i_val ;; ch <- b_mload src ;; c <- emit "lt" [i; ch] ;; done <- emit "iszero" [c] ;;
        emit0 "jnz" [done; lbl exit; lbl body] ;;;
        set_block body ;;;
        i <- b_mload i_val ;;
        src_data <- b_add src (SI 32) ;;
        elem_src <- (if is_dynamic t' then
                       m <- b_mul i (SI es) ;; static_loc <- b_add src_data m ;; off <- b_mload static_loc ;;
                       p <- b_add src_data off ;;
                       l <- emit "lt" [p; src_data] ;; z <- emit "iszero" [l] ;; b_assert z ;;;
                       ee <- b_add p (SI es) ;; assert_le ee hi ;;; ret p
                     else
                       m <- b_mul i (SI es) ;; b_add src_data m) ;;
        dst_data <- b_add dst (SI 32) ;; dm <- b_mul i (SI (vmem_size t')) ;; elem_dst <- b_add dst_data dm ;;
        vdec_tpl t' elem_dst elem_src hi ;;;
        ni <- b_add i (SI 1) ;; b_mstore i_val ni ;;; emit0 "jmp" [lbl hdr] ;;;
        set_block exit
  | TSArr t' cnt =>
      ie <- b_add src (SI (static_size t)) ;; assert_le ie hi ;;;
      (fix go (k : nat) (ao vo : Z) : M unit :=
         match k with
         | O => ret tt
         | S k' => es <- getelemptr_abi (is_dynamic t') src ao hi ;; ed <- b_add dst (SI vo) ;;
                   vdec_tpl t' ed es hi ;;; go k' (ao + emb_static t') (vo + vmem_size t')
         end) (Z.to_nat cnt) 0 0
  | TTuple ts =>
      ie <- b_add src (SI (static_size t)) ;; assert_le ie hi ;;;
      (fix go (ts : list ty) (ao vo : Z) : M unit :=
         match ts with
         | [] => ret tt
         | t' :: r => es <- getelemptr_abi (is_dynamic t') src ao hi ;; ed <- b_add dst (SI vo) ;;
                      vdec_tpl t' ed es hi ;;; go r (ao + emb_static t') (vo + vmem_size t')
         end) ts 0 0
  | _ =>
      val <- b_mload src ;;
      v <- (if needs_clamp t then clamp_word t val else ret val) ;;
      b_mstore dst v
  end.

Definition tpl_dec_v (t : ty) : sx :=
  let prog := (src <- emit "param" [] ;; dst <- emit "param" [] ;; hi <- emit "param" [] ;;
               vdec_tpl (TTuple [t]) dst src hi ;;; emit0 "stop" []) in
  render (snd (prog (mkB 0 0 [("probe", [])] "probe"))).
