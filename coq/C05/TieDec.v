(* C05 O-tie: the decoder/validator templates OBSERVED from the real generators (GenTplDecL.v: make_setter(dst, src, hi);
   GenTplDecV.v: abi_decode_to_buf) are syntactically the output of the Coq template generators, whole shape family. *)
From Coq Require Import ZArith List String Bool.
From Verif Require Import C06.Abi C06.Sexp C05.TplDecL C05.TplDecV C05.GenTplDecL C05.GenTplDecV.
Import ListNotations.
Open Scope Z_scope.

Theorem tie_dec_legacy : forallb (fun p => sx_eqb (tpl_dec_l (fst p)) (snd p)) obs_dec_l = true.
Proof. vm_compute. reflexivity. Qed.
Theorem tie_dec_venom : forallb (fun p => sx_eqb (tpl_dec_v (fst p)) (snd p)) obs_dec_v = true.
Proof. vm_compute. reflexivity. Qed.
Theorem dec_family : (100 <=? zlen obs_dec_l) = true /\ zlen obs_dec_l = zlen obs_dec_v.
Proof. vm_compute. split; reflexivity. Qed.
