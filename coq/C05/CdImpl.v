(* C05 extension: implementation-level models of the two decoders for a read-only byte-addressed source WITHOUT a
   `hi` bound -- CALLDATA (external-function arguments, keyword-argument entry points; code_end = 0) and CODE/DATA
   (constructor arguments: every access is at (code_end + p) mod 2^256 in init code ++ arguments):
     cdec Legacy  core.py make_setter / clamp_bytestring / clamp_dyn_array / _dynarray_make_setter /
                  _getelemptr_abi_helper (no _dirty_read_risk: no guard) / copy_bytes / make_byte_array_copier
     cdec Venom   abi_decoder.py _decode_primitive / _decode_bytestring / _decode_dyn_array / _decode_complex /
                  _getelemptr_abi (hi = None)
   Unlike the acceptance model (dec_follow: every position computed with wrapping arithmetic) these work as the compiled
   code does: 256-bit wrapping POINTER arithmetic (add / mul), but the EVM COPY instructions (calldatacopy, codecopy)
   read consecutive positions WITHOUT wrapping and zero-fill past the end; a byte string is one copy of the length word
   and the data; a dynamic array whose elements need neither validation nor pointer following is ONE bulk copy
   (legacy: from the count word, venom: from the wrapped pointer to the first element), all other arrays are decoded
   element by element from wrapped pointers.  Reading the copied bytes back from memory is not modelled (the value is
   what the copy reads).  No proofs here. *)
From Coq Require Import ZArith List Bool.
From Verif Require Import C06.Abi C06.ZeroPad C06.SxEval C05.Dec C05.DecImpl.
Import ListNotations.
Open Scope Z_scope.

Section CImpl.
Variable I : impl. (*section*)
Variable data : list Z. (*section*)
Variable ce : Z. (*section*)             (* code_end; 0 for calldata *)

Definition cpos (p : Z) : Z := wadd ce p.
Definition cload (p : Z) : Z := rd data (cpos p).

Definition cdec_t := Z -> option val.

(* children reached through wrapped pointers; for dynamic-array elements ho = i * elem_head *)
Fixpoint cseq (cs : list (bool * Z * cdec_t)) (base ho : Z) : option (list val) :=
  match cs with
  | [] => Some []
  | (dyn, hs, d) :: r =>
      v <- (if dyn : bool then d (wadd base (cload (wadd base ho))) else d (wadd base ho)) ;;
      vs <- cseq r base (ho + hs) ;;
      Some (v :: vs)
  end.

(* elements of a bulk copy: consecutive NON-wrapping source positions p, p + es, ... *)
Fixpoint bulk (d : Z -> option val) (p es : Z) (k : nat) : option (list val) :=
  match k with
  | O => Some []
  | S k' => v <- d p ;; vs <- bulk d (p + es) es k' ;; Some (v :: vs)
  end.

Fixpoint cdec (t : ty) : cdec_t := fun A =>
  match t with
  | TBytes b | TString b =>
      let len := cload A in
      _ <- guard (len <=? b) ;;
      (* one copy starting at the length word: the data are the bytes at cpos A + 32 ... (no wrap inside the copy) *)
      Some (VBytes (slice data (cpos A + 32) len))
  | TDArr t' b =>
      let n := cload A in
      _ <- guard (n <=? b) ;;
      if is_dynamic t' || needs_clamp t' then
        vs <- cseq (repeat (is_dynamic t', emb_static t', cdec t') (Z.to_nat n)) (wadd A 32) 0 ;;
        Some (VList vs)
      else
        let first := match I with
                     | Legacy => cpos A + 32            (* copy from the count word *)
                     | Venom => cpos (wadd A 32) end in (* copy from add(src, 32) *)
        vs <- bulk (dec_follow t' data) first (emb_static t') (Z.to_nat n) ;;
        Some (VList vs)
  | TSArr t' k =>
      vs <- cseq (repeat (is_dynamic t', emb_static t', cdec t') (Z.to_nat k)) A 0 ;; Some (VList vs)
  | TTuple ts =>
      vs <- cseq (map (fun t' => (is_dynamic t', emb_static t', cdec t')) ts) A 0 ;; Some (VList vs)
  | _ => dec_at t (slice data (cpos A) 32) 0          (* one word; clamp = the range checks of the spec decoder *)
  end.
End CImpl.

(* sizes for which count * element head does not wrap (vyper: a type must fit in memory) *)
Fixpoint fits (t : ty) : bool :=
  match t with
  | TDArr t' b => (b * emb_static t' <? 2 ^ 64) && fits t'
  | TSArr t' _ => fits t'
  | TTuple ts => forallb fits ts
  | _ => true
  end.

(* external-function entry point: calldatasize check, then the arguments tuple at byte 4 *)
Definition cd_entry (I : impl) (targs : ty) (calldata : list Z) : option val :=
  if zlen calldata <? 4 + static_size targs then None else cdec I calldata 0 targs 4.
(* constructor: CODESIZE check, then the arguments tuple at relative position 0 of the data section *)
Definition ctor_entry (I : impl) (targs : ty) (initcode args : list Z) : option val :=
  let data := initcode ++ args in
  if zlen data <? zlen initcode + static_size targs then None else cdec I data (zlen initcode) targs 0.

(* harness: both implementation models agree with the follow decoder on argument k of (uint256 * k, t) at [base] *)
Definition arg_ptr (data : list Z) (ce : Z) (dyn : bool) (b0 k : Z) : Z :=
  if dyn then wadd b0 (rd data (wadd ce (wadd b0 (32 * k)))) else wadd b0 (32 * k).
Definition veq (a b : option val) : bool :=
  match a, b with
  | Some x, Some y => SxEval.val_eqb x y
  | None, None => true
  | _, _ => false
  end.
Definition cd_agree (code : bool) (k : Z) (t : ty) (data : list Z) (base : Z) : Z :=
  let ce := if code then base else 0 in
  let b0 := if code then 0 else base in
  let m := match dec_follow (TTuple (repeat (TUInt 256) (Z.to_nat k) ++ [t])) data base with
           | Some (VList vs) => Some (last vs (VInt 0)) | _ => None end in
  let p := arg_ptr data ce (is_dynamic t) b0 k in
  if veq (cdec Legacy data ce t p) m && veq (cdec Venom data ce t p) m then 1 else 0.
