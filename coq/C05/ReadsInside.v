(* C05: for in-memory payloads the bound checks [inb] guarantee that decoding reads only inside the
   payload: whatever lies beyond `hi` (stale memory) cannot influence acceptance or the decoded value. *)
From Coq Require Import ZArith List Bool Lia ZifyBool.
From Verif Require Import C06.Abi C06.AbiLemmas C06.Roundtrip C05.Dec C05.DecProofs.
Import ListNotations.
Open Scope Z_scope.
Ltac Zify.zify_post_hook ::= Z.to_euclidean_division_equations.

Lemma slice_app_inside bs junk p n :
  0 <= p -> 0 <= n -> p + n <= zlen bs -> slice (bs ++ junk) p n = slice bs p n.
Proof.
  intros Hp Hn Hle. unfold slice. rewrite zlen_app. pose proof (zlen_nonneg junk).
  destruct (Z.leb_spec (zlen bs) p) as [H1|H1].
  - assert (n = 0) by lia. subst n. destruct (zlen bs + zlen junk <=? p); cbn; reflexivity.
  - destruct (Z.leb_spec (zlen bs + zlen junk) p); [lia|].
    rewrite skipn_app. replace (Z.to_nat p - length bs)%nat with 0%nat by (unfold zlen in *; lia).
    cbn [skipn]. rewrite firstn_app.
    replace (Z.to_nat n - length (skipn (Z.to_nat p) bs))%nat with 0%nat
      by (rewrite skipn_length; unfold zlen in *; lia).
    cbn [firstn]. rewrite app_nil_r. reflexivity.
Qed.
Lemma rd_app_inside bs junk p : 0 <= p -> p + 32 <= zlen bs -> rd (bs ++ junk) p = rd bs p.
Proof. intros. unfold rd. rewrite slice_app_inside by lia. reflexivity. Qed.

Definition scalar_like (t : ty) : bool :=
  match t with TSArr _ _ | TDArr _ _ | TTuple _ | TBytes _ | TString _ => false | _ => true end.
Lemma dyn_not_scalar t : is_dynamic t = true -> scalar_like t = false.
Proof. destruct t; cbn; intros; try discriminate; reflexivity. Qed.
Lemma scalar_emb t : scalar_like t = true -> emb_static t = 32.
Proof. destruct t; cbn; intros; try discriminate; reflexivity. Qed.

Definition RI (t : ty) : Prop :=
  forall bs junk loc, bytes_ok bs -> 0 <= loc -> (scalar_like t = true -> loc + 32 <= zlen bs) ->
    inb t bs loc (zlen bs) = true ->
    inb t (bs ++ junk) loc (zlen bs) = true /\ dec_at t (bs ++ junk) loc = dec_at t bs loc.

Definition cs_of (t' : ty) := (is_dynamic t', emb_static t', inb t').
Definition ds_of (t' : ty) := (is_dynamic t', emb_static t', dec_at_g Z.add t').

Lemma emb_static_nonneg t : wf_ty t = true -> 0 <= emb_static t.
Proof. intro H. unfold emb_static. destruct (is_dynamic t). lia. apply (sizes_nonneg t H). Qed.

Lemma seq_RI ts : Forall RI ts -> forallb wf_ty ts = true ->
  forall bs junk loc ho S, bytes_ok bs -> 0 <= loc -> 0 <= ho ->
    ho + zsum (map emb_static ts) <= S -> loc + S <= zlen bs ->
    inb_seq (map cs_of ts) bs loc (zlen bs) ho = true ->
    inb_seq (map cs_of ts) (bs ++ junk) loc (zlen bs) ho = true /\
    run_seq_g Z.add (map ds_of ts) (bs ++ junk) loc ho = run_seq_g Z.add (map ds_of ts) bs loc ho.
Proof.
  induction 1 as [|t ts Ht HF IH]; intros Hwf bs junk loc ho S Hb Hloc Hho Hsum HS Hin.
  - split; reflexivity.
  - cbn [forallb] in Hwf. apply andb_prop in Hwf as [Hwt Hwl].
    cbn [map zsum fold_right] in Hsum. fold (zsum (map emb_static ts)) in Hsum.
    pose proof (emb_static_nonneg t Hwt) as He.
    assert (Hrest : 0 <= zsum (map emb_static ts)).
    { apply zsum_nonneg. apply Forall_forall. intros x Hx. apply in_map_iff in Hx as (y & <- & Hy).
      apply emb_static_nonneg. rewrite forallb_forall in Hwl. auto. }
    cbn [map cs_of ds_of inb_seq run_seq_g] in *. unfold cs_of, ds_of in *. cbn [map inb_seq run_seq_g] in *.
    destruct (is_dynamic t) eqn:Hd.
    + assert (He32 : emb_static t = 32) by (unfold emb_static; now rewrite Hd).
      rewrite He32 in *.
      rewrite (rd_app_inside bs junk (loc + ho)) by lia.
      pose proof (rd_range bs (loc + ho) Hb) as Hr.
      destruct (inb t bs (loc + rd bs (loc + ho)) (zlen bs)) eqn:Hi; [|discriminate].
      destruct (Ht bs junk (loc + rd bs (loc + ho)) Hb ltac:(lia)
                   ltac:(rewrite (dyn_not_scalar t Hd); discriminate) Hi) as [Hi' Hdec].
      rewrite Hi'. unfold dec_at in Hdec. rewrite Hdec.
      destruct (IH Hwl bs junk loc (ho + 32) S Hb Hloc ltac:(lia) ltac:(lia) HS Hin) as [Hs' Hr'].
      rewrite Hs', Hr'. split; reflexivity.
    + destruct (inb t bs (loc + ho) (zlen bs)) eqn:Hi; [|discriminate].
      destruct (Ht bs junk (loc + ho) Hb ltac:(lia)
                   ltac:(intro Hsc; rewrite (scalar_emb t Hsc) in *; lia) Hi) as [Hi' Hdec].
      rewrite Hi'. unfold dec_at in Hdec. rewrite Hdec.
      destruct (IH Hwl bs junk loc (ho + emb_static t) S Hb Hloc ltac:(lia) ltac:(lia) HS Hin) as [Hs' Hr'].
      rewrite Hs', Hr'. split; reflexivity.
Qed.

Lemma map_repeat' {A B} (f : A -> B) x n : repeat (f x) n = map f (repeat x n).
Proof. induction n; cbn; congruence. Qed.
Lemma zsum_repeat x n : zsum (repeat x n) = Z.of_nat n * x.
Proof. induction n. reflexivity. cbn [repeat]. rewrite zsum_cons, IHn. lia. Qed.
Lemma Forall_repeat {A} (P : A -> Prop) x n : P x -> Forall P (repeat x n).
Proof. intro. induction n; cbn; auto. Qed.
Lemma forallb_repeat {A} (f : A -> bool) x n : f x = true -> forallb f (repeat x n) = true.
Proof. intro H. induction n; cbn; auto. now rewrite H. Qed.

Ltac scalar_case Hb Hsc :=
  intros bs junk loc Hb Hloc Hsc _; split; [reflexivity|]; specialize (Hsc eq_refl);
  unfold dec_at; cbn [dec_at_g]; rewrite ?rd_app_inside, ?slice_app_inside by lia; reflexivity.

Theorem reads_inside : forall t, wf_ty t = true -> RI t.
Proof.
  induction t using ty_ind'; intro Hwf.
  1-7: scalar_case Hb Hsc.
  - (* bytes *)
    intros bs junk loc Hb Hloc _ Hin. cbn [inb] in *. unfold dec_at. cbn [dec_at_g].
    pose proof (rd_range bs loc Hb) as Hr.
    destruct (rd bs loc <=? b) eqn:E; [|discriminate].
    assert (loc + 32 + rd bs loc <= zlen bs) by lia.
    rewrite rd_app_inside by lia. rewrite E. rewrite slice_app_inside by lia. split; [lia | reflexivity].
  - intros bs junk loc Hb Hloc _ Hin. cbn [inb] in *. unfold dec_at. cbn [dec_at_g].
    pose proof (rd_range bs loc Hb) as Hr.
    destruct (rd bs loc <=? b) eqn:E; [|discriminate].
    assert (loc + 32 + rd bs loc <= zlen bs) by lia.
    rewrite rd_app_inside by lia. rewrite E. rewrite slice_app_inside by lia. split; [lia | reflexivity].
  - (* sarr *)
    cbn [wf_ty] in Hwf. apply andb_prop in Hwf as [Hn Hw]. specialize (IHt Hw).
    intros bs junk loc Hb Hloc _ Hin. cbn [inb] in *. unfold dec_at. cbn [dec_at_g].
    destruct (loc + static_size (TSArr t n) <=? zlen bs) eqn:E; [|discriminate].
    change (repeat (is_dynamic t, emb_static t, inb t) (Z.to_nat n)) with (repeat (cs_of t) (Z.to_nat n)) in *.
    change (repeat (is_dynamic t, emb_static t, dec_at_g Z.add t) (Z.to_nat n)) with (repeat (ds_of t) (Z.to_nat n)).
    rewrite (map_repeat' cs_of) in *. rewrite (map_repeat' ds_of).
    destruct (seq_RI (repeat t (Z.to_nat n)) (Forall_repeat RI t _ IHt) (forallb_repeat wf_ty t _ Hw)
                     bs junk loc 0 (static_size (TSArr t n)) Hb Hloc ltac:(lia)) as [H1 H2]; auto.
    + rewrite <- map_repeat', zsum_repeat. cbn [static_size]. fold (emb_static t). unfold emb_static. lia.
    + lia.
    + rewrite H1, H2. split; reflexivity.
  - (* darr *)
    cbn [wf_ty] in Hwf. apply andb_prop in Hwf as [Hn Hw]. specialize (IHt Hw).
    intros bs junk loc Hb Hloc _ Hin. cbn [inb] in *. unfold dec_at. cbn [dec_at_g].
    pose proof (rd_range bs loc Hb) as Hr. pose proof (emb_static_nonneg t Hw) as He.
    destruct (rd bs loc <=? b) eqn:E; [|discriminate].
    destruct (loc + 32 + rd bs loc * emb_static t <=? zlen bs) eqn:E2; [|discriminate].
    assert (loc + 32 <= zlen bs) by nia.
    rewrite rd_app_inside by lia. rewrite E, E2.
    change (repeat (is_dynamic t, emb_static t, inb t) (Z.to_nat (rd bs loc)))
      with (repeat (cs_of t) (Z.to_nat (rd bs loc))) in *.
    change (repeat (is_dynamic t, emb_static t, dec_at_g Z.add t) (Z.to_nat (rd bs loc)))
      with (repeat (ds_of t) (Z.to_nat (rd bs loc))).
    rewrite (map_repeat' cs_of) in *. rewrite (map_repeat' ds_of).
    destruct (seq_RI (repeat t (Z.to_nat (rd bs loc))) (Forall_repeat RI t _ IHt) (forallb_repeat wf_ty t _ Hw)
                     bs junk (loc + 32) 0 (rd bs loc * emb_static t) Hb ltac:(lia) ltac:(lia)) as [H1 H2]; auto.
    + rewrite <- map_repeat', zsum_repeat. lia.
    + lia.
    + rewrite H1, H2. split; reflexivity.
  - (* tuple *)
    intros bs junk loc Hb Hloc _ Hin. cbn [inb] in *. unfold dec_at. cbn [dec_at_g].
    destruct (loc + static_size (TTuple ts) <=? zlen bs) eqn:E; [|discriminate].
    change (map (fun t' => (is_dynamic t', emb_static t', inb t')) ts) with (map cs_of ts) in *.
    change (map (fun t' => (is_dynamic t', emb_static t', dec_at_g Z.add t')) ts) with (map ds_of ts).
    cbn [wf_ty] in Hwf.
    assert (HRI : Forall RI ts).
    { clear - H Hwf. induction H as [|x l Hx Hl IH]; constructor; cbn [forallb] in Hwf; apply andb_prop in Hwf as [A B]; auto. }
    destruct (seq_RI ts HRI Hwf bs junk loc 0 (static_size (TTuple ts)) Hb Hloc ltac:(lia)) as [H1 H2]; auto.
    + cbn [static_size]. change (fun t' => if is_dynamic t' then 32 else static_size t') with emb_static. lia.
    + lia.
    + rewrite H1, H2. split; reflexivity.
Qed.

(* abi_decode: stale memory after the payload cannot change acceptance or the value *)
Theorem dec_reads_inside : forall t payload junk,
  wf_ty t = true -> bytes_ok payload -> scalar_like t = false ->
  inb t payload 0 (zlen payload) = true ->
  inb t (payload ++ junk) 0 (zlen payload) = true /\ dec_at t (payload ++ junk) 0 = dec_at t payload 0.
Proof.
  intros t p junk Hwf Hb Hs Hin. apply (reads_inside t Hwf p junk 0 Hb); auto. lia.
  rewrite Hs. discriminate.
Qed.
