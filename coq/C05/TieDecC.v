(* C05 extension, O-tie: the decoder templates OBSERVED from the real generators for CALLDATA-source and CODE-source
   arguments (GenTplDecCL.v / GenTplDecCV.v, from tools/vlib/c05_cdtpl.py: legacy make_setter(dst, get_element_ptr(args@4|0, k)),
   venom abi_decode_to_buf(dst, _getelemptr_abi(args@4|0, T, 32k)), no hi) are syntactically the output of the Coq
   template generators (TplDecC.v), for the whole shape family, both argument positions, both source locations. *)
From Coq Require Import ZArith List String Bool.
From Verif Require Import C06.Abi C06.Sexp C05.TplDecC C05.GenTplDecCL C05.GenTplDecCV.
Import ListNotations.
Open Scope Z_scope.

Definition tied (gen : ty -> sx) (obs : list (ty * sx)) : bool := forallb (fun p => sx_eqb (gen (fst p)) (snd p)) obs.

Theorem tie_cd_legacy : tied (tpl_cd_l LCd 0) obs_cd_l_cd0 && tied (tpl_cd_l LCd 1) obs_cd_l_cd1 = true.
Proof. vm_compute. reflexivity. Qed.
Theorem tie_code_legacy : tied (tpl_cd_l LCode 0) obs_cd_l_code0 && tied (tpl_cd_l LCode 1) obs_cd_l_code1 = true.
Proof. vm_compute. reflexivity. Qed.
Theorem tie_cd_venom : tied (tpl_cd_v LCd 0) obs_cd_v_cd0 && tied (tpl_cd_v LCd 1) obs_cd_v_cd1 = true.
Proof. vm_compute. reflexivity. Qed.
Theorem tie_code_venom : tied (tpl_cd_v LCode 0) obs_cd_v_code0 && tied (tpl_cd_v LCode 1) obs_cd_v_code1 = true.
Proof. vm_compute. reflexivity. Qed.
(* legacy -O codesize (the copy-the-maximum thresholds move by 45): every 2nd shape + 8 boundary shapes *)
Theorem tie_cd_legacy_codesize :
  tied (tpl_cd_l_opt LCd true 0) obs_cd_l_cs_cd0 && tied (tpl_cd_l_opt LCode true 1) obs_cd_l_cs_code1 = true.
Proof. vm_compute. reflexivity. Qed.
(* whole family at (calldata, first argument) and (code, second argument); every 4th shape at the other position *)
Theorem cd_family : (100 <=? zlen obs_cd_l_cd0) = true /\
  map fst obs_cd_l_cd0 = map fst obs_cd_v_cd0 /\ map fst obs_cd_l_cd0 = map fst obs_cd_l_code1 /\
  map fst obs_cd_l_cd0 = map fst obs_cd_v_code1 /\ (25 <=? zlen obs_cd_l_cd1) = true /\
  map fst obs_cd_l_cd1 = map fst obs_cd_v_cd1 /\ map fst obs_cd_l_cd1 = map fst obs_cd_l_code0 /\
  map fst obs_cd_l_cd1 = map fst obs_cd_v_code0.
Proof. vm_compute. repeat split; reflexivity. Qed.
