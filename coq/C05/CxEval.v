(* C05 extension: executable semantics of the legacy-IR subset (s-expressions) and of the Venom subset that the
   CALLDATA-source / CODE-source decoder templates use.  Same machines as C06/SxEval.v and C06/VxEval.v plus a read-only
   byte region [cd] (the call data, or the init code followed by the constructor arguments) with the EVM semantics:
     calldataload p          32 bytes at p, zero past the end (p is a 256-bit word, positions do not wrap)
     calldatacopy d s n      n bytes from s, zero past the end, positions s, s+1, ... do NOT wrap
     dload p                 = codecopy + mload of 32 bytes at (code_end + p) mod 2^256
     dloadbytes d s n        = codecopy(d, (code_end + s) mod 2^256, n)
   Memory accesses reaching MEMLIM = 2^32 run out of gas.  Harness only; no proofs. *)
From Coq Require Import ZArith List Bool String.
From Verif Require Import Base.Word256 C06.Abi C06.ZeroPad C06.Sexp C06.SxEval C06.VxEval.
Import ListNotations.
Open Scope string_scope.
Open Scope list_scope.
Open Scope Z_scope.

Record region := mkR { r_data : list Z; r_code_end : Z }.
Definition rload (r : region) (code : bool) (p : Z) : Z :=
  rd (r_data r) (if code then wadd (r_code_end r) p else p).
Definition rcopy (r : region) (code : bool) (s n : Z) : list Z :=
  slice (r_data r) (if code then wadd (r_code_end r) s else s) n.
Definition copy_ok (d n : Z) : bool := (n =? 0) || (d + n <=? MEMLIM).

Section Ev.
Variable R : region. (*section*)

Fixpoint evc (fuel : nat) (e : sx) (s : st) : res (Z * st) :=
  match fuel with
  | O => RFuel
  | S fu =>
      let evl := (fix evl (l : list sx) (s : st) : res (list Z * st) :=
                    match l with
                    | [] => RVal ([], s)
                    | x :: r => match evc fu x s with
                                | RVal (v, s1) => match evl r s1 with
                                                  | RVal (vs, s2) => RVal (v :: vs, s2)
                                                  | RRevert => RRevert | RFuel => RFuel | RStuck w => RStuck w end
                                | RRevert => RRevert | RFuel => RFuel | RStuck w => RStuck w
                                end
                    end) in
      match e with
      | SI n => RVal (n mod W, s)
      | SS x =>
          if String.eqb x "seq" then RVal (0, s)
          else match lookup (s_env s) x with Some v => RVal (v, s) | None => RStuck ("unbound " ++ x) end
      | SL (SS f :: args) =>
          if String.eqb f "seq" then
            match evl args s with
            | RVal (vs, s1) => RVal (last vs 0, s1)
            | RRevert => RRevert | RFuel => RFuel | RStuck w => RStuck w end
          else if String.eqb f "with" then
            match args with
            | [SS x; e1; body] =>
                match evc fu e1 s with
                | RVal (v, s1) =>
                    match evc fu body (mkSt ((x, v) :: s_env s1) (s_mem s1)) with
                    | RVal (r, s2) => RVal (r, mkSt (tl (s_env s2)) (s_mem s2))
                    | o => o end
                | o => o end
            | _ => RStuck "with" end
          else if String.eqb f "assert" then
            match args with
            | [c] => match evc fu c s with RVal (v, s1) => if v =? 0 then RRevert else RVal (0, s1) | o => o end
            | _ => RStuck "assert" end
          else if String.eqb f "repeat" then
            match args with
            | [SS i; SI start; cnt; SI bound; body] =>
                match evc fu cnt s with
                | RVal (c, s1) =>
                    if bound <? c then RRevert else
                    (fix loop (k : nat) (j : Z) (s : st) : res (Z * st) :=
                       match k with
                       | O => RVal (0, s)
                       | S k' => match evc fu body (mkSt ((i, j) :: s_env s) (s_mem s)) with
                                 | RVal (_, s2) => loop k' (j + 1) (mkSt (tl (s_env s2)) (s_mem s2))
                                 | o => o end
                       end) (Z.to_nat c) start s1
                | o => o end
            | _ => RStuck "repeat" end
          else
            match evl args s with
            | RVal (vs, s1) =>
                let m := s_mem s1 in
                match vs with
                | [a] =>
                    if String.eqb f "mload" then (if a + 32 <=? MEMLIM then RVal (mloadw m a, s1) else RRevert)
                    else if String.eqb f "calldataload" then RVal (rload R false a, s1)
                    else if String.eqb f "dload" then RVal (rload R true a, s1)
                    else if String.eqb f "iszero" then RVal (w_iszero a, s1)
                    else RStuck ("op1 " ++ f)
                | [a; b] =>
                    if String.eqb f "mstore" then
                      (if a + 32 <=? MEMLIM then RVal (0, mkSt (s_env s1) (mwrite m a (word b))) else RRevert)
                    else match binop f a b with Some v => RVal (v, s1) | None => RStuck ("op2 " ++ f) end
                | [a; b; c] =>
                    if String.eqb f "calldatacopy" then
                      (if copy_ok a c then RVal (0, mkSt (s_env s1) (mwrite m a (rcopy R false b c))) else RRevert)
                    else if String.eqb f "dloadbytes" then
                      (if copy_ok a c then RVal (0, mkSt (s_env s1) (mwrite m a (rcopy R true b c))) else RRevert)
                    else RStuck ("op3 " ++ f)
                | _ => RStuck ("arity " ++ f)
                end
            | RRevert => RRevert | RFuel => RFuel | RStuck w => RStuck w end
      | SL _ => RStuck "head"
      end
  end.

(* ---------- venom ---------- *)
Definition exec1c (i : sx) (s : vst) : step :=
  match i with
  | SL (out :: SS opc :: args) =>
      if String.eqb opc "calldataload" || String.eqb opc "dload" then
        match opvals (v_env s) args with
        | Some [a] => Next (bind_out out (rload R (String.eqb opc "dload") a) s)
        | _ => Stuck opc end
      else if String.eqb opc "calldatacopy" || String.eqb opc "dloadbytes" then
        match opvals (v_env s) args with
        | Some [a; b; c] =>
            if copy_ok a c
            then Next (mkV (v_env s) (mwrite (v_mem s) a (rcopy R (String.eqb opc "dloadbytes") b c)) (v_brk s) (v_params s))
            else Rev
        | _ => Stuck opc end
      else exec1 i s
  | _ => Stuck "instr"
  end.

Fixpoint vrunc (fuel : nat) (fn : sx) (ins : list sx) (s : vst) : res (Z * vst) :=
  match fuel with
  | O => RFuel
  | S fu =>
      match ins with
      | [] => RStuck "fell off block"
      | i :: r =>
          match exec1c i s with
          | Next s1 => vrunc fu fn r s1
          | Jump l s1 => match find_block fn l with Some b => vrunc fu fn b s1 | None => RStuck ("label " ++ l) end
          | Halt v s1 => RVal (v, s1)
          | Rev => RRevert
          | Stuck w => RStuck w
          end
      end
  end.

Definition vstartc (fn : sx) (params : list Z) (m : mem) : res (Z * vst) :=
  match fn with
  | SL (SL [SS _; SL ins] :: _) => vrunc (Z.to_nat 20000) fn ins (mkV [] m 2097152 params)
  | _ => RStuck "function"
  end.
End Ev.
