(* C05 extension: Coq generators for the ENTRY GLUE of both pipelines -- the code that hands the arguments of an external
   function f(x: T, k: T = empty(T)) and of a constructor __init__(p0: uint256, x: T) to the decoders, and the minimum
   call data size of each entry point.  Tied to the REAL glue functions (run on function types built by the front end)
   in TieGlueC.v.
     legacy : _register_function_args (x is copied to the first frame slot 64 iff needs_clamp, else left in calldata),
              _generate_kwarg_handlers (entry f(T,T): make_setter(k@next slot, calldata arg 1); fresh-name counter
              continues), constructor the same with DATA source.  min_calldatasize = 4 + static_size(prefix tuple).
     venom  : _register_positional_args / _handle_kwargs (alloca per argument, _getelemptr_abi, abi_decode_to_buf),
              _register_constructor_args (CODESIZE >= code_end + static_size(args) first),
              _generate_external_entry_points (min_calldatasize). *)
From Coq Require Import ZArith List Bool String Ascii.
From Verif Require Import C06.Abi C06.Sexp C06.TplEncL C06.TplEncV C05.Dec C05.TplDecL C05.TplDecV C05.TplDecC.
Import ListNotations.
Open Scope string_scope.
Open Scope list_scope.
Open Scope Z_scope.

Definition FRAME0 : Z := 64.     (* MemoryPositions.RESERVED_MEMORY: first variable of a frame *)
Definition arg_ptr_l (L : srcloc) (dyn : bool) (so : Z) : sx := abi_child_ptr_c L dyn (SI (arg_base L)) (SI so).
Definition min_cds (ts : list ty) : Z := 4 + static_size (TTuple ts).

Definition glue_l (t : ty) : sx :=
  let clamp := needs_clamp t in
  let '(b, n1) := ldecc LCd false t (SI FRAME0) (arg_ptr_l LCd (is_dynamic t) 0) 0 in
  let base := if clamp then [b] else [] in
  let n1' := if clamp then n1 else 0 in
  let addr_k := FRAME0 + (if clamp then vmem_size t else 0) in
  let h := fst (ldecc LCd false t (SI addr_k) (arg_ptr_l LCd (is_dynamic t) (emb_static t)) n1') in
  let ctor := if clamp then [fst (ldecc LCode false t (SI FRAME0) (arg_ptr_l LCode (is_dynamic t) 32) 0)] else [] in
  SL [SL base; SI (min_cds [t]); SI (min_cds [t; t]); h; SL ctor].

Definition glue_args_v (L : srcloc) (ts : list ty) : M unit :=
  (fix go (ts : list ty) (so : Z) : M unit :=
     match ts with
     | [] => ret tt
     | t :: r => d <- b_alloca (vmem_size t) ;;
                 es <- getelemptr_abi_c L (is_dynamic t) (SI (arg_base L)) so ;;
                 vdecc L t d es ;;; go r (so + emb_static t)
     end) ts 0.

Definition run_fn (p : M unit) : sx := render (snd (p (mkB 0 0 [("probe", [])] "probe"))).

Definition glue_v (t : ty) : sx :=
  let cd := glue_args_v LCd [t; t] ;;; emit0 "stop" [] in
  let targs := [TUInt 256; t] in
  let ctor := (a <- emit "add" [SS "@code_end"; SI (static_size (TTuple targs))] ;; c <- emit "codesize" [] ;;
               l <- emit "lt" [c; a] ;; z <- emit "iszero" [l] ;; b_assert z ;;;
               glue_args_v LCode targs ;;; emit0 "stop" []) in
  SL [run_fn cd; SI (min_cds [t]); SI (min_cds [t; t]); run_fn ctor].
