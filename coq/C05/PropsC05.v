(* C05 property theorems (model: C05/Dec.v over the shared ABI spec C06/Abi.v). *)
From Coq Require Import ZArith List Bool Lia.
From Verif Require Import C06.Abi C06.AbiLemmas C06.Roundtrip C06.ZeroPad C05.Dec C05.DecProofs C05.ReadsInside C05.DecImpl C05.DecImplProofs.
Import ListNotations.
Open Scope Z_scope.

(* accepted => the observed value is the offset-following decoding of the bytes (by definition of
   accept_call) and lies in its declared type: every integer in range, bool 0/1, address < 2^160,
   bytesN low bytes zero, flag < 2^members, every length <= its bound, at every nesting depth *)
Theorem dec_sound : forall targs calldata v,
  wf_ty targs = true -> bytes_ok calldata -> accept_call targs calldata = Some v ->
  in_type targs v = true /\ dec_follow targs calldata 4 = Some v.
Proof.
  intros t cd v Hwf Hb H. split. exact (DecProofs.dec_sound t cd v Hwf Hb H).
  unfold accept_call in H. destruct (zlen cd <? 4 + static_size t); [discriminate | exact H].
Qed.
Print Assumptions dec_sound.

(* canonical encodings of in-type values are always accepted, and decode to the value *)
Theorem dec_complete : forall targs v sel,
  wf_ty targs = true -> in_type targs v = true -> zlen sel = 4 -> 4 + zlen (enc targs v) < 2 ^ 256 ->
  accept_call targs (sel ++ enc targs v) = Some v.
Proof. exact DecProofs.dec_complete. Qed.
Print Assumptions dec_complete.

(* the entry check calldatasize >= 4 + static_size rejects no canonical call *)
Theorem entry_min_size_sound : forall targs v sel,
  wf_ty targs = true -> in_type targs v = true -> zlen sel = 4 ->
  4 + static_size targs <= zlen (sel ++ enc targs v).
Proof. exact DecProofs.entry_min_size_sound. Qed.
Print Assumptions entry_min_size_sound.

(* types for which needs_clamp is false need no validation: every byte string decodes, in type *)
Theorem needs_clamp_complete : forall t, wf_ty t = true -> needs_clamp t = false ->
  forall bs loc, bytes_ok bs -> exists v, dec_follow t bs loc = Some v /\ in_type t v = true.
Proof. exact DecProofs.needs_clamp_complete. Qed.
Print Assumptions needs_clamp_complete.

(* the follow decoder (any pointer arithmetic) is sound for payloads too (abi_decode, returndata, ctor args) *)
Theorem payload_sound : forall t payload v,
  wf_ty t = true -> bytes_ok payload -> accept_payload t payload = Some v -> in_type t v = true.
Proof. intros t p v Hwf Hb H. exact (dec_sound_g wadd t p Hwf Hb 0 v H). Qed.

(* in-memory payloads (abi_decode; returndata likewise with hi = min(returndatasize, size_bound)):
   if the payload is accepted then every read that determines acceptance or the value lies inside the
   payload -- appending ANY stale bytes after it changes nothing -- and the value is in type *)
Theorem dec_reads_inside : forall t payload junk v,
  wf_ty t = true -> bytes_ok payload -> scalar_like t = false ->
  accept_mem t payload = Some v ->
  inb t (payload ++ junk) 0 (zlen payload) = true /\ dec_at t (payload ++ junk) 0 = Some v /\ in_type t v = true.
Proof.
  intros t p junk v Hwf Hb Hs. unfold accept_mem.
  destruct ((static_size t <=? zlen p) && (zlen p <=? size_bound t)); [|discriminate].
  destruct (inb t p 0 (zlen p)) eqn:Hi; [|discriminate]. intro Hd.
  destruct (ReadsInside.dec_reads_inside t p junk Hwf Hb Hs Hi) as [H1 H2].
  split; [exact H1|]. split; [now rewrite H2|]. exact (dec_sound_g Z.add t p Hwf Hb 0 v Hd).
Qed.
Print Assumptions dec_reads_inside.

(* ---- implementation-level decoders (DecImpl.v): absolute wrapping addresses, the payload at ANY address M,
   ARBITRARY stale memory around it, each implementation's checks in its own order, out-of-gas past 2^32.
   Hypotheses: the payload fits below MEMLIM, stale bytes are bytes, bounds < 2^64 (vyper asserts this). ---- *)
Definition impl_hyps (M : Z) (stale : mem) (t : ty) (payload : list Z) : Prop :=
  0 <= M /\ M + zlen payload + 32 <= MEMLIM /\ bytes_ok payload /\ (forall a, 0 <= stale a < 256) /\
  wf_ty t = true /\ small_ty t = true /\ scalar_like t = false.

Theorem dec_sound_l : forall M stale t payload v, impl_hyps M stale t payload ->
  ldec M stale t payload = Some v -> in_type t v = true /\ dec_at t payload 0 = Some v /\ accept_mem t payload = Some v.
Proof.
  intros M stale t p v (H1 & H2 & H3 & H4 & H5 & H6 & H7) Hd. unfold ldec in Hd.
  rewrite (impl_refines_model Legacy M stale t p H1 H2 H3 H4 H5 H6 H7) in Hd.
  destruct (dec_reads_inside t p [] v H5 H3 H7 Hd) as (_ & Hv & Hi). rewrite app_nil_r in Hv. auto.
Qed.
Theorem dec_sound_v : forall M stale t payload v, impl_hyps M stale t payload ->
  vdec M stale t payload = Some v -> in_type t v = true /\ dec_at t payload 0 = Some v /\ accept_mem t payload = Some v.
Proof.
  intros M stale t p v (H1 & H2 & H3 & H4 & H5 & H6 & H7) Hd. unfold vdec in Hd.
  rewrite (impl_refines_model Venom M stale t p H1 H2 H3 H4 H5 H6 H7) in Hd.
  destruct (dec_reads_inside t p [] v H5 H3 H7 Hd) as (_ & Hv & Hi). rewrite app_nil_r in Hv. auto.
Qed.
Print Assumptions dec_sound_l.
Print Assumptions dec_sound_v.

(* acceptance and the decoded value depend neither on the stale memory around the payload nor on where the
   payload sits, and the two implementations accept exactly the same payloads with the same values *)
Theorem dec_reads_inside_lv : forall M M' stale stale' t payload,
  impl_hyps M stale t payload -> impl_hyps M' stale' t payload ->
  ldec M stale t payload = ldec M' stale' t payload /\
  vdec M stale t payload = vdec M' stale' t payload /\
  ldec M stale t payload = vdec M stale t payload.
Proof.
  intros M M' stale stale' t p (H1 & H2 & H3 & H4 & H5 & H6 & H7) (H1' & H2' & _ & H4' & _).
  unfold ldec, vdec.
  rewrite (impl_refines_model Legacy M stale t p), (impl_refines_model Legacy M' stale' t p),
          (impl_refines_model Venom M stale t p), (impl_refines_model Venom M' stale' t p); auto.
Qed.
Print Assumptions dec_reads_inside_lv.

(* ---- constructor arguments: appended to the init code, base = |init code| (CODESIZE check + CODECOPY reads) ---- *)
Theorem ctor_sound : forall targs initcode args v,
  wf_ty targs = true -> bytes_ok (initcode ++ args) -> accept_ctor targs initcode args = Some v ->
  in_type targs v = true /\ dec_follow targs (initcode ++ args) (zlen initcode) = Some v.
Proof.
  intros t ic args v Hwf Hb H. split. exact (dec_sound_at (zlen ic) t (ic ++ args) v Hwf Hb H).
  unfold accept_ctor, accept_at in H. destruct (zlen (ic ++ args) <? zlen ic + static_size t); [discriminate | exact H].
Qed.
Theorem ctor_complete : forall targs v initcode,
  wf_ty targs = true -> in_type targs v = true -> zlen initcode + zlen (enc targs v) < 2 ^ 256 ->
  accept_ctor targs initcode (enc targs v) = Some v.
Proof. intros. unfold accept_ctor. now apply dec_complete_at. Qed.
(* truncated constructor arguments (static part not fully present) are rejected *)
Theorem ctor_truncated_rejected : forall targs initcode args,
  zlen args < static_size targs -> accept_ctor targs initcode args = None.
Proof. intros. unfold accept_ctor. apply truncated_rejected_at. rewrite AbiLemmas.zlen_app. lia. Qed.
Print Assumptions ctor_sound.
Print Assumptions ctor_complete.

(* non-vacuity *)
Definition TA := TTuple [TDArr (TBytes 3) 2; TInt 8].
Definition VA := VList [VList [VBytes [1;2;3]; VBytes []]; VInt (-128)].
Example c05_nonvacuous :
  wf_ty TA = true /\ in_type TA VA = true /\ accept_call TA ([1;2;3;4] ++ enc TA VA) = Some VA /\
  (* out-of-range int8 (0x80 without sign extension) is rejected *)
  accept_call (TTuple [TInt 8]) ([1;2;3;4] ++ word 128) = None /\
  (* non-canonical offset is followed *)
  accept_call (TTuple [TBytes 3]) ([1;2;3;4] ++ word 64 ++ word 7 ++ word 1 ++ [9] ++ zeros 31) = Some (VList [VBytes [9]]) /\
  needs_clamp (TSArr (TTuple [TUInt 256; TBytesM 32; TFlag 256]) 2) = false /\
  (* memory payload: canonical accepted; an offset that points past the payload is rejected even though
     the zero-extended follow decoder would accept it as an empty byte string *)
  accept_mem (TTuple [TBytes 3]) (word 32 ++ word 1 ++ [9] ++ zeros 31) = Some (VList [VBytes [9]]) /\
  accept_mem (TTuple [TBytes 3]) (word 96 ++ word 1 ++ [9] ++ zeros 31) = None /\
  accept_payload (TTuple [TBytes 3]) (word 96 ++ word 1 ++ [9] ++ zeros 31) = Some (VList [VBytes []]) /\
  (* implementation level: an offset 2^256-4096 that wraps back to the payload start is rejected, dirty stale memory *)
  ldec 4096 (fun _ => 255) (TTuple [TBytes 3]) (word 32 ++ word 1 ++ [9] ++ zeros 31) = Some (VList [VBytes [9]]) /\
  vdec 4096 (fun _ => 255) (TTuple [TBytes 3]) (word (2 ^ 256 - 4096 + 32) ++ word 1 ++ [9] ++ zeros 31) = None /\
  small_ty TA = true.
Proof. vm_compute. repeat split; reflexivity. Qed.
