(* C05 extension: the implementation-level calldata / code decoders (CdImpl.v: wrapping pointer arithmetic, EVM copy
   instructions that do not wrap, bulk copies, per-implementation copy start) compute exactly the follow decoder
   dec_follow at the argument position -- for every byte region shorter than 2^64, every pointer, both implementations. *)
From Coq Require Import ZArith List Bool Lia ZifyBool.
From Verif Require Import C06.Abi C06.AbiLemmas C06.Roundtrip C06.ZeroPad C05.Dec C05.DecProofs C05.ReadsInside
  C05.DecImpl C05.DecImplProofs C05.CdImpl.
Import ListNotations.
Open Scope Z_scope.

Lemma wadd_range a b : 0 <= wadd a b < W256.
Proof. unfold wadd. apply Z.mod_pos_bound. reflexivity. Qed.
Lemma wadd_assoc a b c : wadd (wadd a b) c = wadd a (wadd b c).
Proof. unfold wadd. rewrite Zplus_mod_idemp_l, Zplus_mod_idemp_r. f_equal. lia. Qed.
Lemma wadd_small' a b : 0 <= a -> 0 <= b -> a + b < W256 -> wadd a b = a + b.
Proof. intros. unfold wadd. apply Z.mod_small. lia. Qed.
Lemma scalar_dec_slice' t bs p : scalar_like t = true -> 0 <= p -> dec_at t bs p = dec_at t (slice bs p 32) 0.
Proof.
  intros Hs Hp. pose proof (zlen_slice bs p 32 ltac:(lia)) as Hl.
  assert (E : slice (slice bs p 32) 0 32 = slice bs p 32) by (apply slice_self; exact Hl).
  destruct t; try discriminate; unfold dec_at; cbn [dec_at_g]; unfold rd; rewrite ?E; reflexivity.
Qed.
Lemma W256_2_64 : 2 ^ 64 + 2 ^ 64 + 64 < W256. Proof. reflexivity. Qed.

Section Cd.
Variable I : impl. (*section*)
Variable data : list Z. (*section*)
Variable ce : Z. (*section*)
Hypothesis Hlen : zlen data < 2 ^ 64. (*section*)

Lemma cpos_wadd A x : cpos ce (wadd A x) = wadd (cpos ce A) x.
Proof. unfold cpos. now rewrite wadd_assoc. Qed.
Lemma cpos_range A : 0 <= cpos ce A < W256.
Proof. apply wadd_range. Qed.
Lemma rd_past p : zlen data <= p -> rd data p = 0.
Proof. intro H. unfold rd, slice. replace (zlen data <=? p) with true by lia. reflexivity. Qed.
Lemma slice_zero p : slice data p 0 = [].
Proof. unfold slice. destruct (zlen data <=? p); reflexivity. Qed.

Definition RRc (t : ty) : Prop :=
  wf_ty t = true -> fits t = true -> forall A, 0 <= A < W256 -> cdec I data ce t A = dec_follow t data (cpos ce A).

Definition cs_c (t' : ty) := (is_dynamic t', emb_static t', cdec I data ce t').
Definition ds_w (t' : ty) := (is_dynamic t', emb_static t', dec_at_g wadd t').

Lemma cseq_run ts : Forall RRc ts -> forallb wf_ty ts = true -> forallb fits ts = true ->
  forall base ho, 0 <= base < W256 ->
    cseq data ce (map cs_c ts) base ho = run_seq_g wadd (map ds_w ts) data (cpos ce base) ho.
Proof.
  induction 1 as [|t ts Ht HF IH]; intros Hwf Hft base ho Hbase; cbn [map cseq run_seq_g]. reflexivity.
  cbn [forallb] in Hwf, Hft. apply andb_prop in Hwf as [Hwt Hwl]. apply andb_prop in Hft as [Hf1 Hfl].
  unfold cs_c at 1, ds_w at 1. rewrite (IH Hwl Hfl base (ho + emb_static t) Hbase).
  destruct (is_dynamic t).
  - unfold cload. rewrite cpos_wadd.
    rewrite (Ht Hwt Hf1 (wadd base (rd data (wadd (cpos ce base) ho))) (wadd_range _ _)).
    rewrite cpos_wadd. unfold dec_follow.
    destruct (dec_at_g wadd t data (wadd (cpos ce base) (rd data (wadd (cpos ce base) ho)))); cbn [obind]; [|reflexivity].
    destruct (run_seq_g wadd (map ds_w ts) data (cpos ce base) (ho + emb_static t)); reflexivity.
  - rewrite (Ht Hwt Hf1 (wadd base ho) (wadd_range _ _)). rewrite cpos_wadd. unfold dec_follow.
    destruct (dec_at_g wadd t data (wadd (cpos ce base) ho)); cbn [obind]; [|reflexivity].
    destruct (run_seq_g wadd (map ds_w ts) data (cpos ce base) (ho + emb_static t)); reflexivity.
Qed.

Lemma bulk_run t' es : 0 <= es -> forall k q ho, 0 <= q -> 0 <= ho -> q + ho + Z.of_nat k * es < W256 ->
  bulk (dec_follow t' data) (q + ho) es k =
  run_seq_g wadd (repeat (false, es, dec_at_g wadd t') k) data q ho.
Proof.
  intro Hes. induction k; intros q ho Hq Hho Hs; cbn [bulk repeat run_seq_g]. reflexivity.
  rewrite (wadd_small' q ho) by nia. unfold dec_follow at 1.
  replace (q + ho + es) with (q + (ho + es)) by lia. rewrite (IHk q (ho + es)) by nia.
  destruct (dec_at_g wadd t' data (q + ho)); cbn [obind]; [|reflexivity].
  destruct (run_seq_g wadd (repeat (false, es, dec_at_g wadd t') k) data q (ho + es)); reflexivity.
Qed.

Lemma opt_list_bind (o : option (list val)) : (vs <- o ;; Some (VList vs)) = opt_list o.
Proof. destruct o; reflexivity. Qed.

Theorem cdec_refines : forall t, RRc t.
Proof.
  pose proof W256_2_64 as HW.
  induction t using ty_ind'; intros Hwf Hft A HA; pose proof (cpos_range A) as Hc.
  1-7: (cbn [cdec]; rewrite <- scalar_dec_slice' by (try reflexivity; lia); reflexivity).
  - (* bytes *)
    cbn [cdec]. unfold dec_follow. cbn [dec_at_g]. unfold cload.
    destruct (rd data (cpos ce A) <=? b); cbn [guard obind]; [|reflexivity].
    destruct (Z.lt_ge_cases (cpos ce A + 32) W256) as [Hs|Hs].
    + rewrite (wadd_small' (cpos ce A) 32) by lia. reflexivity.
    + rewrite (rd_past (cpos ce A)) by lia. now rewrite !slice_zero.
  - (* string *)
    cbn [cdec]. unfold dec_follow. cbn [dec_at_g]. unfold cload.
    destruct (rd data (cpos ce A) <=? b); cbn [guard obind]; [|reflexivity].
    destruct (Z.lt_ge_cases (cpos ce A + 32) W256) as [Hs|Hs].
    + rewrite (wadd_small' (cpos ce A) 32) by lia. reflexivity.
    + rewrite (rd_past (cpos ce A)) by lia. now rewrite !slice_zero.
  - (* sarr *)
    cbn [cdec wf_ty fits] in *. apply andb_prop in Hwf as [Hn Hw]. unfold dec_follow. cbn [dec_at_g].
    change (repeat (is_dynamic t, emb_static t, cdec I data ce t) (Z.to_nat n)) with (repeat (cs_c t) (Z.to_nat n)).
    change (repeat (is_dynamic t, emb_static t, dec_at_g wadd t) (Z.to_nat n)) with (repeat (ds_w t) (Z.to_nat n)).
    rewrite (map_repeat' cs_c), (map_repeat' ds_w).
    rewrite cseq_run by (auto using Forall_repeat, forallb_repeat). apply opt_list_bind.
  - (* darr *)
    cbn [cdec wf_ty fits] in *. apply andb_prop in Hwf as [Hb0 Hw]. apply andb_prop in Hft as [Hbe Hf].
    unfold dec_follow. cbn [dec_at_g]. unfold cload at 1.
    destruct (Z.leb_spec (rd data (cpos ce A)) b) as [Hnb|Hnb]; cbn [guard obind]; [|reflexivity].
    destruct (is_dynamic t || needs_clamp t) eqn:Eloop.
    + change (repeat (is_dynamic t, emb_static t, cdec I data ce t) (Z.to_nat (cload data ce A)))
        with (repeat (cs_c t) (Z.to_nat (cload data ce A))).
      change (repeat (is_dynamic t, emb_static t, dec_at_g wadd t) (Z.to_nat (rd data (cpos ce A))))
        with (repeat (ds_w t) (Z.to_nat (rd data (cpos ce A)))).
      rewrite (map_repeat' cs_c), (map_repeat' ds_w). unfold cload.
      rewrite cseq_run by (auto using Forall_repeat, forallb_repeat, wadd_range).
      rewrite cpos_wadd. apply opt_list_bind.
    + apply orb_false_elim in Eloop as [Hd Hnc]. rewrite Hd. unfold cload.
      pose proof (emb_static_nonneg t Hw) as Hes.
      destruct (Nat.eq_dec (Z.to_nat (rd data (cpos ce A))) 0%nat) as [Hz|Hnz].
      * rewrite Hz. destruct I; reflexivity.
      * assert (Hin : cpos ce A < zlen data).
        { destruct (Z.lt_ge_cases (cpos ce A) (zlen data)); [assumption|]. rewrite rd_past in Hnz by lia. now cbn in Hnz. }
        assert (Hn0 : 0 <= rd data (cpos ce A)) by lia.
        assert (Hfirst : (match I with Legacy => cpos ce A + 32 | Venom => cpos ce (wadd A 32) end) = wadd (cpos ce A) 32 + 0).
        { rewrite Z.add_0_r. destruct I; [|apply cpos_wadd]. symmetry. apply wadd_small'; lia. }
        rewrite Hfirst. rewrite (bulk_run t (emb_static t) Hes).
        -- apply opt_list_bind.
        -- apply wadd_range.
        -- lia.
        -- rewrite (wadd_small' (cpos ce A) 32) by lia. rewrite Z2Nat.id by lia. nia.
  - (* tuple *)
    cbn [cdec wf_ty fits] in *. unfold dec_follow. cbn [dec_at_g].
    change (map (fun t' => (is_dynamic t', emb_static t', cdec I data ce t')) ts) with (map cs_c ts).
    change (map (fun t' => (is_dynamic t', emb_static t', dec_at_g wadd t')) ts) with (map ds_w ts).
    rewrite cseq_run by auto. apply opt_list_bind.
Qed.
End Cd.

(* ---------- entry points ---------- *)
Lemma cpos0 A : 0 <= A < W256 -> cpos 0 A = A.
Proof. intro. unfold cpos, wadd. cbn [Z.add]. apply Z.mod_small. lia. Qed.

Theorem cd_entry_is_model : forall I targs calldata,
  wf_ty targs = true -> fits targs = true -> zlen calldata < 2 ^ 64 ->
  cd_entry I targs calldata = accept_call targs calldata.
Proof.
  intros I t cd Hwf Hf Hl. unfold cd_entry, accept_call.
  destruct (zlen cd <? 4 + static_size t); [reflexivity|].
  rewrite (cdec_refines I cd 0 Hl t Hwf Hf 4) by (split; [lia | reflexivity]). now rewrite cpos0 by (split; [lia | reflexivity]).
Qed.

Theorem ctor_entry_is_model : forall I targs initcode args,
  wf_ty targs = true -> fits targs = true -> zlen (initcode ++ args) < 2 ^ 64 ->
  ctor_entry I targs initcode args = accept_ctor targs initcode args.
Proof.
  intros I t ic args Hwf Hf Hl. unfold ctor_entry, accept_ctor, accept_at.
  destruct (zlen (ic ++ args) <? zlen ic + static_size t); [reflexivity|].
  rewrite (cdec_refines I (ic ++ args) (zlen ic) Hl t Hwf Hf 0) by (split; [lia | reflexivity]).
  f_equal. unfold cpos, wadd. rewrite Z.add_0_r. apply Z.mod_small.
  pose proof (zlen_nonneg ic). pose proof (zlen_nonneg args). rewrite zlen_app in Hl. pose proof W256_2_64. lia.
Qed.
