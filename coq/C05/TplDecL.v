(* C05: parametric model of the LEGACY ABI decoder/validator as a TEMPLATE GENERATOR: the IR that
   vyper/codegen/core.py:make_setter(dst, src, hi) emits for an ABI-encoded MEMORY source (abi_decode, returndata;
   EVM >= cancun, -O gas), as a function of the type shape.  Tied syntactically to the real generator in TieDecL.v.
   Mirrors: make_setter, clamp_basetype / int_clamp / bytes_clamp, clamp_bytestring, clamp_dyn_array,
   _abi_payload_size, _dynarray_make_setter (loop / bulk copy + copy-the-maximum heuristic), _complex_make_setter
   (unrolled), get_element_ptr / _getelemptr_abi_helper (double dereference + no-wrap guard), copy_bytes,
   make_byte_array_copier, cache_when_complex. *)
From Coq Require Import ZArith List Bool String Ascii.
From Verif Require Import C06.Abi C06.Sexp C06.TplEncL C05.Dec.
Import ListNotations.
Open Scope string_scope.
Open Scope list_scope.
Open Scope Z_scope.

Definition sassert (c : sx) : sx := app1 "assert" c.

(* clamp_basetype on the loaded word [w] (w is always (mload ptr): complex, cached as val) *)
Definition clamp_word (t : ty) (w : sx) : sx :=
  let v := SS "val" in
  let chk (a : sx) := swith "val" w (sseq [sassert a; v]) in
  match t with
  | TUInt b => if b =? 256 then w else chk (app1 "iszero" (app2 "shr" (SI b) v))
  | TInt b => if b =? 256 then w else chk (app2 "eq" v (app2 "signextend" (SI (b / 8 - 1)) v))
  | TDecimal => chk (app2 "eq" v (app2 "signextend" (SI 20) v))
  | TBool => chk (app1 "iszero" (app2 "shr" (SI 1) v))
  | TAddress => chk (app1 "iszero" (app2 "shr" (SI 160) v))
  | TFlag m => if m =? 256 then w else chk (app1 "iszero" (app2 "shr" (SI m) v))
  | TBytesM m => if m =? 32 then w else chk (app1 "iszero" (app2 "shl" (SI (m * 8)) v))
  | _ => w
  end.

(* pointer to an ABI child: parent' is the body start (after the length word for arrays) *)
Definition abi_child_ptr (dyn : bool) (parent ofst : sx) : sx :=
  let static_loc := add_ofst parent ofst in
  if dyn then
    let p := add_ofst parent (app1 "mload" static_loc) in
    sseq [sassert (app2 "ge" p parent); p]
  else static_loc.

Fixpoint ldec (t : ty) (left right : sx) (n : Z) : sx * Z :=
  match t with
  | TBytes b | TString b =>
      let r := cref "bs_ptr" right in
      let item_end := add_ofst r (app2 "add" (SI 32) (app1 "mload" r)) in
      let clampb := swith "length" (app1 "mload" r)
                          (sseq [sassert (app2 "le" item_end (SS "hi")); sassert (app2 "le" (SS "length") (SI b))]) in
      (cwrap "bs_ptr" right (sseq [clampb; bytes_copier b left r]), n)
  | TDArr t' b =>
      let r := cref "arr_ptr" right in
      let es := emb_static t' in
      let cnt := app1 "mload" r in
      let item_end := add_ofst r (app2 "add" (SI 32) (app2 "mul" cnt (SI es))) in
      let clampd := sseq [sassert (app2 "le" item_end (SS "hi")); sassert (app2 "le" cnt (SI b))] in
      let should_loop := is_dynamic t' || needs_clamp t' in
      let '(body, n2) :=
        if should_loop then
          let n1 := n + 1 in
          let ix := SS (zname "copy_darray_ix" n1) in
          (* get_element_ptr(dst, i): the parent is cached as "val" when complex *)
          let l_i := cwrap "val" left
                           (add_ofst (add_ofst (cref "val" left) (SI 32)) (app2 "mul" ix (SI (vmem_size t')))) in
          let r_i := abi_child_ptr (is_dynamic t') (add_ofst r (SI 32)) (app2 "mul" ix (SI es)) in
          let '(c, n2) := ldec t' l_i r_i n1 in
          (sseq [SL [SS "repeat"; ix; SI 0; SS "darray_count"; SI b; c]; app2 "mstore" left (SS "darray_count")], n2)
        else
          let esz := vmem_size t' in
          let maxb := 32 + b * esz in
          let nbytes := if ceil32 (maxb - 32) * 3 / 32 <=? 17 then SI maxb
                        else add_ofst (app2 "mul" (SS "darray_count") (SI esz)) (SI 32) in
          (sseq [copy_bytes left r nbytes maxb], n) in
      (cwrap "arr_ptr" right (sseq [clampd; swith "darray_count" (app1 "mload" r) body]), n2)
  | TSArr t' cnt =>
      let r := cref "c_right" right in
      let l := cref "_L" left in
      let '(items, n2) :=
        (fix go (k : nat) (i : Z) (n : Z) : list sx * Z :=
           match k with
           | O => ([], n)
           | S k' =>
               let l_i := add_ofst l (app2 "mul" (SI i) (SI (vmem_size t'))) in
               let r_i := abi_child_ptr (is_dynamic t') r (app2 "mul" (SI i) (SI (emb_static t'))) in
               let '(c, n1) := ldec t' l_i r_i n in
               let '(rest, n2) := go k' (i + 1) n1 in
               (c :: rest, n2)
           end) (Z.to_nat cnt) 0 n in
      (cwrap "c_right" right
             (sseq [sassert (app2 "le" (add_ofst r (SI (static_size t))) (SS "hi"));
                    cwrap "_L" left (sseq items)]), n2)
  | TTuple ts =>
      let r := cref "c_right" right in
      let l := cref "_L" left in
      let '(items, n2) :=
        (fix go (ts : list ty) (mo so : Z) (n : Z) : list sx * Z :=
           match ts with
           | [] => ([], n)
           | t' :: rest =>
               let l_i := add_ofst l (SI mo) in
               let r_i := abi_child_ptr (is_dynamic t') r (SI so) in
               let '(c, n1) := ldec t' l_i r_i n in
               let '(items, n2) := go rest (mo + vmem_size t') (so + emb_static t') n1 in
               (c :: items, n2)
           end) ts 0 0 n in
      (cwrap "c_right" right
             (sseq [sassert (app2 "le" (add_ofst r (SI (static_size t))) (SS "hi"));
                    cwrap "_L" left (sseq items)]), n2)
  | _ =>
      let w := app1 "mload" right in
      (app2 "mstore" left (if needs_clamp t then clamp_word t w else w), n)
  end.

(* make_setter(dst, src, hi) for the 1-tuple wrapping t (what abi_decode / returndata unpacking decode) *)
Definition tpl_dec_l (t : ty) : sx := fst (ldec (TTuple [t]) (SS "dst") (SS "src") 0).
