(* C05 model: what an external entry point accepts.
   [dec_follow] (C06/Abi.v) = decoding that follows the offsets as given, with EVM pointer
   arithmetic (wrapping) and zero-extended reads (calldata / code semantics).
   [accept_call targs calldata]: calldata includes the 4-byte selector; targs = tuple of the
   argument types.  None = revert. *)
From Coq Require Import ZArith List Bool.
From Verif Require Import C06.Abi.
Import ListNotations.
Open Scope Z_scope.

Definition accept_call (targs : ty) (calldata : list Z) : option val :=
  if zlen calldata <? 4 + static_size targs then None      (* entry check: calldatasize >= 4 + static_size *)
  else dec_follow targs calldata 4.

(* constructor arguments are appended to the init code and read with the same discipline
   (no selector, zero-extended); abi_decode / returndata are memory payloads: modelled by the
   follow-decoder from position 0, the [hi] bound checks are not part of this model. *)
Definition accept_payload (t : ty) (payload : list Z) : option val := dec_follow t payload 0.

(* which types need validation when decoded (model of BOTH copies of needs_clamp:
   vyper/codegen/core.py and vyper/codegen_venom/abi/abi_decoder.py; tied by exhaustive
   comparison over generated type trees on every run) *)
Fixpoint needs_clamp (t : ty) : bool :=
  match t with
  | TBytes _ | TString _ | TDArr _ _ => true
  | TFlag m => m <? 256
  | TSArr t' _ => needs_clamp t'
  | TTuple ts => existsb needs_clamp ts
  | TUInt b | TInt b => negb (b =? 256)
  | TBytesM m => negb (m =? 32)
  | TBool | TAddress | TDecimal => true
  end.
