(* C05 model: what an external entry point accepts.
   [dec_follow] (C06/Abi.v) = decoding that follows the offsets as given, with EVM pointer
   arithmetic (wrapping) and zero-extended reads (calldata / code semantics).
   [accept_call targs calldata]: calldata includes the 4-byte selector; targs = tuple of the
   argument types.  None = revert. *)
From Coq Require Import ZArith List Bool.
From Verif Require Import C06.Abi.
Import ListNotations.
Open Scope Z_scope.

Definition accept_call (targs : ty) (calldata : list Z) : option val :=
  if zlen calldata <? 4 + static_size targs then None      (* entry check: calldatasize >= 4 + static_size *)
  else dec_follow targs calldata 4.

(* generalisation: arguments start at byte [base] of [data] (calldata: base = 4 after the selector; constructor:
   base = code_end = length of the init code, data = init code ++ appended arguments, read with CODECOPY which
   zero-extends).  Pointers are absolute positions in [data] with wrapping arithmetic, exactly as
   (code_end + relative pointer) mod 2^256 in the compiled constructor: an offset that wraps reads INIT CODE bytes. *)
Definition accept_at (base : Z) (targs : ty) (data : list Z) : option val :=
  if zlen data <? base + static_size targs then None      (* entry / CODESIZE check *)
  else dec_follow targs data base.
Definition accept_ctor (targs : ty) (initcode args : list Z) : option val :=
  accept_at (zlen initcode) targs (initcode ++ args).

(* constructor arguments are appended to the init code and read with the same discipline
   (no selector, zero-extended); abi_decode / returndata are memory payloads: modelled by the
   follow-decoder from position 0, the [hi] bound checks are not part of this model. *)
Definition accept_payload (t : ty) (payload : list Z) : option val := dec_follow t payload 0.

(* which types need validation when decoded (model of BOTH copies of needs_clamp:
   vyper/codegen/core.py and vyper/codegen_venom/abi/abi_decoder.py; tied by exhaustive
   comparison over generated type trees on every run) *)
Fixpoint needs_clamp (t : ty) : bool :=
  match t with
  | TBytes _ | TString _ | TDArr _ _ => true
  | TFlag m => m <? 256
  | TSArr t' _ => needs_clamp t'
  | TTuple ts => existsb needs_clamp ts
  | TUInt b | TInt b => negb (b =? 256)
  | TBytesM m => negb (m =? 32)
  | TBool | TAddress | TDecimal => true
  end.

(* ---------- memory payloads (abi_decode, returndata): every item footprint must lie inside [0, hi) ----------
   [inb t bs loc hi]: the bound checks both code generators perform when the source is MEMORY
   (`hi` discipline): complex item  loc + static_size <= hi;  byte string  loc + 32 + len <= hi;
   dynamic array  loc + 32 + count * elem_head <= hi;  pointer arithmetic must not wrap (here:
   unbounded Z positions, anything past hi is rejected).  Word-sized members are covered by the
   footprint of the complex item that contains them. *)
Definition inb_t := list Z -> Z -> Z -> bool.
Fixpoint inb_seq (cs : list (bool * Z * inb_t)) (bs : list Z) (loc hi ho : Z) : bool :=
  match cs with
  | [] => true
  | (dyn, hs, f) :: r =>
      if (if dyn : bool then f bs (loc + rd bs (loc + ho)) hi else f bs (loc + ho) hi)
      then inb_seq r bs loc hi (ho + hs) else false
  end.
Fixpoint inb (t : ty) : inb_t := fun bs loc hi =>
  match t with
  | TBytes b | TString b =>
      let n := rd bs loc in if n <=? b then loc + 32 + n <=? hi else false
  | TSArr t' n =>
      if loc + static_size t <=? hi
      then inb_seq (repeat (is_dynamic t', emb_static t', inb t') (Z.to_nat n)) bs loc hi 0 else false
  | TDArr t' b =>
      let n := rd bs loc in
      if n <=? b then
        if loc + 32 + n * emb_static t' <=? hi
        then inb_seq (repeat (is_dynamic t', emb_static t', inb t') (Z.to_nat n)) bs (loc + 32) hi 0 else false
      else false
  | TTuple ts =>
      if loc + static_size t <=? hi
      then inb_seq (map (fun t' => (is_dynamic t', emb_static t', inb t')) ts) bs loc hi 0 else false
  | _ => true
  end.

(* abi_decode(b, T): static_size <= len(b) <= size_bound, hi = len(b) *)
Definition accept_mem (t : ty) (payload : list Z) : option val :=
  let L := zlen payload in
  if (static_size t <=? L) && (L <=? size_bound t) then
    if inb t payload 0 L then dec_at t payload 0 else None
  else None.

(* external call return data: returndatasize >= static_size, hi = min(returndatasize, size_bound);
   what lies beyond hi in the buffer is stale memory, never the payload *)
Definition accept_ret (t : ty) (payload : list Z) : option val :=
  let L := zlen payload in
  if L <? static_size t then None
  else let hi := Z.min L (size_bound t) in
       let p := firstn (Z.to_nat hi) payload in
       if inb t p 0 hi then dec_at t p 0 else None.
