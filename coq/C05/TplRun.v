(* C05: run an OBSERVED legacy decoder template (make_setter(dst, src, hi)) inside Coq on a payload placed in dirty
   memory and compare with the implementation-level model idec Legacy (DecImpl.v): same accept/reject, and on accept
   the value found at dst in vyper layout is the model's value.  (harness; no proofs) *)
From Coq Require Import ZArith List Bool String.
From Verif Require Import C06.Abi C06.ZeroPad C06.Sexp C06.SxEval C05.Dec C05.DecImpl.
Import ListNotations.
Open Scope Z_scope.

Definition PM : Z := 4096.
Definition PD : Z := 131072.
(* 1 agree / 0 disagree / negative = evaluator problem *)
Definition run_dec_tpl (tpl : sx) (t : ty) (payload : list Z) : Z :=
  let img := image PM payload (fun _ => 238) in
  let hi := PM + zlen payload in
  let tt := TTuple [t] in
  let model := idec Legacy img hi tt PM in
  match ev (Z.to_nat 6000) tpl (mkSt [("src", PM); ("dst", PD); ("hi", hi)]%string img) with
  | RVal (_, s) => match model with
                   | Some v => if val_eqb (vyread tt (s_mem s) PD) v then 1 else 0
                   | None => 0 end
  | RRevert => match model with None => 1 | Some _ => 0 end
  | RFuel => -2
  | RStuck _ => -3
  end.

From Verif Require Import C06.VxEval.
(* venom decoder template: params src, dst, hi *)
Definition run_dec_tpl_v (tpl : sx) (t : ty) (payload : list Z) : Z :=
  let img := image PM payload (fun _ => 238) in
  let hi := PM + zlen payload in
  let tt := TTuple [t] in
  let model := idec Venom img hi tt PM in
  match vstart tpl [PM; PD; hi] img with
  | RVal (_, s) => match model with
                   | Some v => if val_eqb (vyread tt (v_mem s) PD) v then 1 else 0
                   | None => 0 end
  | RRevert => match model with None => 1 | Some _ => 0 end
  | RFuel => -2
  | RStuck _ => -3
  end.
