(* C05 harness helpers (no theorems): structured corruptions applied to a base encoding inside Coq,
   and the expected observable outcome according to the acceptance model. *)
From Coq Require Import ZArith List Bool String.
From Verif Require Import Base.Hex C06.Abi C05.Dec.
Import ListNotations.
Open Scope Z_scope.

Inductive corr := CW (i w : Z) | CT (n : Z) | CX (l : list Z) | CB (i b : Z).
Definition apply_c (c : corr) (b : list Z) : list Z :=
  match c with
  | CW i w => firstn (Z.to_nat (32 * i)) b ++ word w ++ skipn (Z.to_nat (32 * i + 32)) b   (* replace word i *)
  | CT n => firstn (Z.to_nat n) b                                                          (* truncate *)
  | CX l => b ++ l                                                                         (* extend *)
  | CB i x => firstn (Z.to_nat i) b ++ [x] ++ skipn (Z.to_nat (i + 1)) b                   (* replace byte i *)
  end.

(* digest of a byte string (short to print): length and a polynomial checksum mod 2^61-1 *)
Definition digest (l : list Z) : string :=
  (hexZ (zlen l) ++ ":" ++ hexZ (fold_left (fun a b => (a * 257 + b + 1) mod 2305843009213693951) l 7))%string.

(* "R" = revert; "=" = accepted with the same value as the uncorrupted input; "A<digest>" = accepted, echo has this digest *)
Definition outcome (t : ty) (base : list Z) (r : option val) : string :=
  match r with
  | None => "R"%string
  | Some v => let e := enc t v in if list_eqb e base then "="%string else ("A" ++ digest e)%string
  end.
Definition expect_call (t : ty) (sel base : list Z) (cs : list corr) : list string :=
  map (fun c => outcome t base (accept_call t (sel ++ apply_c c base))) cs.
Definition expect_payload (t : ty) (base : list Z) (cs : list corr) : list string :=
  map (fun c => outcome t base (accept_payload t (apply_c c base))) cs.
Definition join (l : list string) : string := String.concat "," l.

(* length of the (single) top-level argument as the program sees it: observes the decoder without the encoder *)
Definition top_len (r : option val) : string :=
  match r with
  | Some (VList [VList vs]) => hexZ (zlen vs)
  | Some (VList [VBytes b]) => hexZ (zlen b)
  | Some _ => "?"%string
  | None => "R"%string
  end.
Definition expect_len (t : ty) (sel base : list Z) (cs : list corr) : list string :=
  map (fun c => top_len (accept_call t (sel ++ apply_c c base))) cs.

Definition expect_mem (t : ty) (base : list Z) (cs : list corr) : list string :=
  map (fun c => outcome t base (accept_mem t (apply_c c base))) cs.
Definition expect_ret (t : ty) (base : list Z) (cs : list corr) : list string :=
  map (fun c => outcome t base (accept_ret t (apply_c c base))) cs.

(* implementation-level models (DecImpl.v) evaluated on the same corrupted payloads: payload at address 4096,
   stale memory = 0xEE everywhere else.  1 = ldec and vdec both equal accept_mem on every corruption of the list. *)
From Verif Require Import C06.ZeroPad C05.DecImpl.
Definition same_outcome (t : ty) (a b : option val) : bool :=
  match a, b with
  | Some x, Some y => list_eqb (enc t x) (enc t y)
  | None, None => true
  | _, _ => false
  end.
Definition impl_agree (t : ty) (base : list Z) (cs : list corr) : Z :=
  if forallb (fun c => let p := apply_c c base in
                       same_outcome t (accept_mem t p) (ldec 4096 (fun _ => 238) t p) &&
                       same_outcome t (accept_mem t p) (vdec 4096 (fun _ => 238) t p)) cs then 1 else 0.

(* keyword-argument entry points: the entry for a prefix of the parameters decodes the prefix tuple [tp] (with its own
   minimum calldatasize) and fills the rest with the defaults [dflt]; the echo returns the full tuple [tf] *)
Definition expect_kw (tp tf : ty) (dflt : list val) (sel base basef : list Z) (cs : list corr) : list string :=
  map (fun c => match accept_call tp (sel ++ apply_c c base) with
                | Some (VList vs) => let e := enc tf (VList (vs ++ dflt)) in
                                     if list_eqb e basef then "="%string else ("A" ++ digest e)%string
                | Some _ => "?"%string
                | None => "R"%string
                end) cs.

(* default_return_value: empty returndata yields the default, anything else is decoded as usual *)
Definition expect_retd (t : ty) (dv : val) (base : list Z) (cs : list corr) : list string :=
  map (fun c => let p := apply_c c base in
                outcome t base (if zlen p =? 0 then Some dv else accept_ret t p)) cs.

(* constructor arguments: data = init code ++ corrupted arguments, base = |init code| *)
Definition expect_ctor (t : ty) (code base : list Z) (cs : list corr) : list string :=
  map (fun c => outcome t base (accept_ctor t code (apply_c c base))) cs.
