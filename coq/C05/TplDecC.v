(* C05 extension: parametric models, as TEMPLATE GENERATORS, of the decoder/validator code that both pipelines emit for
   a CALLDATA source (external-function arguments, keyword-argument entry points) and a CODE/DATA source (constructor
   arguments), i.e. WITHOUT a `hi` bound: no footprint checks, no no-wrap guards (those exist for memory sources only,
   _dirty_read_risk).  EVM >= cancun, legacy -O gas.
     legacy : vyper/codegen/function_definitions/external_function.py:_register_function_args / _generate_kwarg_handlers
              = make_setter(dst, get_element_ptr(IRnode(base, CALLDATA|DATA, ABI), k))   (vyper/codegen/core.py)
     venom  : vyper/codegen_venom/module.py:_register_positional_args / _handle_kwargs / _register_constructor_args
              = abi_decode_to_buf(dst, _getelemptr_abi(tuple@base, arg, 32k))   (codegen_venom/abi/abi_decoder.py)
   [k] = index of the argument (every earlier argument is one static word).  Tied syntactically to the real generators
   over the shape family in TieDecC.v. *)
From Coq Require Import ZArith List Bool String Ascii.
From Verif Require Import C06.Abi C06.Sexp C06.TplEncL C06.TplEncV C05.Dec C05.TplDecL C05.TplDecV.
Import ListNotations.
Open Scope string_scope.
Open Scope list_scope.
Open Scope Z_scope.

Inductive srcloc := LCd | LCode.
Definition ld_op (l : srcloc) : string := match l with LCd => "calldataload" | LCode => "dload" end.
Definition cp_op (l : srcloc) : string := match l with LCd => "calldatacopy" | LCode => "dloadbytes" end.
Definition arg_base (l : srcloc) : Z := match l with LCd => 4 | LCode => 0 end.
(* _prefer_copy_maxbound_heuristic: copy_cost <= length_calc_cost (+45 when optimising for code size;
   +20 for DATA: dload is a codecopy + mload) *)
Definition maxbound_thr (l : srcloc) (cs : bool) (item1 : bool) : Z :=
  (if item1 then 9 else 17) + (if cs then 45 else 0) + match l with LCd => 0 | LCode => 20 end.

(* ------------------------------------------------------------------ legacy *)
Section Legacy.
Variable L : srcloc. (*section*)
Variable CS : bool. (*section*)          (* -O codesize *)
Definition lload (p : sx) : sx := app1 (ld_op L) p.

(* copy_bytes(dst@memory, src@L, length, length_bound) *)
Definition copy_bytes_c (dst src len : sx) (bound : Z) : sx :=
  if bound =? 0 then sseq [] else
  match len with SI 0 => sseq [] | _ =>
    let s := cref "src" src in
    let l := cref "copy_bytes_count" len in
    let d := cref "dst" dst in
    let op := if bound <=? 32 then app2 "mstore" d (lload s) else app3 (cp_op L) d s l in
    cwrap "src" src (cwrap "copy_bytes_count" len (cwrap "dst" dst op))
  end.

(* make_byte_array_copier(dst, src) *)
Definition bytes_copier_c (b : Z) (dst src : sx) : sx :=
  let s := cref "src" src in
  let maxb := b + 32 in
  let len := if ceil32 b * 3 / 32 <=? maxbound_thr L CS true then SI maxb else add_ofst (lload s) (SI 32) in
  cwrap "src" src (copy_bytes_c dst s len maxb).

(* _getelemptr_abi_helper without _dirty_read_risk: no guard *)
Definition abi_child_ptr_c (dyn : bool) (parent ofst : sx) : sx :=
  let static_loc := add_ofst parent ofst in
  if dyn then add_ofst parent (lload static_loc) else static_loc.

Fixpoint ldecc (t : ty) (left right : sx) (n : Z) : sx * Z :=
  match t with
  | TBytes b | TString b =>
      let r := cref "bs_ptr" right in
      let clampb := swith "length" (lload r) (sassert (app2 "le" (SS "length") (SI b))) in
      (cwrap "bs_ptr" right (sseq [clampb; bytes_copier_c b left r]), n)
  | TDArr t' b =>
      let r := cref "arr_ptr" right in
      let es := emb_static t' in
      let cnt := lload r in
      let clampd := sassert (app2 "le" cnt (SI b)) in
      let should_loop := is_dynamic t' || needs_clamp t' in
      let '(body, n2) :=
        if should_loop then
          let n1 := n + 1 in
          let ix := SS (zname "copy_darray_ix" n1) in
          let l_i := cwrap "val" left
                           (add_ofst (add_ofst (cref "val" left) (SI 32)) (app2 "mul" ix (SI (vmem_size t')))) in
          let r_i := abi_child_ptr_c (is_dynamic t') (add_ofst r (SI 32)) (app2 "mul" ix (SI es)) in
          let '(c, n2) := ldecc t' l_i r_i n1 in
          (sseq [SL [SS "repeat"; ix; SI 0; SS "darray_count"; SI b; c]; app2 "mstore" left (SS "darray_count")], n2)
        else
          let esz := vmem_size t' in
          let maxb := 32 + b * esz in
          let nbytes := if ceil32 (maxb - 32) * 3 / 32 <=? maxbound_thr L CS false then SI maxb
                        else add_ofst (app2 "mul" (SS "darray_count") (SI esz)) (SI 32) in
          (sseq [copy_bytes_c left r nbytes maxb], n) in
      (cwrap "arr_ptr" right (sseq [clampd; swith "darray_count" (lload r) body]), n2)
  | TSArr t' cnt =>
      let r := cref "c_right" right in
      let l := cref "_L" left in
      let '(items, n2) :=
        (fix go (k : nat) (i : Z) (n : Z) : list sx * Z :=
           match k with
           | O => ([], n)
           | S k' =>
               let l_i := add_ofst l (app2 "mul" (SI i) (SI (vmem_size t'))) in
               let r_i := abi_child_ptr_c (is_dynamic t') r (app2 "mul" (SI i) (SI (emb_static t'))) in
               let '(c, n1) := ldecc t' l_i r_i n in
               let '(rest, n2) := go k' (i + 1) n1 in
               (c :: rest, n2)
           end) (Z.to_nat cnt) 0 n in
      (cwrap "c_right" right (sseq [cwrap "_L" left (sseq items)]), n2)
  | TTuple ts =>
      let r := cref "c_right" right in
      let l := cref "_L" left in
      let '(items, n2) :=
        (fix go (ts : list ty) (mo so : Z) (n : Z) : list sx * Z :=
           match ts with
           | [] => ([], n)
           | t' :: rest =>
               let l_i := add_ofst l (SI mo) in
               let r_i := abi_child_ptr_c (is_dynamic t') r (SI so) in
               let '(c, n1) := ldecc t' l_i r_i n in
               let '(items, n2) := go rest (mo + vmem_size t') (so + emb_static t') n1 in
               (c :: items, n2)
           end) ts 0 0 n in
      (cwrap "c_right" right (sseq [cwrap "_L" left (sseq items)]), n2)
  | _ =>
      let w := lload right in
      (app2 "mstore" left (if needs_clamp t then TplDecL.clamp_word t w else w), n)
  end.
End Legacy.

(* make_setter(dst, get_element_ptr(base_args_ofst, k)) for argument k of type t (earlier arguments: one word each) *)
Definition tpl_cd_l_opt (L : srcloc) (cs : bool) (k : Z) (t : ty) : sx :=
  fst (ldecc L cs t (SS "dst") (abi_child_ptr_c L (is_dynamic t) (SI (arg_base L)) (SI (32 * k))) 0).
Definition tpl_cd_l (L : srcloc) (k : Z) (t : ty) : sx := tpl_cd_l_opt L false k t.

(* ------------------------------------------------------------------ venom *)
Section Venom.
Variable L : srcloc. (*section*)
Definition b_load (a : sx) := emit (ld_op L) [a].
Definition b_copy (d s n : sx) := emit0 (cp_op L) [d; s; n].

(* _getelemptr_abi(parent, member, static_offset, hi=None) *)
Definition getelemptr_abi_c (dyn : bool) (parent : sx) (so : Z) : M sx :=
  static_loc <- b_add parent (SI so) ;;
  if dyn then off <- b_load static_loc ;; b_add parent off else ret static_loc.

Fixpoint vdecc (t : ty) (dst src : sx) : M unit :=
  match t with
  | TBytes b | TString b =>
      length <- b_load src ;;
      assert_le length (SI b) ;;;
      b_copy dst src (SI (32 + ceil32 b))
  | TDArr t' b =>
      let es := emb_static t' in
      count <- b_load src ;;
      assert_le count (SI b) ;;;
      count2 <- b_load src ;; b_mstore dst count2 ;;;
      if negb (needs_clamp t') && negb (is_dynamic t') then
        size <- b_mul count2 (SI (vmem_size t')) ;; sd <- b_add src (SI 32) ;; dd <- b_add dst (SI 32) ;;
        b_copy dd sd size
      else
        hdr <- create_block "darr_dec_hdr" ;; append_block hdr ;;;
        body <- create_block "darr_dec_body" ;; append_block body ;;;
        exit <- create_block "darr_dec_exit" ;; append_block exit ;;;
        i_val <- b_alloca 32 ;; b_mstore i_val (SI 0) ;;;
        emit0 "jmp" [lbl hdr] ;;;
        set_block hdr ;;;
        i <- b_mload i_val ;; ch <- b_load src ;; c <- emit "lt" [i; ch] ;; done <- emit "iszero" [c] ;;
        emit0 "jnz" [done; lbl exit; lbl body] ;;;
        set_block body ;;;
        i <- b_mload i_val ;;
        src_data <- b_add src (SI 32) ;;
        elem_src <- (if is_dynamic t' then
                       m <- b_mul i (SI es) ;; static_loc <- b_add src_data m ;; off <- b_load static_loc ;;
                       b_add src_data off
                     else
                       m <- b_mul i (SI es) ;; b_add src_data m) ;;
        dst_data <- b_add dst (SI 32) ;; dm <- b_mul i (SI (vmem_size t')) ;; elem_dst <- b_add dst_data dm ;;
        vdecc t' elem_dst elem_src ;;;
        ni <- b_add i (SI 1) ;; b_mstore i_val ni ;;; emit0 "jmp" [lbl hdr] ;;;
        set_block exit
  | TSArr t' cnt =>
      (fix go (k : nat) (ao vo : Z) : M unit :=
         match k with
         | O => ret tt
         | S k' => es <- getelemptr_abi_c (is_dynamic t') src ao ;; ed <- b_add dst (SI vo) ;;
                   vdecc t' ed es ;;; go k' (ao + emb_static t') (vo + vmem_size t')
         end) (Z.to_nat cnt) 0 0
  | TTuple ts =>
      (fix go (ts : list ty) (ao vo : Z) : M unit :=
         match ts with
         | [] => ret tt
         | t' :: r => es <- getelemptr_abi_c (is_dynamic t') src ao ;; ed <- b_add dst (SI vo) ;;
                      vdecc t' ed es ;;; go r (ao + emb_static t') (vo + vmem_size t')
         end) ts 0 0
  | _ =>
      val <- b_load src ;;
      v <- (if needs_clamp t then TplDecV.clamp_word t val else ret val) ;;
      b_mstore dst v
  end.
End Venom.

Definition tpl_cd_v (L : srcloc) (k : Z) (t : ty) : sx :=
  let prog := (dst <- emit "param" [] ;;
               es <- getelemptr_abi_c L (is_dynamic t) (SI (arg_base L)) (32 * k) ;;
               vdecc L t dst es ;;; emit0 "stop" []) in
  render (snd (prog (mkB 0 0 [("probe", [])] "probe"))).
