(* C05 proofs about the acceptance model (Dec.v) and the follow-decoder (C06/Abi.v):
   soundness (accepted => in type), completeness (canonical => accepted), entry size check,
   needs_clamp completeness. *)
From Coq Require Import ZArith List Bool Lia ZifyBool.
From Verif Require Import C06.Abi C06.AbiLemmas C06.Roundtrip C05.Dec.
Import ListNotations.
Open Scope Z_scope.
Ltac Zify.zify_post_hook ::= Z.to_euclidean_division_equations.

Ltac pow_consts :=
  unfold W256 in *;
  let w := eval vm_compute in (2 ^ 256) in change (2 ^ 256) with w in *;
  let h := eval vm_compute in (2 ^ 255) in change (2 ^ 255) with h in *.

Definition bytes_ok (bs : list Z) : Prop := forallb byteb bs = true.

(* ---------- byte-list facts ---------- *)
Lemma forallb_firstn {A} (f : A -> bool) n l : forallb f l = true -> forallb f (firstn n l) = true.
Proof. revert l. induction n; intros [|x l] H; cbn in *; auto. apply andb_prop in H as [H1 H2]. rewrite H1, IHn; auto. Qed.
Lemma forallb_skipn {A} (f : A -> bool) n l : forallb f l = true -> forallb f (skipn n l) = true.
Proof. revert l. induction n; intros [|x l] H; cbn in *; auto. apply andb_prop in H as [H1 H2]. auto. Qed.
Lemma bytes_ok_zeros n : bytes_ok (zeros n).
Proof. unfold bytes_ok, zeros. induction (Z.to_nat n); cbn; auto. Qed.
Lemma bytes_ok_app a b : bytes_ok a -> bytes_ok b -> bytes_ok (a ++ b).
Proof. unfold bytes_ok. intros. rewrite forallb_app. now rewrite H, H0. Qed.
Lemma bytes_ok_slice bs p n : bytes_ok bs -> bytes_ok (slice bs p n).
Proof.
  intro H. unfold slice. destruct (zlen bs <=? p). apply bytes_ok_zeros.
  apply bytes_ok_app; [|apply bytes_ok_zeros]. apply forallb_firstn, forallb_skipn, H.
Qed.
Lemma zlen_slice bs p n : 0 <= n -> zlen (slice bs p n) = n.
Proof.
  intro Hn. unfold slice. destruct (zlen bs <=? p). rewrite zlen_zeros; lia.
  rewrite zlen_app, zlen_zeros.
  assert (zlen (firstn (Z.to_nat n) (skipn (Z.to_nat p) bs)) <= n).
  { unfold zlen. pose proof (firstn_le_length (Z.to_nat n) (skipn (Z.to_nat p) bs)). lia. }
  lia.
Qed.

Lemma fold_unbe_bounds l : bytes_ok l -> forall acc, 0 <= acc ->
  0 <= fold_left (fun a b => a * 256 + b) l acc < (acc + 1) * 256 ^ zlen l.
Proof.
  unfold bytes_ok. induction l as [|x l IH]; intros H acc Hacc; cbn [fold_left].
  - cbn. lia.
  - cbn [forallb] in H. apply andb_prop in H as [Hx Hl]. unfold byteb in Hx.
    specialize (IH Hl (acc * 256 + x) ltac:(lia)).
    rewrite zlen_cons. replace (1 + zlen l) with (Z.succ (zlen l)) by lia.
    rewrite Z.pow_succ_r by apply zlen_nonneg.
    assert (0 < 256 ^ zlen l) by (apply Z.pow_pos_nonneg; [lia | apply zlen_nonneg]).
    nia.
Qed.
Lemma rd_range bs p : bytes_ok bs -> 0 <= rd bs p < W256.
Proof.
  intro H. unfold rd, unbe.
  pose proof (fold_unbe_bounds (slice bs p 32) (bytes_ok_slice bs p 32 H) 0 ltac:(lia)) as B.
  rewrite zlen_slice in B by lia. change (256 ^ 32) with W256 in B. lia.
Qed.

(* ---------- soundness: whatever is accepted lies in the declared type ---------- *)
Section Sound.
Variable padd : Z -> Z -> Z. (*section*)

Lemma run_seq_repeat_sound (Q : val -> Prop) dyn hs (d : dec_t) bs loc :
  (forall l v, d bs l = Some v -> Q v) ->
  forall n ho vs, run_seq_g padd (repeat (dyn, hs, d) n) bs loc ho = Some vs ->
                  length vs = n /\ Forall Q vs.
Proof.
  intros Hd. induction n; intros ho vs H; cbn [repeat run_seq_g] in H.
  - injection H as <-. split; auto.
  - destruct (if dyn then d bs (padd loc (rd bs (padd loc ho))) else d bs (padd loc ho)) as [v|] eqn:E; [|discriminate].
    destruct (run_seq_g padd (repeat (dyn, hs, d) n) bs loc (ho + hs)) as [vs'|] eqn:E2; [|discriminate].
    injection H as <-. destruct (IHn _ _ E2) as [L F]. split. cbn. now rewrite L.
    constructor; auto. destruct dyn; eapply Hd; eauto.
Qed.

Definition sound_at (bs : list Z) (t : ty) : Prop :=
  forall loc v, dec_at_g padd t bs loc = Some v -> in_type t v = true.

Lemma run_seq_map_sound bs loc ts : Forall (sound_at bs) ts ->
  forall ho vs, run_seq_g padd (map (fun t' => (is_dynamic t', emb_static t', dec_at_g padd t')) ts) bs loc ho = Some vs ->
                zip_all (map in_type ts) vs = true.
Proof.
  induction 1 as [|t ts Ht HF IH]; intros ho vs H; cbn [map run_seq_g] in H.
  - injection H as <-. reflexivity.
  - destruct (if is_dynamic t then dec_at_g padd t bs (padd loc (rd bs (padd loc ho))) else dec_at_g padd t bs (padd loc ho))
      as [v|] eqn:E; [|discriminate].
    destruct (run_seq_g padd _ bs loc (ho + emb_static t)) as [vs'|] eqn:E2; [|discriminate].
    injection H as <-. cbn [map zip_all]. rewrite (IH _ _ E2), andb_true_r.
    destruct (is_dynamic t); eapply Ht; eauto.
Qed.

Lemma opt_list_some o v : opt_list o = Some v -> exists vs, o = Some vs /\ v = VList vs.
Proof. destruct o; cbn; intro H; [injection H as <-; eauto | discriminate]. Qed.

Theorem dec_sound_g : forall t bs, wf_ty t = true -> bytes_ok bs -> sound_at bs t.
Proof.
  induction t using ty_ind'; intros bs Hwf Hb loc v Hd; cbn [dec_at_g] in Hd;
    pose proof (rd_range bs loc Hb) as Hr.
  - destruct (rd bs loc <? int_hi (TUInt b)) eqn:E; [|discriminate]. injection Hd as <-. cbn [in_type int_lo] in *. lia.
  - destruct ((int_lo (TInt b) <=? to_signed256 (rd bs loc)) && (to_signed256 (rd bs loc) <? int_hi (TInt b))) eqn:E;
      [|discriminate]. injection Hd as <-. exact E.
  - destruct (rd bs loc <? int_hi TBool) eqn:E; [|discriminate]. injection Hd as <-. cbn [in_type int_lo] in *. lia.
  - destruct (rd bs loc <? int_hi TAddress) eqn:E; [|discriminate]. injection Hd as <-. cbn [in_type int_lo] in *. lia.
  - (* bytesM *)
    destruct (forallb (Z.eqb 0) (skipn (Z.to_nat m) (slice bs loc 32))) eqn:E; [|discriminate]. injection Hd as <-.
    cbn [in_type wf_ty] in *. pose proof (zlen_slice bs loc 32 ltac:(lia)) as L.
    apply andb_true_intro. split.
    + unfold zlen in *. rewrite firstn_length_le by lia. lia.
    + apply forallb_firstn. apply bytes_ok_slice, Hb.
  - destruct ((int_lo TDecimal <=? to_signed256 (rd bs loc)) && (to_signed256 (rd bs loc) <? int_hi TDecimal)) eqn:E;
      [|discriminate]. injection Hd as <-. exact E.
  - destruct (rd bs loc <? int_hi (TFlag m)) eqn:E; [|discriminate]. injection Hd as <-. cbn [in_type int_lo] in *. lia.
  - destruct (rd bs loc <=? b) eqn:E; [|discriminate]. injection Hd as <-. cbn [in_type].
    rewrite zlen_slice by lia. apply andb_true_intro. split. lia. apply bytes_ok_slice, Hb.
  - destruct (rd bs loc <=? b) eqn:E; [|discriminate]. injection Hd as <-. cbn [in_type].
    rewrite zlen_slice by lia. apply andb_true_intro. split. lia. apply bytes_ok_slice, Hb.
  - (* sarr *)
    cbn [wf_ty] in Hwf. apply andb_prop in Hwf as [Hn Hw].
    apply opt_list_some in Hd as (vs & Hrun & ->).
    destruct (run_seq_repeat_sound (fun v => in_type t v = true) _ _ _ bs loc (fun l v H => IHt bs Hw Hb l v H) _ _ _ Hrun) as [L F].
    cbn [in_type]. apply andb_true_intro. split. unfold zlen. lia.
    apply forallb_forall. rewrite Forall_forall in F. exact F.
  - (* darr *)
    cbn [wf_ty] in Hwf. apply andb_prop in Hwf as [Hn Hw].
    destruct (rd bs loc <=? b) eqn:E; [|discriminate].
    apply opt_list_some in Hd as (vs & Hrun & ->).
    destruct (run_seq_repeat_sound (fun v => in_type t v = true) _ _ _ bs (padd loc 32) (fun l v H => IHt bs Hw Hb l v H) _ _ _ Hrun) as [L F].
    cbn [in_type]. apply andb_true_intro. split. unfold zlen. lia.
    apply forallb_forall. rewrite Forall_forall in F. exact F.
  - (* tuple *)
    apply opt_list_some in Hd as (vs & Hrun & ->). cbn [in_type wf_ty] in *.
    eapply run_seq_map_sound; [|exact Hrun].
    clear Hrun. induction H as [|x l Hx Hl IH]; constructor; cbn [forallb] in Hwf; apply andb_prop in Hwf as [Hwx Hwl].
    + intros l0 v0. apply Hx; auto.
    + apply IH; auto.
Qed.

(* ---------- needs_clamp = false: every word is accepted ---------- *)
Lemma nc_static t : needs_clamp t = false -> is_dynamic t = false.
Proof.
  induction t using ty_ind'; cbn [needs_clamp is_dynamic]; intro Hn; try reflexivity; try discriminate; auto.
  induction H as [|x l Hx Hl IH]; cbn [existsb] in *. reflexivity.
  apply orb_false_elim in Hn as [H1 H2]. rewrite (Hx H1), (IH H2). reflexivity.
Qed.

Lemma run_seq_repeat_total hs (d : dec_t) bs loc :
  (forall l, exists v, d bs l = Some v) ->
  forall n ho, exists vs, run_seq_g padd (repeat (false, hs, d) n) bs loc ho = Some vs.
Proof.
  intros Hd. induction n; intro ho; cbn [repeat run_seq_g]. eauto.
  destruct (Hd (padd loc ho)) as [v ->]. destruct (IHn (ho + hs)) as [vs ->]. eauto.
Qed.

Theorem needs_clamp_complete_g : forall t, wf_ty t = true -> needs_clamp t = false ->
  forall bs loc, bytes_ok bs -> exists v, dec_at_g padd t bs loc = Some v.
Proof.
  induction t using ty_ind'; intros Hwf Hn bs loc Hb; cbn [needs_clamp wf_ty] in *; try discriminate;
    pose proof (rd_range bs loc Hb) as Hr.
  - assert (b = 256) by lia. subst b. cbn [dec_at_g int_hi]. change (2 ^ 256) with W256.
    destruct (Z.ltb_spec (rd bs loc) W256); [eauto | lia].
  - assert (b = 256) by lia. subst b. cbn [dec_at_g int_hi int_lo]. change (256 - 1) with 255.
    unfold to_signed256. revert Hr. pow_consts. intro Hr.
    destruct (Z.ltb_spec (rd bs loc) 57896044618658097711785492504343953926634992332820282019728792003956564819968);
      match goal with |- exists v, (if ?c then _ else _) = _ => replace c with true by lia end; eauto.
  - assert (m = 32) by lia. subst m. cbn [dec_at_g].
    pose proof (zlen_slice bs loc 32 ltac:(lia)) as L.
    rewrite skipn_all2 by (unfold zlen in L; lia). cbn. eauto.
  - assert (m = 256) by lia. subst m. cbn [dec_at_g int_hi]. change (2 ^ 256) with W256.
    destruct (Z.ltb_spec (rd bs loc) W256); [eauto | lia].
  - (* sarr *)
    apply andb_prop in Hwf as [Hn1 Hw]. cbn [dec_at_g]. rewrite (nc_static t Hn).
    destruct (run_seq_repeat_total (emb_static t) (dec_at_g padd t) bs loc (fun l => IHt Hw Hn bs l Hb) (Z.to_nat n) 0) as [vs ->].
    cbn. eauto.
  - (* tuple *)
    cbn [dec_at_g].
    enough (forall ho, exists vs, run_seq_g padd (map (fun t' => (is_dynamic t', emb_static t', dec_at_g padd t')) ts) bs loc ho = Some vs)
      as Hx by (destruct (Hx 0) as [vs ->]; cbn; eauto).
    induction H as [|x l Hx Hl IH]; intro ho; cbn [map run_seq_g]. eauto.
    cbn [forallb existsb] in *. apply andb_prop in Hwf as [Hwx Hwl]. apply orb_false_elim in Hn as [Hnx Hnl].
    rewrite (nc_static x Hnx). destruct (Hx Hwx Hnx bs (padd loc ho) Hb) as [v ->].
    destruct (IH Hwl Hnl (ho + emb_static x)) as [vs ->]. eauto.
Qed.
End Sound.

(* ---------- the head is part of every canonical encoding ---------- *)
Theorem static_size_le_enc : forall t v, wf_ty t = true -> in_type t v = true -> static_size t <= zlen (enc t v).
Proof.
  induction t using ty_ind'; intros v Hwf Hin;
    try (destruct v; cbn in Hin; try discriminate; cbn [enc static_size]; rewrite zlen_word; lia);
    try (cbn [static_size]; apply zlen_nonneg).
  - rewrite (enc_len_static _ _ Hwf Hin eq_refl). lia.
  - (* sarr *)
    destruct v as [| |vs]; try (cbn in Hin; discriminate).
    cbn [in_type wf_ty] in *. apply andb_prop in Hin as [Hn Hall]. apply andb_prop in Hwf as [Hn1 Hwf].
    cbn [enc static_size]. rewrite zlen_enc_seq.
    assert (Hn' : n = zlen vs) by lia. rewrite Hn'. clear Hn Hn1 Hn'.
    rewrite forallb_forall in Hall.
    induction vs as [|x vs IHvs]; cbn [map]. cbn. lia.
    rewrite zsum_cons, zlen_cons. unfold comp_len at 1. cbn [fst snd].
    assert (Hx : in_type t x = true) by (apply Hall; left; reflexivity).
    assert (IHvs' : forall y, In y vs -> in_type t y = true) by (intros; apply Hall; right; assumption).
    specialize (IHvs IHvs'). pose proof (zlen_nonneg (enc t x)).
    destruct (is_dynamic t) eqn:Hd; [lia|]. rewrite (enc_len_static t x Hwf Hx Hd). lia.
  - (* tuple *)
    destruct v as [| |vs]; try (cbn in Hin; discriminate).
    cbn [in_type wf_ty enc static_size] in *. rewrite zlen_enc_seq.
    revert vs Hin. induction H as [|x l Hx Hl IH]; intros vs Hin; destruct vs as [|v vs]; cbn [map zip_all zip_apply] in *;
      try discriminate; try (cbn; lia).
    apply andb_prop in Hin as [Hinx Hinl]. apply andb_prop in Hwf as [Hwx Hwl].
    specialize (IH Hwl vs Hinl). rewrite !zsum_cons. unfold comp_len at 1. cbn [fst snd].
    pose proof (zlen_nonneg (enc x v)).
    destruct (is_dynamic x) eqn:Hd; [lia|]. rewrite (enc_len_static x v Hwx Hinx Hd). lia.
Qed.

(* ---------- statements about the acceptance model ---------- *)
Theorem dec_sound : forall targs calldata v,
  wf_ty targs = true -> bytes_ok calldata -> accept_call targs calldata = Some v -> in_type targs v = true.
Proof.
  intros t cd v Hwf Hb. unfold accept_call. destruct (zlen cd <? 4 + static_size t); [discriminate|].
  apply (dec_sound_g wadd t cd Hwf Hb 4 v).
Qed.

Theorem dec_complete : forall targs v sel,
  wf_ty targs = true -> in_type targs v = true -> zlen sel = 4 -> 4 + zlen (enc targs v) < W256 ->
  accept_call targs (sel ++ enc targs v) = Some v.
Proof.
  intros t v sel Hwf Hin Hsel Hs. unfold accept_call.
  pose proof (static_size_le_enc t v Hwf Hin). rewrite zlen_app.
  destruct (Z.ltb_spec (zlen sel + zlen (enc t v)) (4 + static_size t)); [lia|].
  apply dec_follow_enc; auto. rewrite zlen_app. lia.
  exists sel, []. split; [now rewrite app_nil_r | exact Hsel].
Qed.

Theorem entry_min_size_sound : forall targs v sel,
  wf_ty targs = true -> in_type targs v = true -> zlen sel = 4 ->
  4 + static_size targs <= zlen (sel ++ enc targs v).
Proof. intros t v sel Hwf Hin Hsel. rewrite zlen_app. pose proof (static_size_le_enc t v Hwf Hin). lia. Qed.

Theorem needs_clamp_complete : forall t, wf_ty t = true -> needs_clamp t = false ->
  forall bs loc, bytes_ok bs -> exists v, dec_follow t bs loc = Some v /\ in_type t v = true.
Proof.
  intros t Hwf Hn bs loc Hb. destruct (needs_clamp_complete_g wadd t Hwf Hn bs loc Hb) as [v Hv].
  exists v. split; auto. exact (dec_sound_g wadd t bs Hwf Hb loc v Hv).
Qed.

(* ---------- arguments at an arbitrary base (constructor: base = length of the init code) ---------- *)
Theorem dec_sound_at : forall base targs data v,
  wf_ty targs = true -> bytes_ok data -> accept_at base targs data = Some v -> in_type targs v = true.
Proof.
  intros base t cd v Hwf Hb. unfold accept_at. destruct (zlen cd <? base + static_size t); [discriminate|].
  apply (dec_sound_g wadd t cd Hwf Hb base v).
Qed.

Theorem dec_complete_at : forall targs v pre,
  wf_ty targs = true -> in_type targs v = true -> zlen pre + zlen (enc targs v) < W256 ->
  accept_at (zlen pre) targs (pre ++ enc targs v) = Some v.
Proof.
  intros t v pre Hwf Hin Hs. unfold accept_at.
  pose proof (static_size_le_enc t v Hwf Hin). rewrite zlen_app.
  destruct (Z.ltb_spec (zlen pre + zlen (enc t v)) (zlen pre + static_size t)); [lia|].
  apply dec_follow_enc; auto. rewrite zlen_app. lia.
  exists pre, []. split; [now rewrite app_nil_r | reflexivity].
Qed.

Theorem truncated_rejected_at : forall base targs data,
  zlen data < base + static_size targs -> accept_at base targs data = None.
Proof. intros. unfold accept_at. destruct (Z.ltb_spec (zlen data) (base + static_size targs)); [reflexivity | lia]. Qed.
