(* C05 extension, O-tie of the entry glue: what the REAL glue functions of both pipelines emit for
   f(x: T, k: T = empty(T)) and __init__(p0: uint256, x: T) (GenGlueC.v, from tools/vlib/c05_cdglue.py: function types
   built by the front end from source text), including EntryPointInfo.min_calldatasize of both entry points and the
   venom constructor's CODESIZE check, is syntactically the output of the Coq generators glue_l / glue_v. *)
From Coq Require Import ZArith List String Bool.
From Verif Require Import C06.Abi C06.Sexp C05.TplDecC C05.TplGlueC C05.GenGlueC.
Import ListNotations.
Open Scope Z_scope.

Theorem tie_glue_legacy : forallb (fun p => sx_eqb (glue_l (fst p)) (snd p)) obs_glue_l = true.
Proof. vm_compute. reflexivity. Qed.
Theorem tie_glue_venom : forallb (fun p => sx_eqb (glue_v (fst p)) (snd p)) obs_glue_v = true.
Proof. vm_compute. reflexivity. Qed.
Theorem glue_family : (40 <=? zlen obs_glue_l) = true /\ map fst obs_glue_l = map fst obs_glue_v.
Proof. vm_compute. split; reflexivity. Qed.
