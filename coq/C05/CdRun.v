(* C05 extension: run an OBSERVED calldata-source / code-source decoder template inside Coq (CxEval.v) on a byte region
   and compare with the acceptance model: same accept/reject as dec_follow at the argument's position, and on accept
   the value found at dst in vyper layout is the model's value.  (harness; no proofs) *)
From Coq Require Import ZArith List Bool String.
From Verif Require Import C06.Abi C06.ZeroPad C06.Sexp C06.SxEval C06.VxEval C05.Dec C05.CxEval.
Import ListNotations.
Open Scope Z_scope.

Definition CDST : Z := 131072.
(* model: argument k of the tuple (uint256 * k, t) whose encoding starts at [base] of [data] *)
Definition model_arg (k : Z) (t : ty) (data : list Z) (base : Z) : option val :=
  match dec_follow (TTuple (repeat (TUInt 256) (Z.to_nat k) ++ [t])) data base with
  | Some (VList vs) => Some (last vs (VInt 0))
  | _ => None
  end.

(* 1 agree / 0 disagree / negative = evaluator problem.  [code]: DATA/CODE source (pointers relative to code_end = base) *)
Definition verdict {S} (r : res (Z * S)) (memof : S -> mem) (t : ty) (model : option val) : Z :=
  match r with
  | RVal (_, s) => match model with
                   | Some v => if val_eqb (vyread t (memof s) CDST) v then 1 else 0
                   | None => 0 end
  | RRevert => match model with None => 1 | Some _ => 0 end
  | RFuel => -2
  | RStuck _ => -3
  end.

Definition run_cd_l (tpl : sx) (code : bool) (k : Z) (t : ty) (data : list Z) (base : Z) : Z :=
  let R := mkR data (if code then base else 0) in
  verdict (evc R (Z.to_nat 6000) tpl (mkSt [("dst"%string, CDST)] (fun _ => 238))) s_mem t (model_arg k t data base).
Definition run_cd_v (tpl : sx) (code : bool) (k : Z) (t : ty) (data : list Z) (base : Z) : Z :=
  let R := mkR data (if code then base else 0) in
  verdict (vstartc R tpl [CDST] (fun _ => 238)) v_mem t (model_arg k t data base).
