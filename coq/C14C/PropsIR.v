(* C14C / PropsIR.v -- InternalReturnCopyForwardingPass: statement, assumptions, examples. *)
From Coq Require Import ZArith NArith Bool List String.
From Verif Require Import C14C.CopySem C14C.CopyCheck C14C.CopySound1 C14C.DeadCheck C14C.DeadSound C14C.IRCheck C14C.IRSound C14C.PropsCopy C14C.PropsDead.
Import ListNotations.
Open Scope string_scope.
Open Scope Z_scope.

(* Accepted by `ir_check C P RN f f'` => for every oracle satisfying `oracle_ren` (instructions see the state through their
   operands and memory; an invoke overwrites the return buffer it is given without reading it), from related initial states:
   unless the ORIGINAL run is stuck -- in the BOUNDED semantics run_b, where a precise access to an allocation of P outside
   [0, size) is stuck -- both runs end the same way, in states whose variables agree except that renamed variables point
   into the return buffer instead of the destination, and whose memories agree outside P, the destination of f being the
   return buffer of f' for every pair that is active. *)
Theorem internal_return_sound_stmt : forall O C P RN f f',
  oracle_ren O P -> ir_check C P RN f f' = true ->
  forall s0 s0' act0, cinv C s0 -> dinv C (regs P) s0 -> vars_rel P RN s0 s0' -> orel P act0 s0 s0' ->
  forall fuel, rel_resR P RN (run_b O P f fuel 0 s0) (run O f' fuel 0 s0').
Proof. exact internal_return_sound. Qed.
Print Assumptions internal_return_sound_stmt.

Theorem renamed_access_reads_the_same : forall P act m m' p p' len, mrel P act m m' -> arg_ok P act p p' -> inb_acc P p len = true ->
  forall j, 0 <= j < len -> m (fst p) (snd p + j) = m' (fst p') (snd p' + j).
Proof. exact mrel_read. Qed.
Theorem renamed_access_writes_the_same : forall P act m m' p p' len f f', pairs_wf P = true -> mrel P act m m' -> arg_ok P act p p' ->
  inb_acc P p len = true -> (forall j, 0 <= j < len -> f j = f' j) ->
  mrel P act (mwrite m (fst p) (snd p) len f) (mwrite m' (fst p') (snd p') len f').
Proof. exact mrel_write. Qed.

(* ---- examples.  %1 = alloca (dst); %2 = alloca (ret); invoke @callee, %2; mcopy %1 <- %2; %3 = %1 + 32; %4 = mload %3;
   mstore %1, 9; stop    ~>    the same with the copy a nop, %3 = %2 + 32 and mstore %2, 9 *)
Definition ir_prog (cp : inst) (base : N) (extra : list inst) : func :=
  [([mkI "alloca" [OLit 64] [1%N] false false 1 []; mkI "alloca" [OLit 64] [2%N] false false 2 [];
     mkI "invoke" [OLab 1000000%N; OVar 2%N] [] true true 0 [None; Some (OLab 0%N)];
     cp;
     mkI "add" [OLit 32; OVar base] [3%N] false false 0 [];
     mkI "mload" [OVar 3%N] [4%N] false false 0 [];
     mkI "mstore" [OLit 9; OVar base] [] true false 0 []] ++ extra ++
    [mkI "stop" [] [] false false 0 []])%list].
Definition ir_copy := mkI "mcopy" [OLit 64; OVar 2%N; OVar 1%N] [] true false 0 [].
Definition ir_C : certs := [(1%N, (Some 1, Some 0)); (2%N, (Some 2, Some 0)); (3%N, (Some 1, Some 32))].
Definition ir_P : pairs := [(1, 2, 64)].
Example ex_ir_accepted : ir_check ir_C ir_P [3%N] (ir_prog ir_copy 1%N []) (ir_prog the_nop 2%N []) = true.
Proof. vm_compute. reflexivity. Qed.
(* the return buffer is read again after the copy in f: not dead, rejected *)
Example ex_ir_ret_live :
  let x := [mkI "mload" [OVar 2%N] [5%N] false false 0 []] in
  ir_check ir_C ir_P [3%N] (ir_prog ir_copy 1%N x) (ir_prog the_nop 2%N x) = false.
Proof. vm_compute. reflexivity. Qed.
(* a use of the destination is left in f': rejected *)
Example ex_ir_dst_left :
  let x := [mkI "mload" [OVar 1%N] [5%N] false false 0 []] in
  ir_check ir_C ir_P [3%N] (ir_prog ir_copy 1%N x) (ir_prog the_nop 2%N x) = false.
Proof. vm_compute. reflexivity. Qed.
(* the derived pointer is not declared renamed: rejected *)
Example ex_ir_rn_missing : ir_check ir_C ir_P [] (ir_prog ir_copy 1%N []) (ir_prog the_nop 2%N []) = false.
Proof. vm_compute. reflexivity. Qed.

(* the trivial oracle satisfies the hypothesis; the theorem applies to the example *)
Lemma O0_ren P : oracle_ren O0 P. Proof. split; intros; cbn; auto. Qed.
Example ex_ir_runs : forall fuel, rel_resR ir_P [3%N] (run_b O0 ir_P (ir_prog ir_copy 1%N []) fuel 0 s_init) (run O0 (ir_prog the_nop 2%N []) fuel 0 s_init).
Proof.
  intros. apply internal_return_sound with (C := ir_C) (act0 := fun _ => false).
  - apply O0_ren.
  - exact ex_ir_accepted.
  - apply s_init_cinv.
  - intros x v H. discriminate.
  - split; intros; cbn; auto.
  - split; [|cbn; auto]. split; auto.
Qed.
