(* C14C / PropsCopy.v -- statements of the copy-elision validator, their assumptions, and non-vacuity examples. *)
From Coq Require Import ZArith NArith Bool List String.
From Verif Require Import C14C.CopySem C14C.CopyCheck C14C.CopySound1 C14C.CopySound2 C14C.CopySound3 C14C.CopySound4 C14C.CopySound.
Import ListNotations.
Open Scope string_scope.
Open Scope Z_scope.

(* Accepted by `check_func` => for every oracle that sees memory only through its contents and treats operands annotated
   read-only uniformly (`ro_uniform`: needed only for rule R4, the redirected invoke operands), every initial state that
   respects the pointer certificate and every fuel: unless the ORIGINAL run is stuck (undefined variable, ptr + ptr,
   malformed instruction), both runs end the same way (final terminator / halt inside a block / out of fuel) in states
   with equal variables, pointwise equal memory, equal returndata version and world. *)
Theorem copyfwd_check_sound_stmt : forall O C E f f',
  oracle_ext O -> ro_uniform O -> check_func C E f f' = true ->
  forall s0 s0', cinv C s0 -> seq2 s0 s0' -> forall fuel, rel_res (run O f fuel 0 s0) (run O f' fuel 0 s0').
Proof. exact copyfwd_check_sound. Qed.
Print Assumptions copyfwd_check_sound_stmt.

(* the pieces, usable on their own *)
Theorem certificates_invariant : forall O C f i s s',
  certs_ok f C = true -> In i (all_insts f) -> cinv C s -> exec O i s = Next s' -> cinv C s'.
Proof. exact exec_cinv. Qed.
Theorem facts_invariant : forall O C i s s' F,
  cinv C s -> allholds O s F -> exec O i s = Next s' -> allholds O s' (step_facts C F i).
Proof. exact step_facts_sound. Qed.
Theorem justified_rewrite_sound : forall O C F i i' s s' s1,
  cinv C s -> allholds O s F -> seq2 s s' -> i_op i = "mcopy" -> justified C F i i' = true -> exec O i s = Next s1 ->
  exists s1', exec O i' s' = Next s1' /\ seq2 s1 s1'.
Proof. exact justified_sound_mcopy. Qed.
Theorem readonly_invoke_redirect_sound : forall O C F i i' s s',
  oracle_ext O -> ro_uniform O -> cinv C s -> allholds O s F -> seq2 s s' -> i_op i = "invoke" -> justified C F i i' = true ->
  out_rel (exec O i s) (exec O i' s').
Proof. exact justified_sound_invoke. Qed.
Theorem disjoint_is_sound : forall a b va na vb nb, disjoint a b = true -> covers a va na -> covers b vb nb ->
  forall x y, 0 <= x < na -> 0 <= y < nb -> ~ (fst va = fst vb /\ snd va + x = snd vb + y).
Proof. exact disjoint_sound. Qed.
Print Assumptions facts_invariant.

(* ---- non-vacuity: an oracle that satisfies oracle_ext, an initial state that satisfies cinv *)
Definition O0 : oracle := mkO (fun _ _ _ => None) (fun _ _ v k => snd v + k) (fun i k => i * 1000 + k) (fun _ _ _ => None).
Lemma O0_ext : oracle_ext O0. Proof. split; intros; cbn; auto. Qed.
Lemma O0_ro : ro_uniform O0. Proof. intros i i' a a' s s' _ _ _ _. cbn. exact I. Qed.
Definition s_init : state := mkS (fun _ => None) (fun _ _ => 0) 0 0 0%N.
Lemma s_init_cinv C : cinv C s_init. Proof. intros x r k v _ H. discriminate. Qed.

(* %1 = alloca; %2 = alloca; calldatacopy %1 <- cd[4..36); mcopy %2 <- %1 (32)   ~>   calldatacopy %2 <- cd[4..36) *)
Definition ex_f : func :=
  [[mkI "alloca" [OLit 32] [1%N] false false 1 []; mkI "alloca" [OLit 32] [2%N] false false 2 [];
    mkI "calldatacopy" [OLit 32; OLit 4; OVar 1%N] [] true false 0 [];
    mkI "mcopy" [OLit 32; OVar 1%N; OVar 2%N] [] true false 0 [];
    mkI "stop" [] [] false false 0 []]].
Definition ex_g : func :=
  [[mkI "alloca" [OLit 32] [1%N] false false 1 []; mkI "alloca" [OLit 32] [2%N] false false 2 [];
    mkI "calldatacopy" [OLit 32; OLit 4; OVar 1%N] [] true false 0 [];
    mkI "calldatacopy" [OLit 32; OLit 4; OVar 2%N] [] true false 0 [];
    mkI "stop" [] [] false false 0 []]].
Definition ex_C : certs := [(1%N, (Some 1, Some 0)); (2%N, (Some 2, Some 0))].
Example ex_accepted : check_func ex_C [[]] ex_f ex_g = true. Proof. vm_compute. reflexivity. Qed.
Example ex_runs : forall fuel, rel_res (run O0 ex_f fuel 0 s_init) (run O0 ex_g fuel 0 s_init).
Proof. intros. apply copyfwd_check_sound with (C := ex_C) (E := [[]]); auto using O0_ext, O0_ro, s_init_cinv, seq2_refl, ex_accepted. Qed.
(* ... and the original run is not stuck: the theorem says something *)
Example ex_not_stuck : match run O0 ex_f 2 0 s_init with Done s => smem s (Some 2) 5 = 9 | _ => False end.
Proof. vm_compute. reflexivity. Qed.

(* the same rewrite with a store to the source between the two copies is rejected *)
Definition ex_f_bad : func :=
  [[mkI "alloca" [OLit 32] [1%N] false false 1 []; mkI "alloca" [OLit 32] [2%N] false false 2 [];
    mkI "calldatacopy" [OLit 32; OLit 4; OVar 1%N] [] true false 0 [];
    mkI "mstore" [OLit 7; OVar 1%N] [] true false 0 [];
    mkI "mcopy" [OLit 32; OVar 1%N; OVar 2%N] [] true false 0 [];
    mkI "stop" [] [] false false 0 []]].
Definition ex_g_bad : func :=
  [[mkI "alloca" [OLit 32] [1%N] false false 1 []; mkI "alloca" [OLit 32] [2%N] false false 2 [];
    mkI "calldatacopy" [OLit 32; OLit 4; OVar 1%N] [] true false 0 [];
    mkI "mstore" [OLit 7; OVar 1%N] [] true false 0 [];
    mkI "calldatacopy" [OLit 32; OLit 4; OVar 2%N] [] true false 0 [];
    mkI "stop" [] [] false false 0 []]].
Example ex_rejected : check_func ex_C [[]] ex_f_bad ex_g_bad = false. Proof. vm_compute. reflexivity. Qed.
(* and rightly so: the two runs differ *)
Example ex_bad_differs :
  match run O0 ex_f_bad 2 0 s_init, run O0 ex_g_bad 2 0 s_init with
  | Done a, Done b => smem a (Some 2) 31 = 7 /\ smem b (Some 2) 31 = 35
  | _, _ => False
  end.
Proof. vm_compute. split; reflexivity. Qed.
(* an offset that is off by 32 is rejected as well *)
Definition ex_g_off : func :=
  [[mkI "alloca" [OLit 32] [1%N] false false 1 []; mkI "alloca" [OLit 32] [2%N] false false 2 [];
    mkI "calldatacopy" [OLit 32; OLit 4; OVar 1%N] [] true false 0 [];
    mkI "calldatacopy" [OLit 32; OLit 36; OVar 2%N] [] true false 0 [];
    mkI "stop" [] [] false false 0 []]].
Example ex_rejected_off : check_func ex_C [[]] ex_f ex_g_off = false. Proof. vm_compute. reflexivity. Qed.

(* R4: the staged argument of a read-only parameter is redirected to the source of the staging copy (the copy stays: its
   removal is the separate dead-copy step checked by the tie); rejected when the source is written in between, or when the
   operand is not annotated read-only *)
Definition inv_f (ann : list (option operand)) (mid : list inst) (arg : operand) : func :=
  [([mkI "alloca" [OLit 64] [1%N] false false 1 []; mkI "alloca" [OLit 64] [2%N] false false 2 [];
    mkI "mstore" [OLit 5; OVar 1%N] [] true false 0 [];
    mkI "mcopy" [OLit 64; OVar 1%N; OVar 2%N] [] true false 0 []] ++ mid ++
   [mkI "invoke" [OLab 1000000%N; arg] [3%N] true true 0 ann;
    mkI "stop" [] [] false false 0 []])%list].
Definition inv_ann := [None; Some (OLit 64)].
Example ex_invoke_accepted : check_func ex_C [[]] (inv_f inv_ann [] (OVar 2%N)) (inv_f inv_ann [] (OVar 1%N)) = true.
Proof. vm_compute. reflexivity. Qed.
Example ex_invoke_clobbered :
  let mid := [mkI "mstore" [OLit 6; OVar 1%N] [] true false 0 []] in
  check_func ex_C [[]] (inv_f inv_ann mid (OVar 2%N)) (inv_f inv_ann mid (OVar 1%N)) = false.
Proof. vm_compute. reflexivity. Qed.
Example ex_invoke_not_readonly : check_func ex_C [[]] (inv_f [None; None] [] (OVar 2%N)) (inv_f [None; None] [] (OVar 1%N)) = false.
Proof. vm_compute. reflexivity. Qed.
