(* C14C / CopySound3.v -- the copy facts maintained by `step_facts` hold along the execution. *)
From Coq Require Import ZArith NArith Bool List String Lia.
From Verif Require Import C14C.CopySem C14C.CopyCheck C14C.CopySound1 C14C.CopySound2.
Import ListNotations.
Open Scope string_scope.
Open Scope Z_scope.
Local Opaque W Z.modulo.

Definition src_of (O : oracle) (op : string) (s : state) (vs : val) (j : Z) : Z :=
  if String.eqb op "mcopy" then smem s (fst vs) (snd vs + j) else src_byte O op s vs j.
Definition fholds (O : oracle) (s : state) (fc : fact) : Prop :=
  match fc with
  | FCopy op d sr n =>
      exists vd vs vn, oval s d = Some vd /\ oval s sr = Some vs /\ oval s n = Some (None, vn) /\
        forall j, 0 <= j < vn -> smem s (fst vd) (snd vd + j) = src_of O op s vs j
  end.
Definition allholds (O : oracle) (s : state) (F : list fact) : Prop := forall fc, In fc F -> fholds O s fc.

(* ---- locations *)
Definition covers (l : loc) (v : val) (n : Z) : Prop :=
  let '(r, k, m) := l in fst v = r /\ (forall k0, k = Some k0 -> snd v = k0) /\ (forall m0, m = Some m0 -> n = m0).

Lemma loc_of_covers C s p m l v n : cinv C s -> loc_of C p m = Some l -> oval s p = Some v ->
  (forall m0, m = Some m0 -> n = m0) -> covers l v n.
Proof.
  intros HI HL Hv Hm. unfold loc_of in HL. destruct (cert_op C p) as [[r k]|] eqn:Cp; try discriminate. inversion HL. subst l.
  destruct (cert_op_val C s p r k v HI Cp Hv) as [A1 A2]. cbn. auto.
Qed.

Lemma disjoint_sound a b va na vb nb : disjoint a b = true -> covers a va na -> covers b vb nb ->
  forall x y, 0 <= x < na -> 0 <= y < nb -> ~ (fst va = fst vb /\ snd va + x = snd vb + y).
Proof.
  destruct a as [[ra ka] ma], b as [[rb kb] mb]. cbn. intros D [A1 [A2 A3]] [B1 [B2 B3]] x y Hx Hy [E1 E2].
  assert (IV : forall ka0 na0 kb0 nb0, ka = Some ka0 -> ma = Some na0 -> kb = Some kb0 -> mb = Some nb0 ->
               (ka0 + na0 <=? kb0) || (kb0 + nb0 <=? ka0) = true -> False).
  { intros ka0 na0 kb0 nb0 -> -> -> -> Q. specialize (A2 _ eq_refl). specialize (A3 _ eq_refl).
    specialize (B2 _ eq_refl). specialize (B3 _ eq_refl). apply orb_prop in Q. destruct Q as [Q|Q]; apply Z.leb_le in Q; lia. }
  destruct ra as [ra|], rb as [rb|]; try congruence.
  - destruct (ra =? rb) eqn:Q.
    + destruct ka, ma, kb, mb; try discriminate. eapply IV; eauto.
    + apply Z.eqb_neq in Q. apply Q. congruence.
  - destruct ka, ma, kb, mb; try discriminate. eapply IV; eauto.
Qed.

Lemma oeqb_refl a : oeqb a a = true. Proof. destruct a; cbn; auto. apply Z.eqb_refl. Qed.
Lemma mwrite_other m t a n f t' c : ~ (t' = t /\ a <= c < a + n) -> mwrite m t a n f t' c = m t' c.
Proof.
  intros H. unfold mwrite, in_rng. destruct (oeqb t' t) eqn:Q; auto. apply oeqb_eq in Q. cbn.
  destruct (a <=? c) eqn:Q1; auto. destruct (c <? a + n) eqn:Q2; auto. apply Z.leb_le in Q1. apply Z.ltb_lt in Q2.
  exfalso. apply H. split; auto.
Qed.
Lemma mwrite_in m t a n f j : 0 <= j < n -> mwrite m t a n f t (a + j) = f j.
Proof.
  intros H. unfold mwrite, in_rng. rewrite oeqb_refl. cbn.
  assert (Q1 : (a <=? a + j) = true) by (apply Z.leb_le; lia). assert (Q2 : (a + j <? a + n) = true) by (apply Z.ltb_lt; lia).
  rewrite Q1, Q2. cbn. f_equal. lia.
Qed.

Lemma size_lit_val s n nz v : size_lit n = Some nz -> oval s n = Some v -> v = (None, nz).
Proof. destruct n; cbn; try discriminate. intros H1 H2. inversion H1. inversion H2. reflexivity. Qed.

(* ---- frames *)
Lemma oval_eq s s' o : (forall y, mentions y o = true -> vars s' y = vars s y) -> oval s' o = oval s o.
Proof. destruct o; cbn; auto. intros H. apply H. apply N.eqb_refl. Qed.

Lemma fholds_transfer O s s' op d sr n :
  fholds O s (FCopy op d sr n) -> oval s' d = oval s d -> oval s' sr = oval s sr -> oval s' n = oval s n ->
  (forall vd vn j, oval s d = Some vd -> oval s n = Some (None, vn) -> 0 <= j < vn -> smem s' (fst vd) (snd vd + j) = smem s (fst vd) (snd vd + j)) ->
  (forall vs vn j, oval s sr = Some vs -> oval s n = Some (None, vn) -> 0 <= j < vn -> src_of O op s' vs j = src_of O op s vs j) ->
  fholds O s' (FCopy op d sr n).
Proof.
  intros [vd [vs [vn [H1 [H2 [Hn H3]]]]]] E1 E2 E3 M S. exists vd, vs, vn. rewrite E1, E2, E3. repeat split; auto.
  intros j Hj. rewrite (M vd vn j H1 Hn Hj), (S vs vn j H2 Hn Hj). auto.
Qed.

Lemma kill_outs_in F outs fc : In fc (kill_outs F outs) -> In fc F /\ forall x, In x outs -> fact_mentions fc x = false.
Proof.
  unfold kill_outs. rewrite filter_In. intros [H1 H2]. split; auto. intros x Hx.
  apply negb_true_iff in H2. destruct (fact_mentions fc x) eqn:Q; auto.
  assert (existsb (fact_mentions fc) outs = true) by (apply existsb_exists; eauto). congruence.
Qed.

(* only variables change, and only those in `outs` *)
Lemma vars_case O s s' F outs : allholds O s F -> smem s' = smem s -> srd s' = srd s ->
  (forall y, ~ In y outs -> vars s' y = vars s y) -> allholds O s' (kill_outs F outs).
Proof.
  intros HF Em Er Ev fc Hin. apply kill_outs_in in Hin. destruct Hin as [Hin Hm]. specialize (HF fc Hin).
  destruct fc as [op d sr n]. cbn in Hm.
  assert (Q : forall o, (forall x, In x outs -> mentions x o = false) -> oval s' o = oval s o).
  { intros o Ho. apply oval_eq. intros y My. apply Ev. intros Iy. rewrite (Ho y Iy) in My. discriminate. }
  apply fholds_transfer with (s := s); auto.
  - apply Q. intros x Hx. specialize (Hm x Hx). apply orb_false_iff in Hm. destruct Hm as [Hm _]. apply orb_false_iff in Hm. tauto.
  - apply Q. intros x Hx. specialize (Hm x Hx). apply orb_false_iff in Hm. destruct Hm as [Hm _]. apply orb_false_iff in Hm. tauto.
  - apply Q. intros x Hx. specialize (Hm x Hx). apply orb_false_iff in Hm. tauto.
  - intros. rewrite Em. reflexivity.
  - intros. unfold src_of, src_byte. rewrite Em, Er. reflexivity.
Qed.

Lemma kill_outs_nil F : kill_outs F [] = F.
Proof. unfold kill_outs. cbn. induction F; cbn; auto. f_equal. auto. Qed.

Lemma allholds_sub O s F G : allholds O s F -> (forall fc, In fc G -> In fc F) -> allholds O s G.
Proof. intros H S fc I. apply H. apply S. exact I. Qed.

(* a write of n bytes at vp, described by w, keeps the surviving facts *)
Lemma write_case O C s F w vp n g : allholds O s F -> cinv C s ->
  (forall lw, w = Some lw -> covers lw vp n) ->
  allholds O (with_mem s (mwrite (smem s) (fst vp) (snd vp) n g)) (kill_write C F w).
Proof.
  intros HF HI Hw fc Hin. unfold kill_write in Hin. apply filter_In in Hin. destruct Hin as [Hin Hs].
  pose proof (HF fc Hin) as Hh. destruct fc as [op d sr n0]. cbn in Hs. apply andb_prop in Hs. destruct Hs as [S1 S2].
  destruct w as [lw|]. 2:{ unfold odisjoint in S1. destruct (loc_of C d (size_lit n0)); discriminate. }
  specialize (Hw lw eq_refl).
  apply fholds_transfer with (s := s); auto.
  - intros vd vn j Hd Hn Hj. cbn. apply mwrite_other. intros [T R].
    unfold odisjoint in S1. destruct (loc_of C d (size_lit n0)) as [ld|] eqn:Ld; try discriminate.
    assert (Cd : covers ld vd vn).
    { eapply loc_of_covers; eauto. intros m0 Q. pose proof (size_lit_val _ _ _ _ Q Hn) as Q2. inversion Q2. reflexivity. }
    apply (disjoint_sound ld lw vd vn vp n S1 Cd Hw j (snd vd + j - snd vp) Hj); [lia|]. split; auto. lia.
  - intros vs vn j Hsr Hn Hj. unfold src_of. destruct (String.eqb op "mcopy").
    + cbn. apply mwrite_other. intros [T R].
      unfold odisjoint in S2. destruct (loc_of C sr (size_lit n0)) as [ls|] eqn:Ls; try discriminate.
      assert (Cs : covers ls vs vn).
      { eapply loc_of_covers; eauto. intros m0 Q. pose proof (size_lit_val _ _ _ _ Q Hn) as Q2. inversion Q2. reflexivity. }
      apply (disjoint_sound ls lw vs vn vp n S2 Cs Hw j (snd vs + j - snd vp) Hj); [lia|]. split; auto. lia.
    + reflexivity.
Qed.

Lemma kill_write_sub C F w fc : In fc (kill_write C F w) -> In fc F.
Proof. unfold kill_write. rewrite filter_In. tauto. Qed.


Lemma ovals_length s : forall l a, ovals s l = Some a -> List.length a = List.length l.
Proof. induction l; cbn; intros a0 H. inversion H. reflexivity.
  destruct (oval s a); try discriminate. destruct (ovals s l); try discriminate. inversion H. cbn. f_equal. auto. Qed.

(* the three operands of a copy instruction *)
Lemma ovals3 s n sr d a : ovals s [n; sr; d] = Some a ->
  exists vn vs vd, a = [vn; vs; vd] /\ oval s n = Some vn /\ oval s sr = Some vs /\ oval s d = Some vd.
Proof.
  cbn. destruct (oval s n) as [vn|]; try discriminate. destruct (oval s sr) as [vs|]; try discriminate.
  destruct (oval s d) as [vd|]; try discriminate. intros H. inversion H. exists vn, vs, vd. auto.
Qed.

Theorem step_facts_sound O C i s s' F :
  cinv C s -> allholds O s F -> exec O i s = Next s' -> allholds O s' (step_facts C F i).
Proof.
  intros HI HF. destruct i as [op args outs wm wrd id ann]. unfold exec, step_facts. cbn [i_op i_args i_outs i_wm i_wrd i_id i_ann].
  intros H.
  assert (V1 : forall x v, outs = [x] -> Next (with_vars s (upd (vars s) x v)) = Next s' -> allholds O s' (kill_outs F outs)).
  { intros x v -> Q. inversion Q. subst s'. apply vars_case with (s := s); auto. intros y Ny. cbn. apply upd_other. intros ->. apply Ny. left. reflexivity. }
  case_op op "phi".
  { destruct (phi_pick (spred s) args); try discriminate. destruct outs as [|x [|? ?]]; try discriminate.
    destruct (oval s o); try discriminate. eapply V1; eauto. }
  destruct (ovals s args) as [a|] eqn:Oa; try discriminate.
  case_op op "nop". { inversion H. subst s'. eapply allholds_sub; eauto. intros fc I. apply kill_outs_in in I. tauto. }
  case_op op "assign". { destruct a as [|v [|? ?]]; try discriminate. destruct outs as [|x [|? ?]]; try discriminate. eapply V1; eauto. }
  case_op op "alloca". { destruct outs as [|x [|? ?]]; try discriminate. eapply V1; eauto. }
  case_op op "add". { destruct a as [|b [|a0 [|? ?]]]; try discriminate. destruct outs as [|x [|? ?]]; try discriminate.
    destruct (vadd a0 b); try discriminate. eapply V1; eauto. }
  case_op op "sub". { destruct a as [|b [|a0 [|? ?]]]; try discriminate. destruct outs as [|x [|? ?]]; try discriminate.
    destruct (vsub a0 b); try discriminate. eapply V1; eauto. }
  case_op op "mload". { destruct a as [|p [|? ?]]; try discriminate. destruct outs as [|x [|? ?]]; try discriminate. eapply V1; eauto. }
  case_op op "mstore".
  { destruct a as [|v [|p [|? ?]]]; try discriminate. destruct outs; try discriminate. inversion H. subst s'. rewrite kill_outs_nil.
    destruct args as [|ov [|opp [|? ?]]]; try (apply ovals_length in Oa; cbn in Oa; lia).
    cbn in Oa. destruct (oval s ov); try discriminate. destruct (oval s opp) eqn:Op; try discriminate. inversion Oa. subst.
    apply write_case; auto. intros lw Hl. eapply loc_of_covers; eauto. intros m0 Q. inversion Q. reflexivity. }
  case_op op "mcopy".
  { destruct a as [|[[?|] n] [|sp [|dp [|? ?]]]]; try discriminate. destruct outs; try discriminate. inversion H. subst s'. clear H.
    rewrite kill_outs_nil.
    destruct args as [|on [|os [|od [|? ?]]]]; try (apply ovals_length in Oa; cbn in Oa; lia).
    destruct (ovals3 _ _ _ _ _ Oa) as [vn [vs [vd [Ea [On [Os Od]]]]]]. inversion Ea. subst vn vs vd. clear Ea.
    set (w := loc_of C od (size_lit on)).
    assert (Hsz : forall m0, size_lit on = Some m0 -> n = m0).
    { intros m0 Q. pose proof (size_lit_val _ _ _ _ Q On) as Q2. inversion Q2. reflexivity. }
    assert (Hw : forall lw, w = Some lw -> covers lw dp n).
    { intros lw Hl. eapply loc_of_covers; eauto. }
    pose proof (write_case O C s F w dp n (fun j => smem s (fst sp) (snd sp + j)) HF HI Hw) as HK.
    set (s' := with_mem s (mwrite (smem s) (fst dp) (snd dp) n (fun j => smem s (fst sp) (snd sp + j)))) in *.
    destruct (is_plain_size C on); auto.
    assert (Keep : forall o vo lw, w = Some lw -> oval s o = Some vo -> odisjoint w (loc_of C o (size_lit on)) = true ->
                   forall j, 0 <= j < n -> smem s' (fst vo) (snd vo + j) = smem s (fst vo) (snd vo + j)).
    { intros o vo lw Hl Ho Dj j Hj. cbn. apply mwrite_other. intros [T R]. rewrite Hl in Dj. cbn in Dj.
      destruct (loc_of C o (size_lit on)) as [lo|] eqn:Lo; try discriminate.
      assert (Co : covers lo vo n). { eapply loc_of_covers; eauto. }
      apply (disjoint_sound lw lo dp n vo n Dj (Hw lw Hl) Co (snd vo + j - snd dp) j); [lia|auto|]. split; auto. lia. }
    assert (Wr : forall j, 0 <= j < n -> smem s' (fst dp) (snd dp + j) = smem s (fst sp) (snd sp + j)).
    { intros j Hj. exact (mwrite_in (smem s) (fst dp) (snd dp) n (fun j => smem s (fst sp) (snd sp + j)) j Hj). }
    intros fc Hin. apply in_app_or in Hin. destruct Hin as [Hin|Hin].
    { (* the copy itself *)
      destruct (odisjoint w (loc_of C os (size_lit on))) eqn:Dj; [|destruct Hin]. destruct Hin as [<-|[]].
      exists dp, sp, n. repeat split; auto. intros j Hj. unfold src_of. ceqb.
      rewrite (Wr j Hj). symmetry. destruct w as [lw|] eqn:Ew; [|discriminate]. eapply Keep; eauto. }
    apply in_app_or in Hin. destruct Hin as [Hin|Hin]; [|apply HK; exact Hin].
    (* derived: a copy of a valid copy *)
    apply in_flat_map in Hin. destruct Hin as [[opF dF sF nF] [HinF Hd]].
    destruct (operand_eqb nF on && same_val C os dF && (if String.eqb opF "mcopy" then odisjoint w (loc_of C sF (size_lit on)) else true)) eqn:Q; [|destruct Hd].
    destruct Hd as [<-|[]]. apply andb_prop in Q. destruct Q as [Q Q3]. apply andb_prop in Q. destruct Q as [Q1 Q2].
    pose proof (HF _ (kill_write_sub _ _ _ _ HinF)) as [vdF [vsF [vnF [HdF [HsF [HnF Hb]]]]]].
    assert (EnF : oval s nF = oval s on).
    { destruct nF, on; cbn in Q1; try discriminate; cbn.
      - apply Z.eqb_eq in Q1. rewrite Q1. reflexivity.
      - apply N.eqb_eq in Q1. subst. reflexivity.
      - apply N.eqb_eq in Q1. subst. reflexivity. }
    rewrite EnF, On in HnF. inversion HnF. subst vnF.
    assert (sp = vdF) by (eapply same_val_sound; eauto). subst vdF.
    exists dp, vsF, n. repeat split; auto. intros j Hj. rewrite (Wr j Hj), (Hb j Hj). unfold src_of.
    destruct (String.eqb opF "mcopy"); [|reflexivity].
    symmetry. destruct w as [lw|] eqn:Ew; [|discriminate]. eapply Keep; eauto. }
  destruct (is_nonmem_copy op) eqn:Nm.
  { destruct a as [|[[?|] n] [|sp [|dp [|? ?]]]]; try discriminate. destruct outs; try discriminate. inversion H. subst s'. clear H.
    rewrite kill_outs_nil.
    destruct args as [|on [|os [|od [|? ?]]]]; try (apply ovals_length in Oa; cbn in Oa; lia).
    destruct (ovals3 _ _ _ _ _ Oa) as [vn [vs [vd [Ea [On [Os Od]]]]]]. inversion Ea. subst vn vs vd. clear Ea.
    set (w := loc_of C od (size_lit on)).
    assert (Hw : forall lw, w = Some lw -> covers lw dp n).
    { intros lw Hl. eapply loc_of_covers; eauto. intros m0 Q. pose proof (size_lit_val _ _ _ _ Q On) as Q2. inversion Q2. reflexivity. }
    pose proof (write_case O C s F w dp n (src_byte O op s sp) HF HI Hw) as HK.
    destruct (is_plain_size C on); auto.
    intros fc [<-|Hin]; [|apply HK; exact Hin].
    exists dp, sp, n. repeat split; auto. intros j Hj. unfold src_of.
    match goal with Hm : String.eqb op "mcopy" = false |- _ => rewrite Hm end.
    cbn. rewrite mwrite_in by exact Hj. reflexivity. }
  (* oracle instructions *)
  destruct (o_step O _ a s) as [[[[o m] r] w]|]; try discriminate.
  destruct (set_outs (vars s) outs o) as [vs'|] eqn:So; try discriminate. inversion H. subst s'. clear H.
  assert (Fr : forall y, ~ In y outs -> vs' y = vars s y) by (intros y Ny; eapply set_outs_frame; eauto).
  intros fc Hin.
  assert (Hin2 : In fc (kill_outs F outs) /\ (wm = false) /\ (wrd = true -> not_rd fc = true)).
  { destruct wm; [destruct wrd; cbn in Hin; destruct Hin|]. destruct wrd.
    - apply filter_In in Hin. destruct Hin. auto.
    - repeat split; auto. discriminate. }
  destruct Hin2 as [Hk [-> Hrd]]. apply kill_outs_in in Hk. destruct Hk as [Hk Hm]. specialize (HF fc Hk).
  destruct fc as [opF d sr n]. cbn in Hm.
  assert (Q : forall oo, (forall x, In x outs -> mentions x oo = false) -> oval (mkS vs' (smem s) (if wrd then r else srd s) w (spred s)) oo = oval s oo).
  { intros oo Ho. apply oval_eq. intros y My. cbn. apply Fr. intros Iy. rewrite (Ho y Iy) in My. discriminate. }
  apply fholds_transfer with (s := s); auto.
  - apply Q. intros x Hx. specialize (Hm x Hx). apply orb_false_iff in Hm. destruct Hm as [Hm _]. apply orb_false_iff in Hm. tauto.
  - apply Q. intros x Hx. specialize (Hm x Hx). apply orb_false_iff in Hm. destruct Hm as [Hm _]. apply orb_false_iff in Hm. tauto.
  - apply Q. intros x Hx. specialize (Hm x Hx). apply orb_false_iff in Hm. tauto.
  - intros. unfold src_of, src_byte. cbn. destruct (String.eqb opF "mcopy"); auto.
    destruct (String.eqb opF "returndatacopy") eqn:Rd; auto. destruct wrd; auto.
    specialize (Hrd eq_refl). cbn in Hrd. rewrite Rd in Hrd. discriminate.
Qed.
