(* C14C / DeadCheck.v -- validator for the removal of copies into DEAD allocations (definitions only).
   f' is f with some `mcopy` turned into `nop`; D is the list of allocation ids those copies write to.  Accepted when every
   removed copy certainly writes into an allocation of D, and no instruction of f' can read an allocation of D: pointers
   into D only flow through assign / add / phi into certified variables and are used by nothing else. *)
From Coq Require Import ZArith NArith Bool List String.
From Verif Require Import C14C.CopySem C14C.CopyCheck.
Import ListNotations.
Open Scope string_scope.
Open Scope Z_scope.

Definition inD (D : list Z) (r : option Z) : bool := match r with Some z => existsb (Z.eqb z) D | None => false end.
(* the operand is certified to point into an allocation of D *)
Definition dop (C : certs) (D : list Z) (o : operand) : bool :=
  match cert_op C o with Some (r, _) => inD D r | None => false end.
Definition is_prop_op (op : string) : bool := String.eqb op "assign" || String.eqb op "add" || String.eqb op "phi".
Definition certified_out (C : certs) (i : inst) : bool :=
  match i_outs i with [x] => match clook C x with Some _ => true | None => false end | _ => false end.
(* an instruction of f' *)
Definition uses_ok (C : certs) (D : list Z) (i : inst) : bool :=
  (if existsb (dop C D) (i_args i) then is_prop_op (i_op i) && certified_out C i else true) &&
  (if String.eqb (i_op i) "alloca" && inD D (Some (i_id i)) then certified_out C i else true).
(* a pair of instructions at the same position *)
Definition dead_pair (C : certs) (D : list Z) (i i' : inst) : bool :=
  inst_eqb i i' ||
  (String.eqb (i_op i) "mcopy" && String.eqb (i_op i') "nop" &&
   match i_args i, i_outs i, i_args i', i_outs i' with
   | [_; _; d], [], [], [] => dop C D d
   | _, _, _, _ => false
   end).
Fixpoint dead_insts (C : certs) (D : list Z) (b b' : list inst) : bool :=
  match b, b' with
  | [], [] => true
  | i :: r, i' :: r' => dead_pair C D i i' && uses_ok C D i' && dead_insts C D r r'
  | _, _ => false
  end.
(* the terminator (which chooses the successor by looking at the state) holds no pointer into D *)
Definition last_nod (C : certs) (D : list Z) (b : list inst) : bool :=
  match rev b with t :: _ => negb (existsb (dop C D) (i_args t)) | [] => true end.
Fixpoint dead_blocks (C : certs) (D : list Z) (f f' : func) : bool :=
  match f, f' with
  | [], [] => true
  | b :: r, b' :: r' => last_same b b' && last_nod C D b' && dead_insts C D b b' && dead_blocks C D r r'
  | _, _ => false
  end.
Definition dead_check (C : certs) (D : list Z) (f f' : func) : bool := certs_ok f' C && dead_blocks C D f f'.
