(* C14C / CopySound4.v -- a justified rewrite preserves the state; accepted functions run in lockstep. *)
From Coq Require Import ZArith NArith Bool List String Lia.
From Verif Require Import C14C.CopySem C14C.CopyCheck C14C.CopySound1 C14C.CopySound2 C14C.CopySound3.
Import ListNotations.
Open Scope string_scope.
Open Scope Z_scope.
Local Opaque W Z.modulo.

Lemma operand_eqb_oval s a b : operand_eqb a b = true -> oval s a = oval s b.
Proof.
  destruct a, b; cbn; try discriminate; intros H.
  - apply Z.eqb_eq in H. rewrite H. reflexivity.
  - apply N.eqb_eq in H. subst. reflexivity.
  - apply N.eqb_eq in H. subst. reflexivity.
Qed.

Lemma same_new_sound C s a b vb : cinv C s -> same_new C a b = true -> oval s b = Some vb -> oval s a = Some vb.
Proof.
  intros HI H Hb. unfold same_new in H. apply orb_prop in H. destruct H as [H|H].
  - rewrite (operand_eqb_oval s a b H). exact Hb.
  - apply andb_prop in H. destruct H as [L S]. destruct a; try discriminate. cbn.
    f_equal. eapply same_val_sound; eauto; reflexivity.
Qed.

Lemma mwrite_meq_rng m m' t a n f f' : meq m m' -> (forall j, 0 <= j < n -> f j = f' j) -> meq (mwrite m t a n f) (mwrite m' t a n f').
Proof.
  intros H Hf t' c. unfold mwrite, in_rng. destruct (oeqb t' t); cbn; auto.
  destruct (a <=? c) eqn:Q1; cbn; auto. destruct (c <? a + n) eqn:Q2; cbn; auto.
  apply Z.leb_le in Q1. apply Z.ltb_lt in Q2. apply Hf. lia.
Qed.
Lemma mwrite_id m t a n f : (forall j, 0 <= j < n -> f j = m t (a + j)) -> meq (mwrite m t a n f) m.
Proof.
  intros Hf t' c. unfold mwrite, in_rng. destruct (oeqb t' t) eqn:Q; cbn; auto. apply oeqb_eq in Q. subst t'.
  destruct (a <=? c) eqn:Q1; cbn; auto. destruct (c <? a + n) eqn:Q2; cbn; auto.
  apply Z.leb_le in Q1. apply Z.ltb_lt in Q2. rewrite Hf by lia. f_equal. lia.
Qed.

Lemma nonmem_cases op : is_nonmem_copy op = true -> op = "calldatacopy" \/ op = "codecopy" \/ op = "returndatacopy" \/ op = "dloadbytes".
Proof.
  unfold is_nonmem_copy. intros H. repeat (apply orb_prop in H; destruct H as [H|H]); apply String.eqb_eq in H; auto.
Qed.

Theorem justified_sound O C F i i' s s' s1 :
  cinv C s -> allholds O s F -> seq2 s s' -> justified C F i i' = true -> exec O i s = Next s1 ->
  exists s1', exec O i' s' = Next s1' /\ seq2 s1 s1'.
Proof.
  intros HI HF R J He. pose proof R as [Ev [Em [Er [Ew Ep]]]].
  destruct i as [op args outs wm wrd id], i' as [op' args' outs' wm' wrd' id']. unfold justified in J. cbn [i_op i_args i_outs] in J.
  destruct (String.eqb op "mcopy") eqn:Eo; try discriminate. apply String.eqb_eq in Eo. subst op.
  destruct args as [|on [|os [|od [|? ?]]]]; try discriminate. destruct outs; try discriminate.
  destruct (size_lit on) as [nz|] eqn:Sz; try discriminate.
  unfold exec in He. cbn [i_op i_args i_outs] in He. ceqb.
  destruct (ovals s [on; os; od]) as [a|] eqn:Oa; try discriminate.
  destruct (ovals3 _ _ _ _ _ Oa) as [vn [vs [vd [Ea [On [Os Od]]]]]]. subst a.
  pose proof (size_lit_val _ _ _ _ Sz On). subst vn. inversion He. subst s1. clear He.
  destruct (String.eqb op' "nop") eqn:En.
  - (* R2 *)
    apply String.eqb_eq in En. subst op'. destruct args'; try discriminate. destruct outs'; try discriminate.
    exists s'. split. { unfold exec. cbn [i_op i_args i_outs]. ceqb. cbn. reflexivity. }
    apply existsb_exists in J. destruct J as [[opF dF sF nF] [Hin J]].
    repeat (apply andb_prop in J; let J2 := fresh "J" in destruct J as [J J2]).
    apply String.eqb_eq in J. subst opF. apply Z.eqb_eq in J2. subst nF.
    destruct (HF _ Hin) as [vdF [vsF [HdF [HsF Hb]]]].
    assert (vd = vdF) by (apply (same_val_sound C s od dF vd vdF HI); assumption).
    assert (vs = vsF) by (apply (same_val_sound C s os sF vs vsF HI); assumption). subst vdF vsF.
    repeat split; auto. cbn. eapply meq_trans; [|exact Em]. apply mwrite_id. intros j Hj.
    rewrite (Hb j Hj). unfold src_of. ceqb. reflexivity.
  - (* R1 *)
    destruct (is_copy_op op') eqn:Ec; try discriminate.
    destruct args' as [|on' [|os' [|od' [|? ?]]]]; try discriminate. destruct outs'; try discriminate.
    repeat (apply andb_prop in J; let J2 := fresh "J" in destruct J as [J J2]).
    apply existsb_exists in J0. destruct J0 as [[opF dF sF nF] [Hin J3]].
    repeat (apply andb_prop in J3; let J2 := fresh "J" in destruct J3 as [J3 J2]).
    apply String.eqb_eq in J3. subst opF. apply Z.eqb_eq in J4. subst nF. cbn [i_op] in *.
    destruct (HF _ Hin) as [vdF [vsF [HdF [HsF Hb]]]].
    assert (vs = vdF) by (apply (same_val_sound C s os dF vs vdF HI); assumption). subst vdF.
    assert (Os' : oval s os' = Some vsF) by (apply (same_new_sound C s os' sF vsF HI); assumption).
    assert (Oa' : ovals s' [on'; os'; od'] = Some [(None, nz); vsF; vd]).
    { rewrite <- (ovals_vars s s' _ Ev). cbn. rewrite <- (operand_eqb_oval s _ _ J), <- (operand_eqb_oval s _ _ J1), On, Os', Od. reflexivity. }
    unfold is_copy_op in Ec. apply orb_prop in Ec. destruct Ec as [Ec|Ec].
    + apply String.eqb_eq in Ec. subst op'. eexists. split. { unfold exec. cbn [i_op i_args i_outs]. ceqb. rewrite Oa'. reflexivity. }
      repeat split; auto. cbn. apply mwrite_meq_rng; auto. intros j Hj. rewrite (Hb j Hj). unfold src_of. ceqb. apply Em.
    + assert (Nm : String.eqb op' "mcopy" = false).
      { destruct (nonmem_cases _ Ec) as [ -> | [ -> | [ -> | -> ] ] ]; reflexivity. }
      eexists. split.
      { unfold exec. cbn [i_op i_args i_outs]. rewrite Oa'. rewrite Ec.
        destruct (nonmem_cases _ Ec) as [ -> | [ -> | [ -> | -> ] ] ]; ceqb; reflexivity. }
      repeat split; auto. cbn. apply mwrite_meq_rng; auto. intros j Hj. rewrite (Hb j Hj). unfold src_of. rewrite Nm.
      unfold src_byte. rewrite Er. reflexivity.
Qed.
