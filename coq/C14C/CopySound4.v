(* C14C / CopySound4.v -- a justified rewrite preserves the state; accepted functions run in lockstep. *)
From Coq Require Import ZArith NArith Bool List String Lia.
From Verif Require Import C14C.CopySem C14C.CopyCheck C14C.CopySound1 C14C.CopySound2 C14C.CopySound3.
Import ListNotations.
Open Scope string_scope.
Open Scope Z_scope.
Local Opaque W Z.modulo.

Lemma operand_eqb_oval s a b : operand_eqb a b = true -> oval s a = oval s b.
Proof.
  destruct a, b; cbn; try discriminate; intros H.
  - apply Z.eqb_eq in H. rewrite H. reflexivity.
  - apply N.eqb_eq in H. subst. reflexivity.
  - apply N.eqb_eq in H. subst. reflexivity.
Qed.

Lemma same_new_sound C s a b vb : cinv C s -> same_new C a b = true -> oval s b = Some vb -> oval s a = Some vb.
Proof.
  intros HI H Hb. unfold same_new in H. apply orb_prop in H. destruct H as [H|H].
  - rewrite (operand_eqb_oval s a b H). exact Hb.
  - apply andb_prop in H. destruct H as [L S]. destruct a; try discriminate. cbn.
    f_equal. eapply same_val_sound; eauto; reflexivity.
Qed.

Lemma mwrite_meq_rng m m' t a n f f' : meq m m' -> (forall j, 0 <= j < n -> f j = f' j) -> meq (mwrite m t a n f) (mwrite m' t a n f').
Proof.
  intros H Hf t' c. unfold mwrite, in_rng. destruct (oeqb t' t); cbn; auto.
  destruct (a <=? c) eqn:Q1; cbn; auto. destruct (c <? a + n) eqn:Q2; cbn; auto.
  apply Z.leb_le in Q1. apply Z.ltb_lt in Q2. apply Hf. lia.
Qed.
Lemma mwrite_id m t a n f : (forall j, 0 <= j < n -> f j = m t (a + j)) -> meq (mwrite m t a n f) m.
Proof.
  intros Hf t' c. unfold mwrite, in_rng. destruct (oeqb t' t) eqn:Q; cbn; auto. apply oeqb_eq in Q. subst t'.
  destruct (a <=? c) eqn:Q1; cbn; auto. destruct (c <? a + n) eqn:Q2; cbn; auto.
  apply Z.leb_le in Q1. apply Z.ltb_lt in Q2. rewrite Hf by lia. f_equal. lia.
Qed.

Lemma nonmem_cases op : is_nonmem_copy op = true -> op = "calldatacopy" \/ op = "codecopy" \/ op = "returndatacopy" \/ op = "dloadbytes".
Proof.
  unfold is_nonmem_copy. intros H. repeat (apply orb_prop in H; destruct H as [H|H]); apply String.eqb_eq in H; auto.
Qed.

Lemma operand_eqb_sym a b : operand_eqb a b = operand_eqb b a.
Proof. destruct a, b; cbn; auto using Z.eqb_sym, N.eqb_sym. Qed.

Theorem justified_sound_mcopy O C F i i' s s' s1 :
  cinv C s -> allholds O s F -> seq2 s s' -> i_op i = "mcopy" -> justified C F i i' = true -> exec O i s = Next s1 ->
  exists s1', exec O i' s' = Next s1' /\ seq2 s1 s1'.
Proof.
  intros HI HF R Eo J He. pose proof R as [Ev [Em [Er [Ew Ep]]]].
  destruct i as [op args outs wm wrd id ann], i' as [op' args' outs' wm' wrd' id' ann']. unfold justified in J. cbn [i_op i_args i_outs] in *.
  subst op. ceqb.
  destruct args as [|on [|os [|od [|? ?]]]]; try discriminate. destruct outs; try discriminate.
  unfold exec in He. cbn [i_op i_args i_outs] in He. ceqb.
  destruct (ovals s [on; os; od]) as [a|] eqn:Oa; try discriminate.
  destruct (ovals3 _ _ _ _ _ Oa) as [vn [vs [vd [Ea [On [Os Od]]]]]]. subst a.
  destruct vn as [[?|] nz]; try discriminate. inversion He. subst s1. clear He.
  destruct (String.eqb op' "nop") eqn:En.
  - (* R2 *)
    apply String.eqb_eq in En. subst op'. destruct args'; try discriminate. destruct outs'; try discriminate.
    exists s'. split. { unfold exec. cbn [i_op i_args i_outs]. ceqb. cbn. reflexivity. }
    apply existsb_exists in J. destruct J as [[opF dF sF nF] [Hin J]].
    repeat (apply andb_prop in J; let J2 := fresh "J" in destruct J as [J J2]).
    apply String.eqb_eq in J. subst opF.
    destruct (HF _ Hin) as [vdF [vsF [vnF [HdF [HsF [HnF Hb]]]]]].
    assert (EnF : oval s nF = oval s on) by (apply operand_eqb_oval; assumption).
    rewrite EnF, On in HnF. inversion HnF. subst vnF.
    assert (vd = vdF) by (apply (same_val_sound C s od dF vd vdF HI); assumption).
    assert (vs = vsF) by (apply (same_val_sound C s os sF vs vsF HI); assumption). subst vdF vsF.
    repeat split; auto. cbn. eapply meq_trans; [|exact Em]. apply mwrite_id. intros j Hj.
    rewrite (Hb j Hj). unfold src_of. ceqb. reflexivity.
  - (* R1 *)
    destruct (is_copy_op op') eqn:Ec; try discriminate.
    destruct args' as [|on' [|os' [|od' [|? ?]]]]; try discriminate. destruct outs'; try discriminate.
    repeat (apply andb_prop in J; let J2 := fresh "J" in destruct J as [J J2]).
    apply existsb_exists in J0. destruct J0 as [[opF dF sF nF] [Hin J3]].
    repeat (apply andb_prop in J3; let J2 := fresh "J" in destruct J3 as [J3 J2]).
    apply String.eqb_eq in J3. subst opF. cbn [i_op] in *.
    destruct (HF _ Hin) as [vdF [vsF [vnF [HdF [HsF [HnF Hb]]]]]].
    assert (EnF : oval s nF = oval s on) by (apply operand_eqb_oval; assumption).
    rewrite EnF, On in HnF. inversion HnF. subst vnF.
    assert (vs = vdF) by (apply (same_val_sound C s os dF vs vdF HI); assumption). subst vdF.
    assert (Os' : oval s os' = Some vsF) by (apply (same_new_sound C s os' sF vsF HI); assumption).
    assert (Oa' : ovals s' [on'; os'; od'] = Some [(None, nz); vsF; vd]).
    { rewrite <- (ovals_vars s s' _ Ev). cbn. rewrite <- (operand_eqb_oval s _ _ J), <- (operand_eqb_oval s _ _ J1), On, Os', Od. reflexivity. }
    unfold is_copy_op in Ec. apply orb_prop in Ec. destruct Ec as [Ec|Ec].
    + apply String.eqb_eq in Ec. subst op'. eexists. split. { unfold exec. cbn [i_op i_args i_outs]. ceqb. rewrite Oa'. reflexivity. }
      repeat split; auto. cbn. apply mwrite_meq_rng; auto. intros j Hj. rewrite (Hb j Hj). unfold src_of. ceqb. apply Em.
    + assert (Nm : String.eqb op' "mcopy" = false).
      { destruct (nonmem_cases _ Ec) as [ -> | [ -> | [ -> | -> ] ] ]; reflexivity. }
      eexists. split.
      { unfold exec. cbn [i_op i_args i_outs]. rewrite Oa'. rewrite Ec.
        destruct (nonmem_cases _ Ec) as [ -> | [ -> | [ -> | -> ] ] ]; ceqb; reflexivity. }
      repeat split; auto. cbn. apply mwrite_meq_rng; auto. intros j Hj. rewrite (Hb j Hj). unfold src_of. rewrite Nm.
      unfold src_byte. rewrite Er. reflexivity.
Qed.

(* ---- R4: read-only invoke operands *)
Lemma ovals_nth s : forall l a q vq, ovals s l = Some a -> nth_error a q = Some vq -> exists o, nth_error l q = Some o /\ oval s o = Some vq.
Proof.
  induction l as [|o t IH]; intros a q vq H Hn; cbn in H.
  - inversion H. subst. destruct q; discriminate.
  - destruct (oval s o) as [v|] eqn:Ov; try discriminate. destruct (ovals s t) as [r|] eqn:Or; try discriminate. inversion H. subst a.
    destruct q; cbn in *.
    + inversion Hn. subst. exists o. auto.
    + eapply IH; eauto.
Qed.
Lemma nth_combine {A B} : forall (l : list A) (m : list B) q x y, nth_error l q = Some x -> nth_error m q = Some y -> In (x, y) (combine l m).
Proof.
  induction l as [|a t IH]; intros m q x y H1 H2; destruct q, m; cbn in *; try discriminate.
  - inversion H1. inversion H2. left. reflexivity.
  - right. eapply IH; eauto.
Qed.
Lemma operand_eqx_oval s a b : operand_eqx a b = true -> oval s a = oval s b.
Proof. destruct a, b; cbn; try discriminate; intros H; [apply Z.eqb_eq in H|apply N.eqb_eq in H|apply N.eqb_eq in H]; subst; reflexivity. Qed.

Lemma ro_args_sound O C F s all_new all_ann all' : cinv C s -> allholds O s F -> ovals s all_new = Some all' ->
  forall ops ops' ann a, ro_args_ok C F all_new all_ann ops ops' ann = true -> ovals s ops = Some a ->
  exists a', ovals s ops' = Some a' /\ args_rel s all' all_ann a a' ann.
Proof.
  intros HI HF Hall. induction ops as [|x r IH]; intros ops' ann a H Ho.
  - destruct ops', ann; cbn [ro_args_ok] in H; try discriminate. cbn in Ho. inversion Ho. exists []. split; cbn; auto.
  - destruct ops' as [|x' r'], ann as [|an rn]; cbn [ro_args_ok] in H; try discriminate. apply andb_prop in H. destruct H as [Hx Hr].
    cbn in Ho. destruct (oval s x) as [v|] eqn:Ov; try discriminate. destruct (ovals s r) as [ar|] eqn:Or; try discriminate. inversion Ho. subst a.
    destruct (IH r' rn ar Hr eq_refl) as [ar' [Har' Rel]].
    apply orb_prop in Hx. destruct Hx as [Hx|Hx].
    + exists (v :: ar'). cbn. rewrite <- (operand_eqx_oval s _ _ Hx), Ov, Har'. split; auto.
    + destruct an as [sz|]; try discriminate. apply andb_prop in Hx. destruct Hx as [Hf Hal].
      apply existsb_exists in Hf. destruct Hf as [[opF dF sF nF] [Hin J]].
      repeat (apply andb_prop in J; let J2 := fresh "J" in destruct J as [J J2]).
      apply String.eqb_eq in J. subst opF.
      destruct (HF _ Hin) as [vdF [vsF [vnF [HdF [HsF [HnF Hb]]]]]].
      assert (v = vdF) by (apply (same_val_sound C s x dF v vdF HI); assumption). subst vdF.
      assert (Ox' : oval s x' = Some vsF) by (apply (same_new_sound C s x' sF vsF HI); assumption).
      exists (vsF :: ar'). cbn. rewrite Ox', Har'. split; auto. split; auto. right.
      exists sz, vnF. refine (conj eq_refl (conj _ (conj _ _))).
      * rewrite (operand_eqb_oval s sz nF) by assumption. exact HnF.
      * intros j Hj. rewrite (Hb j Hj). unfold src_of. ceqb. reflexivity.
      * intros Hne q vq Hq Hv.
        rewrite forallb_forall in Hal. destruct (ovals_nth s _ _ _ _ Hall Hv) as [oq [Hoq Hvq]].
        specialize (Hal (oq, None) (nth_combine _ _ _ _ _ Hoq Hq)). cbn [fst snd] in Hal.
        destruct oq as [z|y|l]; [| |cbn in Hvq; inversion Hvq; cbn; intros E0; apply Hne; symmetry; exact E0].
        -- (* a literal: plain *)
           cbn in Hvq. inversion Hvq. cbn. intros E0. apply Hne. symmetry. exact E0.
        -- unfold region_of in Hal.
           destruct (cert_op C x') as [[rg kx]|] eqn:Cx.
           ++ destruct (cert_op_val C s x' rg kx vsF HI Cx Ox') as [A1 _].
              destruct rg as [rg|]; [|exfalso; apply Hne; exact A1].
              destruct (cert_op C (OVar y)) as [[rq kq]|] eqn:Cq; try discriminate.
              destruct (cert_op_val C s (OVar y) rq kq vq HI Cq Hvq) as [B1 _]. rewrite A1, B1. intros E0. rewrite E0 in Hal.
              cbn in Hal. rewrite Z.eqb_refl in Hal. discriminate.
           ++ destruct (cert_op C (OVar y)) as [[[rq|] kq]|] eqn:Cq; try discriminate.
              destruct (cert_op_val C s (OVar y) None kq vq HI Cq Hvq) as [B1 _]. rewrite B1. intros E0. apply Hne. symmetry. exact E0.
Qed.

Lemma ann_eqb_eq a b : ann_eqb a b = true -> a = b.
Proof. destruct a as [p|], b as [q|]; cbn; try discriminate; auto. intros H. f_equal.
  destruct p, q; cbn in H; try discriminate; f_equal; try (apply Z.eqb_eq; exact H); apply N.eqb_eq; exact H. Qed.
Lemma list_eqb_eq0 {A} (eqb : A -> A -> bool) : (forall x y, eqb x y = true -> x = y) -> forall l m, list_eqb eqb l m = true -> l = m.
Proof. intros H. induction l; destruct m; cbn; try discriminate; auto. intros Q. apply andb_prop in Q. destruct Q as [Q1 Q2].
  f_equal; auto. Qed.

Definition out_rel (a b : outcome) : Prop :=
  match a with Stuck => True | Halt => b = Halt | Next s1 => exists s1', b = Next s1' /\ seq2 s1 s1' end.

Theorem justified_sound_invoke O C F i i' s s' :
  oracle_ext O -> ro_uniform O -> cinv C s -> allholds O s F -> seq2 s s' -> i_op i = "invoke" -> justified C F i i' = true ->
  out_rel (exec O i s) (exec O i' s').
Proof.
  intros Hext Hro HI HF R Eo J. pose proof R as [Ev [Em [Er [Ew Ep]]]].
  unfold justified in J. rewrite Eo in J. ceqb.
  repeat (apply andb_prop in J; let J2 := fresh "J" in destruct J as [J J2]).
  apply String.eqb_eq in J. apply (list_eqb_eq0 N.eqb (fun x y => proj1 (N.eqb_eq x y))) in J5.
  apply Bool.eqb_prop in J4. apply Bool.eqb_prop in J3. apply Z.eqb_eq in J2. apply (list_eqb_eq0 _ ann_eqb_eq) in J1.
  unfold exec. rewrite Eo, J. ceqb.
  destruct (ovals s (i_args i)) as [a|] eqn:Oa; [|exact I].
  assert (Hall : exists all', ovals s (i_args i') = Some all').
  { (* the new operands have values: shown together with the relation below; first a weak run to get them *)
    destruct (ovals s (i_args i')) as [x|] eqn:Q; [eauto|].
    exfalso. assert (G : forall all_new all_ann ops ops' ann a0, ro_args_ok C F all_new all_ann ops ops' ann = true -> ovals s ops = Some a0 -> ovals s ops' <> None).
    { clear - HI HF. induction ops as [|x r IH]; intros ops' ann a0 H Ho; destruct ops' as [|x' r'], ann as [|an rn]; cbn [ro_args_ok] in H; try discriminate.
      apply andb_prop in H. destruct H as [Hx Hr]. cbn in Ho.
        destruct (oval s x) as [v|] eqn:Ov; try discriminate. destruct (ovals s r) as [ar|] eqn:Or; try discriminate.
        specialize (IH r' rn ar Hr eq_refl). cbn. destruct (ovals s r'); [|contradiction].
        apply orb_prop in Hx. destruct Hx as [Hx|Hx].
        + rewrite <- (operand_eqx_oval s _ _ Hx), Ov. intros Q0. discriminate Q0.
        + destruct an as [sz|]; try discriminate. apply andb_prop in Hx. destruct Hx as [Hf _].
          apply existsb_exists in Hf. destruct Hf as [[opF dF sF nF] [Hin J]].
          repeat (apply andb_prop in J; let J2 := fresh "J" in destruct J as [J J2]).
          destruct (HF _ Hin) as [vdF [vsF [vnF [HdF [HsF [HnF Hb]]]]]].
          rewrite (same_new_sound C s x' sF vsF HI) by assumption. intros Q0. discriminate Q0. }
    exact (G _ _ _ _ _ _ J0 Oa Q). }
  destruct Hall as [all' Hall].
  destruct (ro_args_sound O C F s (i_args i') (i_ann i) all' HI HF Hall _ _ _ _ J0 Oa) as [a' [Ha' Rel]].
  rewrite Ha' in Hall. inversion Hall. subst all'.
  rewrite <- (ovals_vars s s' _ Ev), Ha'.
  assert (SB : same_but_args i i') by (unfold same_but_args; repeat split; congruence).
  pose proof (Hro i i' a a' s s' R Eo SB Rel) as Hs.
  destruct (o_step O i a s) as [[[[o m] r] w]|]; destruct (o_step O i' a' s') as [[[[o' m'] r'] w']|]; cbn in Hs; try contradiction; cbn; auto.
  destruct Hs as [-> [Hm [-> ->]]]. rewrite <- Ev, <- J5.
  destruct (set_outs (vars s) (i_outs i) o'); [|exact I]. eexists. split; [reflexivity|].
  rewrite <- J4, <- J3. repeat split; cbn; auto. destruct (i_wm i); auto. destruct (i_wrd i); auto.
Qed.
