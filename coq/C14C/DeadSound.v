(* C14C / DeadSound.v -- dead_copy_sound: removing copies into allocations that nothing can read preserves the behaviour
   up to the contents of those allocations. *)
From Coq Require Import ZArith NArith Bool List String Lia.
From Verif Require Import C14C.CopySem C14C.CopyCheck C14C.CopySound1 C14C.CopySound2 C14C.CopySound3 C14C.CopySound C14C.DeadCheck.
Import ListNotations.
Open Scope string_scope.
Open Scope Z_scope.
Local Opaque W Z.modulo.

Definition meqD (D : list Z) (m m' : mem) : Prop := forall t a, inD D t = false -> m t a = m' t a.
Definition seqD (D : list Z) (s s' : state) : Prop :=
  vars s = vars s' /\ meqD D (smem s) (smem s') /\ srd s = srd s' /\ sworld s = sworld s' /\ spred s = spred s'.
Definition nodv (D : list Z) (a : list val) : Prop := forall v, In v a -> inD D (fst v) = false.
(* an oracle instruction that is given no pointer into D neither depends on nor changes (visibly) the allocations of D *)
Definition oracle_local (O : oracle) (D : list Z) : Prop :=
  (forall i args s s', seqD D s s' -> nodv D args ->
     match o_step O i args s, o_step O i args s' with
     | Some (o, m, r, w), Some (o', m', r', w') => o = o' /\ meqD D m m' /\ r = r' /\ w = w'
     | None, None => True
     | _, _ => False
     end) /\
  (forall i args s s', seqD D s s' -> nodv D args -> o_next O i args s = o_next O i args s').
(* every variable that holds a pointer into D is certified *)
Definition dinv (C : certs) (D : list Z) (s : state) : Prop :=
  forall x v, vars s x = Some v -> inD D (fst v) = true -> clook C x <> None.
Definition rel_outD (D : list Z) (a b : outcome) : Prop :=
  match a, b with Next x, Next y => seqD D x y | Halt, Halt => True | Stuck, Stuck => True | _, _ => False end.

Lemma op_dcert C D s o v : cinv C s -> dinv C D s -> oval s o = Some v -> inD D (fst v) = true -> dop C D o = true.
Proof.
  intros HI HD Ho Hd. destruct o as [z|x|l]; cbn in Ho; try (inversion Ho; subst; cbn in Hd; discriminate).
  pose proof (HD x v Ho Hd) as Hc. unfold dop. cbn. destruct (clook C x) as [[r k]|] eqn:Cx; [|contradiction].
  destruct (HI x r k v Cx Ho) as [A _]. rewrite <- A. exact Hd.
Qed.
Lemma dop_exists C D o args : In o args -> dop C D o = true -> existsb (dop C D) args = true.
Proof. intros. apply existsb_exists. eauto. Qed.
Lemma ovals_in s : forall l a v, ovals s l = Some a -> In v a -> exists o, In o l /\ oval s o = Some v.
Proof.
  induction l as [|o t IH]; intros a v H Hv; cbn in H.
  - inversion H. subst. destruct Hv.
  - destruct (oval s o) as [w|] eqn:Ov; try discriminate. destruct (ovals s t) as [r|] eqn:Or; try discriminate. inversion H. subst a.
    destruct Hv as [<-|Hv]. exists o. split; auto. left; auto. destruct (IH r v eq_refl Hv) as [o' [I1 I2]]. exists o'. split; auto. right; auto.
Qed.
Lemma nod_of C D s args a : cinv C s -> dinv C D s -> existsb (dop C D) args = false -> ovals s args = Some a -> nodv D a.
Proof.
  intros HI HD He Ho v Hv. destruct (inD D (fst v)) eqn:Q; auto.
  destruct (ovals_in s _ _ _ Ho Hv) as [o [Io Eo]]. rewrite (dop_exists C D o args Io (op_dcert C D s o v HI HD Eo Q)) in He. discriminate.
Qed.

Lemma mwrite_meqD D m m' t a n f f' : meqD D m m' -> (forall j, f j = f' j) -> meqD D (mwrite m t a n f) (mwrite m' t a n f').
Proof. intros H Hf t' c Ht. unfold mwrite. destruct (oeqb t' t && in_rng a n c); auto. Qed.
Lemma word_of_meqD D m m' t : meqD D m m' -> inD D t = false -> forall k a acc, word_of m t a k acc = word_of m' t a k acc.
Proof. intros H Ht. induction k; intros; cbn; auto. rewrite (H t a Ht). apply IHk. Qed.
Lemma mwrite_outD D m t a n f : inD D t = true -> meqD D (mwrite m t a n f) m.
Proof. intros Ht t' c Ht'. unfold mwrite. destruct (oeqb t' t) eqn:Q; auto. apply oeqb_eq in Q. subst. congruence. Qed.
Lemma meqD_trans D a b c : meqD D a b -> meqD D b c -> meqD D a c.
Proof. intros H1 H2 t x Ht. rewrite H1 by auto. apply H2. auto. Qed.

Lemma uses_nod C D i s a : cinv C s -> dinv C D s -> uses_ok C D i = true -> is_prop_op (i_op i) = false -> ovals s (i_args i) = Some a -> nodv D a.
Proof.
  intros HI HD Hu Hp Ho. unfold uses_ok in Hu. apply andb_prop in Hu. destruct Hu as [Hu _].
  destruct (existsb (dop C D) (i_args i)) eqn:Q. { rewrite Hp in Hu. discriminate. } eapply nod_of; eauto.
Qed.

Lemma exec_seqD O C D i s s' : oracle_local O D -> seqD D s s' -> cinv C s -> dinv C D s -> uses_ok C D i = true ->
  rel_outD D (exec O i s) (exec O i s').
Proof.
  intros [Hs _] R HI HD Hu. pose proof R as [Ev [Em [Er [Ew Ep]]]].
  pose proof (uses_nod C D i s) as Hn. specialize (fun a => Hn a HI HD Hu).
  destruct i as [op args outs wm wrd id ann]. unfold exec. cbn [i_op i_args i_outs i_wm i_wrd i_id i_ann] in *. rewrite <- Ep.
  case_op op "phi".
  { destruct (phi_pick (spred s) args) as [o|]; [|exact I]. destruct outs as [|x [|? ?]]; try exact I.
    rewrite <- (oval_vars s s' o Ev). destruct (oval s o); [|exact I]. cbn. unfold with_vars. cbn. rewrite Ev. repeat split; auto. }
  rewrite <- (ovals_vars s s' _ Ev). destruct (ovals s args) as [a|] eqn:Oa; [|exact I].
  case_op op "nop". { exact R. }
  case_op op "assign".
  { destruct a as [|v [|? ?]]; try exact I. destruct outs as [|x [|? ?]]; try exact I. cbn. rewrite Ev. repeat split; auto. }
  case_op op "alloca".
  { destruct outs as [|x [|? ?]]; try exact I. cbn. rewrite Ev. repeat split; auto. }
  case_op op "add".
  { destruct a as [|b [|a0 [|? ?]]]; try exact I. destruct outs as [|x [|? ?]]; try exact I.
    destruct (vadd a0 b); [|exact I]. cbn. rewrite Ev. repeat split; auto. }
  case_op op "sub".
  { destruct a as [|b [|a0 [|? ?]]]; try exact I. destruct outs as [|x [|? ?]]; try exact I.
    destruct (vsub a0 b); [|exact I]. cbn. rewrite Ev. repeat split; auto. }
  case_op op "mload".
  { specialize (Hn a eq_refl eq_refl). destruct a as [|p [|? ?]]; try exact I. destruct outs as [|x [|? ?]]; try exact I.
    assert (Hl : mload (smem s) p = mload (smem s') p).
    { unfold mload. apply (word_of_meqD D); auto. apply Hn. left. reflexivity. }
    rewrite Hl. cbn. rewrite Ev. repeat split; auto. }
  case_op op "mstore".
  { destruct a as [|v [|p [|? ?]]]; try exact I. destruct outs; try exact I. cbn.
    repeat split; auto. cbn. apply mwrite_meqD; auto. }
  case_op op "mcopy".
  { specialize (Hn a eq_refl eq_refl). destruct a as [|[[?|] n] [|sp [|dp [|? ?]]]]; try exact I. destruct outs; try exact I. cbn.
    repeat split; auto. cbn. apply mwrite_meqD; auto. intros j. apply Em. apply Hn. right. left. reflexivity. }
  destruct (is_nonmem_copy op).
  { destruct a as [|[[?|] n] [|sp [|dp [|? ?]]]]; try exact I. destruct outs; try exact I. cbn.
    repeat split; auto. cbn. apply mwrite_meqD; auto. intros j. unfold src_byte. rewrite Er. reflexivity. }
  assert (Hp : is_prop_op op = false).
  { unfold is_prop_op. repeat match goal with Hq : String.eqb op _ = false |- _ => rewrite Hq; clear Hq end. reflexivity. }
  specialize (Hn a Hp eq_refl). specialize (Hs (mkI op args outs wm wrd id ann) a s s' R Hn).
  destruct (o_step O _ a s) as [[[[o m] r] w]|]; destruct (o_step O _ a s') as [[[[o' m'] r'] w']|]; try contradiction; auto.
  destruct Hs as [-> [Hm [-> ->]]]. rewrite <- Ev.
  destruct (set_outs (vars s) outs o'); [|exact I]. cbn.
  repeat split; cbn; auto. destruct wm; auto. destruct wrd; auto.
Qed.

(* ---- the invariant dinv *)
Lemma phi_pick_in p : forall ops o, phi_pick p ops = Some o -> In o ops.
Proof.
  fix IH 1. intros ops o H. destruct ops as [|[z|x|l] [|o' t]]; cbn in H; try discriminate.
  destruct (N.eqb l p). inversion H. subst. right. left. reflexivity. right. right. apply IH. exact H.
Qed.
Lemma set_outs_plain outs : forall vs l vs' x, set_outs vs outs l = Some vs' -> In x outs -> exists z, vs' x = Some (None, z).
Proof.
  induction outs as [|y t IH]; intros vs l vs' x H Hx; destruct l; cbn in H; try discriminate. destruct Hx.
  destruct (in_dec N.eq_dec x t) as [It|Nt].
  - eapply IH; eauto.
  - destruct Hx as [->|Hx]; [|contradiction]. rewrite (set_outs_frame t _ _ _ x H Nt). rewrite upd_same. eauto.
Qed.
Lemma certified_out_look C i x : certified_out C i = true -> In x (i_outs i) -> clook C x <> None.
Proof.
  unfold certified_out. destruct (i_outs i) as [|y [|? ?]]; try discriminate. intros H [->|[]]. destruct (clook C x); [discriminate|discriminate].
Qed.

Lemma exec_dinv O C D i s s1 : cinv C s -> dinv C D s -> uses_ok C D i = true -> exec O i s = Next s1 -> dinv C D s1.
Proof.
  intros HI HD Hu He x v Hv Hd.
  destruct (in_dec N.eq_dec x (i_outs i)) as [Io|No].
  2:{ rewrite (exec_frame O i s s1 x He No) in Hv. eapply HD; eauto. }
  unfold uses_ok in Hu. apply andb_prop in Hu. destruct Hu as [Hu1 Hu2].
  (* a D-certified operand forces a certified output *)
  assert (K : forall o w, In o (i_args i) -> oval s o = Some w -> inD D (fst w) = true -> is_prop_op (i_op i) = true /\ clook C x <> None).
  { intros o w Io' Ho Hw. rewrite (dop_exists C D o _ Io' (op_dcert C D s o w HI HD Ho Hw)) in Hu1.
    apply andb_prop in Hu1. destruct Hu1 as [P Q]. split; auto. eapply certified_out_look; eauto. }
  destruct i as [op args outs wm wrd id ann]. unfold exec in He. cbn [i_op i_args i_outs i_wm i_wrd i_id i_ann] in *.
  case_op op "phi".
  { destruct (phi_pick (spred s) args) as [o|] eqn:P; try discriminate. destruct outs as [|x0 [|? ?]]; try discriminate.
    destruct (oval s o) as [w|] eqn:Ov; try discriminate. inversion He. subst s1. destruct Io as [<-|[]]. cbn in Hv. rewrite upd_same in Hv.
    inversion Hv. subst w. apply (K o v (phi_pick_in _ _ _ P) Ov Hd). }
  destruct (ovals s args) as [a|] eqn:Oa; try discriminate.
  case_op op "nop". { inversion He. subst s1. eapply HD; eauto. }
  case_op op "assign".
  { destruct args as [|o [|? ?]]; try (apply ovals_length in Oa; destruct a as [|? [|? ?]]; cbn in Oa; try lia; discriminate).
    cbn in Oa. destruct (oval s o) as [w|] eqn:Ov; try discriminate. inversion Oa. subst a.
    destruct outs as [|x0 [|? ?]]; try discriminate. inversion He. subst s1. destruct Io as [<-|[]]. cbn in Hv. rewrite upd_same in Hv.
    inversion Hv. subst w. apply (K o v (or_introl eq_refl) Ov Hd). }
  case_op op "alloca".
  { destruct outs as [|x0 [|? ?]]; try discriminate. inversion He. subst s1. destruct Io as [<-|[]]. cbn in Hv. rewrite upd_same in Hv.
    inversion Hv. subst v. cbn [fst] in Hd. rewrite Hd in Hu2. cbn in Hu2. eapply (certified_out_look C (mkI "alloca" args [x0] wm wrd id ann)); eauto. left. reflexivity. }
  case_op op "add".
  { destruct args as [|ob [|oa [|? ?]]]; try (apply ovals_length in Oa; destruct a as [|? [|? [|? ?]]]; cbn in Oa; try lia; discriminate).
    cbn in Oa. destruct (oval s ob) as [vb|] eqn:Ob; try discriminate. destruct (oval s oa) as [va|] eqn:Oaa; try discriminate. inversion Oa. subst a.
    destruct outs as [|x0 [|? ?]]; try discriminate. destruct (vadd va vb) as [w|] eqn:V; try discriminate.
    inversion He. subst s1. destruct Io as [<-|[]]. cbn in Hv. rewrite upd_same in Hv. inversion Hv. subst w.
    destruct va as [[ra|] ka], vb as [[rb|] kb]; cbn in V; inversion V; subst v; cbn [fst] in Hd; try discriminate.
    - apply (K oa _ (or_intror (or_introl eq_refl)) Oaa Hd).
    - apply (K ob _ (or_introl eq_refl) Ob Hd). }
  case_op op "sub".
  { destruct args as [|ob [|oa [|? ?]]]; try (apply ovals_length in Oa; destruct a as [|? [|? [|? ?]]]; cbn in Oa; try lia; discriminate).
    cbn in Oa. destruct (oval s ob) as [vb|] eqn:Ob; try discriminate. destruct (oval s oa) as [va|] eqn:Oaa; try discriminate. inversion Oa. subst a.
    destruct outs as [|x0 [|? ?]]; try discriminate. destruct (vsub va vb) as [w|] eqn:V; try discriminate.
    inversion He. subst s1. destruct Io as [<-|[]]. cbn in Hv. rewrite upd_same in Hv. inversion Hv. subst w.
    destruct va as [[ra|] ka], vb as [[rb|] kb]; cbn in V; try discriminate.
    - destruct (ra =? rb); inversion V; subst v; cbn in Hd; discriminate.
    - inversion V. subst v. cbn [fst] in Hd. destruct (K oa _ (or_intror (or_introl eq_refl)) Oaa Hd) as [P _]. discriminate.
    - inversion V. subst v. cbn in Hd. discriminate. }
  case_op op "mload".
  { destruct a as [|p [|? ?]]; try discriminate. destruct outs as [|x0 [|? ?]]; try discriminate. inversion He. subst s1.
    destruct Io as [<-|[]]. cbn [vars with_vars] in Hv. rewrite upd_same in Hv.
    assert (Ev : v = (None, mload (smem s) p)) by congruence. subst v. cbn [fst inD] in Hd. discriminate. }
  case_op op "mstore". { destruct a as [|? [|? [|? ?]]]; try discriminate. destruct outs; try discriminate. destruct Io. }
  case_op op "mcopy". { destruct a as [|[[?|] ?] [|? [|? [|? ?]]]]; try discriminate. destruct outs; try discriminate. destruct Io. }
  destruct (is_nonmem_copy op). { destruct a as [|[[?|] ?] [|? [|? [|? ?]]]]; try discriminate. destruct outs; try discriminate. destruct Io. }
  destruct (o_step O _ a s) as [[[[o m] r] w]|]; try discriminate.
  destruct (set_outs (vars s) outs o) as [vs'|] eqn:So; try discriminate. inversion He. subst s1. cbn in Hv.
  destruct (set_outs_plain _ _ _ _ x So Io) as [z Hz]. rewrite Hz in Hv. inversion Hv. subst v. cbn in Hd. discriminate.
Qed.

Definition is_ptr_op (op : string) : bool :=
  String.eqb op "phi" || String.eqb op "assign" || String.eqb op "alloca" || String.eqb op "add" || String.eqb op "sub".
(* every instruction that is not pointer-producing defines plain words only *)
Lemma exec_dinv_plain O C D i s s1 : dinv C D s -> is_ptr_op (i_op i) = false -> exec O i s = Next s1 -> dinv C D s1.
Proof.
  intros HD Ptr He x v Hv Hd.
  destruct (in_dec N.eq_dec x (i_outs i)) as [Io|No].
  2:{ rewrite (exec_frame O i s s1 x He No) in Hv. eapply HD; eauto. }
  destruct i as [op args outs wm wrd id ann]. unfold exec in He. unfold is_ptr_op in Ptr. cbn [i_op i_args i_outs i_wm i_wrd i_id i_ann] in *.
  apply orb_false_iff in Ptr. destruct Ptr as [Ptr P5]. apply orb_false_iff in Ptr. destruct Ptr as [Ptr P4].
  apply orb_false_iff in Ptr. destruct Ptr as [Ptr P3]. apply orb_false_iff in Ptr. destruct Ptr as [P1 P2].
  rewrite P1 in He. destruct (ovals s args) as [a|]; try discriminate.
  case_op op "nop". { inversion He. subst s1. apply (HD x v Hv Hd). }
  rewrite P2, P3, P4, P5 in He.
  case_op op "mload".
  { destruct a as [|p [|? ?]]; try discriminate. destruct outs as [|x0 [|? ?]]; try discriminate. inversion He. subst s1.
    destruct Io as [<-|[]]. cbn [vars with_vars] in Hv. rewrite upd_same in Hv.
    assert (Ev : v = (None, mload (smem s) p)) by congruence. subst v. cbn [fst inD] in Hd. discriminate. }
  case_op op "mstore". { destruct a as [|? [|? [|? ?]]]; try discriminate. destruct outs; try discriminate. destruct Io. }
  case_op op "mcopy". { destruct a as [|[[?|] ?] [|? [|? [|? ?]]]]; try discriminate. destruct outs; try discriminate. destruct Io. }
  destruct (is_nonmem_copy op). { destruct a as [|[[?|] ?] [|? [|? [|? ?]]]]; try discriminate. destruct outs; try discriminate. destruct Io. }
  destruct (o_step O _ a s) as [[[[o m] r] w]|]; try discriminate.
  destruct (set_outs (vars s) outs o) as [vs'|] eqn:So; try discriminate. inversion He. subst s1. cbn in Hv.
  destruct (set_outs_plain _ _ _ _ x So Io) as [z Hz]. rewrite Hz in Hv. inversion Hv. subst v. cbn in Hd. discriminate.
Qed.

(* ---- lockstep *)
Definition brelD (C : certs) (D : list Z) (r r' : bres) : Prop :=
  match r, r' with
  | BStuck, _ => True
  | BHalt, BHalt => True
  | BNext s1 l, BNext s1' l' => seqD D s1 s1' /\ l = l' /\ cinv C s1 /\ dinv C D s1
  | _, _ => False
  end.
Definition rel_resD (D : list Z) (r r' : result) : Prop :=
  match r, r' with
  | StuckR, _ => True
  | Done a, Done b => seqD D a b
  | Halted a, Halted b => seqD D a b
  | OutOfFuel, OutOfFuel => True
  | _, _ => False
  end.
Lemma last_nod_cons C D i l : l <> [] -> last_nod C D (i :: l) = last_nod C D l.
Proof. intros N. destruct (rev_head i l N) as [t [q [R1 R2]]]. unfold last_nod. rewrite R1, R2. reflexivity. Qed.

Section Dead.
Variable O : oracle.
Variable C : certs.
Variable D : list Z.
Variable f' : func.
Hypothesis Hloc : oracle_local O D.
Hypothesis Hok : certs_ok f' C = true.

Lemma dead_block_lockstep : forall b b' s s',
  (forall i, In i b' -> In i (all_insts f')) -> cinv C s -> dinv C D s -> seqD D s s' ->
  dead_insts C D b b' = true -> last_same b b' = true -> last_nod C D b' = true ->
  brelD C D (exec_block O b s) (exec_block O b' s').
Proof.
  induction b as [|i r IH]; intros b' s s' Hin HI HD R Hc Hl Hn.
  - destruct b'; try discriminate. cbn. auto.
  - destruct b' as [|i' r']; try discriminate. cbn [dead_insts] in Hc. apply andb_prop in Hc. destruct Hc as [Hc Hr].
    apply andb_prop in Hc. destruct Hc as [Hp Hu].
    destruct r as [|i2 r].
    + destruct r'; try discriminate. unfold last_same in Hl. cbn in Hl. apply inst_eqb_eq in Hl. subst i'.
      cbn [exec_block]. pose proof R as [Ev _]. rewrite <- (ovals_vars s s' _ Ev).
      destruct (ovals s (i_args i)) as [a|] eqn:Oa; [|exact I].
      unfold last_nod in Hn. cbn in Hn. apply negb_true_iff in Hn.
      destruct Hloc as [_ Hnx]. rewrite <- (Hnx i a s s' R (nod_of C D s _ a HI HD Hn Oa)).
      destruct (o_next O i a s) as [l|]; [match goal with |- context [if ?c then BNext _ _ else _] => destruct c end|]; unfold brelD; exact (conj R (conj eq_refl (conj HI HD))).
    + destruct r' as [|i2' r']; try discriminate.
      rewrite last_same_cons in Hl by discriminate. rewrite last_nod_cons in Hn by discriminate.
      change (exec_block O (i :: i2 :: r) s) with (match exec O i s with Stuck => BStuck | Halt => BHalt | Next s1 => exec_block O (i2 :: r) s1 end).
      change (exec_block O (i' :: i2' :: r') s') with (match exec O i' s' with Stuck => BStuck | Halt => BHalt | Next s1 => exec_block O (i2' :: r') s1 end).
      assert (Hin2 : forall j, In j (i2' :: r') -> In j (all_insts f')) by (intros j Ij; apply Hin; right; exact Ij).
      apply orb_prop in Hp. destruct Hp as [Hp|Hp].
      * apply inst_eqb_eq in Hp. subst i'. pose proof (exec_seqD O C D i s s' Hloc R HI HD Hu) as X.
        destruct (exec O i s) as [s1| |] eqn:He; destruct (exec O i s') as [s1'| |]; cbn in X; try contradiction; auto.
        apply IH; auto.
        -- eapply exec_cinv; eauto. apply Hin. left. reflexivity.
        -- eapply exec_dinv; eauto.
      * (* a removed copy *)
        apply andb_prop in Hp. destruct Hp as [Hp Hd]. apply andb_prop in Hp. destruct Hp as [Hm Hnop].
        apply String.eqb_eq in Hm. apply String.eqb_eq in Hnop.
        destruct i as [op args outs wm wrd id ann], i' as [op' args' outs' wm' wrd' id' ann']. cbn [i_op i_args i_outs] in *. subst op op'.
        destruct args as [|on [|os [|od [|? ?]]]]; try discriminate. destruct outs; try discriminate.
        destruct args'; try discriminate. destruct outs'; try discriminate.
        unfold exec at 2. cbn [i_op i_args i_outs]. ceqb. cbn [ovals].
        unfold exec. cbn [i_op i_args i_outs]. ceqb.
        destruct (ovals s [on; os; od]) as [a|] eqn:Oa; [|exact I].
        destruct (ovals3 _ _ _ _ _ Oa) as [vn [vs [vd [Ea [On [Os Od]]]]]]. subst a.
        destruct vn as [[?|] n]; [exact I|].
        apply IH; auto.
        unfold dop in Hd. destruct (cert_op C od) as [[rd kd]|] eqn:Cd; try discriminate.
        destruct (cert_op_val C s od rd kd vd HI Cd Od) as [A _].
        destruct R as [Ev [Em [Er [Ew Ep]]]]. repeat split; auto. cbn.
        eapply meqD_trans; [|exact Em]. apply mwrite_outD. rewrite A. exact Hd.
Qed.

Variable f : func.
Hypothesis Hdb : dead_blocks C D f f' = true.

Lemma dead_blocks_nth : forall g g', dead_blocks C D g g' = true -> forall n,
  match nth_error g n with
  | None => nth_error g' n = None
  | Some b => exists b', nth_error g' n = Some b' /\ last_same b b' = true /\ last_nod C D b' = true /\ dead_insts C D b b' = true
  end.
Proof.
  induction g as [|b r IH]; intros g' H n.
  - destruct g'; try discriminate. destruct n; reflexivity.
  - destruct g' as [|b' r']; try discriminate. cbn [dead_blocks] in H.
    apply andb_prop in H. destruct H as [H H0]. apply andb_prop in H. destruct H as [H H1]. apply andb_prop in H. destruct H as [H H2].
    destruct n; cbn.
    + exists b'. auto.
    + apply IH. assumption.
Qed.

Lemma dead_run_lockstep : forall fuel l s s', cinv C s -> dinv C D s -> seqD D s s' ->
  rel_resD D (run O f fuel l s) (run O f' fuel l s').
Proof.
  induction fuel; intros l s s' HI HD R; [exact I|]. cbn [run].
  pose proof (dead_blocks_nth f f' Hdb (N.to_nat l)) as Hn.
  destruct (nth_error f (N.to_nat l)) as [b|] eqn:Nb.
  2:{ rewrite Hn. exact R. }
  destruct Hn as [b' [Nb' [Hl [Hnd Hc]]]]. rewrite Nb'.
  assert (Hin : forall i, In i b' -> In i (all_insts f')).
  { intros i Ii. unfold all_insts. apply in_concat. exists b'. split; auto. eapply nth_error_In; eauto. }
  pose proof (dead_block_lockstep b b' s s' Hin HI HD R Hc Hl Hnd) as B. unfold brelD in B.
  destruct (exec_block O b s) as [s1 l1| |]; [| |exact I].
  - destruct (exec_block O b' s') as [s1' l1'| |]; try contradiction.
    destruct B as [R1 [<- [HI1 HD1]]]. destruct l1 as [l1|]; [|exact R1].
    apply IHfuel.
    + eapply cinv_vars; [|exact HI1]. reflexivity.
    + intros x v Hv Hd. eapply HD1; eauto.
    + destruct R1 as [A1 [A2 [A3 [A4 A5]]]]. repeat split; auto.
  - destruct (exec_block O b' s'); try contradiction. exact R.
Qed.
End Dead.

Theorem dead_copy_sound O C D f f' :
  oracle_local O D -> dead_check C D f f' = true ->
  forall s0 s0', cinv C s0 -> dinv C D s0 -> seqD D s0 s0' -> forall fuel, rel_resD D (run O f fuel 0 s0) (run O f' fuel 0 s0').
Proof.
  intros Hloc H s0 s0' HI HD R fuel. unfold dead_check in H. apply andb_prop in H. destruct H as [Hok Hdb].
  eapply dead_run_lockstep; eauto.
Qed.
