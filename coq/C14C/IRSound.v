(* C14C / IRSound.v -- internal_return_sound: simulation up to the renaming of the destination allocation into the return buffer. *)
From Coq Require Import ZArith NArith Bool List String Lia.
From Verif Require Import C14C.CopySem C14C.CopyCheck C14C.CopySound1 C14C.CopySound2 C14C.CopySound3 C14C.CopySound4 C14C.CopySound
  C14C.DeadCheck C14C.DeadSound C14C.IRCheck.
Import ListNotations.
Open Scope string_scope.
Open Scope Z_scope.
Local Opaque W Z.modulo.

Definition actf := Z -> bool.
(* memories: equal outside the allocations of P; for a pair in state "active" the destination in f is the return buffer in
   f', otherwise the two return buffers agree (within the allocation) *)
Definition mrel (P : pairs) (act : actf) (m m' : mem) : Prop :=
  (forall t a, inD (regs P) t = false -> m t a = m' t a) /\
  (forall p a, In p P -> 0 <= a < pn p ->
     if act (pd p) then m (Some (pd p)) a = m' (Some (pr p)) a else m (Some (pr p)) a = m' (Some (pr p)) a).
Definition orel (P : pairs) (act : actf) (s s' : state) : Prop :=
  mrel P act (smem s) (smem s') /\ srd s = srd s' /\ sworld s = sworld s' /\ spred s = spred s'.
Definition arg_ok (P : pairs) (act : actf) (v v' : val) : Prop :=
  (v' = v /\ inD (regs P) (fst v) = false) \/
  (exists p, In p P /\ fst v = Some (pd p) /\ v' = (Some (pr p), snd v) /\ act (pd p) = true).
Definition vrel (P : pairs) (v v' : val) : Prop := v' = v \/ exists p, In p P /\ fst v = Some (pd p) /\ v' = (Some (pr p), snd v).
Definition vars_rel (P : pairs) (RN : list N) (s s' : state) : Prop :=
  (forall x, memN x RN = false -> vars s x = vars s' x) /\
  (forall x, memN x RN = true ->
     match vars s x, vars s' x with Some v, Some v' => vrel P v v' | None, None => True | _, _ => False end).
(* operands of an oracle instruction: at an annotated return-buffer position the same pointer to the start of a return
   buffer of P (its destination is recorded in `fills`), elsewhere arg_ok *)
Fixpoint args_rel (P : pairs) (act : actf) (fills : list Z) (ann : list (option operand)) (a a' : list val) : Prop :=
  match a, a' with
  | [], [] => True
  | v :: r, v' :: r' =>
      (if is_fill (hd None ann) then v' = v /\ snd v = 0 /\ exists p, In p P /\ fst v = Some (pr p) /\ In (pd p) fills
       else arg_ok P act v v') /\ args_rel P act fills (tl ann) r r'
  | _, _ => False
  end.
(* THE HYPOTHESIS on unmodelled instructions: they see the state through their operands and the memory only; related
   operands and memories give equal outputs and related memories; an invoke overwrites the whole return buffer it is given
   without reading it (so that afterwards the two return buffers agree whatever they held) *)
Definition oracle_ren (O : oracle) (P : pairs) : Prop :=
  (forall i i' a a' s s' act fills, same_but_args i i' -> orel P act s s' -> args_rel P act fills (i_ann i) a a' ->
     match o_step O i a s, o_step O i' a' s' with
     | Some (o, m, r, w), Some (o', m', r', w') =>
         o = o' /\ r = r' /\ w = w' /\ mrel P (fun d => act d && negb (memZ d fills)) m m'
     | None, None => True
     | _, _ => False
     end) /\
  (forall i i' a a' s s' act, same_but_args i i' -> orel P act s s' -> args_rel P act [] [] a a' ->
     o_next O i a s = o_next O i' a' s').

Definition rel_outR (P : pairs) (RN : list N) (act : actf) (a b : outcome) : Prop :=
  match a, b with
  | Stuck, _ => True
  | Halt, Halt => True
  | Next x, Next y => vars_rel P RN x y /\ orel P act x y
  | _, _ => False
  end.

(* ---- syntactic state vs dynamic state *)
Definition cons (P : pairs) (act : actf) (st : ist) : Prop :=
  (forall d, memZ d (st_active st) = true -> act d = true) /\
  (forall p, In p P -> memZ (pr p) (st_filled st) = true -> act (pd p) = false).
Definition fresh_ok (P : pairs) (RN : list N) (st : ist) (s s' : state) : Prop :=
  forall x, memN x (st_fresh st) = true ->
    memN x RN = true /\ exists v p, vars s x = Some v /\ In p P /\ fst v = Some (pd p) /\ vars s' x = Some (Some (pr p), snd v).
Definition rvars_ok (st : ist) (s : state) : Prop := forall r y, In (r, y) (st_rvars st) -> exists v, vars s y = Some v.

Lemma memZ_in x l : memZ x l = true <-> In x l.
Proof. unfold memZ. rewrite existsb_exists. split. intros [y [H E]]. apply Z.eqb_eq in E. subst. auto. intros H. exists x. split; auto. apply Z.eqb_refl. Qed.
Lemma memN_in x l : memN x l = true <-> In x l.
Proof. unfold memN. rewrite existsb_exists. split. intros [y [H E]]. apply N.eqb_eq in E. subst. auto. intros H. exists x. split; auto. apply N.eqb_refl. Qed.
Lemma inD_regs_d P p : In p P -> inD (regs P) (Some (pd p)) = true.
Proof. intros H. cbn. apply memZ_in. unfold regs. apply in_or_app. left. apply in_map. exact H. Qed.
Lemma inD_regs_r P p : In p P -> inD (regs P) (Some (pr p)) = true.
Proof. intros H. cbn. apply memZ_in. unfold regs. apply in_or_app. right. apply in_map. exact H. Qed.

Section Kinds.
Variable C : certs.
Variable P : pairs.
Variable RN : list N.
Hypothesis Hrn : rn_ok C P RN = true.

Lemma rn_dop x : memN x RN = true -> dop C (regs P) (OVar x) = true.
Proof.
  intros H. apply memN_in in H. unfold rn_ok in Hrn. rewrite forallb_forall in Hrn. specialize (Hrn x H).
  unfold dop. cbn. destruct (clook C x) as [[[d|] k]|]; try discriminate. cbn. apply memZ_in. apply memZ_in in Hrn.
  unfold regs. apply in_or_app. left. exact Hrn.
Qed.

(* an operand that is not certified into P has the same value in both runs, outside P *)
Lemma plain_operand s s' o v : cinv C s -> dinv C (regs P) s -> vars_rel P RN s s' -> dop C (regs P) o = false ->
  oval s o = Some v -> oval s' o = Some v /\ inD (regs P) (fst v) = false.
Proof.
  intros HI HD [V1 _] Hd Ho. split.
  - destruct o as [z|x|l]; cbn in *; auto. rewrite <- V1; auto. destruct (memN x RN) eqn:Q; auto. rewrite (rn_dop x Q) in Hd. discriminate.
  - destruct (inD (regs P) (fst v)) eqn:Q; auto. rewrite (op_dcert C (regs P) s o v HI HD Ho Q) in Hd. discriminate.
Qed.

Lemma pair_of_ids d r : existsb (fun p => (pd p =? d) && (pr p =? r)) P = true -> exists p, In p P /\ pd p = d /\ pr p = r.
Proof. intros H. apply existsb_exists in H. destruct H as [p [I E]]. apply andb_prop in E. destruct E as [E1 E2].
  apply Z.eqb_eq in E1. apply Z.eqb_eq in E2. eauto. Qed.

Lemma okind_sound act st s s' o o' v :
  cinv C s -> dinv C (regs P) s -> vars_rel P RN s s' -> cons P act st -> fresh_ok P RN st s s' -> rvars_ok st s ->
  good (okind_of C P RN st o o') = true -> oval s o = Some v ->
  exists v', oval s' o' = Some v' /\ arg_ok P act v v' /\
             (okind_of C P RN st o o' = KE -> v' = v /\ inD (regs P) (fst v) = false).
Proof.
  intros HI HD HV [Ca Cf] HF HR Hg Ho. unfold okind_of in *.
  destruct (operand_eqx o o') eqn:Ex.
  - apply operand_eqx_eq in Ex. subst o'.
    destruct (dop C (regs P) o) eqn:Dp.
    + destruct o as [z|x|l]; try discriminate. destruct (cert_op C (OVar x)) as [[[d|] k]|] eqn:Cx; try discriminate.
      destruct (memN x (st_fresh st) && memZ d (st_active st) && memZ d (map pd P)) eqn:Q; try discriminate.
      apply andb_prop in Q. destruct Q as [Q Q3]. apply andb_prop in Q. destruct Q as [Q1 Q2].
      destruct (HF x Q1) as [_ [v0 [p [A1 [A2 [A3 A4]]]]]]. cbn in Ho. rewrite Ho in A1. inversion A1. subst v0.
      destruct (HI x (Some d) k v Cx Ho) as [B1 _]. exists (Some (pr p), snd v). split; [exact A4|]. split.
      * right. exists p. repeat split; auto. apply Ca. rewrite A3 in B1. inversion B1. subst d. exact Q2.
      * intros K. discriminate.
    + destruct (plain_operand s s' o v HI HD HV Dp Ho) as [E1 E2]. exists v. split; auto. split; auto. left. auto.
  - destruct o as [z|x|l]; try discriminate. destruct o' as [z|y|l]; try discriminate.
    destruct (cert_op C (OVar x)) as [[[d|] [[| |]|]]|] eqn:Cx; try discriminate.
    destruct (cert_op C (OVar y)) as [[[r|] [[| |]|]]|] eqn:Cy; try discriminate.
    match type of Hg with context [if ?c then KS else KBad] => destruct c eqn:Q end; try discriminate.
    repeat (apply andb_prop in Q; let Q2 := fresh "Q" in destruct Q as [Q Q2]).
    apply negb_true_iff in Q. apply negb_true_iff in Q3.
    destruct (pair_of_ids d r Q1) as [p [Ip [Pd Pr]]]. subst d r.
    apply existsb_exists in Q0. destruct Q0 as [[r0 y0] [Iq Eq]]. cbn in Eq. apply andb_prop in Eq. destruct Eq as [E1 E2].
    apply Z.eqb_eq in E1. apply N.eqb_eq in E2. subst r0 y0.
    destruct (HR _ _ Iq) as [vy Hy]. destruct HV as [V1 V2].
    destruct (HI x _ _ v Cx Ho) as [B1 B2]. destruct (HI y _ _ vy Cy Hy) as [B3 B4].
    exists vy. cbn. rewrite <- (V1 y Q3). split; [exact Hy|]. split.
    + right. exists p. repeat split; auto. destruct vy as [ry ky]. cbn in *. subst ry. rewrite (B4 0 eq_refl), (B2 0 eq_refl). reflexivity.
    + intros K. discriminate.
Qed.
End Kinds.

(* ---- identities of the allocations of P *)
Lemma nodupZ_NoDup l : nodupZ l = true -> NoDup l.
Proof. induction l; cbn; intros H. constructor. apply andb_prop in H. destruct H as [H1 H2]. constructor; auto.
  intros I. apply negb_true_iff in H1. assert (existsb (Z.eqb a) l = true). { apply existsb_exists. exists a. split; auto. apply Z.eqb_refl. } congruence. Qed.
Lemma NoDup_map_inj {A} (g : A -> Z) : forall l x y, NoDup (map g l) -> In x l -> In y l -> g x = g y -> x = y.
Proof.
  induction l as [|a t IH]; intros x y H Ix Iy E; [destruct Ix|]. cbn in H. inversion H as [|? ? Hn Ht]. subst.
  destruct Ix as [<-|Ix], Iy as [<-|Iy]; auto.
  - exfalso. apply Hn. rewrite E. apply in_map. exact Iy.
  - exfalso. apply Hn. rewrite <- E. apply in_map. exact Ix.
Qed.
Lemma NoDup_app_parts {A} (l m : list A) : NoDup (l ++ m) -> NoDup l /\ NoDup m /\ forall x, In x l -> In x m -> False.
Proof.
  induction l as [|a t IH]; cbn; intros H. { repeat split; auto. constructor. }
  inversion H as [|? ? Hn Ht]. subst. destruct (IH Ht) as [A1 [A2 A3]]. repeat split; auto.
  - constructor; auto. intros I. apply Hn. apply in_or_app. left. exact I.
  - intros x [<-|Ix] Im. apply Hn. apply in_or_app. right. exact Im. eapply A3; eauto.
Qed.
Lemma ids_distinct P p q : pairs_wf P = true -> In p P -> In q P ->
  (pd p = pd q -> p = q) /\ (pr p = pr q -> p = q) /\ pd p <> pr q.
Proof.
  intros H Ip Iq. unfold pairs_wf in H. apply andb_prop in H. destruct H as [H _]. apply nodupZ_NoDup in H. unfold regs in H.
  destruct (NoDup_app_parts _ _ H) as [A1 [A2 A3]]. repeat split.
  - apply (NoDup_map_inj pd P p q A1 Ip Iq).
  - apply (NoDup_map_inj pr P p q A2 Ip Iq).
  - intros E. apply (A3 (pd p)). apply in_map. exact Ip. rewrite E. apply in_map. exact Iq.
Qed.
Lemma size_pos P p : pairs_wf P = true -> In p P -> 0 < pn p < W.
Proof. intros H Ip. unfold pairs_wf in H. apply andb_prop in H. destruct H as [_ H]. rewrite forallb_forall in H. specialize (H p Ip).
  apply andb_prop in H. destruct H as [H1 H2]. apply Z.ltb_lt in H1. apply Z.ltb_lt in H2. lia. Qed.

Lemma inb_bounds P p q len : inb_acc P p len = true -> In q P -> (fst p = Some (pd q) \/ fst p = Some (pr q)) -> 0 <= snd p /\ snd p + len <= pn q.
Proof.
  unfold inb_acc. intros H Iq E. destruct (fst p) as [t|]; [|destruct E; discriminate]. rewrite forallb_forall in H. specialize (H q Iq).
  assert (T : (pd q =? t) || (pr q =? t) = true).
  { destruct E as [E|E]; inversion E; subst; rewrite Z.eqb_refl; cbn; auto. apply orb_true_r. }
  rewrite T in H. apply andb_prop in H. destruct H as [H1 H2]. apply Z.leb_le in H1. apply Z.leb_le in H2. lia.
Qed.

Lemma mrel_read P act m m' p p' len : mrel P act m m' -> arg_ok P act p p' -> inb_acc P p len = true ->
  forall j, 0 <= j < len -> m (fst p) (snd p + j) = m' (fst p') (snd p' + j).
Proof.
  intros [M1 M2] [[-> Fr]|[q [Iq [E1 [-> Ac]]]]] Hb j Hj.
  - apply M1. exact Fr.
  - destruct (inb_bounds P p q len Hb Iq (or_introl E1)) as [B1 B2]. cbn [fst snd]. rewrite E1.
    specialize (M2 q (snd p + j) Iq). rewrite Ac in M2. apply M2. lia.
Qed.
Lemma word_of_rel m m' t t' : forall k a a' acc, (forall j, 0 <= j < Z.of_nat k -> m t (a + j) = m' t' (a' + j)) ->
  word_of m t a k acc = word_of m' t' a' k acc.
Proof.
  induction k; intros a a' acc H; cbn [word_of]; auto.
  assert (E0 : m t a = m' t' a'). { specialize (H 0). rewrite !Z.add_0_r in H. apply H. lia. }
  rewrite E0. apply IHk. intros j Hj. replace (a + 1 + j) with (a + (1 + j)) by lia. replace (a' + 1 + j) with (a' + (1 + j)) by lia. apply H. lia.
Qed.

Lemma oeqb_neq a b : a <> b -> oeqb a b = false.
Proof. intros H. destruct (oeqb a b) eqn:Q; auto. apply oeqb_eq in Q. contradiction. Qed.

Lemma mrel_write P act m m' p p' len f f' : pairs_wf P = true -> mrel P act m m' -> arg_ok P act p p' -> inb_acc P p len = true ->
  (forall j, 0 <= j < len -> f j = f' j) ->
  mrel P act (mwrite m (fst p) (snd p) len f) (mwrite m' (fst p') (snd p') len f').
Proof.
  intros Wf [M1 M2] Ha Hb Hf.
  assert (Rng : forall a c, in_rng a len c = true -> 0 <= c - a < len).
  { intros a c H. unfold in_rng in H. apply andb_prop in H. destruct H as [H1 H2]. apply Z.leb_le in H1. apply Z.ltb_lt in H2. lia. }
  destruct Ha as [[-> Fr]|[q [Iq [E1 [-> Ac]]]]].
  - split.
    + intros t a Ht. unfold mwrite. destruct (oeqb t (fst p) && in_rng (snd p) len a) eqn:Q; [|apply M1; auto].
      apply andb_prop in Q. destruct Q as [_ Q]. apply Hf. apply Rng. exact Q.
    + intros q a Iq Ha. unfold mwrite.
      assert (N1 : oeqb (Some (pd q)) (fst p) = false). { apply oeqb_neq. intros E. rewrite <- E, (inD_regs_d P q Iq) in Fr. discriminate. }
      assert (N2 : oeqb (Some (pr q)) (fst p) = false). { apply oeqb_neq. intros E. rewrite <- E, (inD_regs_r P q Iq) in Fr. discriminate. }
      rewrite N1, N2. cbn. apply M2; auto.
  - cbn [fst snd]. rewrite E1. split.
    + intros t a Ht. unfold mwrite.
      assert (N1 : oeqb t (Some (pd q)) = false). { apply oeqb_neq. intros ->. rewrite (inD_regs_d P q Iq) in Ht. discriminate. }
      assert (N2 : oeqb t (Some (pr q)) = false). { apply oeqb_neq. intros ->. rewrite (inD_regs_r P q Iq) in Ht. discriminate. }
      rewrite N1, N2. cbn. apply M1. exact Ht.
    + intros q2 a Iq2 Ha2. unfold mwrite.
      destruct (ids_distinct P q q2 Wf Iq Iq2) as [D1 [D2 D3]]. destruct (ids_distinct P q2 q Wf Iq2 Iq) as [D4 [D5 D6]].
      destruct (Z.eq_dec (pd q2) (pd q)) as [E|NE].
      * assert (q2 = q) by (apply D4; exact E). subst q2. rewrite Ac. cbn [oeqb]. rewrite !Z.eqb_refl. cbn [andb].
        destruct (in_rng (snd p) len a) eqn:Q. apply Hf. apply Rng. exact Q. specialize (M2 q a Iq Ha2). rewrite Ac in M2. exact M2.
      * assert (NR : pr q2 <> pr q) by (intros E; apply NE; rewrite (D5 E); reflexivity).
        specialize (M2 q2 a Iq2 Ha2). destruct (act (pd q2)).
        -- cbn [oeqb]. assert (X1 : (pd q2 =? pd q) = false) by (apply Z.eqb_neq; exact NE).
           assert (X2 : (pr q2 =? pr q) = false) by (apply Z.eqb_neq; exact NR). rewrite X1, X2. cbn. exact M2.
        -- cbn [oeqb]. assert (X1 : (pr q2 =? pd q) = false) by (apply Z.eqb_neq; intros E; apply D3; symmetry; exact E).
           assert (X2 : (pr q2 =? pr q) = false) by (apply Z.eqb_neq; exact NR). rewrite X1, X2. cbn. exact M2.
Qed.

(* ---- related operand lists *)
Definition rval (P : pairs) (v v' : val) : Prop :=
  (v' = v /\ inD (regs P) (fst v) = false) \/ (exists p, In p P /\ fst v = Some (pd p) /\ v' = (Some (pr p), snd v)).
Lemma arg_ok_rval P act v v' : arg_ok P act v v' -> rval P v v'.
Proof. intros [H|[p [A [B [C0 _]]]]]; [left; auto|right; eauto]. Qed.
Lemma rval_vrel P v v' : rval P v v' -> vrel P v v'.
Proof. intros [[H _]|H]; [left; auto|right; auto]. Qed.

Fixpoint kargs (P : pairs) (act : actf) (ks : list okind) (a a' : list val) : Prop :=
  match ks, a, a' with
  | [], [], [] => True
  | k :: kr, v :: r, v' :: r' =>
      (arg_ok P act v v' /\ (k = KE -> v' = v /\ inD (regs P) (fst v) = false)) /\ kargs P act kr r r'
  | _, _, _ => False
  end.

Lemma kinds_sound C P RN act st s s' : rn_ok C P RN = true ->
  cinv C s -> dinv C (regs P) s -> vars_rel P RN s s' -> cons P act st -> fresh_ok P RN st s s' -> rvars_ok st s ->
  forall ops ops' ks a, kinds C P RN st ops ops' = Some ks -> forallb good ks = true -> ovals s ops = Some a ->
  exists a', ovals s' ops' = Some a' /\ kargs P act ks a a'.
Proof.
  intros Hrn HI HD HV HC HF HR. induction ops as [|o r IH]; intros ops' ks a Hk Hg Ho.
  - destruct ops'; try discriminate. inversion Hk. subst. cbn in Ho. inversion Ho. exists []. cbn. auto.
  - destruct ops' as [|o' r']; try discriminate. cbn in Hk. destruct (kinds C P RN st r r') as [kr|] eqn:Kr; try discriminate.
    inversion Hk. subst ks. cbn in Hg. apply andb_prop in Hg. destruct Hg as [G1 G2].
    cbn in Ho. destruct (oval s o) as [v|] eqn:Ov; try discriminate. destruct (ovals s r) as [ar|] eqn:Or; try discriminate. inversion Ho. subst a.
    destruct (IH r' kr ar Kr G2 eq_refl) as [ar' [Har Kr']].
    destruct (okind_sound C P RN Hrn act st s s' o o' v HI HD HV HC HF HR G1 Ov) as [v' [Ov' [Ha Hke]]].
    exists (v' :: ar'). cbn. rewrite Ov', Har. split; auto.
Qed.

Lemma kinds_allE C P RN st : forall ops ops' ks, kinds C P RN st ops ops' = Some ks -> forallb isE ks = true ->
  ops' = ops /\ forall o, In o ops -> dop C (regs P) o = false.
Proof.
  induction ops as [|o r IH]; intros ops' ks Hk He.
  - destruct ops'; try discriminate. split; auto. intros o [].
  - destruct ops' as [|o' r']; try discriminate. cbn in Hk. destruct (kinds C P RN st r r') as [kr|] eqn:Kr; try discriminate.
    inversion Hk. subst ks. cbn in He. apply andb_prop in He. destruct He as [E1 E2]. destruct (IH r' kr Kr E2) as [-> Hd].
    unfold isE, okind_of in E1. destruct (operand_eqx o o') eqn:Ex.
    + apply operand_eqx_eq in Ex. subst o'. split; auto. intros o2 [<-|I2]; auto.
      destruct (dop C (regs P) o) eqn:Dp; auto. destruct o; try discriminate. destruct (cert_op C (OVar x)) as [[[d|] k]|]; try discriminate.
      destruct (memN x (st_fresh st) && memZ d (st_active st) && memZ d (map pd P)); discriminate.
    + destruct o, o'; try discriminate. destruct (cert_op C (OVar x)) as [[[d|] [[| |]|]]|]; try discriminate.
      destruct (cert_op C (OVar x0)) as [[[r0|] [[| |]|]]|]; try discriminate.
      match type of E1 with context [if ?c then KS else KBad] => destruct c end; discriminate.
Qed.

(* ---- updates of related variable maps *)
Lemma vars_rel_upd_plain P RN s s' x v : vars_rel P RN s s' -> memN x RN = false ->
  vars_rel P RN (with_vars s (upd (vars s) x v)) (with_vars s' (upd (vars s') x v)).
Proof.
  intros [V1 V2] Hx. split; cbn.
  - intros y Hy. unfold upd. destruct (N.eqb y x); auto.
  - intros y Hy. unfold upd. destruct (N.eqb y x) eqn:Q. apply N.eqb_eq in Q. subst. congruence. apply V2. exact Hy.
Qed.
Lemma vars_rel_upd_rn P RN s s' x v v' : vars_rel P RN s s' -> memN x RN = true -> vrel P v v' ->
  vars_rel P RN (with_vars s (upd (vars s) x v)) (with_vars s' (upd (vars s') x v')).
Proof.
  intros [V1 V2] Hx Hv. split; cbn.
  - intros y Hy. unfold upd. destruct (N.eqb y x) eqn:Q. apply N.eqb_eq in Q. subst. congruence. apply V1. exact Hy.
  - intros y Hy. unfold upd. destruct (N.eqb y x); auto. apply V2. exact Hy.
Qed.
Lemma set_outs_rel P RN : forall outs o vs vs', (forall x, In x outs -> memN x RN = false) ->
  (forall x, memN x RN = false -> vs x = vs' x) ->
  (forall x, memN x RN = true -> match vs x, vs' x with Some v, Some v' => vrel P v v' | None, None => True | _, _ => False end) ->
  match set_outs vs outs o, set_outs vs' outs o with
  | Some w, Some w' => (forall x, memN x RN = false -> w x = w' x) /\
                       (forall x, memN x RN = true -> match w x, w' x with Some v, Some v' => vrel P v v' | None, None => True | _, _ => False end)
  | None, None => True
  | _, _ => False
  end.
Proof.
  induction outs as [|y t IH]; intros o vs vs' Ho V1 V2; destruct o; cbn; auto.
  apply IH.
  - intros x Ix. apply Ho. right. exact Ix.
  - intros x Hx. unfold upd. destruct (N.eqb x y); auto.
  - intros x Hx. unfold upd. destruct (N.eqb x y) eqn:Q. apply N.eqb_eq in Q. subst. rewrite (Ho y (or_introl eq_refl)) in Hx. discriminate. apply V2. exact Hx.
Qed.

Lemma mrel_ext P act act' m m' : (forall d, act d = act' d) -> mrel P act m m' -> mrel P act' m m'.
Proof. intros E [M1 M2]. split; auto. intros p a Ip Ha. rewrite <- E. apply M2; auto. Qed.

Lemma kargs_args_rel P act : forall ks a a' ann, existsb is_fill ann = false -> kargs P act ks a a' -> args_rel P act [] ann a a'.
Proof.
  induction ks as [|k kr IH]; intros a a' ann Hn H; destruct a as [|v r], a' as [|v' r']; cbn in H; try contradiction; cbn; auto.
  destruct H as [[Ha _] Hr]. split.
  - destruct ann as [|an t]; cbn; auto. cbn in Hn. apply orb_false_iff in Hn. destruct Hn as [Hn _]. rewrite Hn. exact Ha.
  - apply IH; auto. destruct ann as [|an t]; cbn; auto. cbn in Hn. apply orb_false_iff in Hn. tauto.
Qed.

(* ---- memory and oracle instructions *)
Definition shapeP (op : string) (ks : list okind) : Prop :=
  ((op = "mstore" \/ op = "mcopy" \/ is_nonmem_copy op = true) -> match ks with k :: _ => isE k = true | [] => True end) /\
  (is_nonmem_copy op = true -> match ks with _ :: k2 :: _ => isE k2 = true | _ => True end).
Lemma isE_KE k : isE k = true -> k = KE. Proof. destruct k; cbn; try discriminate; auto. Qed.
Lemma outs_plain_in RN i x : outs_plain RN i = true -> In x (i_outs i) -> memN x RN = false.
Proof. unfold outs_plain. rewrite forallb_forall. intros H I. apply negb_true_iff. apply H. exact I. Qed.

Lemma exec_mem O P RN act i i' s s' ks a a' :
  oracle_ren O P -> pairs_wf P = true -> vars_rel P RN s s' -> orel P act s s' -> same_but_args i i' ->
  is_ptr_op (i_op i) = false -> String.eqb (i_op i) "nop" = false ->
  ovals s (i_args i) = Some a -> ovals s' (i_args i') = Some a' -> kargs P act ks a a' -> shapeP (i_op i) ks ->
  no_fill i = true -> outs_plain RN i = true -> inb P i s = true ->
  rel_outR P RN act (exec O i s) (exec O i' s').
Proof.
  intros [Hor _] Wf HV HO SB Ptr Nop Oa Oa' Hk [Sh1 Sh2] Nf Hop Hb.
  pose proof HO as [HM [Er [Ew Ep]]].
  assert (Hout : forall x, In x (i_outs i) -> memN x RN = false) by (intros x Ix; eapply outs_plain_in; eauto).
  destruct i as [op args outs wm wrd id ann], i' as [op' args' outs' wm' wrd' id' ann'].
  destruct SB as [S1 [S2 [S3 [S4 [S5 S6]]]]]. cbn [i_op i_args i_outs i_wm i_wrd i_id i_ann] in *. subst op' outs' wm' wrd' id' ann'.
  unfold inb in Hb. cbn [i_op i_args] in Hb. rewrite Oa in Hb.
  unfold is_ptr_op in Ptr.
  apply orb_false_iff in Ptr. destruct Ptr as [Ptr P5]. apply orb_false_iff in Ptr. destruct Ptr as [Ptr P4].
  apply orb_false_iff in Ptr. destruct Ptr as [Ptr P3]. apply orb_false_iff in Ptr. destruct Ptr as [P1 P2].
  unfold exec. cbn [i_op i_args i_outs i_wm i_wrd i_id i_ann]. rewrite P1, Oa, Oa', Nop, P2, P3, P4, P5.
  case_op op "mload".
  { destruct a as [|p [|? ?]]; try exact I. destruct ks as [|k [|? ?]]; destruct a' as [|p' [|? ?]]; cbn in Hk; try tauto.
    destruct Hk as [[Hp _] _]. destruct outs as [|x [|? ?]]; try exact I.
    assert (Hl : mload (smem s) p = mload (smem s') p').
    { unfold mload. apply word_of_rel. intros j Hj. apply (mrel_read P act _ _ p p' 32 HM Hp Hb). lia. }
    rewrite Hl. cbn. split. apply vars_rel_upd_plain; auto. apply Hout. left. reflexivity. exact HO. }
  case_op op "mstore".
  { destruct a as [|v [|p [|? ?]]]; try exact I. destruct ks as [|k [|k2 [|? ?]]]; destruct a' as [|v' [|p' [|? ?]]]; cbn in Hk; try tauto.
    destruct Hk as [[_ Hv] [[Hp _] _]]. destruct outs; try exact I.
    destruct (Hv (isE_KE _ (Sh1 (or_introl eq_refl)))) as [-> _].
    cbn. split. { destruct HV as [V1 V2]. split; auto. }
    split; [|cbn; auto]. cbn. apply mrel_write; auto. }
  case_op op "mcopy".
  { destruct a as [|[[?|] n] [|sp [|dp [|? ?]]]]; try exact I.
    destruct ks as [|k [|k2 [|k3 [|? ?]]]]; destruct a' as [|vn' [|sp' [|dp' [|? ?]]]]; cbn in Hk; try tauto.
    destruct Hk as [[_ Hv] [[Hs _] [[Hd _] _]]]. destruct outs; try exact I.
    destruct (Hv (isE_KE _ (Sh1 (or_intror (or_introl eq_refl))))) as [-> _].
    apply andb_prop in Hb. destruct Hb as [Hb1 Hb2].
    cbn. split. { destruct HV as [V1 V2]. split; auto. }
    split; [|cbn; auto]. cbn. apply mrel_write; auto. intros j Hj. apply (mrel_read P act _ _ sp sp' n HM Hs Hb1). exact Hj. }
  destruct (is_nonmem_copy op) eqn:Nm.
  { destruct a as [|[[?|] n] [|sp [|dp [|? ?]]]]; try exact I.
    destruct ks as [|k [|k2 [|k3 [|? ?]]]]; destruct a' as [|vn' [|sp' [|dp' [|? ?]]]]; cbn in Hk; try tauto.
    destruct Hk as [[_ Hv] [[_ Hs] [[Hd _] _]]]. destruct outs; try exact I.
    destruct (Hv (isE_KE _ (Sh1 (or_intror (or_intror eq_refl))))) as [-> _].
    destruct (Hs (isE_KE _ (Sh2 eq_refl))) as [-> _].
    cbn. split. { destruct HV as [V1 V2]. split; auto. }
    split; [|cbn; auto]. cbn. apply mrel_write; auto. intros j Hj. unfold src_byte. rewrite Er. reflexivity. }
  (* oracle *)
  unfold no_fill in Nf. cbn [i_ann] in Nf. apply negb_true_iff in Nf.
  pose proof (kargs_args_rel P act ks a a' ann Nf Hk) as AR.
  assert (SB : same_but_args (mkI op args outs wm wrd id ann) (mkI op args' outs wm wrd id ann)) by (repeat split).
  specialize (Hor _ _ a a' s s' act [] SB HO AR).
  destruct (o_step O _ a s) as [[[[o m] r] w]|]; destruct (o_step O _ a' s') as [[[[o' m'] r'] w']|]; try contradiction; auto.
  destruct Hor as [-> [-> [-> Hm]]].
  destruct HV as [V1 V2]. pose proof (set_outs_rel P RN outs o' (vars s) (vars s') Hout V1 V2) as SO.
  destruct (set_outs (vars s) outs o'), (set_outs (vars s') outs o'); try contradiction; auto.
  cbn. split. { split; cbn; tauto. }
  split; [|cbn; destruct wrd; auto]. cbn. destruct wm; auto. apply (mrel_ext P (fun d => act d && negb (memZ d []))); auto. intros d. cbn. apply andb_true_r.
Qed.

(* ---- pointer instructions *)
Lemma set_outs_defined outs : forall vs l vs' y, set_outs vs outs l = Some vs' -> vs y <> None -> vs' y <> None.
Proof.
  induction outs as [|x t IH]; intros vs l vs' y H Hy; destruct l; cbn in H; try discriminate. inversion H. subst. auto.
  eapply IH; eauto. unfold upd. destruct (N.eqb y x); auto. discriminate.
Qed.
Lemma exec_defined O i s s1 y : exec O i s = Next s1 -> vars s y <> None -> vars s1 y <> None.
Proof.
  destruct i as [op args outs wm wrd id ann]. unfold exec. cbn [i_op i_args i_outs i_wm i_wrd i_id i_ann]. intros H Hy.
  assert (U : forall x v, upd (vars s) x v y <> None). { intros x v. unfold upd. destruct (N.eqb y x); auto. discriminate. }
  case_op op "phi".
  { destruct (phi_pick (spred s) args); try discriminate. destruct outs as [|x [|? ?]]; try discriminate.
    destruct (oval s o); try discriminate. inversion H. cbn. apply U. }
  destruct (ovals s args) as [a|]; try discriminate.
  case_op op "nop". { inversion H. subst. exact Hy. }
  case_op op "assign". { destruct a as [|v [|? ?]]; try discriminate. destruct outs as [|x [|? ?]]; try discriminate. inversion H. cbn. apply U. }
  case_op op "alloca". { destruct outs as [|x [|? ?]]; try discriminate. inversion H. cbn. apply U. }
  case_op op "add". { destruct a as [|b [|a0 [|? ?]]]; try discriminate. destruct outs as [|x [|? ?]]; try discriminate.
    destruct (vadd a0 b); try discriminate. inversion H. cbn. apply U. }
  case_op op "sub". { destruct a as [|b [|a0 [|? ?]]]; try discriminate. destruct outs as [|x [|? ?]]; try discriminate.
    destruct (vsub a0 b); try discriminate. inversion H. cbn. apply U. }
  case_op op "mload". { destruct a as [|p [|? ?]]; try discriminate. destruct outs as [|x [|? ?]]; try discriminate.
    injection H as <-. cbn [vars with_vars]. apply U. }
  case_op op "mstore". { destruct a as [|v [|p [|? ?]]]; try discriminate. destruct outs; try discriminate. injection H as <-. exact Hy. }
  case_op op "mcopy". { destruct a as [|[[?|] n] [|sp [|dp [|? ?]]]]; try discriminate. destruct outs; try discriminate. injection H as <-. exact Hy. }
  destruct (is_nonmem_copy op). { destruct a as [|[[?|] n] [|sp [|dp [|? ?]]]]; try discriminate. destruct outs; try discriminate. injection H as <-. exact Hy. }
  destruct (o_step O _ a s) as [[[[o m] r] w]|]; try discriminate.
  destruct (set_outs (vars s) outs o) eqn:S; try discriminate. injection H as <-. cbn. eapply set_outs_defined; eauto.
Qed.

Lemma ovals_plain C P RN s s' : rn_ok C P RN = true -> cinv C s -> dinv C (regs P) s -> vars_rel P RN s s' ->
  forall ops a, (forall o, In o ops -> dop C (regs P) o = false) -> ovals s ops = Some a -> ovals s' ops = Some a.
Proof.
  intros Hrn HI HD HV. induction ops as [|o r IH]; intros a Hd Ho; cbn in *; auto.
  destruct (oval s o) as [v|] eqn:Ov; try discriminate. destruct (ovals s r) as [ar|] eqn:Or; try discriminate.
  destruct (plain_operand C P RN Hrn s s' o v HI HD HV (Hd o (or_introl eq_refl)) Ov) as [E _]. rewrite E.
  rewrite (IH ar (fun o2 I2 => Hd o2 (or_intror I2)) eq_refl). exact Ho.
Qed.

(* an unchanged pointer instruction none of whose operands is certified into P *)
Lemma exec_same_ptr O C P RN act i s s' : rn_ok C P RN = true -> cinv C s -> dinv C (regs P) s -> vars_rel P RN s s' -> orel P act s s' ->
  (forall o, In o (i_args i) -> dop C (regs P) o = false) -> outs_plain RN i = true ->
  (is_ptr_op (i_op i) = true \/ String.eqb (i_op i) "nop" = true) ->
  rel_outR P RN act (exec O i s) (exec O i s').
Proof.
  intros Hrn HI HD HV HO Hd Hop Hp. pose proof HO as [HM [Er [Ew Ep]]].
  assert (Hout : forall x, In x (i_outs i) -> memN x RN = false) by (intros x Ix; eapply outs_plain_in; eauto).
  destruct i as [op args outs wm wrd id ann]. unfold exec. cbn [i_op i_args i_outs i_wm i_wrd i_id i_ann] in *. rewrite <- Ep.
  assert (UP : forall x v, outs = [x] -> rel_outR P RN act (Next (with_vars s (upd (vars s) x v))) (Next (with_vars s' (upd (vars s') x v)))).
  { intros x v ->. cbn. split; [|exact HO]. apply vars_rel_upd_plain; auto. apply Hout. left. reflexivity. }
  case_op op "phi".
  { destruct (phi_pick (spred s) args) as [o|] eqn:Pk; [|exact I]. destruct outs as [|x [|? ?]]; try exact I.
    destruct (oval s o) as [v|] eqn:Ov; [|exact I].
    destruct (plain_operand C P RN Hrn s s' o v HI HD HV (Hd o (phi_pick_in _ _ _ Pk)) Ov) as [E _]. rewrite E. apply UP. reflexivity. }
  destruct (ovals s args) as [a|] eqn:Oa; [|exact I]. rewrite (ovals_plain C P RN s s' Hrn HI HD HV args a Hd Oa).
  case_op op "nop". { cbn. auto. }
  case_op op "assign". { destruct a as [|v [|? ?]]; try exact I. destruct outs as [|x [|? ?]]; try exact I. apply UP. reflexivity. }
  case_op op "alloca". { destruct outs as [|x [|? ?]]; try exact I. apply UP. reflexivity. }
  case_op op "add". { destruct a as [|b [|a0 [|? ?]]]; try exact I. destruct outs as [|x [|? ?]]; try exact I.
    destruct (vadd a0 b); [|exact I]. apply UP. reflexivity. }
  case_op op "sub". { destruct a as [|b [|a0 [|? ?]]]; try exact I. destruct outs as [|x [|? ?]]; try exact I.
    destruct (vsub a0 b); [|exact I]. apply UP. reflexivity. }
  exfalso. unfold is_ptr_op in Hp. repeat match goal with Hq : String.eqb op _ = false |- _ => rewrite Hq in Hp; clear Hq end. cbn in Hp. destruct Hp; discriminate.
Qed.

(* a pointer derived from renamed / substituted operands *)
Lemma vadd_rval P a a' b b' v : rval P a a' -> rval P b b' -> vadd a b = Some v -> exists v', vadd a' b' = Some v' /\ rval P v v'.
Proof.
  intros [[-> Fa]|[p [Ip [Ea ->]]]] [[-> Fb]|[q [Iq [Eb ->]]]] H.
  - exists v. split; auto. left. split; auto. destruct a as [[?|] ?], b as [[?|] ?]; cbn in H; inversion H; subst; cbn in *; auto.
  - destruct a as [[ra|] ka], b as [rb kb]; cbn in *; subst rb; try discriminate. inversion H. subst v.
    eexists. split; [reflexivity|]. right. exists q. cbn. auto.
  - destruct a as [ra ka], b as [[rb|] kb]; cbn in *; subst ra; try discriminate. inversion H. subst v.
    eexists. split; [reflexivity|]. right. exists p. cbn. auto.
  - destruct a as [ra ka], b as [rb kb]; cbn in *; subst ra rb. discriminate.
Qed.

Lemma exec_ptr O P RN act i i' s s' ks a a' x :
  vars_rel P RN s s' -> orel P act s s' -> same_but_args i i' ->
  (i_op i = "assign" \/ i_op i = "add") -> i_outs i = [x] -> memN x RN = true ->
  ovals s (i_args i) = Some a -> ovals s' (i_args i') = Some a' -> kargs P act ks a a' ->
  match exec O i s with
  | Next s1 => exists s1' v v', exec O i' s' = Next s1' /\ vars_rel P RN s1 s1' /\ orel P act s1 s1' /\
                               vars s1 x = Some v /\ vars s1' x = Some v' /\ rval P v v'
  | Halt => False
  | Stuck => True
  end.
Proof.
  intros HV HO SB Hop Hx Hrnx Oa Oa' Hk.
  destruct i as [op args outs wm wrd id ann], i' as [op' args' outs' wm' wrd' id' ann'].
  destruct SB as [S1 [S2 [S3 [S4 [S5 S6]]]]]. cbn [i_op i_args i_outs i_wm i_wrd i_id i_ann] in *. subst op' outs' wm' wrd' id' ann' outs.
  unfold exec. cbn [i_op i_args i_outs i_wm i_wrd i_id i_ann]. rewrite Oa, Oa'.
  destruct Hop as [-> | ->]; ceqb.
  - destruct a as [|v [|? ?]]; try exact I. destruct ks as [|k [|? ?]]; destruct a' as [|v' [|? ?]]; cbn in Hk; try tauto.
    destruct Hk as [[Hv _] _]. pose proof (arg_ok_rval _ _ _ _ Hv) as Rv.
    eexists. exists v, v'. split; [reflexivity|]. split. apply vars_rel_upd_rn; auto. apply rval_vrel. exact Rv.
    split. exact HO. cbn. rewrite !upd_same. auto.
  - destruct a as [|b [|a0 [|? ?]]]; try exact I. destruct ks as [|k [|k2 [|? ?]]]; destruct a' as [|b' [|a0' [|? ?]]]; cbn in Hk; try tauto.
    destruct Hk as [[Hb _] [[Ha _] _]].
    destruct (vadd a0 b) as [v|] eqn:V; [|exact I].
    destruct (vadd_rval P a0 a0' b b' v (arg_ok_rval _ _ _ _ Ha) (arg_ok_rval _ _ _ _ Hb) V) as [v' [V' Rv]]. rewrite V'.
    eexists. exists v, v'. split; [reflexivity|]. split. apply vars_rel_upd_rn; auto. apply rval_vrel. exact Rv.
    split. exact HO. cbn. rewrite !upd_same. auto.
Qed.

(* ---- the forwarded copy *)
Lemma copy_mrel P act m m' p : pairs_wf P = true -> In p P -> act (pd p) = false -> mrel P act m m' ->
  mrel P (fun z => if z =? pd p then true else act z)
       (mwrite m (Some (pd p)) 0 (pn p) (fun j => m (Some (pr p)) (0 + j))) m'.
Proof.
  intros Wf Ip Ac [M1 M2]. split.
  - intros t a Ht. rewrite mwrite_other. apply M1; auto. intros [E _]. subst t. rewrite (inD_regs_d P p Ip) in Ht. discriminate.
  - intros q a Iq Ha. destruct (ids_distinct P p q Wf Ip Iq) as [D1 [D2 D3]]. destruct (ids_distinct P q p Wf Iq Ip) as [D4 [D5 D6]].
    destruct (Z.eqb_spec (pd q) (pd p)) as [E|NE].
    + assert (q = p) by (apply D4; exact E). subst q.
      replace a with (0 + a) at 1 by lia. rewrite mwrite_in by exact Ha. specialize (M2 p a Ip Ha). rewrite Ac in M2. rewrite Z.add_0_l. exact M2.
    + specialize (M2 q a Iq Ha). destruct (act (pd q)).
      * rewrite mwrite_other. exact M2. intros [E _]. inversion E. contradiction.
      * rewrite mwrite_other. exact M2. intros [E _]. inversion E. apply D3. symmetry. assumption.
Qed.

(* ---- operands of the filling invoke *)
Lemma fill_args_sound C P RN act st s s' : rn_ok C P RN = true ->
  cinv C s -> dinv C (regs P) s -> vars_rel P RN s s' -> cons P act st -> fresh_ok P RN st s s' -> rvars_ok st s ->
  forall ops ops' ann res a, fill_args C P RN st ops ops' ann = Some res -> ovals s ops = Some a ->
  exists a', ovals s' ops' = Some a' /\
    forall fills, (forall r y, res = Some (r, y) -> forall p, In p P -> pr p = r -> In (pd p) fills) ->
      args_rel P act fills ann a a'.
Proof.
  intros Hrn HI HD HV HC HF HR. induction ops as [|o t IH]; intros ops' ann res a Hf Ho.
  - destruct ops', ann; try discriminate. cbn in Ho. inversion Ho. exists []. split; auto. intros. exact I.
  - destruct ops' as [|o' t'], ann as [|an tn]; try discriminate. cbn [fill_args] in Hf.
    destruct (fill_args C P RN st t t' tn) as [rest|] eqn:Fr; try discriminate.
    cbn in Ho. destruct (oval s o) as [v|] eqn:Ov; try discriminate. destruct (ovals s t) as [ar|] eqn:Or; try discriminate. inversion Ho. subst a.
    destruct (IH t' tn rest ar Fr eq_refl) as [ar' [Har Rel]].
    destruct (is_fill an) eqn:Fl.
    + destruct rest; try discriminate. destruct o as [z|y|l]; try discriminate.
      destruct (cert_op C (OVar y)) as [[[rg|] [[| |]|]]|] eqn:Cy; try discriminate.
      match type of Hf with (if ?c then _ else _) = _ => destruct c eqn:Q end; try discriminate. inversion Hf. subst res.
      repeat (apply andb_prop in Q; let Q2 := fresh "Q" in destruct Q as [Q Q2]).
      apply operand_eqx_eq in Q. subst o'. apply negb_true_iff in Q2.
      destruct (HI y _ _ v Cy Ov) as [B1 B2]. destruct HV as [V1 V2].
      exists (v :: ar'). cbn. rewrite <- (V1 y Q2). cbn in Ov. rewrite Ov, Har. split; auto.
      intros fills Hfl. cbn. rewrite Fl. split.
      * split; auto. split. apply B2. reflexivity. apply memZ_in in Q1. apply in_map_iff in Q1. destruct Q1 as [p [Ep Ip]].
        exists p. repeat split; auto. rewrite B1, Ep. reflexivity. eapply Hfl; eauto.
      * apply Rel. intros r0 y0 E. discriminate.
    + destruct (good (okind_of C P RN st o o')) eqn:G; try discriminate. inversion Hf. subst res.
      destruct (okind_sound C P RN Hrn act st s s' o o' v HI HD (conj (proj1 HV) (proj2 HV)) HC HF HR G Ov) as [v' [Ov' [Ha _]]].
      exists (v' :: ar'). cbn. rewrite Ov', Har. split; auto.
      intros fills Hfl. cbn. rewrite Fl. split; auto.
Qed.

(* ---- one instruction *)
Section Step.
Variable O : oracle.
Variable C : certs.
Variable P : pairs.
Variable RN : list N.
Variable f : func.
Hypothesis Hor : oracle_ren O P.
Hypothesis Wf : pairs_wf P = true.
Hypothesis Hrn : rn_ok C P RN = true.
Hypothesis Hok : certs_ok f C = true.
Hypothesis Hal : allocas_ok C P f = true.

Definition INV (st : ist) (act : actf) (s s' : state) : Prop :=
  cinv C s /\ dinv C (regs P) s /\ vars_rel P RN s s' /\ orel P act s s' /\ cons P act st /\ fresh_ok P RN st s s' /\ rvars_ok st s.
Definition concl (st' : ist) (i i' : inst) (s s' : state) : Prop :=
  match exec_b O P i s with
  | Stuck => True
  | Halt => exec O i' s' = Halt
  | Next s1 => exists s1' act', exec O i' s' = Next s1' /\ INV st' act' s1 s1'
  end.

Lemma frames i i' s s' s1 s1' : exec O i s = Next s1 -> exec O i' s' = Next s1' -> outs_plain RN i = true -> i_outs i' = i_outs i ->
  forall x, memN x RN = true -> vars s1 x = vars s x /\ vars s1' x = vars s' x.
Proof.
  intros He He' Hop Eo x Hx.
  assert (N : ~ In x (i_outs i)). { intros I. rewrite (outs_plain_in RN i x Hop I) in Hx. discriminate. }
  split. eapply exec_frame; eauto. eapply exec_frame; eauto. rewrite Eo. exact N.
Qed.
Lemma fresh_keep st st' s s' s1 s1' : st_fresh st' = st_fresh st -> fresh_ok P RN st s s' ->
  (forall x, memN x RN = true -> vars s1 x = vars s x /\ vars s1' x = vars s' x) -> fresh_ok P RN st' s1 s1'.
Proof.
  intros E HF Fr x Hx. rewrite E in Hx. destruct (HF x Hx) as [R [v [p [A1 [A2 [A3 A4]]]]]]. split; auto.
  destruct (Fr x R) as [F1 F2]. exists v, p. rewrite F1, F2. auto.
Qed.
Lemma rvars_keep st i s s1 : rvars_ok st s -> exec O i s = Next s1 -> rvars_ok st s1.
Proof.
  intros HR He r y I. destruct (HR r y I) as [v Hv]. pose proof (exec_defined O i s s1 y He) as D.
  destruct (vars s1 y) as [w|]; eauto. exfalso. apply D; auto. rewrite Hv. discriminate.
Qed.
Lemma dinv_allE i s s1 : In i (all_insts f) -> cinv C s -> dinv C (regs P) s ->
  (forall o, In o (i_args i) -> dop C (regs P) o = false) -> exec O i s = Next s1 -> dinv C (regs P) s1.
Proof.
  intros Hin HI HD Hd He. eapply exec_dinv; eauto. unfold uses_ok.
  assert (E : existsb (dop C (regs P)) (i_args i) = false).
  { destruct (existsb (dop C (regs P)) (i_args i)) eqn:Q; auto. apply existsb_exists in Q. destruct Q as [o [Io Eo]]. rewrite (Hd o Io) in Eo. discriminate. }
  rewrite E. cbn [andb]. unfold allocas_ok in Hal. rewrite forallb_forall in Hal. specialize (Hal i Hin).
  destruct (String.eqb (i_op i) "alloca") eqn:Qa; auto.
Qed.

Lemma step_after st act i i' s s' s1 s1' : In i (all_insts f) -> INV st act s s' ->
  exec O i s = Next s1 -> exec O i' s' = Next s1' -> outs_plain RN i = true -> i_outs i' = i_outs i ->
  vars_rel P RN s1 s1' -> orel P act s1 s1' -> dinv C (regs P) s1 -> INV st act s1 s1'.
Proof.
  intros Hin [HI [HD [HV [HO [HC [HF HR]]]]]] He He' Hop Eo HV1 HO1 HD1.
  split. eapply exec_cinv; eauto. split; auto. split; auto. split; auto. split; auto. split.
  - eapply fresh_keep; eauto. eapply frames; eauto.
  - eapply rvars_keep; eauto.
Qed.

Lemma same_shell_prop i i' : same_shell i i' = true -> same_but_args i i'.
Proof.
  unfold same_shell. intros H. repeat (apply andb_prop in H; let H2 := fresh "H" in destruct H as [H H2]).
  apply String.eqb_eq in H. apply (list_eqb_eq N.eqb (fun x y => proj1 (N.eqb_eq x y))) in H4.
  apply Bool.eqb_prop in H3. apply Bool.eqb_prop in H2. apply Z.eqb_eq in H1. apply (list_eqb_eq _ ann_eqb_eq) in H0.
  repeat split; auto.
Qed.

(* unchanged instruction, no operand certified into P *)
Lemma step_allE st act i i' s s' ks : In i (all_insts f) -> INV st act s s' -> same_shell i i' = true ->
  kinds C P RN st (i_args i) (i_args i') = Some ks -> forallb isE ks = true -> outs_plain RN i = true -> no_fill i = true ->
  concl st i i' s s'.
Proof.
  intros Hin HINV Ss Hk He Hop Nf. pose proof HINV as [HI [HD [HV [HO [HC [HF HR]]]]]].
  destruct (kinds_allE C P RN st _ _ ks Hk He) as [Ea Hd].
  pose proof (same_shell_prop _ _ Ss) as SB.
  assert (Ei : i' = i).
  { destruct i, i'. destruct SB as [S1 [S2 [S3 [S4 [S5 S6]]]]]. cbn in *. subst. reflexivity. }
  subst i'. unfold concl, exec_b. destruct (inb P i s) eqn:Hb; [|exact I].
  assert (R : rel_outR P RN act (exec O i s) (exec O i s')).
  { destruct (is_ptr_op (i_op i)) eqn:Pt; [eapply exec_same_ptr; eauto|].
    destruct (String.eqb (i_op i) "nop") eqn:Np; [eapply exec_same_ptr; eauto|].
    destruct (ovals s (i_args i)) as [a|] eqn:Oa.
    2:{ unfold exec. unfold is_ptr_op in Pt. apply orb_false_iff in Pt. destruct Pt as [Pt _]. apply orb_false_iff in Pt. destruct Pt as [Pt _].
        apply orb_false_iff in Pt. destruct Pt as [Pt _]. apply orb_false_iff in Pt. destruct Pt as [Pt _]. rewrite Pt, Oa. exact I. }
    assert (Hg : forallb good ks = true).
    { rewrite forallb_forall in He. apply forallb_forall. intros k Ik. specialize (He k Ik). apply isE_KE in He. subst k. reflexivity. }
    destruct (kinds_sound C P RN act st s s' Hrn HI HD HV HC HF HR _ _ ks a Hk Hg Oa) as [a' [Oa' Ka]].
    eapply exec_mem; eauto. split.
    - intros _. destruct ks; auto. cbn in He. apply andb_prop in He. tauto.
    - intros _. destruct ks as [|? [|? ?]]; auto. cbn in He. apply andb_prop in He. destruct He as [_ He]. apply andb_prop in He. tauto. }
  destruct (exec O i s) as [s1| |] eqn:E1; destruct (exec O i s') as [s1'| |] eqn:E2; cbn in R; try contradiction; auto.
  destruct R as [V1 O1]. exists s1', act. split; auto. eapply step_after; eauto. eapply dinv_allE; eauto.
Qed.

Lemma rn_certified x : memN x RN = true -> exists d k, clook C x = Some (Some d, k) /\ In d (map pd P).
Proof.
  intros H. apply memN_in in H. unfold rn_ok in Hrn. rewrite forallb_forall in Hrn. specialize (Hrn x H).
  destruct (clook C x) as [[[d|] k]|]; try discriminate. exists d, k. split; auto. apply memZ_in. exact Hrn.
Qed.

(* alias of a buffer: %a = %b, unchanged *)
Lemma step_alias st act i i' s s' : In i (all_insts f) -> INV st act s s' -> alias_assign C P RN i i' = true -> concl st i i' s s'.
Proof.
  intros Hin HINV Ha. pose proof HINV as [HI [HD [HV [HO [HC [HF HR]]]]]]. unfold alias_assign in Ha.
  apply andb_prop in Ha. destruct Ha as [Ha Hb]. apply andb_prop in Ha. destruct Ha as [Ha Hop]. apply inst_eqb_eq in Ha. subst i'.
  apply String.eqb_eq in Hop. destruct i as [op args outs wm wrd id ann]. cbn [i_op i_args i_outs] in *. subst op.
  destruct args as [|[z|y|l] [|? ?]]; try discriminate. destruct outs as [|z [|? ?]]; try discriminate.
  apply andb_prop in Hb. destruct Hb as [Hb Hc]. apply andb_prop in Hb. destruct Hb as [Hy Hz]. apply negb_true_iff in Hy. apply negb_true_iff in Hz.
  unfold concl, exec_b. destruct (inb P _ s); [|exact I].
  set (i := mkI "assign" [OVar y] [z] wm wrd id ann) in *.
  assert (Ex : forall t, exec O i t = match vars t y with Some v => Next (with_vars t (upd (vars t) z v)) | None => Stuck end).
  { intros t. unfold exec, i. cbn [i_op i_args i_outs]. ceqb. cbn [ovals oval]. destruct (vars t y); reflexivity. }
  rewrite Ex. destruct HV as [V1 V2]. destruct (vars s y) as [v|] eqn:Vy; [|exact I].
  exists (with_vars s' (upd (vars s') z v)), act. split. { rewrite Ex, <- (V1 y Hy), Vy. reflexivity. }
  assert (E1 : exec O i s = Next (with_vars s (upd (vars s) z v))) by (rewrite Ex, Vy; reflexivity).
  assert (E2 : exec O i s' = Next (with_vars s' (upd (vars s') z v))) by (rewrite Ex, <- (V1 y Hy), Vy; reflexivity).
  assert (Hop : outs_plain RN i = true). { unfold outs_plain, i. cbn. rewrite Hz. reflexivity. }
  eapply step_after; eauto.
  - apply vars_rel_upd_plain; auto. split; auto.
  - eapply exec_dinv; eauto. unfold uses_ok, i. cbn [i_args i_op i_outs existsb]. rewrite orb_false_r. ceqb. cbn [andb].
    destruct (dop C (regs P) (OVar y)); auto. unfold is_prop_op. ceqb. cbn. unfold certified_out, i in Hc. cbn in Hc. rewrite Hc. reflexivity.
Qed.

(* a renamed pointer is derived *)
Lemma step_ptr st act i i' s s' ks x : In i (all_insts f) -> INV st act s s' -> same_shell i i' = true ->
  kinds C P RN st (i_args i) (i_args i') = Some ks -> forallb good ks = true ->
  (String.eqb (i_op i) "assign" || String.eqb (i_op i) "add" = true) -> i_outs i = [x] -> memN x RN = true ->
  concl (st_active st, st_filled st, x :: st_fresh st, st_rvars st) i i' s s'.
Proof.
  intros Hin HINV Ss Hk Hg Hop Hx Hrx. pose proof HINV as [HI [HD [HV [HO [HC [HF HR]]]]]].
  pose proof (same_shell_prop _ _ Ss) as SB.
  unfold concl, exec_b. destruct (inb P i s); [|exact I].
  assert (Hop2 : i_op i = "assign" \/ i_op i = "add").
  { apply orb_prop in Hop. destruct Hop as [H|H]; apply String.eqb_eq in H; auto. }
  destruct (ovals s (i_args i)) as [a|] eqn:Oa.
  2:{ unfold exec. rewrite Oa. destruct Hop2 as [E|E]; rewrite E; ceqb; exact I. }
  destruct (kinds_sound C P RN act st s s' Hrn HI HD HV HC HF HR _ _ ks a Hk Hg Oa) as [a' [Oa' Ka]].
  pose proof (exec_ptr O P RN act i i' s s' ks a a' x HV HO SB Hop2 Hx Hrx Oa Oa' Ka) as X.
  destruct (exec O i s) as [s1| |] eqn:E1; try contradiction; auto.
  destruct X as [s1' [v [v' [E2 [V1 [O1 [A1 [A2 Rv]]]]]]]]. exists s1', act. split; auto.
  assert (HI1 : cinv C s1) by (eapply exec_cinv; eauto).
  assert (Eo' : i_outs i' = [x]). { destruct SB as [_ [S2 _]]. rewrite <- S2. exact Hx. }
  destruct (rn_certified x Hrx) as [d [k [Cx Id]]].
  split; auto. split.
  { apply (exec_dinv O C (regs P) i s s1 HI HD); [|exact E1]. unfold uses_ok.
    assert (Pp : is_prop_op (i_op i) = true). { unfold is_prop_op. destruct Hop2 as [E|E]; rewrite E; reflexivity. }
    assert (Co : certified_out C i = true). { unfold certified_out. rewrite Hx, Cx. reflexivity. }
    rewrite Pp, Co. cbn [andb]. destruct (existsb (dop C (regs P)) (i_args i)); cbn [andb].
    - destruct Hop2 as [E|E]; rewrite E; reflexivity.
    - destruct Hop2 as [E|E]; rewrite E; reflexivity. }
  split; auto. split; auto. split. { destruct HC as [C1 C2]. split; auto. }
  split.
  - intros y Hy. cbn [st_fresh snd fst] in Hy. cbn in Hy. destruct (N.eqb y x) eqn:Q.
    + apply N.eqb_eq in Q. subst y. split; auto.
      destruct (HI1 x _ _ v Cx A1) as [B1 _].
      destruct Rv as [[_ Fr]|[p [Ip [Ep Ev]]]].
      * exfalso. rewrite B1 in Fr. cbn in Fr. assert (memZ d (regs P) = true). { apply memZ_in. unfold regs. apply in_or_app. left. exact Id. }
        unfold memZ in H. rewrite H in Fr. discriminate.
      * exists v, p. subst v'. auto.
    + cbn in Hy. destruct (HF y Hy) as [R [w [p [W1 [W2 [W3 W4]]]]]]. split; auto. exists w, p.
      assert (Ny : ~ In y (i_outs i)). { rewrite Hx. intros [E|[]]. subst y. rewrite N.eqb_refl in Q. discriminate. }
      rewrite (exec_frame O i s s1 y E1 Ny). rewrite (exec_frame O i' s' s1' y E2). auto. rewrite Eo', <- Hx. exact Ny.
  - intros r y I. eapply rvars_keep; eauto.
Qed.

(* memory / oracle instruction with renamed operands *)
Lemma step_mem st act i i' s s' ks : In i (all_insts f) -> INV st act s s' -> same_shell i i' = true ->
  kinds C P RN st (i_args i) (i_args i') = Some ks -> forallb good ks = true ->
  is_ptr_op (i_op i) = false -> String.eqb (i_op i) "nop" = false -> shapeP (i_op i) ks ->
  outs_plain RN i = true -> no_fill i = true -> concl st i i' s s'.
Proof.
  intros Hin HINV Ss Hk Hg Pt Np Sh Hop Nf. pose proof HINV as [HI [HD [HV [HO [HC [HF HR]]]]]].
  pose proof (same_shell_prop _ _ Ss) as SB.
  unfold concl, exec_b. destruct (inb P i s) eqn:Hb; [|exact I].
  destruct (ovals s (i_args i)) as [a|] eqn:Oa.
  2:{ unfold exec. unfold is_ptr_op in Pt. apply orb_false_iff in Pt. destruct Pt as [Pt _]. apply orb_false_iff in Pt. destruct Pt as [Pt _].
      apply orb_false_iff in Pt. destruct Pt as [Pt _]. apply orb_false_iff in Pt. destruct Pt as [Pt _]. rewrite Pt, Oa. exact I. }
  destruct (kinds_sound C P RN act st s s' Hrn HI HD HV HC HF HR _ _ ks a Hk Hg Oa) as [a' [Oa' Ka]].
  pose proof (exec_mem O P RN act i i' s s' ks a a' Hor Wf HV HO SB Pt Np Oa Oa' Ka Sh Nf Hop Hb) as R.
  destruct (exec O i s) as [s1| |] eqn:E1; destruct (exec O i' s') as [s1'| |] eqn:E2; cbn in R; try contradiction; auto.
  destruct R as [V1 O1]. exists s1', act. split; auto. eapply step_after; eauto.
  - destruct SB as [_ [S2 _]]. auto.
  - eapply exec_dinv_plain; eauto.
Qed.

(* the forwarded copy *)
Lemma step_copy st act i i' s s' n sy dx d r : INV st act s s' ->
  i_op i = "mcopy" -> i_op i' = "nop" -> i_args i = [OLit n; OVar sy; OVar dx] -> i_outs i = [] -> i_args i' = [] -> i_outs i' = [] ->
  cert_op C (OVar dx) = Some (Some d, Some 0) -> cert_op C (OVar sy) = Some (Some r, Some 0) ->
  existsb (fun p => (pd p =? d) && (pr p =? r) && (pn p =? n mod W)) P = true ->
  memZ d (st_active st) = false -> memZ r (st_filled st) = true ->
  concl (d :: st_active st, removeZ r (st_filled st), st_fresh st, (r, sy) :: st_rvars st) i i' s s'.
Proof.
  intros HINV Eo Eo' Ea Eu Ea' Eu' Cd Cs Hp Hda Hrf. pose proof HINV as [HI [HD [HV [HO [HC [HF HR]]]]]].
  apply existsb_exists in Hp. destruct Hp as [p [Ip Ep]]. apply andb_prop in Ep. destruct Ep as [Ep E3]. apply andb_prop in Ep. destruct Ep as [E1 E2].
  apply Z.eqb_eq in E1. apply Z.eqb_eq in E2. apply Z.eqb_eq in E3. subst d r.
  unfold concl, exec_b. destruct (inb P i s); [|exact I].
  destruct i as [op args outs wm wrd id ann], i' as [op' args' outs' wm' wrd' id' ann']. cbn [i_op i_args i_outs] in *. subst.
  unfold exec at 1. cbn [i_op i_args i_outs]. ceqb. cbn [ovals oval].
  destruct (vars s sy) as [vs|] eqn:Vs; [|exact I]. destruct (vars s dx) as [vd|] eqn:Vd; [|exact I].
  destruct (HI dx _ _ vd Cd Vd) as [D1 D2]. destruct (HI sy _ _ vs Cs Vs) as [S1 S2].
  destruct vd as [rd kd], vs as [rs ks]. cbn in D1, S1, D2, S2. subst rd rs. rewrite (D2 0 eq_refl), (S2 0 eq_refl).
  exists s', (fun z => if z =? pd p then true else act z). split. { unfold exec. cbn [i_op i_args i_outs]. ceqb. reflexivity. }
  destruct HC as [C1 C2]. assert (Ac : act (pd p) = false) by (apply C2; auto).
  split. { eapply cinv_vars; [|exact HI]. reflexivity. }
  split. { intros x v Hv Hd. eapply HD; eauto. }
  split. { destruct HV as [V1 V2]. split; auto. }
  split. { destruct HO as [HM [Er [Ew Ep]]]. split; [|cbn; auto]. cbn [smem with_mem]. rewrite <- E3. apply copy_mrel; auto. }
  split.
  { split.
    - intros z Hz. cbn [st_active fst] in Hz. destruct (Z.eqb_spec z (pd p)) as [Ez|Nz]; auto. apply C1.
      unfold memZ in Hz. cbn [existsb] in Hz. apply orb_prop in Hz. destruct Hz as [Hz|Hz]; auto. apply Z.eqb_eq in Hz. congruence.
    - intros q Iq Hq. cbn [st_filled fst snd] in Hq. unfold removeZ in Hq. apply memZ_in in Hq. apply filter_In in Hq. destruct Hq as [Hq1 Hq2].
      apply negb_true_iff in Hq2. apply Z.eqb_neq in Hq2.
      destruct (ids_distinct P q p Wf Iq Ip) as [D4 [D5 _]].
      destruct (Z.eqb_spec (pd q) (pd p)) as [E|NE]. exfalso. apply Hq2. rewrite (D4 E). reflexivity.
      apply C2; auto. apply memZ_in. exact Hq1. }
  split.
  { intros x Hx. apply (HF x Hx). }
  intros r0 y0 [E|I0]. inversion E. subst. eexists. exact Vs. apply (HR r0 y0 I0).
Qed.

Lemma fill_args_res st : forall ops ops' ann r y, fill_args C P RN st ops ops' ann = Some (Some (r, y)) ->
  In (OVar y) ops /\ memZ r (map pr P) = true /\ forallb (fun d => negb (memZ d (st_active st))) (partner_d P r) = true.
Proof.
  induction ops as [|o t IH]; intros ops' ann r y H.
  - destruct ops', ann; discriminate.
  - destruct ops' as [|o' t'], ann as [|an tn]; try discriminate. cbn [fill_args] in H.
    destruct (fill_args C P RN st t t' tn) as [rest|] eqn:Fr; try discriminate.
    destruct (is_fill an).
    + destruct rest; try discriminate. destruct o as [z|y0|l]; try discriminate.
      destruct (cert_op C (OVar y0)) as [[[rg|] [[| |]|]]|]; try discriminate.
      match type of H with (if ?c then _ else _) = _ => destruct c eqn:Q end; try discriminate. inversion H. subst.
      repeat (apply andb_prop in Q; let Q2 := fresh "Q" in destruct Q as [Q Q2]). repeat split; auto. left. reflexivity.
    + destruct (good (okind_of C P RN st o o')); try discriminate. inversion H. subst rest.
      destruct (IH t' tn r y Fr) as [A [B D]]. repeat split; auto. right. exact A.
Qed.
Lemma ovals_defined s : forall ops a o, ovals s ops = Some a -> In o ops -> oval s o <> None.
Proof.
  induction ops as [|x t IH]; intros a o H I; [destruct I|]. cbn in H. destruct (oval s x) eqn:Ox; try discriminate.
  destruct (ovals s t) eqn:Ot; try discriminate. destruct I as [<-|I]. rewrite Ox. discriminate. eapply IH; eauto.
Qed.

(* the invoke that fills a return buffer *)
Lemma step_fill st act i i' s s' r y : In i (all_insts f) -> INV st act s s' -> same_shell i i' = true -> i_op i = "invoke" ->
  fill_args C P RN st (i_args i) (i_args i') (i_ann i) = Some (Some (r, y)) -> i_wm i = true -> outs_plain RN i = true ->
  concl (st_active st, r :: st_filled st, st_fresh st, (r, y) :: st_rvars st) i i' s s'.
Proof.
  intros Hin HINV Ss Eo Hfa Hwm Hop. pose proof HINV as [HI [HD [HV [HO [HC [HF HR]]]]]].
  pose proof (same_shell_prop _ _ Ss) as SB. destruct (fill_args_res st _ _ _ r y Hfa) as [Iy [Hr Hpa]].
  unfold concl, exec_b. destruct (inb P i s); [|exact I].
  destruct (ovals s (i_args i)) as [a|] eqn:Oa.
  2:{ unfold exec. rewrite Eo, Oa. ceqb. exact I. }
  destruct (fill_args_sound C P RN act st s s' Hrn HI HD HV HC HF HR _ _ _ _ a Hfa Oa) as [a' [Oa' AR]].
  set (fills := partner_d P r).
  assert (ARf : args_rel P act fills (i_ann i) a a').
  { apply AR. intros r0 y0 E p Ip Ep. unfold fills, partner_d. apply in_map. apply filter_In. split; auto. apply Z.eqb_eq. congruence. }
  destruct Hor as [Hs _]. specialize (Hs i i' a a' s s' act fills SB HO ARf).
  assert (Ex : forall j t, i_op j = "invoke" -> exec O j t = match ovals t (i_args j) with None => Stuck | Some args =>
              match o_step O j args t with None => Halt | Some (outs, m', rd', w') =>
                match set_outs (vars t) (i_outs j) outs with None => Stuck
                | Some vs => Next (mkS vs (if i_wm j then m' else smem t) (if i_wrd j then rd' else srd t) w' (spred t)) end end end).
  { intros j t Ej. unfold exec. rewrite Ej. ceqb. reflexivity. }
  destruct SB as [S1 [S2 [S3 [S4 [S5 S6]]]]].
  assert (Eo' : i_op i' = "invoke") by congruence.
  assert (Hout : forall x, In x (i_outs i) -> memN x RN = false) by (intros x Ix; eapply outs_plain_in; eauto).
  destruct (exec O i s) as [s1| |] eqn:E1; [| |exact I].
  - pose proof E1 as E1'. rewrite (Ex i s Eo), Oa in E1'.
    destruct (o_step O i a s) as [[[[o m] rd] w]|] eqn:Q1; try discriminate.
    destruct (set_outs (vars s) (i_outs i) o) as [vs1|] eqn:So1; try discriminate. injection E1' as E1'.
    destruct (o_step O i' a' s') as [[[[o' m'] rd'] w']|] eqn:Q2; try contradiction.
    destruct Hs as [<- [<- [<- Hm]]].
    destruct HV as [V1 V2]. pose proof (set_outs_rel P RN (i_outs i) o (vars s) (vars s') Hout V1 V2) as SO. rewrite So1 in SO.
    destruct (set_outs (vars s') (i_outs i) o) as [vs1'|] eqn:So2; try contradiction.
    set (s1' := mkS vs1' (if i_wm i' then m' else smem s') (if i_wrd i' then rd else srd s') w (spred s')).
    assert (E2 : exec O i' s' = Next s1'). { rewrite (Ex i' s' Eo'), Oa', Q2, <- S2, So2. reflexivity. }
    exists s1', (fun z => act z && negb (memZ z fills)). split; auto.
    destruct HO as [HM [Er [Ew Ep]]]. destruct HC as [C1 C2].
    split. { eapply exec_cinv; eauto. }
    split. { eapply exec_dinv_plain; eauto. rewrite Eo. reflexivity. }
    split. { subst s1. unfold s1'. cbn. exact SO. }
    split. { subst s1. unfold s1'. split; [|cbn; rewrite <- S4; destruct (i_wrd i); auto]. cbn. rewrite <- S3, Hwm. exact Hm. }
    split.
    { split.
      - intros z Hz. cbn [st_active fst] in Hz. rewrite (C1 z Hz). cbn. apply negb_true_iff.
        destruct (memZ z fills) eqn:Q; auto. apply memZ_in in Q. rewrite forallb_forall in Hpa. specialize (Hpa z Q). rewrite Hz in Hpa. discriminate.
      - intros q Iq Hq. cbn [st_filled fst snd] in Hq. cbn in Hq. apply orb_prop in Hq. destruct Hq as [Hq|Hq].
        + apply Z.eqb_eq in Hq. assert (memZ (pd q) fills = true).
          { apply memZ_in. unfold fills, partner_d. apply in_map. apply filter_In. split; auto. apply Z.eqb_eq. auto. }
          rewrite H. cbn. apply andb_false_r.
        + rewrite (C2 q Iq Hq). reflexivity. }
    split.
    { eapply fresh_keep; eauto. eapply frames; eauto. }
    intros r0 y0 [E|I0].
    + inversion E. subst r0 y0. pose proof (ovals_defined s _ a (OVar y) Oa Iy) as Dy. cbn in Dy.
      pose proof (exec_defined O i s s1 y E1 Dy) as D1. destruct (vars s1 y); eauto. contradiction.
    + eapply rvars_keep; eauto.
  - rewrite (Ex i s Eo), Oa in E1. rewrite (Ex i' s' Eo'), Oa'.
    destruct (o_step O i a s) as [[[[o m] rd] w]|] eqn:Q1.
    + destruct (set_outs (vars s) (i_outs i) o); discriminate.
    + destruct (o_step O i' a' s') as [[[[o' m'] rd'] w']|]; [contradiction|reflexivity].
Qed.

Lemma ir_step st st' act i i' s s' : In i (all_insts f) -> INV st act s s' -> ir_inst C P RN st i i' = Some st' -> concl st' i i' s s'.
Proof.
  intros Hin HINV H. unfold ir_inst in H. destruct st as [[[ac fil] fr] rv].
  destruct (String.eqb (i_op i) "mcopy" && String.eqb (i_op i') "nop") eqn:B1.
  { apply andb_prop in B1. destruct B1 as [E1 E2]. apply String.eqb_eq in E1. apply String.eqb_eq in E2.
    destruct (i_args i) as [|[n|?|?] [|[?|sy|?] [|[?|dx|?] [|? ?]]]] eqn:Ea; try discriminate.
    destruct (i_outs i) eqn:Eu; try discriminate. destruct (i_args i') eqn:Ea'; try discriminate. destruct (i_outs i') eqn:Eu'; try discriminate.
    destruct (cert_op C (OVar dx)) as [[[d|] [[| |]|]]|] eqn:Cd; try discriminate.
    destruct (cert_op C (OVar sy)) as [[[r|] [[| |]|]]|] eqn:Cs; try discriminate.
    match type of H with (if ?c then _ else _) = _ => destruct c eqn:Q end; try discriminate. inversion H. subst st'.
    repeat (apply andb_prop in Q; let Q2 := fresh "Q" in destruct Q as [Q Q2]). apply negb_true_iff in Q1.
    apply (step_copy (ac, fil, fr, rv) act i i' s s' n sy dx d r HINV E1 E2 Ea Eu Ea' Eu' Cd Cs Q2 Q1 Q0). }
  destruct (same_shell i i') eqn:Ss; cbn [negb] in H; try discriminate.
  destruct (String.eqb (i_op i) "invoke" && negb (no_fill i)) eqn:B3.
  { apply andb_prop in B3. destruct B3 as [E1 _]. apply String.eqb_eq in E1.
    destruct (fill_args C P RN (ac, fil, fr, rv) (i_args i) (i_args i') (i_ann i)) as [[[r y]|]|] eqn:Fa; try discriminate.
    destruct (i_wm i && outs_plain RN i) eqn:Q; try discriminate. inversion H. subst st'. apply andb_prop in Q. destruct Q as [Q1 Q2].
    apply (step_fill (ac, fil, fr, rv) act i i' s s' r y Hin HINV Ss E1 Fa Q1 Q2). }
  destruct (kinds C P RN (ac, fil, fr, rv) (i_args i) (i_args i')) as [ks|] eqn:Hk; try discriminate.
  destruct (forallb good ks) eqn:Hg; cbn [negb] in H; try discriminate.
  destruct (forallb isE ks) eqn:He.
  { destruct (outs_plain RN i && no_fill i) eqn:Q; try discriminate. inversion H. subst st'. apply andb_prop in Q. destruct Q as [Q1 Q2].
    eapply step_allE; eauto. }
  destruct (String.eqb (i_op i) "assign" || String.eqb (i_op i) "add") eqn:Bp.
  { destruct (i_outs i) as [|x [|? ?]] eqn:Eu; try discriminate. destruct (memN x RN) eqn:Rx; try discriminate. inversion H. subst st'.
    apply (step_ptr (ac, fil, fr, rv) act i i' s s' ks x Hin HINV Ss Hk Hg Bp Eu Rx). }
  destruct (String.eqb (i_op i) "sub" || String.eqb (i_op i) "phi" || String.eqb (i_op i) "alloca" || String.eqb (i_op i) "nop") eqn:Bq; try discriminate.
  match type of H with (if ?c then _ else _) = _ => destruct c eqn:Q end; try discriminate. inversion H. subst st'.
  apply andb_prop in Q. destruct Q as [Q Q3]. apply andb_prop in Q. destruct Q as [Q1 Q2].
  apply orb_false_iff in Bp. destruct Bp as [Pa Pb].
  apply orb_false_iff in Bq. destruct Bq as [Bq Pn]. apply orb_false_iff in Bq. destruct Bq as [Bq Pal]. apply orb_false_iff in Bq. destruct Bq as [Ps Pph].
  eapply step_mem; eauto.
  - unfold is_ptr_op. rewrite Pph, Pa, Pal, Pb, Ps. reflexivity.
  - split.
    + intros [E|[E|E]].
      * rewrite E in Q3. ceqb. destruct ks as [|k [|k2 [|? ?]]]; try discriminate. exact Q3.
      * rewrite E in Q3. ceqb. destruct ks as [|k [|k2 [|k3 [|? ?]]]]; try discriminate. exact Q3.
      * rewrite E in Q3. destruct (String.eqb (i_op i) "mstore") eqn:X1. { apply String.eqb_eq in X1. rewrite X1 in E. discriminate. }
        destruct (String.eqb (i_op i) "mcopy") eqn:X2. { apply String.eqb_eq in X2. rewrite X2 in E. discriminate. }
        destruct ks as [|k [|k2 [|k3 [|? ?]]]]; try discriminate. apply andb_prop in Q3. tauto.
    + intros E. rewrite E in Q3. destruct (String.eqb (i_op i) "mstore") eqn:X1. { apply String.eqb_eq in X1. rewrite X1 in E. discriminate. }
      destruct (String.eqb (i_op i) "mcopy") eqn:X2. { apply String.eqb_eq in X2. rewrite X2 in E. discriminate. }
      destruct ks as [|k [|k2 [|k3 [|? ?]]]]; try discriminate. apply andb_prop in Q3. tauto.
Qed.
End Step.

(* ---- blocks and the CFG *)
Definition brelR (C : certs) (P : pairs) (RN : list N) (r r' : bres) : Prop :=
  match r, r' with
  | BStuck, _ => True
  | BHalt, BHalt => True
  | BNext s1 l, BNext s1' l' =>
      l = l' /\ exists act1, cinv C s1 /\ dinv C (regs P) s1 /\ vars_rel P RN s1 s1' /\ orel P act1 s1 s1'
  | _, _ => False
  end.
Definition rel_resR (P : pairs) (RN : list N) (r r' : result) : Prop :=
  match r, r' with
  | StuckR, _ => True
  | Done a, Done b => exists act, vars_rel P RN a b /\ orel P act a b
  | Halted a, Halted b => exists act, vars_rel P RN a b /\ orel P act a b
  | OutOfFuel, OutOfFuel => True
  | _, _ => False
  end.

Lemma kinds_labels C P RN st : forall a a' ks, kinds C P RN st a a' = Some ks -> forallb good ks = true ->
  forall l, existsb (fun o => match o with OLab l' => N.eqb l l' | _ => false end) a =
            existsb (fun o => match o with OLab l' => N.eqb l l' | _ => false end) a'.
Proof.
  induction a as [|o r IH]; intros a' ks Hk Hg l.
  - destruct a'; try discriminate. reflexivity.
  - destruct a' as [|o' r']; try discriminate. cbn in Hk. destruct (kinds C P RN st r r') as [kr|] eqn:Kr; try discriminate.
    inversion Hk. subst ks. cbn in Hg. apply andb_prop in Hg. destruct Hg as [G1 G2]. cbn. rewrite (IH r' kr Kr G2 l). f_equal.
    unfold good, okind_of in G1. destruct (operand_eqx o o') eqn:Ex.
    + apply operand_eqx_eq in Ex. subst. reflexivity.
    + destruct o, o'; try discriminate; reflexivity.
Qed.

Section Blocks.
Variable O : oracle.
Variable C : certs.
Variable P : pairs.
Variable RN : list N.
Variable f : func.
Hypothesis Hor : oracle_ren O P.
Hypothesis Wf : pairs_wf P = true.
Hypothesis Hrn : rn_ok C P RN = true.
Hypothesis Hok : certs_ok f C = true.
Hypothesis Hal : allocas_ok C P f = true.

Lemma ir_block_lockstep : forall b b' st act s s',
  (forall i, In i b -> In i (all_insts f)) -> INV C P RN st act s s' -> ir_insts C P RN st b b' = true ->
  brelR C P RN (exec_block_b O P b s) (exec_block O b' s').
Proof.
  induction b as [|i r IH]; intros b' st act s s' Hin HINV Hc.
  - destruct b'; try discriminate. destruct HINV as [HI [HD [HV [HO _]]]]. cbn. split; auto. exists act. auto.
  - destruct b' as [|i' r']; try (destruct r; discriminate).
    destruct r as [|i2 r].
    + (* terminator *)
      destruct r' as [|x2 r2].
      2:{ cbn [ir_insts] in Hc. destruct (alias_assign C P RN i i'); [cbn in Hc; discriminate|]. destruct (ir_inst C P RN st i i'); cbn in Hc; discriminate. }
      cbn [ir_insts] in Hc. unfold term_ok in Hc. apply andb_prop in Hc. destruct Hc as [Ss Hk].
      destruct (kinds C P RN st (i_args i) (i_args i')) as [ks|] eqn:Kk; try discriminate.
      pose proof HINV as [HI [HD [HV [HO [HC [HF HR]]]]]].
      cbn [exec_block_b exec_block].
      destruct (ovals s (i_args i)) as [a|] eqn:Oa; [|exact I].
      destruct (kinds_sound C P RN act st s s' Hrn HI HD HV HC HF HR _ _ ks a Kk Hk Oa) as [a' [Oa' Ka]]. rewrite Oa'.
      destruct Hor as [_ Hnx].
      rewrite <- (Hnx i i' a a' s s' act (same_shell_prop _ _ Ss) HO (kargs_args_rel P act ks a a' [] eq_refl Ka)).
      assert (Fin : forall l, brelR C P RN (BNext s l) (BNext s' l)). { intros l. cbn. split; auto. exists act. auto. }
      destruct (o_next O i a s) as [l|]; [|apply Fin].
      rewrite <- (kinds_labels C P RN st _ _ ks Kk Hk l). match goal with |- context [if ?c then BNext _ _ else _] => destruct c end; apply Fin.
    + destruct r' as [|i2' r']. { cbn [ir_insts] in Hc. destruct (alias_assign C P RN i i'); [destruct r; cbn in Hc; discriminate|]. destruct (ir_inst C P RN st i i'); [destruct r; cbn in Hc; discriminate|discriminate]. }
      change (exec_block_b O P (i :: i2 :: r) s) with (match exec_b O P i s with Stuck => BStuck | Halt => BHalt | Next s1 => exec_block_b O P (i2 :: r) s1 end).
      change (exec_block O (i' :: i2' :: r') s') with (match exec O i' s' with Stuck => BStuck | Halt => BHalt | Next s1 => exec_block O (i2' :: r') s1 end).
      assert (Hi : In i (all_insts f)) by (apply Hin; left; reflexivity).
      assert (Hin2 : forall j, In j (i2 :: r) -> In j (all_insts f)) by (intros j Ij; apply Hin; right; exact Ij).
      assert (X : exists st', concl O C P RN st' i i' s s' /\ ir_insts C P RN st' (i2 :: r) (i2' :: r') = true).
      { change (ir_insts C P RN st (i :: i2 :: r) (i' :: i2' :: r')) with
          (if alias_assign C P RN i i' then ir_insts C P RN st (i2 :: r) (i2' :: r')
           else match ir_inst C P RN st i i' with Some st' => ir_insts C P RN st' (i2 :: r) (i2' :: r') | None => false end) in Hc.
        destruct (alias_assign C P RN i i') eqn:Al.
        - exists st. split; auto. eapply step_alias; eauto.
        - destruct (ir_inst C P RN st i i') as [st'|] eqn:Is; try discriminate. exists st'. split; auto. eapply ir_step; eauto. }
      destruct X as [st' [Cc Hr]]. unfold concl in Cc.
      destruct (exec_b O P i s) as [s1| |]; [| |exact I].
      * destruct Cc as [s1' [act' [E2 HINV']]]. rewrite E2. eapply IH; eauto.
      * rewrite Cc. exact I.
Qed.

Variable f' : func.
Hypothesis Hbl : ir_blocks C P RN f f' = true.

Lemma ir_blocks_nth : forall g g', ir_blocks C P RN g g' = true -> forall n,
  match nth_error g n with
  | None => nth_error g' n = None
  | Some b => exists b', nth_error g' n = Some b' /\ ir_insts C P RN st0 b b' = true
  end.
Proof.
  induction g as [|b r IH]; intros g' H n.
  - destruct g'; try discriminate. destruct n; reflexivity.
  - destruct g' as [|b' r']; try discriminate. cbn [ir_blocks] in H. apply andb_prop in H. destruct H as [H1 H2].
    destruct n; cbn. exists b'. auto. apply IH. exact H2.
Qed.

Lemma ir_run_lockstep : forall fuel l s s' act, cinv C s -> dinv C (regs P) s -> vars_rel P RN s s' -> orel P act s s' ->
  rel_resR P RN (run_b O P f fuel l s) (run O f' fuel l s').
Proof.
  induction fuel; intros l s s' act HI HD HV HO; [exact I|]. cbn [run_b run].
  pose proof (ir_blocks_nth f f' Hbl (N.to_nat l)) as Hn.
  destruct (nth_error f (N.to_nat l)) as [b|] eqn:Nb.
  2:{ rewrite Hn. exists act. auto. }
  destruct Hn as [b' [Nb' Hc]]. rewrite Nb'.
  assert (Hin : forall i, In i b -> In i (all_insts f)).
  { intros i Ii. unfold all_insts. apply in_concat. exists b. split; auto. eapply nth_error_In; eauto. }
  assert (HINV : INV C P RN st0 act s s').
  { split; auto. split; auto. split; auto. split; auto. split. { split; intros; discriminate. }
    split. { intros x Hx. discriminate. } intros r0 y0 []. }
  pose proof (ir_block_lockstep b b' st0 act s s' Hin HINV Hc) as B. unfold brelR in B.
  destruct (exec_block_b O P b s) as [s1 l1| |]; [| |exact I].
  - destruct (exec_block O b' s') as [s1' l1'| |]; try contradiction.
    destruct B as [<- [act1 [HI1 [HD1 [HV1 HO1]]]]]. destruct l1 as [l1|]; [|exists act1; auto].
    apply IHfuel with (act := act1).
    + eapply cinv_vars; [|exact HI1]. reflexivity.
    + intros x v Hv Hd. eapply HD1; eauto.
    + destruct HV1 as [V1 V2]. split; auto.
    + destruct HO1 as [A1 [A2 [A3 A4]]]. repeat split; auto; apply A1.
  - destruct (exec_block O b' s'); try contradiction. exists act. auto.
Qed.
End Blocks.

Theorem internal_return_sound O C P RN f f' :
  oracle_ren O P -> ir_check C P RN f f' = true ->
  forall s0 s0' act0, cinv C s0 -> dinv C (regs P) s0 -> vars_rel P RN s0 s0' -> orel P act0 s0 s0' ->
  forall fuel, rel_resR P RN (run_b O P f fuel 0 s0) (run O f' fuel 0 s0').
Proof.
  intros Hor H s0 s0' act0 HI HD HV HO fuel. unfold ir_check in H.
  apply andb_prop in H. destruct H as [H H0]. apply andb_prop in H. destruct H as [H H1]. apply andb_prop in H. destruct H as [H H2].
  apply andb_prop in H. destruct H as [H H3].
  apply (ir_run_lockstep O C P RN f Hor H3 H2 H H1 f' H0 fuel 0%N s0 s0' act0); auto.
Qed.
