(* C14C / CopySound.v -- copyfwd_check_sound: a function pair accepted by `check_func` runs in lockstep. *)
From Coq Require Import ZArith NArith Bool List String Lia.
From Verif Require Import C14C.CopySem C14C.CopyCheck C14C.CopySound1 C14C.CopySound2 C14C.CopySound3 C14C.CopySound4.
Import ListNotations.
Open Scope string_scope.
Open Scope Z_scope.
Local Opaque W Z.modulo.

Lemma list_eqb_eq {A} (eqb : A -> A -> bool) : (forall x y, eqb x y = true -> x = y) -> forall l m, list_eqb eqb l m = true -> l = m.
Proof. intros H. induction l; destruct m; cbn; try discriminate; auto. intros Q. apply andb_prop in Q. destruct Q as [Q1 Q2].
  f_equal; auto. Qed.
Lemma operand_eqx_eq a b : operand_eqx a b = true -> a = b.
Proof. destruct a, b; cbn; try discriminate; intros H; f_equal; try (apply Z.eqb_eq; exact H); apply N.eqb_eq; exact H. Qed.
Lemma inst_eqb_eq a b : inst_eqb a b = true -> a = b.
Proof.
  destruct a, b. unfold inst_eqb. cbn. intros H. repeat (apply andb_prop in H; let H2 := fresh "H" in destruct H as [H H2]).
  apply String.eqb_eq in H. apply (list_eqb_eq _ operand_eqx_eq) in H5. apply (list_eqb_eq N.eqb (fun x y => proj1 (N.eqb_eq x y))) in H4.
  apply Bool.eqb_prop in H3. apply Bool.eqb_prop in H2. apply Z.eqb_eq in H1. apply (list_eqb_eq _ ann_eqb_eq) in H0. subst. reflexivity.
Qed.

Lemma rev_head {A} (i : A) l : l <> [] -> exists t q, rev l = t :: q /\ rev (i :: l) = t :: (q ++ [i]).
Proof. intros N. cbn. destruct (rev l) as [|t q] eqn:R. { apply (f_equal (@rev A)) in R. rewrite rev_involutive in R. contradiction. }
  exists t, q. auto. Qed.
Lemma last_same_cons i i' l l' : l <> [] -> l' <> [] -> last_same (i :: l) (i' :: l') = last_same l l'.
Proof. intros N N'. destruct (rev_head i l N) as [t [q [R1 R2]]]. destruct (rev_head i' l' N') as [t' [q' [R1' R2']]].
  unfold last_same. rewrite R1, R2, R1', R2'. reflexivity. Qed.
Lemma succs_cons i l : l <> [] -> succs (i :: l) = succs l.
Proof. intros N. destruct (rev_head i l N) as [t [q [R1 R2]]]. unfold succs. rewrite R1, R2. reflexivity. Qed.

Definition brel (O : oracle) (C : certs) (F : list fact) (b : list inst) (r r' : bres) : Prop :=
  match r, r' with
  | BStuck, _ => True
  | BHalt, BHalt => True
  | BNext s1 l, BNext s1' l' =>
      seq2 s1 s1' /\ l = l' /\ cinv C s1 /\ allholds O s1 (exit_facts C F b) /\ (forall x, l = Some x -> In x (succs b))
  | _, _ => False
  end.

Section Sound.
Variable O : oracle.
Variable C : certs.
Variable f : func.
Hypothesis Hext : oracle_ext O.
Hypothesis Hro : ro_uniform O.
Hypothesis Hok : certs_ok f C = true.

Lemma block_lockstep : forall b b' F s s',
  (forall i, In i b -> In i (all_insts f)) -> cinv C s -> allholds O s F -> seq2 s s' ->
  check_insts C F b b' = true -> last_same b b' = true ->
  brel O C F b (exec_block O b s) (exec_block O b' s').
Proof.
  induction b as [|i r IH]; intros b' F s s' Hin HI HF R Hc Hl.
  - destruct b'; try discriminate. cbn. refine (conj R (conj eq_refl (conj HI (conj HF _)))). discriminate.
  - destruct b' as [|i' r']; try discriminate. cbn [check_insts] in Hc. apply andb_prop in Hc. destruct Hc as [Hj Hc].
    destruct r as [|i2 r].
    + (* terminator *)
      destruct r'; try discriminate. unfold last_same in Hl. cbn in Hl. apply inst_eqb_eq in Hl. subst i'.
      cbn [exec_block]. pose proof R as [Ev _]. rewrite <- (ovals_vars s s' _ Ev).
      destruct (ovals s (i_args i)) as [a|]; [|exact I]. destruct Hext as [_ Hn]. rewrite <- (Hn i a s s' R).
      assert (X : exit_facts C F [i] = F) by reflexivity.
      destruct (o_next O i a s) as [l|].
      * destruct (existsb _ (i_args i)) eqn:Ex; unfold brel; rewrite X; refine (conj R (conj eq_refl (conj HI (conj HF _)))); try discriminate.
        intros x Q. inversion Q. subst x. unfold succs. cbn. apply existsb_exists in Ex. destruct Ex as [o [Io Eo]].
        apply in_flat_map. exists o. split; auto. destruct o; try discriminate. apply N.eqb_eq in Eo. subst. left. reflexivity.
      * unfold brel. rewrite X. refine (conj R (conj eq_refl (conj HI (conj HF _)))). discriminate.
    + destruct r' as [|i2' r']; try discriminate.
      rewrite last_same_cons in Hl by discriminate.
      change (exec_block O (i :: i2 :: r) s) with (match exec O i s with Stuck => BStuck | Halt => BHalt | Next s1 => exec_block O (i2 :: r) s1 end).
      change (exec_block O (i' :: i2' :: r') s') with (match exec O i' s' with Stuck => BStuck | Halt => BHalt | Next s1 => exec_block O (i2' :: r') s1 end).
      assert (Hstep : match exec O i s with Stuck => True | Halt => exec O i' s' = Halt
                      | Next s1 => exists s1', exec O i' s' = Next s1' /\ seq2 s1 s1' end).
      { apply orb_prop in Hj. destruct Hj as [Hj|Hj].
        - apply inst_eqb_eq in Hj. subst i'. pose proof (exec_ext O Hext i s s' R) as X.
          destruct (exec O i s), (exec O i s'); cbn in X; try contradiction; auto. eexists; eauto.
        - destruct (String.eqb (i_op i) "mcopy") eqn:Qm.
          + apply String.eqb_eq in Qm. destruct (exec O i s) as [s1| |] eqn:He; auto.
            * eapply justified_sound_mcopy; eauto.
            * exfalso. destruct i as [op args outs wm wrd id ann]. cbn in Qm. subst op. unfold justified in Hj. cbn [i_op i_args i_outs] in Hj. ceqb.
              unfold exec in He. cbn [i_op i_args i_outs] in He. ceqb. destruct (ovals s args); try discriminate.
              destruct l as [|[[?|] ?] [|? [|? [|? ?]]]]; destruct outs; discriminate.
          + assert (Qi : i_op i = "invoke").
            { unfold justified in Hj. rewrite Qm in Hj. destruct (String.eqb (i_op i) "invoke") eqn:Q; [apply String.eqb_eq; exact Q|discriminate]. }
            pose proof (justified_sound_invoke O C F i i' s s' Hext Hro HI HF R Qi Hj) as X. unfold out_rel in X.
            destruct (exec O i s); auto. }
      destruct (exec O i s) as [s1| |] eqn:He; try exact I.
      * destruct Hstep as [s1' [He' R1]]. rewrite He'.
        assert (B := IH (i2' :: r') (step_facts C F i) s1 s1').
        unfold brel in *. rewrite succs_cons by discriminate.
        assert (XF : exit_facts C F (i :: i2 :: r) = exit_facts C (step_facts C F i) (i2 :: r)) by reflexivity. rewrite XF.
        apply B; auto.
        -- intros j Ij. apply Hin. right. exact Ij.
        -- eapply exec_cinv; eauto. apply Hin. left. reflexivity.
        -- eapply step_facts_sound; eauto.
      * rewrite Hstep. exact I.
Qed.

Variable E : list (list fact).
Variable f' : func.

Lemma check_blocks_nth : forall Es g g', check_blocks C E Es g g' = true -> forall n,
  match nth_error g n with
  | None => nth_error g' n = None
  | Some b => exists b', nth_error g' n = Some b' /\ check_block C (nth n Es []) b b' = true /\ edges_ok_block C E b (nth n Es []) = true
  end.
Proof.
  intros Es g. revert Es. induction g as [|b r IH]; intros Es g' H n.
  - destruct g'; [|destruct Es; discriminate]. destruct n; reflexivity.
  - destruct g' as [|b' r']; destruct Es as [|F0 Er]; try discriminate. cbn [check_blocks] in H.
    apply andb_prop in H. destruct H as [H H0]. apply andb_prop in H. destruct H as [H H1].
    destruct n; cbn.
    + exists b'. cbn. repeat split; auto.
    + apply IH. assumption.
Qed.

Definition rel_res (r r' : result) : Prop :=
  match r, r' with
  | StuckR, _ => True
  | Done a, Done b => seq2 a b
  | Halted a, Halted b => seq2 a b
  | OutOfFuel, OutOfFuel => True
  | _, _ => False
  end.

Lemma fact_eqb_holds s a b : fact_eqb a b = true -> fholds O s b -> fholds O s a.
Proof.
  destruct a as [o1 d1 s1 n1], b as [o2 d2 s2 n2]. cbn. intros H.
  apply andb_prop in H. destruct H as [H H0]. apply andb_prop in H. destruct H as [H H1]. apply andb_prop in H. destruct H as [H H2].
  apply String.eqb_eq in H. subst. rewrite (operand_eqb_oval s _ _ H2), (operand_eqb_oval s _ _ H1), (operand_eqb_oval s _ _ H0). auto.
Qed.

Lemma subset_holds s A B : subset A B = true -> allholds O s B -> allholds O s A.
Proof.
  unfold subset. rewrite forallb_forall. intros H HB fc I. specialize (H fc I). unfold fact_in in H. apply existsb_exists in H.
  destruct H as [g [Ig Eg]]. eapply fact_eqb_holds; eauto.
Qed.

Lemma allholds_pred s l F : allholds O s F -> allholds O (mkS (vars s) (smem s) (srd s) (sworld s) l) F.
Proof. intros H fc I. specialize (H fc I). destruct fc. exact H. Qed.

Hypothesis Hcb : check_blocks C E E f f' = true.

Lemma run_lockstep : forall fuel l s s', cinv C s -> allholds O s (entry_of E l) -> seq2 s s' ->
  rel_res (run O f fuel l s) (run O f' fuel l s').
Proof.
  induction fuel; intros l s s' HI HF R; [exact I|]. cbn [run].
  pose proof (check_blocks_nth E f f' Hcb (N.to_nat l)) as Hn.
  destruct (nth_error f (N.to_nat l)) as [b|] eqn:Nb.
  2:{ rewrite Hn. exact R. }
  destruct Hn as [b' [Nb' [Hc He]]]. rewrite Nb'. unfold check_block in Hc. apply andb_prop in Hc. destruct Hc as [Hl Hc].
  fold (entry_of E l) in Hc, He.
  assert (Hin : forall i, In i b -> In i (all_insts f)).
  { intros i Ii. unfold all_insts. apply in_concat. exists b. split; auto. eapply nth_error_In; eauto. }
  pose proof (block_lockstep b b' (entry_of E l) s s' Hin HI HF R Hc Hl) as B. unfold brel in B.
  destruct (exec_block O b s) as [s1 l1| |]; [| |exact I].
  - destruct (exec_block O b' s') as [s1' l1'| |]; try contradiction.
    destruct B as [R1 [<- [HI1 [HF1 Hs]]]]. destruct l1 as [l1|]; [|exact R1].
    apply IHfuel.
    + eapply cinv_vars; [|exact HI1]. reflexivity.
    + apply allholds_pred. unfold edges_ok_block in He. rewrite forallb_forall in He.
      eapply subset_holds; [apply He; apply Hs; reflexivity|exact HF1].
    + destruct R1 as [A1 [A2 [A3 [A4 A5]]]]. repeat split; auto.
  - destruct (exec_block O b' s'); try contradiction. exact R.
Qed.
End Sound.

(* the statement *)
Theorem copyfwd_check_sound O C E f f' :
  oracle_ext O -> ro_uniform O -> check_func C E f f' = true ->
  forall s0 s0', cinv C s0 -> seq2 s0 s0' -> forall fuel, rel_res (run O f fuel 0 s0) (run O f' fuel 0 s0').
Proof.
  intros Hext Hro H s0 s0' HI R fuel. unfold check_func in H. apply andb_prop in H. destruct H as [H Hcb]. apply andb_prop in H. destruct H as [Hok He].
  apply run_lockstep with (C := C) (E := E); auto.
  unfold entry_of. cbn. destruct E as [|[|? ?] ?]; try discriminate; intros fc [].
Qed.
