(* C14C / RoSound.v -- ro_body_sound: a body accepted by ro_check never changes the allocations D. *)
From Coq Require Import ZArith NArith Bool List String Lia.
From Verif Require Import C14C.CopySem C14C.CopyCheck C14C.CopySound1 C14C.CopySound2 C14C.CopySound3 C14C.CopySound
  C14C.DeadCheck C14C.DeadSound C14C.RoCheck.
Import ListNotations.
Open Scope string_scope.
Open Scope Z_scope.
Local Opaque W Z.modulo.

Definition keepD (D : list Z) (m m' : mem) : Prop := forall t a, inD D t = true -> m' t a = m t a.
(* hypothesis on the instructions with the MEMORY write effect that the semantics does not model: without a pointer into D
   they do not change D; an invoke does not change D when pointers into D are passed at read-only positions only (the same
   property, one call deeper) *)
Definition ro_positions (D : list Z) (ann : list (option operand)) (args : list val) : Prop :=
  forall k v, nth_error args k = Some v -> inD D (fst v) = true ->
    exists sz, nth_error ann k = Some (Some sz) /\ (forall l, sz <> OLab l).
Definition oracle_keeps (O : oracle) (D : list Z) : Prop :=
  forall i args s, (i_op i <> "invoke" -> nodv D args) -> (i_op i = "invoke" -> ro_positions D (i_ann i) args) ->
    match o_step O i args s with Some (o, m, r, w) => keepD D (smem s) m | None => True end.

Lemma keepD_refl D m : keepD D m m. Proof. intros t a _. reflexivity. Qed.
Lemma keepD_trans D a b c : keepD D a b -> keepD D b c -> keepD D a c.
Proof. intros H1 H2 t x Ht. rewrite H2, H1; auto. Qed.
Lemma mwrite_keepD D m t a n f : inD D t = false -> keepD D m (mwrite m t a n f).
Proof. intros Ht t' c Ht'. apply mwrite_other. intros [E _]. subst. congruence. Qed.

Lemma nodv_of_nodop C D s args a : cinv C s -> dinv C D s -> existsb (dop C D) args = false -> ovals s args = Some a -> nodv D a.
Proof. apply nod_of. Qed.

Lemma ro_args_positions C D s : cinv C s -> dinv C D s -> forall ops ann a, ro_args C D ops ann = true -> ovals s ops = Some a ->
  ro_positions D ann a.
Proof.
  intros HI HD. induction ops as [|o r IH]; intros ann a H Ho k v Hk Hv.
  - cbn in Ho. inversion Ho. subst. destruct k; discriminate.
  - cbn [ro_args] in H. apply andb_prop in H. destruct H as [H1 H2].
    cbn in Ho. destruct (oval s o) as [w|] eqn:Ov; try discriminate. destruct (ovals s r) as [ar|] eqn:Or; try discriminate. inversion Ho. subst a.
    destruct k; cbn in Hk.
    + inversion Hk. subst w. rewrite (op_dcert C D s o v HI HD Ov Hv) in H1.
      destruct ann as [|[sz|] t]; cbn in H1; try discriminate. exists sz. split; auto. intros l E. subst sz. discriminate.
    + destruct (IH (tl ann) ar H2 eq_refl k v Hk Hv) as [sz [A B]]. exists sz. split; auto. destruct ann; cbn in *; auto. destruct k; discriminate.
Qed.

Lemma exec_keeps O C D i s s1 : oracle_keeps O D -> cinv C s -> dinv C D s -> ro_inst C D i = true -> exec O i s = Next s1 ->
  keepD D (smem s) (smem s1).
Proof.
  intros Hk HI HD Hr He. destruct i as [op args outs wm wrd id ann]. unfold exec in He. unfold ro_inst in Hr.
  cbn [i_op i_args i_outs i_wm i_wrd i_id i_ann] in *.
  case_op op "phi".
  { destruct (phi_pick (spred s) args); try discriminate. destruct outs as [|x [|? ?]]; try discriminate.
    destruct (oval s o); try discriminate. inversion He. apply keepD_refl. }
  destruct (ovals s args) as [a|] eqn:Oa; try discriminate.
  case_op op "nop". { inversion He. apply keepD_refl. }
  case_op op "assign". { destruct a as [|v [|? ?]]; try discriminate. destruct outs as [|x [|? ?]]; try discriminate. inversion He. apply keepD_refl. }
  case_op op "alloca". { destruct outs as [|x [|? ?]]; try discriminate. inversion He. apply keepD_refl. }
  case_op op "add". { destruct a as [|b [|a0 [|? ?]]]; try discriminate. destruct outs as [|x [|? ?]]; try discriminate.
    destruct (vadd a0 b); try discriminate. inversion He. apply keepD_refl. }
  case_op op "sub". { destruct a as [|b [|a0 [|? ?]]]; try discriminate. destruct outs as [|x [|? ?]]; try discriminate.
    destruct (vsub a0 b); try discriminate. inversion He. apply keepD_refl. }
  unfold is_ptr_opb in Hr. repeat match goal with Hq : String.eqb op _ = false |- _ => rewrite Hq in Hr end. cbn [orb] in Hr.
  case_op op "mload". { destruct a as [|p [|? ?]]; try discriminate. destruct outs as [|x [|? ?]]; try discriminate. injection He as <-. apply keepD_refl. }
  case_op op "mstore".
  { apply negb_true_iff in Hr. pose proof (nod_of C D s args a HI HD Hr Oa) as Hn.
    destruct a as [|v [|p [|? ?]]]; try discriminate. destruct outs; try discriminate. injection He as <-. cbn.
    apply mwrite_keepD. apply Hn. right. left. reflexivity. }
  case_op op "mcopy".
  { destruct a as [|[[?|] n] [|sp [|dp [|? ?]]]]; try discriminate. destruct outs; try discriminate. injection He as <-. cbn.
    apply mwrite_keepD. destruct args as [|on [|os [|od [|? ?]]]]; try (apply ovals_length in Oa; cbn in Oa; lia).
    apply andb_prop in Hr. destruct Hr as [Hd _]. apply negb_true_iff in Hd.
    destruct (ovals3 _ _ _ _ _ Oa) as [vn [vs [vd [Ea [On [Os Od]]]]]]. inversion Ea. subst.
    match goal with |- inD D (fst ?v) = false => destruct (inD D (fst v)) eqn:Q; auto; rewrite (op_dcert C D s od v HI HD Od Q) in Hd; discriminate end. }
  destruct (is_nonmem_copy op) eqn:Nm.
  { destruct a as [|[[?|] n] [|sp [|dp [|? ?]]]]; try discriminate. destruct outs; try discriminate. injection He as <-. cbn.
    apply mwrite_keepD. destruct args as [|on [|os [|od [|? ?]]]]; try (apply ovals_length in Oa; cbn in Oa; lia).
    apply andb_prop in Hr. destruct Hr as [Hd _]. apply negb_true_iff in Hd.
    destruct (ovals3 _ _ _ _ _ Oa) as [vn [vs [vd [Ea [On [Os Od]]]]]]. inversion Ea. subst.
    match goal with |- inD D (fst ?v) = false => destruct (inD D (fst v)) eqn:Q; auto; rewrite (op_dcert C D s od v HI HD Od Q) in Hd; discriminate end. }
  cbn [orb] in Hr.
  specialize (Hk (mkI op args outs wm wrd id ann) a s). cbn [i_op i_ann] in Hk.
  destruct wm.
  - assert (K : match o_step O (mkI op args outs true wrd id ann) a s with Some (o, m, r, w) => keepD D (smem s) m | None => True end).
    { cbv iota in Hr. apply Hk.
      - intros Ni. destruct (String.eqb op "invoke") eqn:Qi. apply String.eqb_eq in Qi. contradiction.
        cbv iota in Hr. apply negb_true_iff in Hr. eapply nod_of; eauto.
      - intros Ei. rewrite Ei in Hr. ceqb. cbv iota in Hr. apply (ro_args_positions C D s HI HD args ann a Hr Oa). }
    destruct (o_step O _ a s) as [[[[o m] r] w]|]; try discriminate.
    destruct (set_outs (vars s) outs o); try discriminate. inversion He. cbn. exact K.
  - destruct (o_step O _ a s) as [[[[o m] r] w]|]; try discriminate.
    destruct (set_outs (vars s) outs o); try discriminate. inversion He. cbn. apply keepD_refl.
Qed.

Lemma ro_inst_dinv O C D i s s1 : cinv C s -> dinv C D s -> ro_inst C D i = true -> exec O i s = Next s1 -> dinv C D s1.
Proof.
  intros HI HD Hr He. unfold ro_inst in Hr. destruct (is_ptr_opb (i_op i)) eqn:Pt.
  - eapply exec_dinv; eauto.
  - eapply exec_dinv_plain; eauto.
Qed.

Section Ro.
Variable O : oracle.
Variable C : certs.
Variable D : list Z.
Variable g : func.
Hypothesis Hk : oracle_keeps O D.
Hypothesis Hok : certs_ok g C = true.
Hypothesis Hall : forallb (ro_inst C D) (all_insts g) = true.

Lemma ro_block : forall b s, (forall i, In i b -> In i (all_insts g)) -> cinv C s -> dinv C D s ->
  match exec_block O b s with
  | BNext s1 _ => cinv C s1 /\ dinv C D s1 /\ keepD D (smem s) (smem s1)
  | _ => True
  end.
Proof.
  induction b as [|i r IH]; intros s Hin HI HD.
  - cbn. auto using keepD_refl.
  - destruct r as [|i2 r].
    + cbn [exec_block]. destruct (ovals s (i_args i)); auto. destruct (o_next O i l s); [destruct (existsb _ (i_args i))|]; auto using keepD_refl.
    + change (exec_block O (i :: i2 :: r) s) with (match exec O i s with Stuck => BStuck | Halt => BHalt | Next s1 => exec_block O (i2 :: r) s1 end).
      destruct (exec O i s) as [s1| |] eqn:He; auto.
      assert (Hi : In i (all_insts g)) by (apply Hin; left; reflexivity).
      assert (Hr : ro_inst C D i = true) by (exact (proj1 (forallb_forall _ _) Hall i Hi)).
      assert (HI1 : cinv C s1) by (eapply exec_cinv; eauto).
      assert (HD1 : dinv C D s1) by (exact (ro_inst_dinv O C D i s s1 HI HD Hr He)).
      pose proof (exec_keeps O C D i s s1 Hk HI HD Hr He) as K1.
      specialize (IH s1 (fun j Ij => Hin j (or_intror Ij)) HI1 HD1).
      destruct (exec_block O (i2 :: r) s1) as [s2 l| |]; auto. destruct IH as [A [B K2]]. split; [exact A|]. split; [exact B|]. eapply keepD_trans; eauto.
Qed.

Lemma ro_run : forall fuel l s, cinv C s -> dinv C D s ->
  match run O g fuel l s with
  | Done s1 | Halted s1 => keepD D (smem s) (smem s1)
  | _ => True
  end.
Proof.
  induction fuel; intros l s HI HD; cbn [run]; auto.
  destruct (nth_error g (N.to_nat l)) as [b|] eqn:Nb; [|apply keepD_refl].
  assert (Hin : forall i, In i b -> In i (all_insts g)).
  { intros i Ii. unfold all_insts. apply in_concat. exists b. split; auto. eapply nth_error_In; eauto. }
  pose proof (ro_block b s Hin HI HD) as B.
  destruct (exec_block O b s) as [s1 l1| |]; auto using keepD_refl.
  destruct B as [HI1 [HD1 K1]]. destruct l1 as [l1|]; auto.
  specialize (IHfuel l1 (mkS (vars s1) (smem s1) (srd s1) (sworld s1) l)).
  assert (A1 : cinv C (mkS (vars s1) (smem s1) (srd s1) (sworld s1) l)) by (eapply cinv_vars; [|exact HI1]; reflexivity).
  assert (A2 : dinv C D (mkS (vars s1) (smem s1) (srd s1) (sworld s1) l)) by (intros x v Hv Hd; eapply HD1; eauto).
  specialize (IHfuel A1 A2).
  destruct (run O g fuel l1 _) as [s2|s2| |]; auto; eapply keepD_trans; eauto.
Qed.
End Ro.

Theorem ro_body_sound O C D g : oracle_keeps O D -> ro_check C D g = true ->
  forall s0, cinv C s0 -> dinv C D s0 -> forall fuel,
  match run O g fuel 0 s0 with
  | Done s1 | Halted s1 => keepD D (smem s0) (smem s1)
  | _ => True
  end.
Proof.
  intros Hk H s0 HI HD fuel. unfold ro_check in H. apply andb_prop in H. destruct H as [H1 H2]. eapply ro_run; eauto.
Qed.
