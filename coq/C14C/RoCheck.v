(* C14C / RoCheck.v -- "this function body never writes the allocations D" (definitions only).  Used for the callee of a
   forwarded read-only argument: the body is exported with the `param` of that argument turned into an `alloca` of a fresh
   identity r (the caller's buffer seen as an allocation), D = [r]. *)
From Coq Require Import ZArith NArith Bool List String.
From Verif Require Import C14C.CopySem C14C.CopyCheck C14C.DeadCheck.
Import ListNotations.
Open Scope string_scope.
Open Scope Z_scope.

Definition is_ptr_opb (op : string) : bool :=
  String.eqb op "phi" || String.eqb op "assign" || String.eqb op "alloca" || String.eqb op "add" || String.eqb op "sub".
(* operands of an invoke: a pointer into D only at a position annotated read-only *)
Fixpoint ro_args (C : certs) (D : list Z) (a : list operand) (ann : list (option operand)) : bool :=
  match a with
  | [] => true
  | o :: r =>
      (if dop C D o then match hd None ann with Some (OLab _) => false | Some _ => true | None => false end else true) &&
      ro_args C D r (tl ann)
  end.
Definition ro_inst (C : certs) (D : list Z) (i : inst) : bool :=
  let op := i_op i in
  if is_ptr_opb op then uses_ok C D i      (* pointers into D flow through assign / add / phi into certified variables *)
  else if String.eqb op "nop" || String.eqb op "mload" then true
  else if String.eqb op "mstore" then negb (existsb (dop C D) (i_args i))       (* neither written through nor stored *)
  else if String.eqb op "mcopy" || is_nonmem_copy op then
    match i_args i with [n; _; d] => negb (dop C D d) && negb (dop C D n) | _ => true end
  else if i_wm i then
    (if String.eqb op "invoke" then ro_args C D (i_args i) (i_ann i) else negb (existsb (dop C D) (i_args i)))
  else true.                                (* an instruction without the MEMORY write effect may read D *)
Definition ro_check (C : certs) (D : list Z) (g : func) : bool := certs_ok g C && forallb (ro_inst C D) (all_insts g).
