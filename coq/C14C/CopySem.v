(* C14C / CopySem.v -- a small-step semantics of Venom with symbolic allocations, for the memory-copy passes.
   Definitions only (no proofs), so that the validator runs when a proof elsewhere is broken.

   Values are pairs (region, offset): region None = a plain 256-bit word / a concrete memory address, region Some i = a
   pointer into the i-th allocation (`alloca` / `dalloca` with identity i), which has not been placed yet.  Memory is
   addressed by such pairs, so distinct allocations are distinct regions by construction ("the allocator's obligation",
   C04; the same address space as coq/C14/MemLocSound.v).  Pointer arithmetic: ptr +/- word moves the offset;
   ptr + ptr (and word - ptr, ptr - ptr of different regions) has no meaning: execution is stuck.
   `mload/mstore/mcopy` and the four non-memory copy opcodes act on memory precisely; `alloca`, `assign`, `add`, `sub`,
   `nop` are precise; EVERY other instruction (arithmetic, calls, `invoke`, `phi`, terminators ...) is given by an oracle
   that sees the argument values, the whole state and the predecessor block, may halt, and may change memory only if the
   instruction's MEMORY write effect is set, the returndata buffer only if its RETURNDATA write effect is set (the flags
   are exported from the real `IRInstruction.get_write_effects()`; VenomProofs.v relates that table to Venom.v).
   Operands are in the order of `IRInstruction.operands` (the LAST element is the first printed/EVM operand). *)
From Coq Require Import ZArith NArith Bool List String.
Import ListNotations.
Open Scope string_scope.
Open Scope Z_scope.

Definition val := (option Z * Z)%type.
Inductive operand := OLit (z : Z) | OVar (x : N) | OLab (l : N).
(* i_ann: for `invoke` only, one entry per operand: Some sz = this operand is a memory argument that the callee only reads
   (exported from the real ReadonlyMemoryArgsGlobalAnalysis, re-checked on the callee body by tools/vlib/c14c_part.py), of
   which the callee can observe the first sz bytes (the size operand of the staging copy the front end emitted for it);
   None = anything else.  The semantics ignores it; the hypothesis `ro_uniform` (CopySound1.v) gives it its meaning. *)
Record inst := mkI { i_op : string; i_args : list operand; i_outs : list N; i_wm : bool; i_wrd : bool; i_id : Z;
                     i_ann : list (option operand) }.
Definition block := list inst.
Definition func := list block.          (* label = index; entry = 0 *)

Definition W : Z := 2 ^ 256.
Definition mem := option Z -> Z -> Z.    (* region -> offset -> byte *)
Record state := mkS { vars : N -> option val; smem : mem; srd : Z; sworld : Z; spred : N }.

Definition oeqb (a b : option Z) : bool :=
  match a, b with None, None => true | Some x, Some y => x =? y | _, _ => false end.

(* ---- values *)
Definition oval (s : state) (o : operand) : option val :=
  match o with OLit z => Some (None, z mod W) | OVar x => vars s x | OLab l => Some (None, Z.of_N l) end.
Fixpoint ovals (s : state) (l : list operand) : option (list val) :=
  match l with
  | [] => Some []
  | o :: t => match oval s o, ovals s t with Some v, Some r => Some (v :: r) | _, _ => None end
  end.
Definition vadd (a b : val) : option val :=
  match a, b with
  | (None, x), (None, y) => Some (None, (x + y) mod W)
  | (Some i, k), (None, y) => Some (Some i, k + y)
  | (None, x), (Some i, k) => Some (Some i, k + x)
  | _, _ => None
  end.
(* sub: operands [b; a] denote a - b *)
Definition vsub (a b : val) : option val :=
  match a, b with
  | (None, x), (None, y) => Some (None, (x - y) mod W)
  | (Some i, k), (None, y) => Some (Some i, k - y)
  | (Some i, k), (Some j, m) => if i =? j then Some (None, (k - m) mod W) else None
  | _, _ => None
  end.

(* ---- memory *)
Definition upd (vs : N -> option val) (x : N) (v : val) : N -> option val := fun y => if N.eqb y x then Some v else vs y.
Definition in_rng (a n c : Z) : bool := (a <=? c) && (c <? a + n).
(* write n bytes given by f (relative index) at (t, a) *)
Definition mwrite (m : mem) (t : option Z) (a n : Z) (f : Z -> Z) : mem :=
  fun t' c => if oeqb t' t && in_rng a n c then f (c - a) else m t' c.
Fixpoint word_of (m : mem) (t : option Z) (a : Z) (k : nat) (acc : Z) : Z :=
  match k with O => acc | S k' => word_of m t (a + 1) k' (acc * 256 + m t a mod 256) end.
Definition mload (m : mem) (p : val) : Z := word_of m (fst p) (snd p) 32 0.
Definition byte_of (w : Z) (j : Z) : Z := (w / 256 ^ (31 - j)) mod 256.

(* ---- oracle *)
Record oracle := mkO {
  (* unmodelled instruction: outputs, new memory, new returndata version, new world; None = halt *)
  o_step : inst -> list val -> state -> option (list Z * mem * Z * Z);
  (* bytes of the non-memory address spaces; returndata depends on the returndata version *)
  o_src : string -> Z -> val -> Z -> Z;
  (* the word a stored pointer is seen as *)
  o_conc : Z -> Z -> Z;
  (* control: next block of a terminator; None = the execution ends here *)
  o_next : inst -> list val -> state -> option N }.

Definition is_nonmem_copy (op : string) : bool :=
  String.eqb op "calldatacopy" || String.eqb op "codecopy" || String.eqb op "returndatacopy" || String.eqb op "dloadbytes".
Definition src_byte (O : oracle) (op : string) (s : state) (src : val) (k : Z) : Z :=
  o_src O op (if String.eqb op "returndatacopy" then srd s else 0) src k.
Definition word_val (O : oracle) (v : val) : Z := match v with (None, w) => w | (Some i, k) => o_conc O i k end.

(* outputs of oracle instructions are plain words (pointers only arise from alloca / add / sub / assign / phi) *)
Fixpoint set_outs (vs : N -> option val) (outs : list N) (l : list Z) : option (N -> option val) :=
  match outs, l with
  | [], [] => Some vs
  | x :: t, v :: r => set_outs (upd vs x (None, v)) t r
  | _, _ => None
  end.

Definition with_vars (s : state) (vs : N -> option val) : state := mkS vs (smem s) (srd s) (sworld s) (spred s).
Definition with_mem (s : state) (m : mem) : state := mkS (vars s) m (srd s) (sworld s) (spred s).

(* phi: operands are (label, value) pairs; the value paired with the predecessor block is taken.  Phis are executed
   one after the other (the real semantics evaluates the phis of a block simultaneously; the two differ only when a phi
   reads the output of an earlier phi of the same block) *)
Fixpoint phi_pick (pred : N) (ops : list operand) : option operand :=
  match ops with
  | OLab l :: o :: ops' => if N.eqb l pred then Some o else phi_pick pred ops'
  | _ => None
  end.

(* one non-terminator instruction.  Halt = the oracle ends the execution here (failed assert, revert in a callee ...);
   Stuck = the instruction has no meaning (undefined variable, ptr + ptr, malformed instruction) *)
Inductive outcome := Next (s : state) | Halt | Stuck.
Definition exec (O : oracle) (i : inst) (s : state) : outcome :=
  if String.eqb (i_op i) "phi" then
    match phi_pick (spred s) (i_args i), i_outs i with
    | Some o, [x] => match oval s o with Some v => Next (with_vars s (upd (vars s) x v)) | None => Stuck end
    | _, _ => Stuck
    end
  else
  match ovals s (i_args i) with
  | None => Stuck
  | Some args =>
    let op := i_op i in
    if String.eqb op "nop" then Next s
    else if String.eqb op "assign" then
      match args, i_outs i with [v], [x] => Next (with_vars s (upd (vars s) x v)) | _, _ => Stuck end
    else if String.eqb op "alloca" then
      match i_outs i with [x] => Next (with_vars s (upd (vars s) x (Some (i_id i), 0))) | _ => Stuck end
    else if String.eqb op "add" then
      match args, i_outs i with
      | [b; a], [x] => match vadd a b with Some v => Next (with_vars s (upd (vars s) x v)) | None => Stuck end
      | _, _ => Stuck end
    else if String.eqb op "sub" then
      match args, i_outs i with
      | [b; a], [x] => match vsub a b with Some v => Next (with_vars s (upd (vars s) x v)) | None => Stuck end
      | _, _ => Stuck end
    else if String.eqb op "mload" then
      match args, i_outs i with [p], [x] => Next (with_vars s (upd (vars s) x (None, mload (smem s) p))) | _, _ => Stuck end
    else if String.eqb op "mstore" then
      match args, i_outs i with
      | [v; p], [] => Next (with_mem s (mwrite (smem s) (fst p) (snd p) 32 (byte_of (word_val O v))))
      | _, _ => Stuck end
    else if String.eqb op "mcopy" then
      match args, i_outs i with
      | [(None, n); sp; dp], [] =>
          let m := smem s in
          Next (with_mem s (mwrite m (fst dp) (snd dp) n (fun j => m (fst sp) (snd sp + j))))
      | _, _ => Stuck end
    else if is_nonmem_copy op then
      match args, i_outs i with
      | [(None, n); sp; dp], [] => Next (with_mem s (mwrite (smem s) (fst dp) (snd dp) n (src_byte O op s sp)))
      | _, _ => Stuck end
    else
      match o_step O i args s with
      | None => Halt
      | Some (outs, m', rd', w') =>
          match set_outs (vars s) (i_outs i) outs with
          | None => Stuck
          | Some vs => Next (mkS vs (if i_wm i then m' else smem s) (if i_wrd i then rd' else srd s) w' (spred s))
          end
      end
  end.

(* a block: all instructions but the last by `exec`, the last (terminator) chooses the successor *)
Inductive bres := BNext (s : state) (l : option N) | BHalt | BStuck.
Fixpoint exec_block (O : oracle) (b : list inst) (s : state) : bres :=
  match b with
  | [] => BNext s None
  | [t] => match ovals s (i_args t) with
           | None => BStuck
           | Some args =>
               match o_next O t args s with
               | Some l => if existsb (fun o => match o with OLab l' => N.eqb l l' | _ => false end) (i_args t)
                           then BNext s (Some l) else BNext s None
               | None => BNext s None
               end
           end
  | i :: r => match exec O i s with Stuck => BStuck | Halt => BHalt | Next s' => exec_block O r s' end
  end.

(* result of a run: Done = the state in which the execution reached a final terminator; Halted = the oracle ended it
   inside a block (the state at the entry of that block is reported) *)
Inductive result := Done (s : state) | Halted (s : state) | StuckR | OutOfFuel.
Fixpoint run (O : oracle) (f : func) (fuel : nat) (l : N) (s : state) : result :=
  match fuel with
  | O => OutOfFuel
  | S k =>
    match nth_error f (N.to_nat l) with
    | None => Halted s
    | Some b =>
      match exec_block O b s with
      | BStuck => StuckR
      | BHalt => Halted s
      | BNext s' None => Done s'
      | BNext s' (Some l') => run O f k l' (mkS (vars s') (smem s') (srd s') (sworld s') l)
      end
    end
  end.
