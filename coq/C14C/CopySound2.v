(* C14C / CopySound2.v -- the pointer certificates are an invariant of the execution. *)
From Coq Require Import ZArith NArith Bool List String Lia.
From Verif Require Import C14C.CopySem C14C.CopyCheck C14C.CopySound1.
Import ListNotations.
Open Scope string_scope.
Open Scope Z_scope.

Local Opaque W Z.modulo Z.add Z.sub.
Ltac ceqb :=
  repeat match goal with
  | |- context [String.eqb ?a ?b] =>
      lazymatch a with String _ _ => idtac | EmptyString => idtac end;
      lazymatch b with String _ _ => idtac | EmptyString => idtac end;
      let r := eval vm_compute in (String.eqb a b) in change (String.eqb a b) with r
  | H : context [String.eqb ?a ?b] |- _ =>
      lazymatch a with String _ _ => idtac | EmptyString => idtac end;
      lazymatch b with String _ _ => idtac | EmptyString => idtac end;
      let r := eval vm_compute in (String.eqb a b) in change (String.eqb a b) with r in H
  end.
Ltac case_op op name :=
  let E := fresh "E" in
  destruct (String.eqb op name) eqn:E; [apply String.eqb_eq in E; subst op; ceqb; cbn [orb andb negb] in * | ].

Lemma pcert_eqb_eq a b : pcert_eqb a b = true -> a = b.
Proof. destruct a, b. unfold pcert_eqb. cbn. intros H. apply andb_prop in H. destruct H as [H1 H2].
  apply oeqb_eq in H1. apply oeqb_eq in H2. subst. reflexivity. Qed.

Lemma clook_in C x c : clook C x = Some c -> In (x, c) C.
Proof. induction C as [|[y d] t IH]; cbn; [discriminate|]. destruct (N.eqb x y) eqn:E.
  - apply N.eqb_eq in E. intros H. inversion H. subst. left. reflexivity.
  - intros H. right. auto. Qed.

Lemma upd_same vs x v : upd vs x v x = Some v. Proof. unfold upd. rewrite N.eqb_refl. reflexivity. Qed.
Lemma upd_other vs x v y : y <> x -> upd vs x v y = vs y.
Proof. unfold upd. intros H. destruct (N.eqb y x) eqn:E; auto. apply N.eqb_eq in E. contradiction. Qed.

Lemma set_outs_frame outs : forall vs l vs' y, set_outs vs outs l = Some vs' -> ~ In y outs -> vs' y = vs y.
Proof. induction outs as [|x t IH]; intros vs l vs' y H N; destruct l; cbn in H; try discriminate.
  - inversion H. reflexivity.
  - rewrite (IH _ _ _ _ H). apply upd_other. intros ->. apply N. left. reflexivity. intros Q. apply N. right. exact Q. Qed.

(* variables that are not outputs keep their value *)
Lemma exec_frame O i s s' y : exec O i s = Next s' -> ~ In y (i_outs i) -> vars s' y = vars s y.
Proof.
  destruct i as [op args outs wm wrd id ann]. unfold exec. cbn [i_op i_args i_outs i_wm i_wrd i_id i_ann]. intros H N.
  assert (U : forall x v, outs = [x] -> upd (vars s) x v y = vars s y).
  { intros x v ->. apply upd_other. intros ->. apply N. left. reflexivity. }
  case_op op "phi".
  { destruct (phi_pick (spred s) args); try discriminate. destruct outs as [|x [|? ?]]; try discriminate.
    destruct (oval s o); try discriminate. inversion H. cbn. eapply U; eauto. }
  destruct (ovals s args) as [a|]; try discriminate.
  case_op op "nop". { inversion H. reflexivity. }
  case_op op "assign". { destruct a as [|v [|? ?]]; try discriminate. destruct outs as [|x [|? ?]]; try discriminate. inversion H. cbn. eapply U; eauto. }
  case_op op "alloca". { destruct outs as [|x [|? ?]]; try discriminate. inversion H. cbn. eapply U; eauto. }
  case_op op "add". { destruct a as [|b [|a0 [|? ?]]]; try discriminate. destruct outs as [|x [|? ?]]; try discriminate.
    destruct (vadd a0 b); try discriminate. inversion H. cbn. eapply U; eauto. }
  case_op op "sub". { destruct a as [|b [|a0 [|? ?]]]; try discriminate. destruct outs as [|x [|? ?]]; try discriminate.
    destruct (vsub a0 b); try discriminate. inversion H. cbn. eapply U; eauto. }
  case_op op "mload". { destruct a as [|p [|? ?]]; try discriminate. destruct outs as [|x [|? ?]]; try discriminate. inversion H. cbn. eapply U; eauto. }
  case_op op "mstore". { destruct a as [|v [|p [|? ?]]]; try discriminate. destruct outs; try discriminate. inversion H. reflexivity. }
  case_op op "mcopy". { destruct a as [|[[?|] n] [|sp [|dp [|? ?]]]]; try discriminate. destruct outs; try discriminate. inversion H. reflexivity. }
  destruct (is_nonmem_copy op). { destruct a as [|[[?|] n] [|sp [|dp [|? ?]]]]; try discriminate. destruct outs; try discriminate. inversion H. reflexivity. }
  destruct (o_step O _ a s) as [[[[o m] r] w]|]; try discriminate.
  destruct (set_outs (vars s) outs o) eqn:S; try discriminate. inversion H. cbn. eapply set_outs_frame; eauto.
Qed.

(* ---- phi certificates *)
Lemma phi_cert_acc C : forall n ops ra ka r k, (List.length ops <= n)%nat ->
  phi_cert C ops (Some (ra, ka)) = Some (r, k) -> r = ra /\ (forall k0, k = Some k0 -> ka = Some k0).
Proof.
  induction n; intros ops ra ka r k L H.
  - destruct ops; [|cbn in L; lia]. cbn in H. inversion H. subst. auto.
  - destruct ops as [|[z|x|l] [|o t]]; cbn in H; try discriminate.
    + inversion H; subst; auto.
    + destruct (cert_op C o) as [c|]; try discriminate.
      destruct (oeqb ra (fst c)) eqn:Q; cbn in H; try discriminate.
      apply IHn in H; [|cbn in L; lia]. destruct H as [-> H2]. split; auto.
      intros k0 E. specialize (H2 k0 E). destruct (oeqb ka (snd c)); [exact H2|discriminate].
Qed.

Lemma phi_cert_pick C p : forall n ops acc r k o, (List.length ops <= n)%nat ->
  phi_cert C ops acc = Some (r, k) -> phi_pick p ops = Some o ->
  exists c, cert_op C o = Some c /\ fst c = r /\ (forall k0, k = Some k0 -> snd c = Some k0).
Proof.
  induction n; intros ops acc r k o L H P.
  - destruct ops; [cbn in P; discriminate|cbn in L; lia].
  - destruct ops as [|[z|x|l] [|o' t]]; cbn in P; try discriminate. cbn in H.
    destruct (cert_op C o') as [c|] eqn:Co; try discriminate.
    destruct (join_cert acc c) as [a|] eqn:J; try discriminate.
    destruct (N.eqb l p).
    + inversion P. subst o'. exists c. split; auto.
      destruct a as [ra ka]. apply phi_cert_acc with (n := n) in H; [|cbn in L; lia]. destruct H as [-> H2].
      unfold join_cert in J. destruct acc as [[r0 k1]|].
      * destruct (oeqb r0 (fst c)) eqn:Q; try discriminate. inversion J. subst. apply oeqb_eq in Q. split; auto.
        intros k0 E. specialize (H2 k0 E). destruct (oeqb k1 (snd c)) eqn:Q2; try discriminate. apply oeqb_eq in Q2. congruence.
      * inversion J. subst. cbn. split; auto.
    + eapply IHn; eauto. cbn in L. lia.
Qed.

(* ---- the value an instruction defines agrees with the certificate its rule gives *)
Lemma def_value O C i s s' x r k v : cinv C s -> exec O i s = Next s' -> i_outs i = [x] ->
  cert_of_def C i = Some (r, k) -> vars s' x = Some v -> fst v = r /\ (forall k0, k = Some k0 -> snd v = k0).
Proof.
  intros HI. destruct i as [op args outs wm wrd id ann]. unfold exec, cert_of_def. cbn [i_op i_args i_outs i_wm i_wrd i_id i_ann].
  intros H -> Hc Hv.
  case_op op "phi".
  { destruct (phi_pick (spred s) args) eqn:P; try discriminate. destruct (oval s o) eqn:Ov; try discriminate.
    inversion H. subst s'. cbn in Hv. rewrite upd_same in Hv. inversion Hv. subst v0.
    destruct (phi_cert_pick C (spred s) (List.length args) args None r k o (le_n _) Hc P) as [c [Cc [C1 C2]]].
    destruct c as [rc kc]. destruct (cert_op_val C s o rc kc v HI Cc Ov) as [A1 A2]. cbn in *. subst. split; auto. }
  destruct (ovals s args) as [a|] eqn:Oa; try discriminate.
  case_op op "nop". { discriminate. }
  case_op op "assign".
  { destruct args as [|o [|? ?]]; try discriminate. cbn in Oa. destruct (oval s o) eqn:Ov; try discriminate. inversion Oa. subst a.
    inversion H. subst s'. cbn in Hv. rewrite upd_same in Hv. inversion Hv. subst v0. eapply cert_op_val; eauto. }
  case_op op "alloca".
  { inversion H. subst s'. cbn in Hv. rewrite upd_same in Hv. inversion Hv. inversion Hc. subst. cbn. split; auto. intros k0 Qk. inversion Qk. reflexivity. }
  case_op op "add".
  { destruct args as [|ob [|oa [|? ?]]]; try discriminate. cbn in Oa.
    destruct (oval s ob) as [vb|] eqn:Ob; try discriminate. destruct (oval s oa) as [va|] eqn:Oaa; try discriminate. inversion Oa. subst a.
    destruct (vadd va vb) as [w|] eqn:V; try discriminate. inversion H. subst s'. cbn in Hv. rewrite upd_same in Hv. inversion Hv. subst w.
    destruct (cert_op C oa) as [[ra ka]|] eqn:Ca; try discriminate.
    2:{ destruct (cert_op C ob) as [[[rb|] kb]|] eqn:Cb; try discriminate.
        destruct (cert_op_val C s ob _ _ vb HI Cb Ob) as [B1 B2]. inversion Hc. subst r k.
        destruct vb as [tb xb]. cbn in B1. subst tb. destruct va as [[ta|] xa]; cbn in V; inversion V. subst v. cbn. split; auto. discriminate. }
    destruct (cert_op_val C s oa _ _ va HI Ca Oaa) as [A1 A2].
    destruct (cert_op C ob) as [[rb kb]|] eqn:Cb.
    - destruct (cert_op_val C s ob _ _ vb HI Cb Ob) as [B1 B2].
      destruct va as [ta xa], vb as [tb xb]. cbn in A1, B1. subst ta tb. cbn [snd] in A2, B2.
      destruct ra as [ra|], rb as [rb|], ka as [ka|], kb as [kb|]; try discriminate; cbn in V; inversion V; subst v;
        inversion Hc; subst; cbn; (split; [reflexivity|]); intros k0 Qk; inversion Qk; subst;
        try rewrite (A2 _ eq_refl); try rewrite (B2 _ eq_refl); reflexivity.
    - destruct va as [ta xa]. cbn in A1. subst ta. destruct ra as [ra|]; [|destruct ka; discriminate].
      assert (Hc' : Some (Some ra, @None Z) = Some (r, k)) by (destruct ka; exact Hc). inversion Hc'. subst.
      destruct vb as [[tb|] xb]; cbn in V; inversion V. subst v. cbn. split; auto. discriminate. }
  case_op op "sub".
  { destruct args as [|ob [|oa [|? ?]]]; try discriminate. cbn in Oa.
    destruct (oval s ob) as [vb|] eqn:Ob; try discriminate. destruct (oval s oa) as [va|] eqn:Oaa; try discriminate. inversion Oa. subst a.
    destruct (vsub va vb) as [w|] eqn:V; try discriminate. inversion H. subst s'. cbn in Hv. rewrite upd_same in Hv. inversion Hv. subst w.
    destruct (cert_op C oa) as [[ra ka]|] eqn:Ca; try discriminate.
    destruct (cert_op_val C s oa _ _ va HI Ca Oaa) as [A1 A2].
    destruct (cert_op C ob) as [[rb kb]|] eqn:Cb.
    2:{ destruct ra, ka; discriminate. }
    destruct (cert_op_val C s ob _ _ vb HI Cb Ob) as [B1 B2].
    destruct va as [ta xa], vb as [tb xb]. cbn in A1, B1. subst ta tb. cbn [snd] in A2, B2.
    destruct ra as [ra|], rb as [rb|], ka as [ka|], kb as [kb|]; try discriminate; cbn in V; inversion V; subst v;
      inversion Hc; subst; cbn; (split; [reflexivity|]); intros k0 Qk; inversion Qk; subst;
      try rewrite (A2 _ eq_refl); try rewrite (B2 _ eq_refl); reflexivity. }
  case_op op "mload".
  { destruct a as [|p [|? ?]]; try discriminate. inversion H. subst s'. cbn in Hv. rewrite upd_same in Hv. inversion Hv.
    unfold is_copy_op, is_nonmem_copy in Hc. ceqb. cbn in Hc. inversion Hc. cbn. split; auto. discriminate. }
  case_op op "mstore". { discriminate. }
  case_op op "mcopy". { unfold is_copy_op in Hc. ceqb. cbn in Hc. discriminate. }
  unfold is_copy_op in Hc. match goal with Hm : String.eqb op "mcopy" = false |- _ => rewrite Hm in Hc end. cbn [orb] in Hc.
  destruct (is_nonmem_copy op). { discriminate. }
  inversion Hc. subst r k.
  destruct (o_step O _ a s) as [[[[o m] r] w]|]; try discriminate.
  destruct o as [|z [|? ?]]; cbn in H; try discriminate. inversion H. subst s'. cbn in Hv. rewrite upd_same in Hv. inversion Hv.
  cbn. split; auto. discriminate.
Qed.

Lemma filter_single {A} (p : A -> bool) l j i : filter p l = [j] -> In i l -> p i = true -> i = j.
Proof. intros F I P. assert (In i (filter p l)) by (apply filter_In; auto). rewrite F in H. destruct H as [H|[]]. auto. Qed.

Lemma exec_cinv O C f i s s' : certs_ok f C = true -> In i (all_insts f) -> cinv C s -> exec O i s = Next s' -> cinv C s'.
Proof.
  intros Hok Hin HI He x r k v Hl Hv.
  destruct (in_dec N.eq_dec x (i_outs i)) as [Io|No].
  2:{ rewrite (exec_frame O i s s' x He No) in Hv. eapply HI; eauto. }
  unfold certs_ok in Hok. apply andb_prop in Hok. destruct Hok as [_ Hall]. rewrite forallb_forall in Hall.
  specialize (Hall _ (clook_in _ _ _ Hl)). unfold cert_ok_one in Hall.
  destruct (filter (defines x) (all_insts f)) as [|j [|? ?]] eqn:Fl; try discriminate.
  assert (i = j).
  { eapply filter_single; eauto. unfold defines. apply existsb_exists. exists x. split; auto. apply N.eqb_refl. }
  subst j. destruct (i_outs i) as [|x0 [|? ?]] eqn:Ou; try discriminate.
  destruct Io as [->|[]].
  destruct (cert_of_def C i) as [c|] eqn:Cd; cbn in Hall; try discriminate. apply pcert_eqb_eq in Hall. subst c.
  eapply def_value; eauto.
Qed.

(* a changed state component other than the variables does not matter *)
Lemma cinv_vars C s s' : vars s = vars s' -> cinv C s -> cinv C s'.
Proof. intros E H x r k v Hl Hv. rewrite <- E in Hv. eapply H; eauto. Qed.
