(* C14C / PropsDead.v -- the dead-copy step (f1 -> f' of ReadonlyInvokeArgCopyForwarding): statement, assumptions, examples. *)
From Coq Require Import ZArith NArith Bool List String.
From Verif Require Import C14C.CopySem C14C.CopyCheck C14C.CopySound1 C14C.DeadCheck C14C.DeadSound C14C.PropsCopy.
Import ListNotations.
Open Scope string_scope.
Open Scope Z_scope.

(* Accepted by `dead_check C D f f'` => for every oracle whose instructions cannot reach an allocation they hold no pointer
   to (`oracle_local`), every initial state respecting the certificate in which every pointer into D sits in a certified
   variable: unless the ORIGINAL run is stuck, both runs end the same way in states with equal variables and equal memory
   OUTSIDE the allocations of D (which no instruction of f' can read: that is what the checker establishes). *)
Theorem dead_copy_sound_stmt : forall O C D f f',
  oracle_local O D -> dead_check C D f f' = true ->
  forall s0 s0', cinv C s0 -> dinv C D s0 -> seqD D s0 s0' -> forall fuel, rel_resD D (run O f fuel 0 s0) (run O f' fuel 0 s0').
Proof. exact dead_copy_sound. Qed.
Print Assumptions dead_copy_sound_stmt.

Theorem no_pointer_into_dead_allocations : forall C D i s a,
  cinv C s -> dinv C D s -> uses_ok C D i = true -> is_prop_op (i_op i) = false -> ovals s (i_args i) = Some a -> nodv D a.
Proof. exact uses_nod. Qed.
Theorem dead_pointer_invariant : forall O C D i s s1,
  cinv C s -> dinv C D s -> uses_ok C D i = true -> exec O i s = Next s1 -> dinv C D s1.
Proof. exact exec_dinv. Qed.

(* non-vacuity: the staging copy of the R4 example is removed once the invoke reads the source *)
Lemma O0_local D : oracle_local O0 D. Proof. split; intros; cbn; auto. Qed.
Lemma s_init_dinv C D : dinv C D s_init. Proof. intros x v H. discriminate. Qed.
Lemma seqD_refl D s : seqD D s s. Proof. repeat split; auto. Qed.
Definition dead_f (cp : inst) (arg : operand) : func :=
  [[mkI "alloca" [OLit 64] [1%N] false false 1 []; mkI "alloca" [OLit 64] [2%N] false false 2 [];
    mkI "mstore" [OLit 5; OVar 1%N] [] true false 0 []; cp;
    mkI "invoke" [OLab 1000000%N; arg] [3%N] true true 0 inv_ann;
    mkI "stop" [] [] false false 0 []]].
Definition the_copy := mkI "mcopy" [OLit 64; OVar 1%N; OVar 2%N] [] true false 0 [].
Definition the_nop := mkI "nop" [] [] false false 0 [].
Example ex_dead_accepted : dead_check ex_C [2] (dead_f the_copy (OVar 1%N)) (dead_f the_nop (OVar 1%N)) = true.
Proof. vm_compute. reflexivity. Qed.
Example ex_dead_runs : forall fuel, rel_resD [2] (run O0 (dead_f the_copy (OVar 1%N)) fuel 0 s_init) (run O0 (dead_f the_nop (OVar 1%N)) fuel 0 s_init).
Proof. intros. apply dead_copy_sound with (C := ex_C); auto using O0_local, s_init_cinv, s_init_dinv, seqD_refl, ex_dead_accepted. Qed.
(* rejected while the invoke still receives the staging buffer *)
Example ex_dead_still_used : dead_check ex_C [2] (dead_f the_copy (OVar 2%N)) (dead_f the_nop (OVar 2%N)) = false.
Proof. vm_compute. reflexivity. Qed.
(* rejected when the copy writes an allocation that is not declared dead *)
Example ex_dead_wrong_region : dead_check ex_C [1] (dead_f the_copy (OVar 1%N)) (dead_f the_nop (OVar 1%N)) = false.
Proof. vm_compute. reflexivity. Qed.
