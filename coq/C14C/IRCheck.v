(* C14C / IRCheck.v -- validator for InternalReturnCopyForwardingPass (definitions only) and the bounded semantics it is
   stated for.  P lists the forwarded (destination allocation, return-buffer allocation, size); RN lists the variables that
   hold a pointer into a destination in f and into the return buffer in f' ("renamed").  f' is f where
     - the copy  mcopy dst, ret, n  is a nop                                     (from there on dst in f plays ret in f')
     - later instructions of the same block use ret where f uses (an alias of) dst, or a renamed variable defined since
   and nothing else touches the two allocations except the ONE invoke that fills ret earlier in the block. *)
From Coq Require Import ZArith NArith Bool List String.
From Verif Require Import C14C.CopySem C14C.CopyCheck C14C.DeadCheck.
Import ListNotations.
Open Scope string_scope.
Open Scope Z_scope.

Definition pairs := list (Z * Z * Z).
Definition pd (p : Z * Z * Z) : Z := fst (fst p).
Definition pr (p : Z * Z * Z) : Z := snd (fst p).
Definition pn (p : Z * Z * Z) : Z := snd p.
Definition regs (P : pairs) : list Z := map pd P ++ map pr P.
Fixpoint nodupZ (l : list Z) : bool := match l with [] => true | x :: t => negb (existsb (Z.eqb x) t) && nodupZ t end.
Definition pairs_wf (P : pairs) : bool := nodupZ (regs P) && forallb (fun p => (0 <? pn p) && (pn p <? W)) P.

(* ---- bounded semantics: a precise access to one of the allocations of P outside [0, size) is Stuck *)
Definition inb_acc (P : pairs) (p : val) (len : Z) : bool :=
  match fst p with
  | Some t => forallb (fun q => if (pd q =? t) || (pr q =? t) then (0 <=? snd p) && (snd p + len <=? pn q) else true) P
  | None => true
  end.
Definition inb (P : pairs) (i : inst) (s : state) : bool :=
  match ovals s (i_args i) with
  | Some args =>
      if String.eqb (i_op i) "mload" then match args with [p] => inb_acc P p 32 | _ => true end
      else if String.eqb (i_op i) "mstore" then match args with [_; p] => inb_acc P p 32 | _ => true end
      else if String.eqb (i_op i) "mcopy" then match args with [(None, n); sp; dp] => inb_acc P sp n && inb_acc P dp n | _ => true end
      else if is_nonmem_copy (i_op i) then match args with [(None, n); _; dp] => inb_acc P dp n | _ => true end
      else true
  | None => true
  end.
Definition exec_b (O : oracle) (P : pairs) (i : inst) (s : state) : outcome := if inb P i s then exec O i s else Stuck.
Fixpoint exec_block_b (O : oracle) (P : pairs) (b : list inst) (s : state) : bres :=
  match b with
  | [] => BNext s None
  | [t] => exec_block O [t] s
  | i :: r => match exec_b O P i s with Stuck => BStuck | Halt => BHalt | Next s' => exec_block_b O P r s' end
  end.
Fixpoint run_b (O : oracle) (P : pairs) (f : func) (fuel : nat) (l : N) (s : state) : result :=
  match fuel with
  | O => OutOfFuel
  | S k =>
    match nth_error f (N.to_nat l) with
    | None => Halted s
    | Some b =>
      match exec_block_b O P b s with
      | BStuck => StuckR
      | BHalt => Halted s
      | BNext s' None => Done s'
      | BNext s' (Some l') => run_b O P f k l' (mkS (vars s') (smem s') (srd s') (sworld s') l)
      end
    end
  end.

(* ---- the checker *)
Definition memN (x : N) (l : list N) : bool := existsb (N.eqb x) l.
Definition memZ (x : Z) (l : list Z) : bool := existsb (Z.eqb x) l.
(* syntactic state inside a block: destinations whose copy was passed, return buffers filled and not yet copied, renamed
   variables defined since, and the variables through which a return buffer was seen *)
Definition ist := (list Z * list Z * list N * list (Z * N))%type.
Definition st_active (s : ist) := fst (fst (fst s)).
Definition st_filled (s : ist) := snd (fst (fst s)).
Definition st_fresh (s : ist) := snd (fst s).
Definition st_rvars (s : ist) := snd s.
Definition st0 : ist := ([], [], [], []).

Inductive okind := KE | KR | KS | KBad.
Definition okind_eqb (a b : okind) : bool := match a, b with KE, KE | KR, KR | KS, KS | KBad, KBad => true | _, _ => false end.
Definition okind_of (C : certs) (P : pairs) (RN : list N) (st : ist) (o o' : operand) : okind :=
  if operand_eqx o o' then
    if dop C (regs P) o then
      match o, cert_op C o with
      | OVar x, Some (Some d, _) => if memN x (st_fresh st) && memZ d (st_active st) && memZ d (map pd P) then KR else KBad
      | _, _ => KBad
      end
    else KE
  else
    match o, o', cert_op C o, cert_op C o' with
    | OVar x, OVar y, Some (Some d, Some 0), Some (Some r, Some 0) =>
        if negb (memN x RN) && negb (memN y RN) && memZ d (st_active st) &&
           existsb (fun p => (pd p =? d) && (pr p =? r)) P && existsb (fun q => (fst q =? r) && N.eqb (snd q) y) (st_rvars st)
        then KS else KBad
    | _, _, _, _ => KBad
    end.
Fixpoint kinds (C : certs) (P : pairs) (RN : list N) (st : ist) (a a' : list operand) : option (list okind) :=
  match a, a' with
  | [], [] => Some []
  | o :: r, o' :: r' => match kinds C P RN st r r' with Some ks => Some (okind_of C P RN st o o' :: ks) | None => None end
  | _, _ => None
  end.
Definition good (k : okind) : bool := negb (okind_eqb k KBad).
Definition isE (k : okind) : bool := okind_eqb k KE.
Definition same_shell (i i' : inst) : bool :=
  String.eqb (i_op i) (i_op i') && list_eqb N.eqb (i_outs i) (i_outs i') && Bool.eqb (i_wm i) (i_wm i') &&
  Bool.eqb (i_wrd i) (i_wrd i') && (i_id i =? i_id i') && list_eqb ann_eqb (i_ann i) (i_ann i').
Definition outs_plain (RN : list N) (i : inst) : bool := forallb (fun x => negb (memN x RN)) (i_outs i).
(* the annotation of the return-buffer operand of an invoke *)
Definition is_fill (a : option operand) : bool := match a with Some (OLab _) => true | _ => false end.
Definition no_fill (i : inst) : bool := negb (existsb is_fill (i_ann i)).
Definition removeZ (x : Z) (l : list Z) : list Z := filter (fun y => negb (y =? x)) l.
Definition partner_d (P : pairs) (r : Z) : list Z := map pd (filter (fun p => pr p =? r) P).

(* operands of a filling invoke: at the annotated position the (unchanged) return buffer; elsewhere good kinds.  Returns the
   return-buffer allocation and variable *)
Fixpoint fill_args (C : certs) (P : pairs) (RN : list N) (st : ist) (a a' : list operand) (ann : list (option operand)) : option (option (Z * N)) :=
  match a, a', ann with
  | [], [], [] => Some None
  | o :: r, o' :: r', an :: rn =>
      match fill_args C P RN st r r' rn with
      | None => None
      | Some rest =>
          if is_fill an then
            match rest, o, cert_op C o with
            | None, OVar y, Some (Some rg, Some 0) =>
                if operand_eqx o o' && negb (memN y RN) && memZ rg (map pr P) &&
                   forallb (fun d => negb (memZ d (st_active st))) (partner_d P rg)
                then Some (Some (rg, y)) else None
            | _, _, _ => None
            end
          else if good (okind_of C P RN st o o') then Some rest else None
      end
  | _, _, _ => None
  end.

Definition ir_inst (C : certs) (P : pairs) (RN : list N) (st : ist) (i i' : inst) : option ist :=
  let op := i_op i in
  if String.eqb op "mcopy" && String.eqb (i_op i') "nop" then
    (* the forwarded copy *)
    match i_args i, i_outs i, i_args i', i_outs i', st with
    | [OLit n; OVar sy; OVar dx], [], [], [], (act, fil, fr, rv) =>
        match cert_op C (OVar dx), cert_op C (OVar sy) with
        | Some (Some d, Some 0), Some (Some r, Some 0) =>
            if negb (memN dx RN) && negb (memN sy RN) && existsb (fun p => (pd p =? d) && (pr p =? r) && (pn p =? n mod W)) P &&
               negb (memZ d act) && memZ r fil
            then Some (d :: act, removeZ r fil, fr, (r, sy) :: rv) else None
        | _, _ => None
        end
    | _, _, _, _, _ => None
    end
  else if negb (same_shell i i') then None
  else if String.eqb op "invoke" && negb (no_fill i) then
    match fill_args C P RN st (i_args i) (i_args i') (i_ann i), st with
    | Some (Some (r, y)), (act, fil, fr, rv) => if i_wm i && outs_plain RN i then Some (act, r :: fil, fr, (r, y) :: rv) else None
    | _, _ => None
    end
  else
    match kinds C P RN st (i_args i) (i_args i'), st with
    | Some ks, (act, fil, fr, rv) =>
        if negb (forallb good ks) then None
        else if forallb isE ks then
          (* untouched by the renaming; the only instruction that may move a pointer into P around unchanged is `assign` *)
          if outs_plain RN i && no_fill i then Some st else None
        else if String.eqb op "assign" || String.eqb op "add" then
          (* a renamed pointer is derived: the output is a renamed variable *)
          match i_outs i with [x] => if memN x RN then Some (act, fil, x :: fr, rv) else None | _ => None end
        else if String.eqb op "sub" || String.eqb op "phi" || String.eqb op "alloca" || String.eqb op "nop" then None
        else if outs_plain RN i && no_fill i &&
                (if String.eqb op "mstore" then match ks with [k; _] => isE k | _ => false end
                 else if String.eqb op "mcopy" then match ks with [k; _; _] => isE k | _ => false end
                 else if is_nonmem_copy op then match ks with [k; k2; _] => isE k && isE k2 | _ => false end
                 else true)
        then Some st else None
    | None, _ => None
    end.
(* alias assigns (`%a = %dst`, unchanged, operand certified into P but not renamed) are the all-KE case?  No: dop is true for
   them, so okind_of gives KBad; they are accepted here, before ir_inst *)
Definition alias_assign (C : certs) (P : pairs) (RN : list N) (i i' : inst) : bool :=
  inst_eqb i i' && String.eqb (i_op i) "assign" &&
  match i_args i, i_outs i with
  | [OVar x], [z] => negb (memN x RN) && negb (memN z RN) && (if dop C (regs P) (OVar x) then certified_out C i else true)
  | _, _ => false
  end.
(* the terminator: same instruction up to renamed operands *)
Definition term_ok (C : certs) (P : pairs) (RN : list N) (st : ist) (t t' : inst) : bool :=
  same_shell t t' && match kinds C P RN st (i_args t) (i_args t') with Some ks => forallb good ks | None => false end.
Fixpoint ir_insts (C : certs) (P : pairs) (RN : list N) (st : ist) (b b' : list inst) : bool :=
  match b, b' with
  | [], [] => true
  | [t], [t'] => term_ok C P RN st t t'
  | i :: r, i' :: r' =>
      if alias_assign C P RN i i' then ir_insts C P RN st r r'
      else match ir_inst C P RN st i i' with Some st' => ir_insts C P RN st' r r' | None => false end
  | _, _ => false
  end.
Fixpoint ir_blocks (C : certs) (P : pairs) (RN : list N) (f f' : func) : bool :=
  match f, f' with
  | [], [] => true
  | b :: r, b' :: r' => ir_insts C P RN st0 b b' && ir_blocks C P RN r r'
  | _, _ => false
  end.
(* every renamed variable is certified (in f) to point into a destination; allocas of P have certified outputs *)
Definition rn_ok (C : certs) (P : pairs) (RN : list N) : bool :=
  forallb (fun x => match clook C x with Some (Some d, _) => memZ d (map pd P) | _ => false end) RN.
Definition allocas_ok (C : certs) (P : pairs) (f : func) : bool :=
  forallb (fun i => if String.eqb (i_op i) "alloca" && memZ (i_id i) (regs P) then certified_out C i else true) (all_insts f).
Definition ir_check (C : certs) (P : pairs) (RN : list N) (f f' : func) : bool :=
  certs_ok f C && pairs_wf P && rn_ok C P RN && allocas_ok C P f && ir_blocks C P RN f f'.
