(* C14C / CopySound1.v -- extensionality of the semantics and soundness of the pointer certificates. *)
From Coq Require Import ZArith NArith Bool List String Lia.
From Verif Require Import C14C.CopySem C14C.CopyCheck.
Import ListNotations.
Open Scope string_scope.
Open Scope Z_scope.

Definition meq (m m' : mem) : Prop := forall t a, m t a = m' t a.
Definition seq2 (s s' : state) : Prop :=
  vars s = vars s' /\ meq (smem s) (smem s') /\ srd s = srd s' /\ sworld s = sworld s' /\ spred s = spred s'.
Definition rel_out (a b : outcome) : Prop :=
  match a, b with Next x, Next y => seq2 x y | Halt, Halt => True | Stuck, Stuck => True | _, _ => False end.

(* the oracle depends on memory only through its contents *)
Definition oracle_ext (O : oracle) : Prop :=
  (forall i args s s', seq2 s s' ->
     match o_step O i args s, o_step O i args s' with
     | Some (o, m, r, w), Some (o', m', r', w') => o = o' /\ meq m m' /\ r = r' /\ w = w'
     | None, None => True
     | _, _ => False
     end) /\
  (forall i args s s', seq2 s s' -> o_next O i args s = o_next O i args s').

(* ---- the meaning of the read-only annotation of `invoke` operands.
   Two invokes that differ only in annotated operands behave alike when, for every such operand, the first sz bytes behind
   the two pointers are equal and no operand the callee may write through (annotation None) points into the allocation
   of the new pointer (for a new pointer into region None -- a parameter of the caller or a concrete address -- this
   non-aliasing is ASSUMED: see notes/C14-copypasses.md).  What justifies it: the callee reads the parameter only (checked
   syntactically on its body by the tie) and observes at most the bytes the front end staged for it. *)
Definition step_rel (a b : option (list Z * mem * Z * Z)) : Prop :=
  match a, b with
  | Some (o, m, r, w), Some (o', m', r', w') => o = o' /\ meq m m' /\ r = r' /\ w = w'
  | None, None => True
  | _, _ => False
  end.
Definition same_but_args (i i' : inst) : Prop :=
  i_op i = i_op i' /\ i_outs i = i_outs i' /\ i_wm i = i_wm i' /\ i_wrd i = i_wrd i' /\ i_id i = i_id i' /\ i_ann i = i_ann i'.
Fixpoint args_rel (s : state) (all' : list val) (all_ann : list (option operand)) (a a' : list val) (ann : list (option operand)) : Prop :=
  match a, a', ann with
  | [], [], [] => True
  | v :: r, v' :: r', an :: rn =>
      (v = v' \/ exists sz n, an = Some sz /\ oval s sz = Some (None, n) /\
                 (forall j, 0 <= j < n -> smem s (fst v) (snd v + j) = smem s (fst v') (snd v' + j)) /\
                 (fst v' <> None -> forall q vq, nth_error all_ann q = Some None -> nth_error all' q = Some vq -> fst vq <> fst v'))
      /\ args_rel s all' all_ann r r' rn
  | _, _, _ => False
  end.
Definition ro_uniform (O : oracle) : Prop :=
  forall i i' a a' s s', seq2 s s' -> i_op i = "invoke" -> same_but_args i i' ->
    args_rel s a' (i_ann i) a a' (i_ann i) -> step_rel (o_step O i a s) (o_step O i' a' s').

Lemma meq_refl m : meq m m. Proof. intros t a. reflexivity. Qed.
Lemma seq2_refl s : seq2 s s. Proof. repeat split; auto using meq_refl. Qed.
Lemma meq_trans a b c : meq a b -> meq b c -> meq a c.
Proof. intros H1 H2 t x. rewrite H1. apply H2. Qed.
Lemma meq_sym a b : meq a b -> meq b a. Proof. intros H t x. symmetry. apply H. Qed.

Lemma oval_vars s s' o : vars s = vars s' -> oval s o = oval s' o.
Proof. intros E. destruct o; cbn; auto. rewrite E. reflexivity. Qed.
Lemma ovals_vars s s' l : vars s = vars s' -> ovals s l = ovals s' l.
Proof. intros E. induction l; cbn; auto. rewrite IHl, (oval_vars s s' a E). reflexivity. Qed.

Lemma mwrite_meq m m' t a n f f' : meq m m' -> (forall j, f j = f' j) -> meq (mwrite m t a n f) (mwrite m' t a n f').
Proof. intros H Hf t' c. unfold mwrite. destruct (oeqb t' t && in_rng a n c); auto. Qed.
Lemma word_of_meq m m' t : meq m m' -> forall k a acc, word_of m t a k acc = word_of m' t a k acc.
Proof. intros H. induction k; intros; cbn; auto. rewrite H. apply IHk. Qed.

Lemma str_dec (a b : string) : {a = b} + {a <> b}. Proof. apply string_dec. Qed.

Ltac eqb_cases :=
  repeat match goal with
  | |- context [String.eqb ?a ?b] => destruct (String.eqb a b) eqn:?
  end.

Lemma exec_ext O : oracle_ext O -> forall i s s', seq2 s s' -> rel_out (exec O i s) (exec O i s').
Proof.
  intros [Hs _] i s s' R. pose proof R as [Ev [Em [Er [Ew Ep]]]].
  unfold exec. rewrite <- Ep.
  destruct (String.eqb (i_op i) "phi").
  { destruct (phi_pick (spred s) (i_args i)) as [o|]; [|exact I]. destruct (i_outs i) as [|x [|? ?]]; try exact I.
    rewrite <- (oval_vars s s' o Ev). destruct (oval s o); [|exact I]. cbn. unfold with_vars. cbn. rewrite Ev. repeat split; auto. }
  rewrite <- (ovals_vars s s' _ Ev). destruct (ovals s (i_args i)) as [args|]; [|exact I].
  destruct (String.eqb (i_op i) "nop"); [exact R|].
  destruct (String.eqb (i_op i) "assign").
  { destruct args as [|v [|? ?]]; try exact I. destruct (i_outs i) as [|x [|? ?]]; try exact I. cbn. rewrite Ev. repeat split; auto. }
  destruct (String.eqb (i_op i) "alloca").
  { destruct (i_outs i) as [|x [|? ?]]; try exact I. cbn. rewrite Ev. repeat split; auto. }
  destruct (String.eqb (i_op i) "add").
  { destruct args as [|b [|a [|? ?]]]; try exact I. destruct (i_outs i) as [|x [|? ?]]; try exact I.
    destruct (vadd a b); [|exact I]. cbn. rewrite Ev. repeat split; auto. }
  destruct (String.eqb (i_op i) "sub").
  { destruct args as [|b [|a [|? ?]]]; try exact I. destruct (i_outs i) as [|x [|? ?]]; try exact I.
    destruct (vsub a b); [|exact I]. cbn. rewrite Ev. repeat split; auto. }
  destruct (String.eqb (i_op i) "mload").
  { destruct args as [|p [|? ?]]; try exact I. destruct (i_outs i) as [|x [|? ?]]; try exact I. 
    assert (Hl : mload (smem s) p = mload (smem s') p) by (unfold mload; apply word_of_meq; exact Em).
    rewrite Hl. cbn. rewrite Ev. repeat split; auto. }
  destruct (String.eqb (i_op i) "mstore").
  { destruct args as [|v [|p [|? ?]]]; try exact I. destruct (i_outs i); try exact I. cbn.
    repeat split; auto. cbn. apply mwrite_meq; auto. }
  destruct (String.eqb (i_op i) "mcopy").
  { destruct args as [|[[?|] n] [|sp [|dp [|? ?]]]]; try exact I. destruct (i_outs i); try exact I. cbn.
    repeat split; auto. cbn. apply mwrite_meq; auto. }
  destruct (is_nonmem_copy (i_op i)).
  { destruct args as [|[[?|] n] [|sp [|dp [|? ?]]]]; try exact I. destruct (i_outs i); try exact I. cbn.
    repeat split; auto. cbn. apply mwrite_meq; auto. intros j. unfold src_byte. rewrite Er. reflexivity. }
  specialize (Hs i args s s' R).
  destruct (o_step O i args s) as [[[[o m] r] w]|]; destruct (o_step O i args s') as [[[[o' m'] r'] w']|]; try contradiction; auto.
  destruct Hs as [-> [Hm [-> ->]]]. rewrite <- Ev.
  destruct (set_outs (vars s) (i_outs i) o'); [|exact I]. cbn.
  repeat split; cbn; auto. destruct (i_wm i); auto. destruct (i_wrd i); auto.
Qed.

(* ------------------------------------------------------------------ certificates *)
Definition cinv (C : certs) (s : state) : Prop :=
  forall x r k v, clook C x = Some (r, k) -> vars s x = Some v -> fst v = r /\ (forall k0, k = Some k0 -> snd v = k0).

Lemma cert_op_val C s o r k v : cinv C s -> cert_op C o = Some (r, k) -> oval s o = Some v ->
  fst v = r /\ (forall k0, k = Some k0 -> snd v = k0).
Proof.
  intros HI Hc Hv. destruct o; cbn in *.
  - inversion Hc; subst. inversion Hv; subst. cbn. split; auto. intros k0 E. inversion E. reflexivity.
  - eapply HI; eauto.
  - discriminate.
Qed.

Lemma oeqb_eq a b : oeqb a b = true -> a = b.
Proof. destruct a, b; cbn; intros H; try discriminate; auto. apply Z.eqb_eq in H. subst. reflexivity. Qed.

Lemma same_val_sound C s a b va vb : cinv C s -> same_val C a b = true -> oval s a = Some va -> oval s b = Some vb -> va = vb.
Proof.
  intros HI H Ha Hb. unfold same_val in H. apply orb_prop in H. destruct H as [H|H].
  - destruct a, b; cbn in *; try discriminate.
    + apply Z.eqb_eq in H. inversion Ha; inversion Hb; subst. rewrite H. reflexivity.
    + apply N.eqb_eq in H. subst. congruence.
    + apply N.eqb_eq in H. subst. congruence.
  - apply andb_prop in H. destruct H as [He Hq].
    destruct (cert_op C a) as [[ra [ka|]]|] eqn:Ca; cbn in He; try discriminate.
    destruct (cert_op C b) as [[rb kb]|] eqn:Cb; cbn in Hq; try discriminate.
    unfold pcert_eqb in Hq. cbn [fst snd] in Hq. apply andb_prop in Hq. destruct Hq as [Q1 Q2].
    apply oeqb_eq in Q1. apply oeqb_eq in Q2. subst.
    destruct (cert_op_val C s a _ _ va HI Ca Ha) as [A1 A2]. destruct (cert_op_val C s b _ _ vb HI Cb Hb) as [B1 B2].
    destruct va, vb. cbn in *. rewrite (A2 ka eq_refl), (B2 ka eq_refl). subst. reflexivity.
Qed.
