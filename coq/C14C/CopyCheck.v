(* C14C / CopyCheck.v -- the validator for MemoryCopyElisionPass (definitions only).
   Input: the function before and after one pass invocation (same block structure), and a pointer certificate
   C : variable -> (region, offset) exported from the real BasePtrAnalysis and RE-CHECKED here against the defining
   instructions (`certs_ok`).  `check_func` accepts when every changed instruction is justified by a copy fact that is
   still valid at that point of its basic block. *)
From Coq Require Import ZArith NArith Bool List String.
From Verif Require Import C14C.CopySem.
Import ListNotations.
Open Scope string_scope.
Open Scope Z_scope.

Definition is_copy_op (op : string) : bool := String.eqb op "mcopy" || is_nonmem_copy op.

(* ---- certificates *)
Definition pcert := (option Z * option Z)%type.            (* region, offset (None = unknown) *)
Definition certs := list (N * pcert).
Fixpoint clook (C : certs) (x : N) : option pcert :=
  match C with [] => None | (y, c) :: t => if N.eqb x y then Some c else clook t x end.
Definition cert_op (C : certs) (o : operand) : option pcert :=
  match o with OLit z => Some (None, Some (z mod W)) | OVar x => clook C x | OLab _ => None end.
Definition ozeqb (a b : option Z) : bool := oeqb a b.
Definition pcert_eqb (a b : pcert) : bool := oeqb (fst a) (fst b) && oeqb (snd a) (snd b).
Definition opcert_eqb (a b : option pcert) : bool :=
  match a, b with Some x, Some y => pcert_eqb x y | None, None => true | _, _ => false end.

(* the certificate an instruction gives to its single output (None = the variable may not be certified) *)
Definition lit_of (o : operand) : option Z := match o with OLit z => Some (z mod W) | _ => None end.
(* phi: every incoming value is certified and in the same region; the offset is kept when all agree *)
Definition join_cert (acc : option pcert) (c : pcert) : option pcert :=
  match acc with
  | None => Some c
  | Some (r, k) => if oeqb r (fst c) then Some (r, if oeqb k (snd c) then k else None) else None
  end.
Fixpoint phi_cert (C : certs) (ops : list operand) (acc : option pcert) : option pcert :=
  match ops with
  | [] => acc
  | OLab _ :: o :: t =>
      match cert_op C o with
      | Some c =>
          match join_cert acc c with
          | Some a => phi_cert C t (Some a)
          | None => None
          end
      | None => None
      end
  | _ => None
  end.

Definition cert_of_def (C : certs) (i : inst) : option pcert :=
  let op := i_op i in
  if String.eqb op "alloca" then Some (Some (i_id i), Some 0)
  else if String.eqb op "assign" then match i_args i with [a] => cert_op C a | _ => None end
  else if String.eqb op "add" then
    match i_args i with
    | [b; a] =>
        match cert_op C a, cert_op C b with
        | Some (None, Some x), Some (None, Some y) => Some (None, Some ((x + y) mod W))
        | Some (Some r, Some k), Some (None, Some y) => Some (Some r, Some (k + y))
        | Some (None, Some x), Some (Some r, Some k) => Some (Some r, Some (k + x))
        | Some (Some r, _), Some (Some r', _) => None
        | Some (Some r, _), _ => Some (Some r, None)
        | _, Some (Some r, _) => Some (Some r, None)
        | Some (None, _), Some (None, _) => Some (None, None)
        | _, _ => None
        end
    | _ => None
    end
  else if String.eqb op "sub" then
    match i_args i with
    | [b; a] =>
        match cert_op C a, cert_op C b with
        | Some (None, Some x), Some (None, Some y) => Some (None, Some ((x - y) mod W))
        | Some (Some r, Some k), Some (None, Some y) => Some (Some r, Some (k - y))
        | Some (Some r, _), Some (None, _) => Some (Some r, None)
        | Some (None, _), Some (None, _) => Some (None, None)
        | _, _ => None
        end
    | _ => None
    end
  else if String.eqb op "phi" then phi_cert C (i_args i) None
  else if String.eqb op "nop" || String.eqb op "mstore" || is_copy_op op then None
  else Some (None, None).    (* mload and every oracle instruction produce plain words *)

Definition defines (x : N) (i : inst) : bool := existsb (N.eqb x) (i_outs i).
Definition all_insts (f : func) : list inst := List.concat f.
Definition ndefs (f : func) (x : N) : nat := List.length (filter (defines x) (all_insts f)).
(* every certified variable has exactly one definition, a single-output instruction whose rule gives the certificate *)
Definition cert_ok_one (f : func) (C : certs) (xc : N * pcert) : bool :=
  let '(x, c) := xc in
  match filter (defines x) (all_insts f) with
  | [i] => match i_outs i with [_] => opcert_eqb (cert_of_def C i) (Some c) | _ => false end
  | _ => false
  end.
Fixpoint nodup_keys (C : certs) : bool :=
  match C with [] => true | (x, _) :: t => negb (existsb (fun q => N.eqb (fst q) x) t) && nodup_keys t end.
Definition certs_ok (f : func) (C : certs) : bool := nodup_keys C && forallb (cert_ok_one f C) C.

(* ---- locations and disjointness (region, offset, size); None = unknown *)
Definition loc := (option Z * option Z * option Z)%type.
Definition loc_of (C : certs) (p : operand) (n : option Z) : option loc :=
  match cert_op C p with Some (r, k) => Some (r, k, n) | None => None end.
(* provably disjoint: same region and disjoint intervals, or two different regions (two allocations, or an allocation and
   the region None of concrete addresses / pointers received as parameters: the allocator's obligation, C04) *)
Definition disjoint (a b : loc) : bool :=
  let '(ra, ka, na) := a in let '(rb, kb, nb) := b in
  match ra, rb with
  | Some x, Some y =>
      if x =? y then
        match ka, na, kb, nb with
        | Some ka, Some na, Some kb, Some nb => (ka + na <=? kb) || (kb + nb <=? ka)
        | _, _, _, _ => false
        end
      else true
  | None, None =>
      match ka, na, kb, nb with
      | Some ka, Some na, Some kb, Some nb => (ka + na <=? kb) || (kb + nb <=? ka)
      | _, _, _, _ => false
      end
  | _, _ => true
  end.
Definition odisjoint (a b : option loc) : bool :=
  match a, b with Some x, Some y => disjoint x y | _, _ => false end.

(* ---- facts *)
Inductive fact :=
| FCopy (op : string) (d s n : operand).   (* mem[d .. d+n) = source_op[s .. s+n), valid now; n a plain word *)

Definition operand_eqb (a b : operand) : bool :=
  match a, b with
  | OLit x, OLit y => x mod W =? y mod W
  | OVar x, OVar y => N.eqb x y
  | OLab x, OLab y => N.eqb x y
  | _, _ => false
  end.
Definition exact (c : option pcert) : bool := match c with Some (_, Some _) => true | _ => false end.
(* two operands certainly hold the same value *)
Definition same_val (C : certs) (a b : operand) : bool :=
  operand_eqb a b || (exact (cert_op C a) && opcert_eqb (cert_op C a) (cert_op C b)).

(* the same, for an operand a that the pass INTRODUCED: it must be one that certainly has a value (the fact's own operand,
   or a literal) *)
Definition is_lit (o : operand) : bool := match o with OLit _ => true | _ => false end.
Definition same_new (C : certs) (a b : operand) : bool := operand_eqb a b || (is_lit a && same_val C a b).

Definition mentions (x : N) (o : operand) : bool := match o with OVar y => N.eqb x y | _ => false end.
Definition fact_mentions (fc : fact) (x : N) : bool :=
  match fc with FCopy _ d s n => mentions x d || mentions x s || mentions x n end.
Definition kill_outs (F : list fact) (outs : list N) : list fact :=
  filter (fun fc => negb (existsb (fact_mentions fc) outs)) F.
(* a write to w (None = unknown location) kills a fact unless both its destination and (for mcopy) its source are
   provably disjoint from w *)
Definition size_lit (o : operand) : option Z := match o with OLit z => Some (z mod W) | _ => None end.
Definition survives (C : certs) (w : option loc) (fc : fact) : bool :=
  match fc with
  | FCopy op d s n =>
      odisjoint (loc_of C d (size_lit n)) w &&
      (if String.eqb op "mcopy" then odisjoint (loc_of C s (size_lit n)) w else true)
  end.
Definition kill_write (C : certs) (F : list fact) (w : option loc) : list fact := filter (survives C w) F.
Definition not_rd (fc : fact) : bool := match fc with FCopy op _ _ _ => negb (String.eqb op "returndatacopy") end.


(* the size operand may be remembered in a fact: a literal or a variable (the fact dies when the variable is redefined) *)
Definition is_plain_size (C : certs) (n : operand) : bool := match n with OLab _ => false | _ => true end.

(* facts after executing instruction i (of the BEFORE program) *)
Definition step_facts (C : certs) (F : list fact) (i : inst) : list fact :=
  let F := kill_outs F (i_outs i) in
  let op := i_op i in
  if String.eqb op "nop" || String.eqb op "assign" || String.eqb op "alloca" || String.eqb op "add" || String.eqb op "sub"
     || String.eqb op "mload" || String.eqb op "phi" then F
  else if String.eqb op "mstore" then
    match i_args i with
    | [_; p] => kill_write C F (loc_of C p (Some 32))
    | _ => []
    end
  else if String.eqb op "mcopy" then
    match i_args i with
    | [n; s; d] =>
        let w := loc_of C d (size_lit n) in
        let F := kill_write C F w in
        (* bytes copied from a region that is itself a valid copy of some source are a copy of that source too *)
        let derived := flat_map (fun fc => match fc with FCopy op dF sF nF =>
                           if operand_eqb nF n && same_val C s dF &&
                              (if String.eqb op "mcopy" then odisjoint w (loc_of C sF (size_lit n)) else true)
                           then [FCopy op d sF n] else [] end) F in
        if is_plain_size C n then
          (if odisjoint w (loc_of C s (size_lit n)) then [FCopy "mcopy" d s n] else []) ++ derived ++ F
        else F
    | _ => []
    end
  else if is_nonmem_copy op then
    match i_args i with
    | [n; s; d] =>
        let w := loc_of C d (size_lit n) in
        let F := kill_write C F w in
        if is_plain_size C n then FCopy op d s n :: F else F
    | _ => []
    end
  else
    let F := if i_wm i then [] else F in
    if i_wrd i then filter not_rd F else F.

(* ---- justification of a changed instruction *)
Definition operand_eqx (a b : operand) : bool :=
  match a, b with
  | OLit x, OLit y => x =? y
  | OVar x, OVar y => N.eqb x y
  | OLab x, OLab y => N.eqb x y
  | _, _ => false
  end.
Fixpoint list_eqb {A} (eqb : A -> A -> bool) (l m : list A) : bool :=
  match l, m with
  | [], [] => true
  | x :: l', y :: m' => eqb x y && list_eqb eqb l' m'
  | _, _ => false
  end.
Definition ann_eqb (x y : option operand) : bool :=
  match x, y with None, None => true | Some p, Some q => operand_eqx p q | _, _ => false end.
Definition inst_eqb (a b : inst) : bool :=
  String.eqb (i_op a) (i_op b) && list_eqb operand_eqx (i_args a) (i_args b) && list_eqb N.eqb (i_outs a) (i_outs b) &&
  Bool.eqb (i_wm a) (i_wm b) && Bool.eqb (i_wrd a) (i_wrd b) && (i_id a =? i_id b) &&
  list_eqb ann_eqb (i_ann a) (i_ann b).

(* R1: mcopy d, s, n  ~>  op2 d, s2, n   given a valid fact  mem[s..s+n) = op2-source[s2..s2+n)
   R2: mcopy d, s, n  ~>  nop            given a valid fact  mem[d..d+n) = mem[s..s+n)
   R4: invoke .., t, ..  ~>  invoke .., s, ..  at an operand annotated read-only with observable size sz, given a valid
       fact mem[t..t+sz) = mem[s..s+sz), when no operand the callee may write through points into the allocation of s *)
Definition region_of (C : certs) (o : operand) : option (option Z) := match cert_op C o with Some (r, _) => Some r | None => None end.
Fixpoint ro_args_ok (C : certs) (F : list fact) (all_new : list operand) (all_ann : list (option operand))
                    (a a' : list operand) (ann : list (option operand)) : bool :=
  match a, a', ann with
  | [], [], [] => true
  | x :: r, x' :: r', an :: rn =>
      (operand_eqx x x' ||
       match an with
       | None => false
       | Some sz =>
           existsb (fun fc => match fc with FCopy op dF sF nF =>
                      String.eqb op "mcopy" && operand_eqb sz nF && same_val C x dF && same_new C x' sF end) F &&
           (* aliasing: the new operand's allocation is not reachable through a writable operand (annotation None): such an
              operand is a label, or certified to lie in another region; when the region of the new operand is not known
              (a phi of two allocations), every writable operand must be a label or a plain word *)
           forallb (fun p => match snd p with
                             | Some _ => true
                             | None => match fst p with
                                       | OLab _ => true
                                       | o => match region_of C x', region_of C o with
                                              | Some (Some rg), Some r => negb (oeqb r (Some rg))
                                              | Some None, _ => true
                                              | None, Some None => true
                                              | _, _ => false
                                              end
                                       end
                             end) (combine all_new all_ann)
       end) && ro_args_ok C F all_new all_ann r r' rn
  | _, _, _ => false
  end.
Definition justified (C : certs) (F : list fact) (i i' : inst) : bool :=
  if String.eqb (i_op i) "mcopy" then
    match i_args i, i_outs i with
    | [n; s; d], [] =>
          if String.eqb (i_op i') "nop" then
            match i_args i', i_outs i' with
            | [], [] => existsb (fun fc => match fc with FCopy op dF sF nF =>
                                   String.eqb op "mcopy" && operand_eqb nF n && same_val C d dF && same_val C s sF end) F
            | _, _ => false
            end
          else if is_copy_op (i_op i') then
            match i_args i', i_outs i' with
            | [n'; s2; d'], [] =>
                operand_eqb n n' && operand_eqb d d' &&
                existsb (fun fc => match fc with FCopy op dF sF nF =>
                           String.eqb op (i_op i') && operand_eqb nF n && same_val C s dF && same_new C s2 sF end) F
            | _, _ => false
            end
          else false
    | _, _ => false
    end
  else if String.eqb (i_op i) "invoke" then
    String.eqb (i_op i') "invoke" && list_eqb N.eqb (i_outs i) (i_outs i') && Bool.eqb (i_wm i) (i_wm i') &&
    Bool.eqb (i_wrd i) (i_wrd i') && (i_id i =? i_id i') && list_eqb ann_eqb (i_ann i) (i_ann i') &&
    ro_args_ok C F (i_args i') (i_ann i) (i_args i) (i_args i') (i_ann i)
  else false.

Fixpoint check_insts (C : certs) (F : list fact) (b b' : list inst) : bool :=
  match b, b' with
  | [], [] => true
  | i :: r, i' :: r' => (inst_eqb i i' || justified C F i i') && check_insts C (step_facts C F i) r r'
  | _, _ => false
  end.
(* the terminator (last instruction) must be unchanged; changed instructions are never last *)
Definition last_same (b b' : list inst) : bool :=
  match rev b, rev b' with
  | [], [] => true
  | t :: _, t' :: _ => inst_eqb t t'
  | _, _ => false
  end.
Definition check_block (C : certs) (F0 : list fact) (b b' : list inst) : bool := last_same b b' && check_insts C F0 b b'.

(* ---- facts at block entries: a certificate E (one fact list per block), checked to be a post-fixpoint:
   E(entry) = [] and for every CFG edge b -> l, every fact of E(l) is among the facts at the end of b *)
Definition fact_eqb (a b : fact) : bool :=
  match a, b with
  | FCopy o1 d1 s1 n1, FCopy o2 d2 s2 n2 => String.eqb o1 o2 && operand_eqb d1 d2 && operand_eqb s1 s2 && operand_eqb n1 n2
  end.
Definition fact_in (fc : fact) (F : list fact) : bool := existsb (fact_eqb fc) F.
Definition subset (A B : list fact) : bool := forallb (fun fc => fact_in fc B) A.
(* facts at the end of the block body (the terminator itself is not an `exec` step) *)
Definition exit_facts (C : certs) (F0 : list fact) (b : list inst) : list fact := fold_left (step_facts C) (removelast b) F0.
Definition succs (b : list inst) : list N :=
  match rev b with
  | t :: _ => flat_map (fun o => match o with OLab l => [l] | _ => [] end) (i_args t)
  | [] => []
  end.
Definition entry_of (E : list (list fact)) (l : N) : list fact := nth (N.to_nat l) E [].
Definition edges_ok_block (C : certs) (E : list (list fact)) (b : list inst) (F0 : list fact) : bool :=
  let X := exit_facts C F0 b in
  forallb (fun l => subset (entry_of E l) X) (succs b).
Fixpoint check_blocks (C : certs) (E : list (list fact)) (Es : list (list fact)) (f f' : func) : bool :=
  match f, f', Es with
  | [], [], [] => true
  | b :: r, b' :: r', F0 :: Er => check_block C F0 b b' && edges_ok_block C E b F0 && check_blocks C E Er r r'
  | _, _, _ => false
  end.
Definition entry_empty (E : list (list fact)) : bool := match E with [] :: _ => true | [] => true | _ => false end.
Definition check_func (C : certs) (E : list (list fact)) (f f' : func) : bool :=
  certs_ok f C && entry_empty E && check_blocks C E E f f'.

(* ---- an (unverified) greatest-fixpoint computation of E, used to produce the certificate that check_func validates *)
Definition universe (C : certs) (f : func) : list fact :=
  flat_map (fun i => if is_copy_op (i_op i) then
                       match i_args i with
                       | [n; s; d] => [FCopy (i_op i) d s n]
                       | _ => []
                       end
                     else []) (all_insts f).
Definition inter (A B : list fact) : list fact := filter (fun fc => fact_in fc B) A.
Fixpoint enum_from {A} (k : N) (l : list A) : list (N * A) :=
  match l with [] => [] | x :: t => (k, x) :: enum_from (N.succ k) t end.
Definition refine_once (C : certs) (f : func) (E : list (list fact)) : list (list fact) :=
  (* exits of every block under the current E, then meet over incoming edges *)
  let exits := map (fun p => (fst p, (succs (snd p), exit_facts C (entry_of E (fst p)) (snd p)))) (enum_from 0%N f) in
  map (fun p =>
         let l := fst p in
         if N.eqb l 0 then []
         else fold_left (fun acc q => if existsb (N.eqb l) (fst (snd q)) then inter acc (snd (snd q)) else acc) exits (snd p))
      (enum_from 0%N E).
Fixpoint iterate (C : certs) (f : func) (E : list (list fact)) (n : nat) : list (list fact) :=
  match n with O => E | S k => iterate C f (refine_once C f E) k end.
Definition infer_entry (C : certs) (f : func) (rounds : nat) : list (list fact) :=
  let U := universe C f in
  (* derived facts (copies of copies) are not in the universe of syntactic copies: close it one step *)
  iterate C f (map (fun p => if N.eqb (fst p) 0 then [] else U) (enum_from 0%N f)) rounds.
