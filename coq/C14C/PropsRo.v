(* C14C / PropsRo.v -- the read-only facts used by ReadonlyInvokeArgCopyForwarding, re-checked on the callee body. *)
From Coq Require Import ZArith NArith Bool List String.
From Verif Require Import C14C.CopySem C14C.CopyCheck C14C.CopySound1 C14C.DeadCheck C14C.DeadSound C14C.RoCheck C14C.RoSound C14C.PropsCopy.
Import ListNotations.
Open Scope string_scope.
Open Scope Z_scope.

(* The callee body g is exported with the `param` of the argument turned into `alloca` of a fresh identity r, D = [r].
   Accepted by `ro_check C D g` => whatever the other instructions and deeper callees do (`oracle_keeps`: without a pointer into
   D they do not change D; an invoke passes pointers into D on at read-only positions only and then does not change D), no run
   of the body changes a byte of D: part (a) of the meaning of `ro_uniform` (the callee never writes through the parameter),
   together with the invariant that every pointer into D is derived from the parameter (dinv). *)
Theorem ro_body_sound_stmt : forall O C D g, oracle_keeps O D -> ro_check C D g = true ->
  forall s0, cinv C s0 -> dinv C D s0 -> forall fuel,
  match run O g fuel 0 s0 with
  | Done s1 | Halted s1 => keepD D (smem s0) (smem s1)
  | _ => True
  end.
Proof. exact ro_body_sound. Qed.
Print Assumptions ro_body_sound_stmt.

(* %1 = "param" (as alloca 77); %2 = %1 + 32; %3 = mload %2; %9 = alloca; mstore %9, %3; stop : reads only *)
Definition ro_g (w : inst) : func :=
  [[mkI "alloca" [OLit 0] [1%N] false false 77 []; mkI "add" [OLit 32; OVar 1%N] [2%N] false false 0 [];
    mkI "mload" [OVar 2%N] [3%N] false false 0 []; mkI "alloca" [OLit 32] [9%N] false false 5 []; w;
    mkI "stop" [] [] false false 0 []]].
Definition ro_C : certs := [(1%N, (Some 77, Some 0)); (2%N, (Some 77, Some 32)); (9%N, (Some 5, Some 0))].
Example ex_ro_accepted : ro_check ro_C [77] (ro_g (mkI "mstore" [OVar 3%N; OVar 9%N] [] true false 0 [])) = true.
Proof. vm_compute. reflexivity. Qed.
Example ex_ro_written : ro_check ro_C [77] (ro_g (mkI "mstore" [OVar 3%N; OVar 2%N] [] true false 0 [])) = false.
Proof. vm_compute. reflexivity. Qed.
Example ex_ro_stored : ro_check ro_C [77] (ro_g (mkI "mstore" [OVar 2%N; OVar 9%N] [] true false 0 [])) = false.
Proof. vm_compute. reflexivity. Qed.
Example ex_ro_passed_mutable :
  ro_check ro_C [77] (ro_g (mkI "invoke" [OLab 1000000%N; OVar 1%N] [] true true 0 [None; None])) = false.
Proof. vm_compute. reflexivity. Qed.
Example ex_ro_passed_readonly :
  ro_check ro_C [77] (ro_g (mkI "invoke" [OLab 1000000%N; OVar 1%N] [] true true 0 [None; Some (OLit 0)])) = true.
Proof. vm_compute. reflexivity. Qed.
