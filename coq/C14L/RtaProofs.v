(* C14L -- RevertToAssert preserves behaviour: weak bisimulation between a function and its image under rta_pass
   (modulo the fresh variables, which are numbered from nv). *)
From Coq Require Import ZArith NArith Bool List String Lia Relations.
From Verif Require Import Base.Word256 Base.PyInt C14.RangeBase C14.RangeFix C14.RangeFixProofs C14.WordClosed
  C14L.Sem C14L.SemProofs C14L.Pointwise C14L.Steps C14L.Rta.
Import ListNotations.
Open Scope string_scope.
Open Scope Z_scope.

Inductive rw_inst (f : func) (nv : N) : inst -> list inst -> Prop :=
| rw_then T cond t e x : i_op T = "jnz" -> i_args T = [cond; OLab t; OLab e] -> is_lab cond = false ->
    is_rev f t = true -> (nv <= x)%N -> rw_inst f nv T (then_tail cond x e)
| rw_else T cond t e : i_op T = "jnz" -> i_args T = [cond; OLab t; OLab e] -> is_lab cond = false ->
    is_rev f e = true -> rw_inst f nv T (else_tail cond t).

Definition srel (f : func) (nv : N) (rest rest' : list inst) : Prop :=
  rest' = rest \/ exists pre T tail, rest = (pre ++ [T])%list /\ rest' = (pre ++ tail)%list /\ rw_inst f nv T tail.

Lemma term_of_split blk T : term_of blk = Some T -> blk = (removelast blk ++ [T])%list.
Proof.
  unfold term_of. destruct (rev blk) as [|x l] eqn:E; [discriminate|]. intros H. injection H as ->.
  assert (B : blk = (rev l ++ [T])%list) by (rewrite <- (rev_involutive blk), E; reflexivity).
  rewrite B at 1. rewrite B. rewrite removelast_last. reflexivity.
Qed.

Lemma rta_block_srel f nv n blk : (nv <= n)%N ->
  srel f nv blk (fst (rta_block f n blk)) /\ (n <= snd (rta_block f n blk))%N.
Proof.
  intros Hn. unfold rta_block, rta_decide.
  destruct (term_of blk) as [T|] eqn:ET; [|split; [left; reflexivity | cbn; lia]].
  destruct (String.eqb (i_op T) "jnz") eqn:EO; [|split; [left; reflexivity | cbn; lia]].
  apply String.eqb_eq in EO.
  destruct (i_args T) as [|cond [|[?|?|t] [|[?|?|e] [|? ?]]]] eqn:EA; try (split; [left; reflexivity | cbn; lia]).
  destruct (is_lab cond) eqn:EL; [split; [left; reflexivity | cbn; lia]|].
  pose proof (term_of_split blk T ET) as SP.
  destruct (is_rev f t && (negb (is_rev f e) || (t <=? e)%N)) eqn:E1.
  - apply andb_prop in E1 as [E1 _]. cbn [fst snd]. split; [|lia].
    right. exists (removelast blk), T, (then_tail cond n e). split; [exact SP | split; [reflexivity|]].
    eapply rw_then; eassumption.
  - destruct (is_rev f e) eqn:E2; [|split; [left; reflexivity | cbn; lia]].
    cbn [fst snd]. split; [|lia].
    right. exists (removelast blk), T, (else_tail cond t). split; [exact SP | split; [reflexivity|]].
    eapply rw_else; eassumption.
Qed.

Lemma rta_blocks_nth f nv : forall l n k, (nv <= n)%N -> srel f nv (nth k l []) (nth k (rta_blocks f n l) []).
Proof.
  induction l as [|blk t IH]; intros n k Hn.
  - destruct k; left; reflexivity.
  - cbn [rta_blocks]. destruct (rta_block_srel f nv n blk Hn) as [S L]. destruct k as [|k]; cbn [nth]; [exact S|].
    apply IH. lia.
Qed.

Lemma nth_srel f nv b : srel f nv (nth_block f b) (nth_block (rta_pass f nv) b).
Proof. unfold nth_block, rta_pass. apply rta_blocks_nth. lia. Qed.

Lemma jnz_not_phi T : i_op T = "jnz" -> is_phi T = false.
Proof. intros H. unfold is_phi. rewrite H. reflexivity. Qed.

Lemma rw_tail_head f nv T tail : rw_inst f nv T tail -> exists h t, tail = h :: t /\ is_phi h = false.
Proof. intros [ ]; eexists; eexists; (split; [reflexivity | reflexivity]). Qed.

Lemma srel_body f nv blk blk' : srel f nv blk blk' ->
  leading_phis blk' = leading_phis blk /\ srel f nv (body blk) (body blk').
Proof.
  intros [->|[pre [T [tail [-> [-> RW]]]]]]; [split; [reflexivity | left; reflexivity]|].
  assert (PT : is_phi T = false) by (destruct RW; apply jnz_not_phi; assumption).
  destruct (rw_tail_head f nv T tail RW) as [h [tl [-> PH]]].
  induction pre as [|i p IH]; cbn [app leading_phis body].
  - rewrite PT, PH. split; [reflexivity|]. right. exists [], T, (h :: tl). split; [reflexivity | split; [reflexivity | exact RW]].
  - destruct (is_phi i).
    + destruct IH as [-> IH]. split; [reflexivity | exact IH].
    + split; [reflexivity|]. right. exists (i :: p), T, (h :: tl). split; [reflexivity | split; [reflexivity | exact RW]].
Qed.

Lemma is_rev_spec f t : is_rev f t = true ->
  exists i, nth_block f t = [i] /\ i_op i = "revert" /\ forallb is_lit0 (i_args i) = true.
Proof.
  unfold is_rev, is_revert_block. destruct (nth_block f t) as [|i [|? ?]]; try discriminate.
  intros H. apply andb_prop in H as [H1 H2]. apply String.eqb_eq in H1. exists i. split; [reflexivity | split; assumption].
Qed.

Lemma revert_body i : i_op i = "revert" -> body [i] = [i] /\ leading_phis [i] = [].
Proof. intros H. cbn. unfold is_phi. rewrite H. cbn. split; reflexivity. Qed.

Lemma lit0_vals lv c l : forallb is_lit0 l = true -> forallb (Z.eqb 0) (map (oval lv c) l) = true.
Proof.
  induction l as [|a t IH]; cbn; [reflexivity|]. intros H. apply andb_prop in H as [H1 H2].
  destruct a as [v| |]; cbn in H1; try discriminate. apply Z.eqb_eq in H1. subst v. cbn [oval].
  rewrite Z.mod_0_l by (intros X; discriminate X). cbn. apply IH. exact H2.
Qed.

Lemma revert_final lv i c : i_op i = "revert" -> forallb is_lit0 (i_args i) = true -> final_of lv i c = Some ORevert0.
Proof.
  intros Ho Ha. unfold final_of. rewrite Ho. replace (mem_str "revert" halting_ops) with true by reflexivity.
  unfold outcome_of. rewrite (lit0_vals lv c _ Ha). reflexivity.
Qed.

Lemma jnz_facts lv T cond t e c : i_op T = "jnz" -> i_args T = [cond; OLab t; OLab e] ->
  is_jump T = true /\ final_of lv T c = None /\ targets lv T c = (if oval lv c cond =? 0 then [e] else [t]).
Proof.
  intros Ho Ha. unfold is_jump, final_of, targets. rewrite Ho, Ha. split; [reflexivity | split; reflexivity].
Qed.

Lemma jump_agree g g' nv lv env b i (r' : list inst) c c' b1 c1 :
  leading_phis (nth_block g' b1) = leading_phis (nth_block g b1) ->
  forallb (inst_below nv) (leading_phis (nth_block g b1)) = true -> inst_below nv i = true -> agree nv c c' ->
  is_jump i = true -> In b1 (targets lv i c) -> phi_assign (leading_phis (nth_block g b1)) b c c1 ->
  exists c1', lstep g' lv env (b, i :: r', c') LTau (b1, body (nth_block g' b1), c1') /\ agree nv c1 c1' /\
              (cenv_ok c' -> cenv_ok c1').
Proof.
  intros EP BP BI A J T P.
  destruct (phi_assign_agree nv _ b c c1 c' BP A P) as [P' A'].
  exists (upd_phis (leading_phis (nth_block g b1)) c1 c'). split; [|split; [exact A'|]].
  - apply ls_jump; [exact J | | rewrite EP; exact P'].
    apply andb_prop in BI as [BA _]. rewrite <- (targets_agree nv lv i c c' BA A). exact T.
  - intros Hc. exact (phi_assign_ok _ b c' _ Hc P').
Qed.

Lemma iszero_plain cond x : is_lab cond = false -> plain (mkI "iszero" [cond] [x]) = true.
Proof. intros H. unfold plain, determined, sem_fun. cbn [i_args i_outs i_op has_label existsb]. rewrite H. reflexivity. Qed.

Lemma iszero_sem lv cond x : is_lab cond = false ->
  sem_fun lv (mkI "iszero" [cond] [x]) = Some (fun c => w_iszero (oval lv c cond)).
Proof. intros H. unfold sem_fun. cbn [i_args i_outs i_op has_label existsb]. rewrite H. reflexivity. Qed.

Lemma w_iszero_nz a : w_iszero a <> 0 <-> a = 0.
Proof. unfold w_iszero. destruct (a =? 0) eqn:E; cbn; [apply Z.eqb_eq in E | apply Z.eqb_neq in E]; split; intros; try lia; congruence. Qed.

Section RTA.
  Variable f : func.
  Variable nv : N.
  Variable lv : N -> Z.
  Variable env : string -> list Z -> Z.
  Hypothesis FB : func_below nv f = true.
  Hypothesis LV : lv_ok lv.
  Let f' := rta_pass f nv.

  Lemma phis_eq b : leading_phis (nth_block f' b) = leading_phis (nth_block f b).
  Proof. apply (srel_body f nv). apply nth_srel. Qed.
  Lemma body_srel b : srel f nv (body (nth_block f b)) (body (nth_block f' b)).
  Proof. apply (srel_body f nv). apply nth_srel. Qed.
  Lemma phis_below b : forallb (inst_below nv) (leading_phis (nth_block f b)) = true.
  Proof. apply below_phis_body. apply func_below_nth. exact FB. Qed.
  Lemma body_below b : forallb (inst_below nv) (body (nth_block f b)) = true.
  Proof. apply below_phis_body. apply func_below_nth. exact FB. Qed.

  (* ---------------------------------------------------------------- original simulated by the rewritten function *)
  Inductive R1 : state -> state -> Prop :=
  | R1_run b rest rest' c c' : agree nv c c' -> cenv_ok c -> cenv_ok c' -> forallb (inst_below nv) rest = true ->
      srel f nv rest rest' -> R1 (b, rest, c) (b, rest', c')
  | R1_dead b b' i a tl c c' : i_op i = "revert" -> forallb is_lit0 (i_args i) = true -> oval lv c' a = 0 ->
      R1 (b, [i], c) (b', mkI "assert" [a] [] :: tl, c').

  Lemma R1_common_inst b i rest rest' c c' l c1 : agree nv c c' -> cenv_ok c -> cenv_ok c' ->
    forallb (inst_below nv) (i :: rest) = true -> srel f nv rest rest' -> istep lv env i c l c1 ->
    exists s1', wstep lv env f' (b, i :: rest', c') l s1' /\ R1 (b, rest, c1) s1'.
  Proof.
    intros A Hc Hc' B S I. cbn in B. apply andb_prop in B as [Bi Br].
    destruct (istep_agree nv lv env i c l c1 c' Bi A I) as [I' A'].
    eexists. split; [apply wstep_one; apply ls_inst; exact I'|].
    apply R1_run; try assumption; [exact (istep_cenv_ok lv env i c l c1 Hc I) | exact (istep_cenv_ok lv env i c' l _ Hc' I')].
  Qed.

  Lemma R1_common_jump b i rest rest' c c' b1 c1 : agree nv c c' -> cenv_ok c -> cenv_ok c' ->
    forallb (inst_below nv) (i :: rest) = true -> is_jump i = true -> In b1 (targets lv i c) ->
    phi_assign (leading_phis (nth_block f b1)) b c c1 ->
    exists s1', wstep lv env f' (b, i :: rest', c') LTau s1' /\ R1 (b1, body (nth_block f b1), c1) s1'.
  Proof.
    intros A Hc Hc' B J T P. cbn in B. apply andb_prop in B as [Bi Br].
    destruct (jump_agree f f' nv lv env b i rest' c c' b1 c1 (phis_eq b1) (phis_below b1) Bi A J T P) as [c1' [L [A' Ok']]].
    eexists. split; [apply (wstep_one f' lv env _ LTau); exact L|].
    apply R1_run; try assumption; [exact (phi_assign_ok _ b c c1 Hc P) | apply Ok'; exact Hc' | apply body_below | apply body_srel].
  Qed.

  Lemma R1_step s s' l s1 : R1 s s' -> lstep f lv env s l s1 -> exists s1', wstep lv env f' s' l s1' /\ R1 s1 s1'.
  Proof.
    intros Rs H. destruct Rs as [b rest rest' c c' A Hc Hc' B S | b b' i a tl c c' Ho Ha Hz].
    2:{ (* dead: the original is at `revert 0,0`, which has no step *)
        destruct (lstep_inv _ _ _ _ _ _ _ _ _ H) as [[c1 [I ->]] | [b1 [c1 [J _]]]].
        - destruct I as [_ [Fn _]]. rewrite (revert_final lv i c Ho Ha) in Fn. discriminate.
        - unfold is_jump in J. rewrite Ho in J. discriminate. }
    destruct S as [->|[pre [T [tail [-> [-> RW]]]]]].
    - (* identical remaining code *)
      destruct rest as [|i r]; [destruct (lstep_nil _ _ _ _ _ _ _ H)|].
      destruct (lstep_inv _ _ _ _ _ _ _ _ _ H) as [[c1 [I ->]] | [b1 [c1 [J [T [P [-> ->]]]]]]].
      + eapply R1_common_inst; try eassumption. left. reflexivity.
      + eapply R1_common_jump; eassumption.
    - destruct pre as [|i p].
      + (* the rewritten terminator *)
        cbn [app] in *.
        destruct (lstep_inv _ _ _ _ _ _ _ _ _ H) as [[c1 [I ->]] | [b1 [c1 [J [Tg [P [-> ->]]]]]]].
        { destruct I as [_ [_ [Nj _]]]. destruct RW as [? ? ? ? ? Ho Ha | ? ? ? ? Ho Ha];
            destruct (jnz_facts lv T _ _ _ c Ho Ha) as [J _]; congruence. }
        cbn in B. apply andb_prop in B as [BT _]. pose proof BT as BT'. apply andb_prop in BT' as [BA _].
        destruct RW as [T cond t e x Ho Ha Lc Rt Hx | T cond t e Ho Ha Lc Re].
        * (* then-target is the revert block *)
          destruct (jnz_facts lv T cond t e c Ho Ha) as [_ [_ TG]]. rewrite TG in Tg.
          rewrite Ha in BA. cbn in BA. apply andb_prop in BA as [Bc _].
          assert (OC : oval lv c' cond = oval lv c cond) by (symmetry; eapply op_below_oval; eassumption).
          set (c2 := set_var c' x (w_iszero (oval lv c' cond))).
          assert (I1 : istep lv env (mkI "iszero" [cond] [x]) c' LTau c2).
          { apply (istep_plain lv env _ (fun c => w_iszero (oval lv c cond)) x c' LV Hc' (iszero_plain cond x Lc) (iszero_sem lv cond x Lc) eq_refl). }
          assert (A2 : agree nv c c2).
          { intros y Hy. unfold c2. rewrite set_var_other by lia. apply A. exact Hy. }
          assert (Hc2 : cenv_ok c2) by (exact (istep_cenv_ok lv env _ c' LTau c2 Hc' I1)).
          destruct (oval lv c cond =? 0) eqn:Ez.
          -- (* condition false: falls through to else; the new code passes the assertion and jumps *)
             destruct Tg as [<-|[]]. apply Z.eqb_eq in Ez.
             assert (I2 : istep lv env (mkI "assert" [OVar x] []) c2 LTau c2).
             { apply istep_assert. cbn [oval]. unfold c2. rewrite set_var_same. apply w_iszero_nz. congruence. }
             destruct (jump_agree f f' nv lv env b (mkI "jmp" [OLab e] []) [] c c2 e c1 (phis_eq e) (phis_below e)
                         eq_refl A2 eq_refl (or_introl eq_refl) P) as [c1' [L [A' Ok']]].
             eexists. split.
             ++ cbn. eapply tau_star_trans; [apply tau_star_one; apply ls_inst; exact I1|].
                eapply tau_star_trans; [apply tau_star_one; apply ls_inst; exact I2|].
                apply tau_star_one. exact L.
             ++ apply R1_run; try assumption; [exact (phi_assign_ok _ b c c1 Hc P) | apply Ok'; exact Hc2 | apply body_below | apply body_srel].
          -- (* condition true: the original enters the revert block; the new code is at the failing assertion *)
             destruct Tg as [<-|[]]. apply Z.eqb_neq in Ez.
             destruct (is_rev_spec f t Rt) as [ir [Nb [Ro Ra]]]. rewrite Nb. destruct (revert_body ir Ro) as [-> _].
             eexists. split; [cbn; apply tau_star_one; apply ls_inst; exact I1|].
             apply R1_dead; try assumption. cbn [oval]. unfold c2. rewrite set_var_same.
             unfold w_iszero. rewrite OC. apply Z.eqb_neq in Ez. rewrite Ez. reflexivity.
        * (* else-target is the revert block *)
          destruct (jnz_facts lv T cond t e c Ho Ha) as [_ [_ TG]]. rewrite TG in Tg.
          rewrite Ha in BA. cbn in BA. apply andb_prop in BA as [Bc _].
          assert (OC : oval lv c' cond = oval lv c cond) by (symmetry; eapply op_below_oval; eassumption).
          destruct (oval lv c cond =? 0) eqn:Ez.
          -- destruct Tg as [<-|[]]. apply Z.eqb_eq in Ez.
             destruct (is_rev_spec f e Re) as [ir [Nb [Ro Ra]]]. rewrite Nb. destruct (revert_body ir Ro) as [-> _].
             eexists. split; [cbn; apply tau_star_refl|].
             apply R1_dead; try assumption. congruence.
          -- destruct Tg as [<-|[]]. apply Z.eqb_neq in Ez.
             assert (I2 : istep lv env (mkI "assert" [cond] []) c' LTau c') by (apply istep_assert; congruence).
             destruct (jump_agree f f' nv lv env b (mkI "jmp" [OLab t] []) [] c c' t c1 (phis_eq t) (phis_below t)
                         eq_refl A eq_refl (or_introl eq_refl) P) as [c1' [L [A' Ok']]].
             eexists. split.
             ++ cbn. eapply tau_star_trans; [apply tau_star_one; apply ls_inst; exact I2|]. apply tau_star_one. exact L.
             ++ apply R1_run; try assumption; [exact (phi_assign_ok _ b c c1 Hc P) | apply Ok'; exact Hc' | apply body_below | apply body_srel].
      + (* an instruction before the terminator *)
        cbn [app] in *.
        destruct (lstep_inv _ _ _ _ _ _ _ _ _ H) as [[c1 [I ->]] | [b1 [c1 [J [Tg [P [-> ->]]]]]]].
        * eapply R1_common_inst; try eassumption. right. exists p, T, tail. split; [reflexivity | split; [reflexivity | exact RW]].
        * eapply R1_common_jump; eassumption.
  Qed.

  Lemma R1_final s s' o : R1 s s' -> final lv s o -> exists s'', tau_star lv env f' s' s'' /\ final lv s'' o.
  Proof.
    intros Rs F. exists s'. split; [apply tau_star_refl|].
    destruct Rs as [b rest rest' c c' A Hc Hc' B S | b b' i a tl c c' Ho Ha Hz].
    2:{ unfold final in *. rewrite (revert_final lv i c Ho Ha) in F. injection F as <-.
        rewrite final_of_assert. rewrite Hz. reflexivity. }
    unfold final in *. destruct rest as [|i r]; [contradiction|].
    assert (Bi : forallb (op_below nv) (i_args i) = true).
    { cbn in B. apply andb_prop in B as [Bi _]. apply andb_prop in Bi as [X _]. exact X. }
    destruct S as [->|[pre [T [tail [E [-> RW]]]]]].
    - rewrite <- (final_of_agree nv lv i c c' Bi A). exact F.
    - destruct pre as [|i0 p]; cbn [app] in E; injection E as -> ->.
      + exfalso. destruct RW as [? ? ? ? ? Ho Ha | ? ? ? ? Ho Ha];
          destruct (jnz_facts lv T _ _ _ c Ho Ha) as [_ [Fn _]]; congruence.
      + cbn [app]. rewrite <- (final_of_agree nv lv i0 c c' Bi A). exact F.
  Qed.

  (* ---------------------------------------------------------------- rewritten function simulated by the original *)
  Inductive R2 : state -> state -> Prop :=
  | R2_run b rest rest' c c' : agree nv c c' -> cenv_ok c -> cenv_ok c' -> forallb (inst_below nv) rest = true ->
      srel f nv rest rest' -> R2 (b, rest', c') (b, rest, c)
  | R2_mid1 b T cond t e x c c' : i_op T = "jnz" -> i_args T = [cond; OLab t; OLab e] -> is_rev f t = true ->
      inst_below nv T = true -> agree nv c c' -> cenv_ok c -> cenv_ok c' -> c' x = w_iszero (oval lv c cond) ->
      R2 (b, [mkI "assert" [OVar x] []; mkI "jmp" [OLab e] []], c') (b, [T], c)
  | R2_mid2 b T l c c' : is_jump T = true -> targets lv T c = [l] -> inst_below nv T = true ->
      agree nv c c' -> cenv_ok c -> cenv_ok c' ->
      R2 (b, [mkI "jmp" [OLab l] []], c') (b, [T], c).

  Lemma R2_common b i rest rest' c c' l s1 : agree nv c c' -> cenv_ok c -> cenv_ok c' ->
    forallb (inst_below nv) (i :: rest) = true -> srel f nv rest rest' -> lstep f' lv env (b, i :: rest', c') l s1 ->
    exists s1', wstep lv env f (b, i :: rest, c) l s1' /\ R2 s1 s1'.
  Proof.
    intros A Hc Hc' B S H. cbn in B. apply andb_prop in B as [Bi Br].
    destruct (lstep_inv _ _ _ _ _ _ _ _ _ H) as [[c1 [I ->]] | [b1 [c1 [J [T [P [-> ->]]]]]]].
    - destruct (istep_agree nv lv env i c' l c1 c Bi (agree_sym _ _ _ A) I) as [I' A'].
      eexists. split; [apply wstep_one; apply ls_inst; exact I'|].
      apply R2_run; try assumption; [apply agree_sym; exact A' | exact (istep_cenv_ok lv env i c l _ Hc I') | exact (istep_cenv_ok lv env i c' l c1 Hc' I)].
    - rewrite (phis_eq b1) in P.
      destruct (phi_assign_agree nv _ b c' c1 c (phis_below b1) (agree_sym _ _ _ A) P) as [P' A'].
      eexists. split.
      + apply (wstep_one f lv env _ LTau). apply ls_jump; [exact J | | exact P'].
        apply andb_prop in Bi as [BA _]. rewrite (targets_agree nv lv i c c' BA A). exact T.
      + apply R2_run; [apply agree_sym; exact A' | exact (phi_assign_ok _ b c _ Hc P') | exact (phi_assign_ok _ b c' c1 Hc' P) | apply body_below | apply body_srel].
  Qed.

  Lemma iszero_final cond x c : final_of lv (mkI "iszero" [cond] [x]) c = None.
  Proof. reflexivity. Qed.

  Lemma to_revert b T c l : is_jump T = true -> In l (targets lv T c) -> is_rev f l = true ->
    exists s, tau_star lv env f (b, [T], c) s /\ final lv s ORevert0.
  Proof.
    intros J Tg Rl. destruct (is_rev_spec f l Rl) as [ir [Nb [Ro Ra]]]. destruct (revert_body ir Ro) as [Bd Ph].
    exists (l, [ir], c). split.
    - apply tau_star_one. replace [ir] with (body (nth_block f l)) by (rewrite Nb; exact Bd).
      apply ls_jump; [exact J | exact Tg|]. rewrite Nb, Ph. apply phi_assign_nil.
    - unfold final. apply revert_final; assumption.
  Qed.

  Lemma R2_step s s' l s1 : R2 s s' -> lstep f' lv env s l s1 -> exists s1', wstep lv env f s' l s1' /\ R2 s1 s1'.
  Proof.
    intros Rs H.
    destruct Rs as [b rest rest' c c' A Hc Hc' B S | b T cond t e x c c' Ho Ha Rt BT A Hc Hc' Hx | b T l0 c c' J TG BT A Hc Hc'].
    - destruct S as [->|[pre [T [tail [-> [-> RW]]]]]].
      + destruct rest as [|i r]; [destruct (lstep_nil _ _ _ _ _ _ _ H)|].
        eapply R2_common; try eassumption. left. reflexivity.
      + destruct pre as [|i p]; cbn [app] in *.
        2:{ eapply R2_common; try eassumption. right. exists p, T, tail. split; [reflexivity | split; [reflexivity | exact RW]]. }
        cbn in B. apply andb_prop in B as [BT _]. pose proof BT as BT'. apply andb_prop in BT' as [BA _].
        destruct RW as [T cond t e x Ho Ha Lc Rt Hx | T cond t e Ho Ha Lc Re].
        * rewrite Ha in BA. cbn in BA. apply andb_prop in BA as [Bc _].
          assert (OC : oval lv c cond = oval lv c' cond) by (eapply op_below_oval; eassumption).
          unfold then_tail in H.
          destruct (lstep_inv _ _ _ _ _ _ _ _ _ H) as [[c1 [I ->]] | [b1 [c1 [J _]]]]; [|discriminate J].
          destruct (istep_plain_inv lv env _ _ x c' l c1 (iszero_plain cond x Lc) (iszero_sem lv cond x Lc) eq_refl I) as [-> [Vx Fr]].
          exists (b, [T], c). split; [cbn; apply tau_star_refl|].
          eapply R2_mid1; try eassumption.
          -- intros y Hy. rewrite Fr by lia. apply A. exact Hy.
          -- exact (istep_cenv_ok lv env _ c' LTau c1 Hc' I).
          -- rewrite Vx, OC. reflexivity.
        * rewrite Ha in BA. cbn in BA. apply andb_prop in BA as [Bc _].
          assert (OC : oval lv c cond = oval lv c' cond) by (eapply op_below_oval; eassumption).
          unfold else_tail in H.
          destruct (lstep_inv _ _ _ _ _ _ _ _ _ H) as [[c1 [I ->]] | [b1 [c1 [J _]]]]; [|discriminate J].
          destruct (istep_assert_inv lv env cond c' l c1 I) as [Nz [-> Fr]].
          exists (b, [T], c). split; [cbn; apply tau_star_refl|].
          destruct (jnz_facts lv T cond t e c Ho Ha) as [J [_ TG]].
          apply (R2_mid2 b T t c c1); try assumption.
          -- rewrite TG. rewrite OC. apply Z.eqb_neq in Nz. rewrite Nz. reflexivity.
          -- intros y Hy. rewrite Fr. apply A. exact Hy.
          -- exact (istep_cenv_ok lv env _ c' LTau c1 Hc' I).
    - destruct (lstep_inv _ _ _ _ _ _ _ _ _ H) as [[c1 [I ->]] | [b1 [c1 [J _]]]]; [|discriminate J].
      destruct (istep_assert_inv lv env (OVar x) c' l c1 I) as [Nz [-> Fr]]. cbn [oval] in Nz.
      exists (b, [T], c). split; [cbn; apply tau_star_refl|].
      destruct (jnz_facts lv T cond t e c Ho Ha) as [J [_ TG]].
      apply (R2_mid2 b T e c c1); try assumption.
      + rewrite TG. rewrite Hx in Nz. apply w_iszero_nz in Nz. rewrite Nz. reflexivity.
      + intros y Hy. rewrite Fr. apply A. exact Hy.
      + exact (istep_cenv_ok lv env _ c' LTau c1 Hc' I).
    - destruct (lstep_inv _ _ _ _ _ _ _ _ _ H) as [[c1 [I ->]] | [b1 [c1 [_ [Tg [P [-> ->]]]]]]].
      { destruct I as [_ [_ [Nj _]]]. discriminate Nj. }
      cbn in Tg. destruct Tg as [<-|[]].
      rewrite (phis_eq l0) in P.
      destruct (phi_assign_agree nv _ b c' c1 c (phis_below l0) (agree_sym _ _ _ A) P) as [P' A'].
      eexists. split.
      + apply (wstep_one f lv env _ LTau). apply ls_jump; [exact J | rewrite TG; left; reflexivity | exact P'].
      + apply R2_run; [apply agree_sym; exact A' | exact (phi_assign_ok _ b c _ Hc P') | exact (phi_assign_ok _ b c' c1 Hc' P) | apply body_below | apply body_srel].
  Qed.

  Lemma R2_final s s' o : R2 s s' -> final lv s o -> exists s'', tau_star lv env f s' s'' /\ final lv s'' o.
  Proof.
    intros Rs F.
    destruct Rs as [b rest rest' c c' A Hc Hc' B S | b T cond t e x c c' Ho Ha Rt BT A Hc Hc' Hx | b T l0 c c' J TG BT A Hc Hc'].
    - unfold final in F. destruct S as [->|[pre [T [tail [-> [-> RW]]]]]].
      + destruct rest as [|i r]; [contradiction|]. exists (b, i :: r, c). split; [apply tau_star_refl|].
        cbn in B. apply andb_prop in B as [Bi _]. apply andb_prop in Bi as [Bi _].
        unfold final. rewrite (final_of_agree nv lv i c c' Bi A). exact F.
      + destruct pre as [|i p]; cbn [app] in *.
        2:{ exists (b, i :: p ++ [T], c). split; [apply tau_star_refl|].
            cbn in B. apply andb_prop in B as [Bi _]. apply andb_prop in Bi as [Bi _].
            unfold final. rewrite (final_of_agree nv lv i c c' Bi A). exact F. }
        cbn in B. apply andb_prop in B as [BT _]. pose proof BT as BT'. apply andb_prop in BT' as [BA _].
        destruct RW as [T cond t e x Ho Ha Lc Rt Hx | T cond t e Ho Ha Lc Re].
        * unfold then_tail in F. rewrite iszero_final in F. discriminate.
        * unfold else_tail in F. rewrite final_of_assert in F.
          rewrite Ha in BA. cbn in BA. apply andb_prop in BA as [Bc _].
          assert (OC : oval lv c cond = oval lv c' cond) by (eapply op_below_oval; eassumption).
          destruct (oval lv c' cond =? 0) eqn:Ez; [|discriminate]. injection F as <-.
          destruct (jnz_facts lv T cond t e c Ho Ha) as [J [_ TG]].
          apply (to_revert b T c e J); [|exact Re]. rewrite TG, OC, Ez. left. reflexivity.
    - unfold final in F. rewrite final_of_assert in F. cbn [oval] in F.
      destruct (c' x =? 0) eqn:Ez; [|discriminate]. injection F as <-.
      destruct (jnz_facts lv T cond t e c Ho Ha) as [J [_ TG]].
      apply (to_revert b T c t J); [|exact Rt]. rewrite TG.
      apply Z.eqb_eq in Ez. rewrite Hx in Ez. unfold w_iszero in Ez.
      destruct (oval lv c cond =? 0); [discriminate Ez | left; reflexivity].
    - unfold final in F. discriminate F.
  Qed.
End RTA.

(* RevertToAssert preserves behaviour: for every function whose variables are numbered below nv, the function and its
   image under the pass have the same (visible event sequence, outcome) pairs -- in particular a run reverts with empty
   return data in one iff it does in the other (polarity of the inserted assertion included). *)
Theorem rta_pass_correct f nv : func_below nv f = true -> beh_equiv f (rta_pass f nv).
Proof.
  intros FB lv env c0 LV _ C0 t r. split.
  - intros T. eapply (sim_wtrace f (rta_pass f nv) lv env (R1 f nv lv)).
    + apply R1_step; assumption.
    + apply R1_final.
    + exact T.
    + unfold init_state. apply R1_run; [apply agree_refl | exact C0 | exact C0 | apply body_below; exact FB | apply body_srel].
  - intros T. eapply (sim_wtrace (rta_pass f nv) f lv env (R2 f nv lv)).
    + apply R2_step; assumption.
    + apply R2_final; assumption.
    + exact T.
    + unfold init_state. apply R2_run; [apply agree_refl | exact C0 | exact C0 | apply body_below; exact FB | apply body_srel].
Qed.
