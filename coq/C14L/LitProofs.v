(* C14L -- ReduceLiteralsCodesize preserves behaviour.
   lit_decide_sound: for EVERY integer literal, if the (translated) decision code answers "not a" then
   not(a) = literal mod 2^256, and if it answers "shl b, a" then a << b = literal mod 2^256 (both as EVM words);
   lit_decide_total: the assertions inside the decision code never fire;
   lit_pass_correct: the function after the pass has the same behaviours as before (Sem.beh_equiv). *)
From Coq Require Import ZArith NArith Bool List String Lia Relations.
From Verif Require Import Base.Word256 Base.PyInt C14.RangeBase C14.RangeFix C14.RangeFixProofs C14.WordClosed
  C14.GenEval C14.EvalSound Base.WordLemmas C14L.LitBase C14L.GenLit C14L.Sem C14L.SemProofs C14L.Pointwise C14L.Lit.
Import ListNotations.
Open Scope string_scope.
Open Scope Z_scope.

Lemma W_pow : 2 ^ 256 = W. Proof. reflexivity. Qed.

Lemma evm_not_spec v r : GenLit.evm_not v = Ok r -> 0 <= v < W /\ r = W - 1 - v.
Proof.
  unfold GenLit.evm_not. destruct ((0 <=? v) && (v <=? GenLit.c_SizeLimits_MAX_UINT256)) eqn:G; [|discriminate].
  apply andb_prop in G as [G1 G2]. apply Z.leb_le in G1, G2.
  change GenLit.c_SizeLimits_MAX_UINT256 with (W - 1) in G2.
  remember (Z.lxor GenLit.c_SizeLimits_MAX_UINT256 v) as x eqn:Ex.
  intros H. injection H as <-. split; [lia|]. rewrite Ex.
  change GenLit.c_SizeLimits_MAX_UINT256 with (Z.ones 256). apply lxor_max. lia.
Qed.

Ltac bind_inv H :=
  repeat match type of H with
  | bind ?m _ = Ok _ => let E := fresh "E" in let x := fresh "x" in destruct m as [x|] eqn:E; [cbn [bind] in H | discriminate H]
  end.

Lemma val_range v : 0 <= v mod W < W.
Proof. apply Z.mod_pos_bound. reflexivity. Qed.

Lemma py_mod_W v : py_mod v W = Ok (v mod W).
Proof. reflexivity. Qed.

(* trailing zeros: p = odd * 2^ctz *)
Lemma ctz_pos_nonneg p : 0 <= ctz_pos p.
Proof. induction p; cbn [ctz_pos]; lia. Qed.

Lemma ctz_pos_spec p : exists q, Zpos p = Zpos q * 2 ^ ctz_pos p /\ Z.land (Zpos q) 1 = 1.
Proof.
  induction p as [p IH|p IH|].
  - exists (xI p). cbn [ctz_pos]. split; [lia | reflexivity].
  - destruct IH as [q [E O]]. exists q. cbn [ctz_pos]. split; [|exact O].
    rewrite Z.pow_add_r by (try lia; apply ctz_pos_nonneg). change (Zpos p~0) with (2 * Zpos p). rewrite E. ring.
  - exists xH. cbn [ctz_pos]. split; reflexivity.
Qed.

Lemma ctz_le_log2 p : ctz_pos p <= Z.log2 (Zpos p).
Proof.
  destruct (ctz_pos_spec p) as [q [E _]]. pose proof (ctz_pos_nonneg p).
  assert (2 ^ ctz_pos p <= Zpos p) by (rewrite E; nia).
  apply Z.log2_le_pow2; lia.
Qed.

(* the answer of the decision code is a correct rewriting of the literal, for every integer literal *)
Theorem lit_decide_sound v k a b : lit_decide v = Ok (k, a, b) ->
  (k = 0 \/ k = 1 \/ k = 2) /\
  (k = 1 -> 0 <= a < W /\ w_not a = v mod W) /\
  (k = 2 -> 0 <= a < W /\ 0 <= b < 256 /\ w_shl b a = v mod W).
Proof.
  unfold lit_decide. replace (py_pow 2 256) with (Ok W) by reflexivity. cbn [bind]. rewrite py_mod_W. cbn [bind].
  pose proof (val_range v) as Hv. set (val := v mod W) in *.
  intros H. bind_inv H.
  destruct ((_ <=? 0) && (_ <=? 0)) in H.
  { injection H as <- <- <-. split; [auto|]. split; discriminate. }
  destruct (_ >=? _) in H.
  - destruct (_ >? 0) in H; [|discriminate]. bind_inv H. injection H as <- <- <-.
    split; [auto|]. split; [|discriminate]. intros _.
    match goal with E : GenLit.evm_not val = Ok ?r |- _ => destruct (evm_not_spec val r E) as [_ ->] end.
    unfold w_not, MAXU. lia.
  - destruct (_ >? 0) in H; [|discriminate]. bind_inv H.
    match type of H with (if ?c then _ else _) = _ => destruct c eqn:C1; [|discriminate] end.
    bind_inv H.
    match type of H with (if ?c then _ else _) = _ => destruct c eqn:C2; [|discriminate] end.
    bind_inv H. injection H as <- <- <-.
    split; [auto|]. split; [discriminate|]. intros _.
    repeat match goal with
    | E : py_rshift _ ?s = Ok _ |- _ => unfold py_rshift in E; destruct (s <? 0) eqn:?; [discriminate E|]; injection E as <-
    | E : py_lshift _ ?s = Ok _ |- _ => unfold py_lshift in E; destruct (s <? 0) eqn:?; [discriminate E|]; injection E as <-
    end.
    match goal with |- context [rshift_fast val ?s] => set (ix := s) in * end.
    assert (Hix : 0 <= ix) by lia.
    rewrite rshift_fast_spec in * by exact Hix.
    rewrite Z.shiftr_div_pow2 in * by exact Hix. rewrite Z.shiftl_mul_pow2 in C1 by exact Hix.
    apply Z.eqb_eq in C1, C2.
    set (q := val / 2 ^ ix) in *.
    assert (Hq : 1 <= q).
    { assert (0 <= q) by (apply Z.div_pos; [lia | apply Z.pow_pos_nonneg; lia]).
      destruct (Z.eq_dec q 0) as [Z0|]; [rewrite Z0 in C2; discriminate | lia]. }
    pose proof (Z.pow_pos_nonneg 2 ix ltac:(lia) Hix) as Hp.
    assert (Hlt : ix < 256).
    { apply (Z.pow_lt_mono_r_iff 2); [lia | lia |]. change (2 ^ 256) with W. nia. }
    split; [nia|]. split; [lia|].
    unfold w_shl. apply Z.ltb_lt in Hlt. rewrite Hlt. rewrite C1. apply Z.mod_small. lia.
Qed.

(* the assertions inside the decision code never fire: the code answers for every integer literal *)
Theorem lit_decide_total v : exists r, lit_decide v = Ok r.
Proof.
  unfold lit_decide. replace (py_pow 2 256) with (Ok W) by reflexivity. cbn [bind]. rewrite py_mod_W. cbn [bind].
  pose proof (val_range v) as Hv. set (val := v mod W) in *.
  unfold py_floordiv. cbn [Z.eqb bind].
  assert (EN : GenLit.evm_not val = Ok (Z.lxor GenLit.c_SizeLimits_MAX_UINT256 val)).
  { unfold GenLit.evm_not. replace ((0 <=? val) && (val <=? GenLit.c_SizeLimits_MAX_UINT256)) with true; [reflexivity|].
    symmetry. apply andb_true_intro. split; apply Z.leb_le; [lia|]. change GenLit.c_SizeLimits_MAX_UINT256 with (W - 1). lia. }
  rewrite EN. cbn [bind].
  set (nb := ((hexlen val / 2 - hexlen (Z.lxor GenLit.c_SizeLimits_MAX_UINT256 val) / 2 - c_NOT_THRESHOLD) * 8)).
  destruct val as [|p|p] eqn:EV; [| |lia].
  - (* 0: ix = 2, no shl *)
    cbn [binlen bin_rfind1 bind]. unfold c_SHL_THRESHOLD.
    destruct (nb <=? 0) eqn:N1; cbn [andb]; [eexists; reflexivity|].
    replace (nb >=? 1 - -1 - 3 * 8) with true by (symmetry; apply Z.geb_le; apply Z.leb_gt in N1; lia).
    replace (nb >? 0) with true by (symmetry; apply Z.gtb_lt; apply Z.leb_gt in N1; lia).
    eexists. reflexivity.
  - cbn [binlen bin_rfind1 bind]. unfold c_SHL_THRESHOLD.
    set (ix := Z.log2 (Z.pos p) + 1 - (Z.log2 (Z.pos p) - ctz_pos p)).
    assert (IX : ix = ctz_pos p + 1) by (unfold ix; lia).
    destruct ((nb <=? 0) && (ix - 3 * 8 <=? 0)) eqn:G; [eexists; reflexivity|].
    destruct (nb >=? ix - 3 * 8) eqn:G2.
    + replace (nb >? 0) with true; [eexists; reflexivity|].
      symmetry. apply Z.gtb_lt. apply Z.geb_le in G2. apply andb_false_iff in G as [G|G]; apply Z.leb_gt in G; lia.
    + assert (SB : 0 < ix - 3 * 8).
      { rewrite Z.geb_leb in G2. apply Z.leb_gt in G2. apply andb_false_iff in G as [G|G]; apply Z.leb_gt in G; lia. }
      replace (ix - 3 * 8 >? 0) with true by (symmetry; apply Z.gtb_lt; exact SB).
      replace (ix - 1) with (ctz_pos p) by lia.
      pose proof (ctz_pos_nonneg p) as CN.
      unfold py_rshift, py_lshift. replace (ctz_pos p <? 0) with false by (symmetry; apply Z.ltb_ge; exact CN).
      cbn [bind]. rewrite rshift_fast_spec by exact CN. rewrite Z.shiftr_div_pow2, Z.shiftl_mul_pow2 by exact CN.
      destruct (ctz_pos_spec p) as [q [E O]].
      assert (D : Z.pos p / 2 ^ ctz_pos p = Z.pos q).
      { rewrite E. apply Z.div_mul. pose proof (Z.pow_pos_nonneg 2 (ctz_pos p) ltac:(lia) CN). lia. }
      rewrite D. rewrite <- E. rewrite Z.eqb_refl. rewrite O. cbn [Z.eqb Pos.eqb]. eexists. reflexivity.
Qed.

(* ------------------------------------------------------------------ the pass *)
Lemma mapM_Forall2 {A B} (g : A -> res B) (P : A -> B -> Prop) : (forall x y, g x = Ok y -> P x y) ->
  forall l l', mapM g l = Ok l' -> Forall2 P l l'.
Proof.
  intros Hg. induction l as [|x t IH]; intros l' H; cbn in H.
  - injection H as <-. constructor.
  - destruct (g x) as [y|] eqn:Gx; [cbn [bind] in H | discriminate].
    destruct (mapM g t) as [t'|] eqn:Gt; [cbn [bind] in H | discriminate].
    injection H as <-. constructor; [apply Hg; exact Gx | apply IH; reflexivity].
Qed.

Lemma mod_small_W x : 0 <= x < W -> x mod W = x.
Proof. intros H. apply Z.mod_small. exact H. Qed.

Lemma sf_assign lv v o : sem_fun lv (mkI "assign" [OLit v] [o]) = Some (fun c => oval lv c (OLit v)).
Proof. reflexivity. Qed.
Lemma sf_not lv a o : sem_fun lv (mkI "not" [OLit a] [o]) = Some (fun c => w_not (oval lv c (OLit a))).
Proof. reflexivity. Qed.
Lemma sf_shl lv a b o : sem_fun lv (mkI "shl" [OLit a; OLit b] [o]) = Some (fun c => w_shl (oval lv c (OLit b)) (oval lv c (OLit a))).
Proof. reflexivity. Qed.

Lemma lit_inst_equiv lv ins ins' : lit_inst ins = Ok ins' -> iequiv lv ins ins'.
Proof.
  unfold lit_inst. destruct ins as [op args outs]. cbn [i_op i_args i_outs].
  destruct (String.eqb op "assign") eqn:Eo; [|intros H; injection H as <-; left; reflexivity].
  apply String.eqb_eq in Eo. subst op.
  destruct args as [|[v|x|l] [|a2 t]]; try (intros H; injection H as <-; left; reflexivity).
  destruct outs as [|o [|o2 t]]; try (intros H; injection H as <-; left; reflexivity).
  destruct (lit_decide v) as [[[k a] b]|] eqn:D; [cbn [bind] | discriminate].
  destruct (lit_decide_sound v k a b D) as [_ [S1 S2]].
  destruct (k =? 1) eqn:K1.
  { apply Z.eqb_eq in K1. destruct (S1 K1) as [Ra Ea]. intros H. injection H as <-. right.
    split; [reflexivity | split; [reflexivity | split; [reflexivity|]]].
    intros g g' c Sg Sg'. rewrite sf_assign in Sg. rewrite sf_not in Sg'. injection Sg as <-. injection Sg' as <-.
    cbn [oval]. rewrite (mod_small_W a Ra). symmetry. exact Ea. }
  destruct (k =? 2) eqn:K2.
  { apply Z.eqb_eq in K2. destruct (S2 K2) as [Ra [Rb Eb]]. intros H. injection H as <-. right.
    split; [reflexivity | split; [reflexivity | split; [reflexivity|]]].
    intros g g' c Sg Sg'. rewrite sf_assign in Sg. rewrite sf_shl in Sg'. injection Sg as <-. injection Sg' as <-.
    cbn [oval]. rewrite (mod_small_W a Ra). rewrite (mod_small_W b) by (pose proof W_val; lia). symmetry. exact Eb. }
  intros H. injection H as <-. left. reflexivity.
Qed.

(* ReduceLiteralsCodesize preserves behaviour: same visible events, same outcome, for every label valuation,
   environment and initial variable values *)
Theorem lit_pass_correct f f' : lit_pass f = Ok f' -> beh_equiv f f'.
Proof.
  intros H. apply pointwise_beh. intros lv.
  apply (mapM_Forall2 (mapM lit_inst) (Forall2 (iequiv lv))); [|exact H].
  intros blk blk' Hb. apply (mapM_Forall2 lit_inst (iequiv lv)); [|exact Hb].
  intros x y. apply lit_inst_equiv.
Qed.

(* the model of the pass is total: it never fails on any function *)
Lemma mapM_total {A B} (g : A -> res B) : (forall x, exists y, g x = Ok y) -> forall l, exists l', mapM g l = Ok l'.
Proof.
  intros Hg. induction l as [|x t [t' IH]]; [exists []; reflexivity|].
  destruct (Hg x) as [y Gy]. exists (y :: t'). cbn. rewrite Gy. cbn [bind]. rewrite IH. reflexivity.
Qed.

Theorem lit_pass_total f : exists f', lit_pass f = Ok f'.
Proof.
  apply mapM_total. intros blk. apply mapM_total. intros ins.
  unfold lit_inst. destruct (String.eqb (i_op ins) "assign"); [|eexists; reflexivity].
  destruct (i_args ins) as [|[v|x|l] [|a2 t]]; try (eexists; reflexivity).
  destruct (i_outs ins) as [|o [|o2 t]]; try (eexists; reflexivity).
  destruct (lit_decide_total v) as [[[k a] b] ->]. cbn [bind].
  destruct (k =? 1); [eexists; reflexivity|]. destruct (k =? 2); eexists; reflexivity.
Qed.
