(* C14L -- model of AssertCombinerPass (vyper/venom/passes/assert_combiner.py).
   One merge step: in a block,   assert %ta ; S ; assert %tb   with  %ta = iszero P, %tb = iszero Q  (through copies),
   the same error message, and S consisting of instructions that `_is_safe_between` accepts, becomes
        S ; %o = or P, Q ; %z = iszero %o ; assert %z          (or   S ; assert %tb   when P and Q are the same operand).
   The pass is the iteration of this step (first applicable pair in block/instruction order) until none applies: that is
   exactly what `_AssertCombineAnalysis.analyze` + `_apply_merges` compute (the merged assertion `assert %z` with
   %z = iszero %o is again of the pattern, with predicate %o = the `merged_preds` entry).
   `%ta = iszero P` is looked up in the definitions AVAILABLE at that point of the block (RangeFix.facts_step); the real
   pass asks the DFG, which in SSA form gives the same answer whenever the defining instructions are in the same block
   (otherwise the invocation is outside this model's domain).  Two guards make the step valid without SSA assumptions: an
   instruction of S must not redefine %ta or the variable P.  Items carry the id of the assertion's error message. *)
From Coq Require Import ZArith NArith Bool List String.
From Verif Require Import Base.Word256 Base.PyInt C14.RangeBase C14.RangeFix C14L.Sem.
Import ListNotations.
Open Scope string_scope.
Open Scope Z_scope.

Definition itm := (inst * N)%type.

(* _is_safe_between: not a terminator, not volatile, no read/write effects -- restricted to the instructions the
   semantics treats as silent (the table is compared with the real predicate on every run) *)
Definition ac_safe (ins : inst) : bool :=
  silent ins && negb (mem_str (i_op ins) ["assert"; "assert_unreachable"]).

(* _get_iszero_operand on the available definitions *)
Fixpoint iszero_pred (n : nat) (F : list fact) (o : operand) : option operand :=
  match n with
  | O => None
  | Datatypes.S n' =>
    match o with
    | OVar x =>
      match find_fact F x with
      | Some (op, args) =>
        if String.eqb op "assign" then match args with [a] => iszero_pred n' F a | _ => None end
        else if String.eqb op "iszero" then
          match args with [p] => match p with OLab _ => None | _ => Some p end | _ => None end
        else None
      | None => None
      end
    | _ => None
    end
  end.
Definition pred_of (F : list fact) (o : operand) : option operand := iszero_pred (Datatypes.S (List.length F)) F o.

Definition kills (outs : list N) (ta : N) (P : operand) : bool :=
  existsb (fun o => N.eqb o ta || is_var o P) outs.

Definition merged_tail (P Q : operand) (nv : N) (mj : N) : list itm :=
  [(mkI "or" [P; Q] [nv], 0%N); (mkI "iszero" [OVar nv] [N.succ nv], 0%N); (mkI "assert" [OVar (N.succ nv)] [], mj)].

(* after the pending assertion `assert %ta` (predicate P, message m): walk S, find the second assertion.
   Result: the rewritten remainder (pending assertion removed) and the number of fresh variables used. *)
Fixpoint ac_scan (F : list fact) (P : operand) (ta : N) (m : N) (nv : N) (acc : list itm) (l : list itm)
  : option (list itm * N) :=
  match l with
  | [] => None
  | (j, mj) :: t =>
    if String.eqb (i_op j) "assert" then
      match i_args j, i_outs j with
      | [OVar tb], [] =>
        match pred_of F (OVar tb), pred_of F (OVar ta) with
        | Some Q, Some P' =>
          (* same message; the predicate of the pending assertion is still available here (always in SSA form);
             P, Q are not the fresh variables *)
          if N.eqb mj m && operand_eqb P P' && op_below nv P && op_below nv Q then
            if operand_eqb P Q then Some ((rev acc ++ (j, mj) :: t)%list, 0%N)
            else Some ((rev acc ++ merged_tail P Q nv mj ++ t)%list, 2%N)
          else None
        | _, _ => None
        end
      | _, _ => None
      end
    else if ac_safe j && negb (kills (i_outs j) ta P) then ac_scan (facts_step F j) P ta m nv ((j, mj) :: acc) t
    else None
  end.

Fixpoint ac_find (F : list fact) (nv : N) (l : list itm) : option (list itm * N) :=
  match l with
  | [] => None
  | (i, m) :: t =>
    let F' := facts_step F i in
    let here :=
      if String.eqb (i_op i) "assert" then
        match i_args i, i_outs i with
        | [OVar ta], [] => match pred_of F (OVar ta) with Some P => ac_scan F' P ta m nv [] t | None => None end
        | _, _ => None
        end
      else None in
    match here with
    | Some r => Some r
    | None => match ac_find F' nv t with Some (t', k) => Some ((i, m) :: t', k) | None => None end
    end
  end.

(* one step on the function: the first block in which a pair merges *)
Fixpoint ac_step (nv : N) (l : list (list itm)) : option (list (list itm) * N) :=
  match l with
  | [] => None
  | blk :: t =>
    match ac_find [] nv blk with
    | Some (blk', k) => Some (blk' :: t, k)
    | None => match ac_step nv t with Some (t', k) => Some (blk :: t', k) | None => None end
    end
  end.

Definition strip (l : list (list itm)) : func := map (map fst) l.

(* the step is only applied while the fresh-variable counter is above every variable of the function (always the case:
   the counter starts above all variables and grows by the number of variables each step introduces) *)
Fixpoint ac_iter (fuel : nat) (nv : N) (l : list (list itm)) : list (list itm) :=
  match fuel with
  | O => l
  | Datatypes.S n =>
    if func_below nv (strip l) then
      match ac_step nv l with Some (l', k) => ac_iter n (nv + k)%N l' | None => l end
    else l
  end.

Fixpoint zip_msgs (blk : block) (ms : list N) : list itm :=
  match blk with
  | [] => []
  | i :: t => match ms with m :: mt => (i, m) :: zip_msgs t mt | [] => (i, 0%N) :: zip_msgs t [] end
  end.
Fixpoint zip_func (f : func) (M : list (list N)) : list (list itm) :=
  match f with
  | [] => []
  | b :: t => match M with m :: mt => zip_msgs b m :: zip_func t mt | [] => zip_msgs b [] :: zip_func t [] end
  end.

Definition ac_pass (f : func) (M : list (list N)) (nv : N) : func :=
  strip (ac_iter (List.length (List.concat f)) nv (zip_func f M)).
