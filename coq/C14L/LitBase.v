(* C14L -- arithmetic definitions of the three string idioms used by ReduceLiteralsCodesize._process_bb
   (len(hex(x)), len(bin(x)[2:]), bin(x)[2:].rfind("1")); validated against CPython on every run.  Definitions only. *)
From Coq Require Import ZArith Bool List.
From Verif Require Import Base.PyInt.
Open Scope Z_scope.

(* number of trailing zero bits of a positive number *)
Fixpoint ctz_pos (p : positive) : Z :=
  match p with xO q => 1 + ctz_pos q | _ => 0 end.

(* len(hex(x)): "0x" + hex digits ("-0x..." for negative x) *)
Definition hexlen (x : Z) : Z :=
  match x with
  | Z0 => 3
  | Zpos _ => 2 + (Z.log2 x / 4 + 1)
  | Zneg _ => 3 + (Z.log2 (- x) / 4 + 1)
  end.

(* len(bin(x)[2:]) for x >= 0 *)
Definition binlen (x : Z) : res Z :=
  match x with
  | Z0 => Ok 1
  | Zpos _ => Ok (Z.log2 x + 1)
  | Zneg _ => Err AssertFail
  end.

(* bin(x)[2:].rfind("1") for x >= 0: index (from the most significant end) of the lowest set bit, -1 for 0 *)
Definition bin_rfind1 (x : Z) : res Z :=
  match x with
  | Z0 => Ok (-1)
  | Zpos p => Ok (Z.log2 x - ctz_pos p)
  | Zneg _ => Err AssertFail
  end.
