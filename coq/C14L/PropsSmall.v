(* C14 -- the small rewriting passes: main theorems restated (models: Lit.v / GenLit.v, Rta.v; semantics: Sem.v). *)
From Coq Require Import ZArith NArith Bool List String Lia.
From Verif Require Import Base.Word256 Base.PyInt C14.RangeBase C14.RangeFix C14L.LitBase C14L.GenLit C14L.Sem C14L.Lit C14L.Rta
  C14L.SemProofs C14L.LitProofs C14L.RtaProofs C14L.AcProofs C14L.AssertComb C14L.AcStep C14L.PhiElim C14L.PhiElimProofs.
Import ListNotations.
Open Scope string_scope.
Open Scope Z_scope.

(* the decision code of ReduceLiteralsCodesize (translated from the source on every run): for EVERY integer literal v,
   an answer "not a" satisfies not(a) = v mod 2^256 and an answer "shl b, a" satisfies a << b = v mod 2^256 with b < 256 *)
Theorem C14L_lit_decide_sound : forall v k a b, lit_decide v = Ok (k, a, b) ->
  (k = 0 \/ k = 1 \/ k = 2) /\
  (k = 1 -> 0 <= a < W /\ w_not a = v mod W) /\
  (k = 2 -> 0 <= a < W /\ 0 <= b < 256 /\ w_shl b a = v mod W).
Proof. exact lit_decide_sound. Qed.
Print Assumptions C14L_lit_decide_sound.

(* the assertions inside that code (`not_benefit > 0`, `(val >> ix) << ix == val`, `(val >> ix) & 1 == 1`) never fire *)
Theorem C14L_lit_decide_total : forall v, exists r, lit_decide v = Ok r.
Proof. exact lit_decide_total. Qed.
Print Assumptions C14L_lit_decide_total.

(* the whole pass: same visible events and same outcome for every label valuation, environment and initial state *)
Theorem C14L_lit_pass_correct : forall f f', lit_pass f = Ok f' -> beh_equiv f f'.
Proof. exact lit_pass_correct. Qed.
Print Assumptions C14L_lit_pass_correct.

Theorem C14L_rta_pass_correct : forall f nv, func_below nv f = true -> beh_equiv f (rta_pass f nv).
Proof. exact rta_pass_correct. Qed.
Print Assumptions C14L_rta_pass_correct.

(* AssertCombinerPass: the model of the whole pass (iteration of the merge step, AssertComb.v) preserves behaviour, for every
   function, message table and fresh-variable counter (the step is only applied while the counter is above all variables) *)
Theorem C14L_ac_pass_correct : forall f M nv, beh_equiv f (ac_pass f M nv).
Proof. exact ac_pass_correct. Qed.
Print Assumptions C14L_ac_pass_correct.

(* value level: the merged assertion passes iff both original assertions pass, for all words *)
Theorem C14L_ac_combined_assert_partial : forall p q, 0 <= p -> 0 <= q ->
  (w_iszero (w_or p q) <> 0 <-> (w_iszero p <> 0 /\ w_iszero q <> 0)).
Proof. exact ac_combined_assert_partial. Qed.
Print Assumptions C14L_ac_combined_assert_partial.

(* PhiEliminationPass validator, PARTIAL: the three local facts are proved (transfer function, CFG edge with parallel phis,
   replaced phi); the simulation assembling them into `phi_check f As Rs = true -> beh_equiv f (phi_apply f Rs)` is not *)
Theorem C14L_phi_transfer_sound_partial : forall lv a ins c c', holds a c -> awf a -> step_conc lv ins c c' ->
  holds (atransfer a ins) c' /\ awf (atransfer a ins).
Proof. exact phi_transfer_sound_partial. Qed.
Print Assumptions C14L_phi_transfer_sound_partial.
Theorem C14L_phi_edge_sound_partial : forall outp phis p Ab c c1, edge_ok outp phis p Ab = true -> acert_ok Ab = true ->
  forallb (fun ins => nodupb (map fst (phi_pairs (i_args ins)))) phis = true ->
  holds outp c -> phi_assign phis p c c1 -> holds Ab c1.
Proof. exact phi_edge_sound_partial. Qed.
Theorem C14L_phi_repl_sound_partial : forall outp phis p x v c c1, repl_ok outp phis p (x, v) = true ->
  forallb (fun ins => nodupb (map fst (phi_pairs (i_args ins)))) phis = true ->
  PhiElim.memN v (phi_outs phis) = false ->
  holds outp c -> phi_assign phis p c c1 -> c1 x = c1 v.
Proof. exact phi_repl_sound_partial. Qed.

(* non-vacuity: jnz %0, @revert_block, @cont with both polarities; the models rewrite, and the hypotheses hold *)
Definition ex_rta : func :=
  [ [mkI "calldataload" [OLit 0] [0%N]; mkI "jnz" [OVar 0%N; OLab 1%N; OLab 2%N] []];
    [mkI "revert" [OLit 0; OLit 0] []];
    [mkI "mstore" [OVar 0%N; OLit 0] []; mkI "jnz" [OVar 0%N; OLab 3%N; OLab 1%N] []];
    [mkI "stop" [] []] ].
Example ex_rta_below : func_below 1%N ex_rta = true.
Proof. reflexivity. Qed.
Example ex_rta_out : rta_pass ex_rta 1%N =
  [ [mkI "calldataload" [OLit 0] [0%N]; mkI "iszero" [OVar 0%N] [1%N]; mkI "assert" [OVar 1%N] []; mkI "jmp" [OLab 2%N] []];
    [mkI "revert" [OLit 0; OLit 0] []];
    [mkI "mstore" [OVar 0%N; OLit 0] []; mkI "assert" [OVar 0%N] []; mkI "jmp" [OLab 3%N] []];
    [mkI "stop" [] []] ].
Proof. reflexivity. Qed.
(* a run of the original that reverts with empty data (calldata word 5) *)
Definition ex_c1 : cenv := fun y => if N.eqb y 0 then 5 else 0.
Example ex_rta_reverts : wtrace ex_rta (fun _ => 0) (fun _ _ => 5) (init_state ex_rta (fun _ => 0)) [] (Some ORevert0).
Proof.
  apply wt_tau with (s' := (0%N, [mkI "jnz" [OVar 0%N; OLab 1%N; OLab 2%N] []], ex_c1)).
  { apply ls_inst. split; [split; [|split; [|split]]|split; [|split; [|split]]];
      try reflexivity; try (intros; discriminate).
    - intros x Hx. unfold ex_c1. destruct (N.eqb x 0) eqn:E; [|reflexivity].
      apply N.eqb_eq in E. subst. exfalso. apply Hx. left. reflexivity.
    - intros x [<-|[]]. unfold ex_c1. cbn. split; [discriminate | reflexivity].
    - intros _ o Ho. injection Ho as <-. reflexivity. }
  apply wt_tau with (s' := (1%N, [mkI "revert" [OLit 0; OLit 0] []], ex_c1)).
  { apply (ls_jump ex_rta (fun _ => 0) (fun _ _ => 5) 0%N _ [] ex_c1 1%N ex_c1); [reflexivity | left; reflexivity | apply Steps.phi_assign_nil]. }
  apply wt_final. reflexivity.
Qed.
Example ex_lit : lit_pass [[mkI "assign" [OLit (2 ^ 256 - 2)] [0%N]; mkI "assign" [OLit (0x1234 * 2 ^ 200)] [1%N]; mkI "assign" [OLit 77] [2%N]]]
  = Ok [[mkI "not" [OLit 1] [0%N]; mkI "shl" [OLit 1165; OLit 202] [1%N]; mkI "assign" [OLit 77] [2%N]]].
Proof. vm_compute. reflexivity. Qed.
