(* C14L -- model of LowerDloadPass (vyper/venom/passes/lower_dload.py).
     %x = dload ptr         ==>  %t = alloca 32 ; %v = add ptr, @code_end ; codecopy %t, %v, 32 ; %x = mload %t
     dloadbytes dst,src,n   ==>  %v = add src, @code_end ; codecopy dst, %v, n
   (operands in the internal order of IRInstruction.operands).  Fresh variables are numbered from nv in order of
   appearance; `ce` is the exporter's id of the label `code_end`.  Definitions only. *)
From Coq Require Import ZArith NArith Bool List String.
From Verif Require Import Base.Word256 Base.PyInt C14.RangeBase C14.RangeFix C14L.Sem.
Import ListNotations.
Open Scope string_scope.
Open Scope Z_scope.

Definition dl_inst (ce : N) (nv : N) (ins : inst) : list inst * N :=
  if String.eqb (i_op ins) "dload" then
    match i_args ins with
    | [ptr] => ([mkI "alloca" [OLit 32] [nv]; mkI "add" [ptr; OLab ce] [N.succ nv];
                 mkI "codecopy" [OLit 32; OVar (N.succ nv); OVar nv] []; mkI "mload" [OVar nv] (i_outs ins)], (nv + 2)%N)
    | _ => ([ins], nv)
    end
  else if String.eqb (i_op ins) "dloadbytes" then
    match i_args ins with
    | [size; src; dst] => ([mkI "add" [src; OLab ce] [nv]; mkI "codecopy" [size; OVar nv; dst] []], N.succ nv)
    | _ => ([ins], nv)
    end
  else ([ins], nv).

Fixpoint dl_block (ce nv : N) (blk : block) : block * N :=
  match blk with
  | [] => ([], nv)
  | i :: t => let r := dl_inst ce nv i in let r2 := dl_block ce (snd r) t in ((fst r ++ fst r2)%list, snd r2)
  end.
Fixpoint dl_blocks (ce nv : N) (f : func) : func :=
  match f with
  | [] => []
  | b :: t => let r := dl_block ce nv b in fst r :: dl_blocks ce (snd r) t
  end.
Definition dl_pass (f : func) (ce nv : N) : func := dl_blocks ce nv f.
