(* C14L -- generic facts about the labelled semantics of Sem.v: weak simulations give trace inclusion; instructions
   that mention only variables below a bound behave identically in states that agree below the bound; pointwise
   replacement of determined instructions by equivalent ones preserves behaviour. *)
From Coq Require Import ZArith NArith Bool List String Lia Relations.
From Verif Require Import Base.Word256 Base.PyInt C14.RangeBase C14.RangeFix C14.RangeFixProofs C14.WordClosed C14L.Sem.
Import ListNotations.
Open Scope string_scope.
Open Scope Z_scope.

(* ------------------------------------------------------------------ weak simulation => trace inclusion *)
Section Sim.
  Variable f f' : func. (*section*)
  Variable lv : N -> Z. (*section*)
  Variable env : string -> list Z -> Z. (*section*)
  Variable R : state -> state -> Prop. (*section*)

  Definition tau_star (g : func) : state -> state -> Prop :=
    clos_refl_trans state (fun s s' => lstep g lv env s LTau s').

  Definition wstep (g : func) (s : state) (l : label) (s' : state) : Prop :=
    match l with
    | LTau => tau_star g s s'
    | _ => exists s1 s2, tau_star g s s1 /\ lstep g lv env s1 l s2 /\ tau_star g s2 s'
    end.

  Lemma tau_star_wtrace g s s' t r : tau_star g s s' -> wtrace g lv env s' t r -> wtrace g lv env s t r.
  Proof.
    intros H. apply clos_rt_rt1n in H. induction H as [|x y z XY YZ IH]; intros T; [exact T|].
    eapply wt_tau; [exact XY | apply IH; exact T].
  Qed.

  Hypothesis sim_step : forall s s' l s1, R s s' -> lstep f lv env s l s1 -> exists s1', wstep f' s' l s1' /\ R s1 s1'. (*section*)
  Hypothesis sim_final : forall s s' o, R s s' -> final lv s o -> exists s'', tau_star f' s' s'' /\ final lv s'' o. (*section*)

  Theorem sim_wtrace : forall s t r, wtrace f lv env s t r -> forall s', R s s' -> wtrace f' lv env s' t r.
  Proof.
    induction 1 as [s | s o Fo | s s1 t r St _ IH | s s1 op a o t r St _ IH]; intros s' Rs.
    - apply wt_stop.
    - destruct (sim_final s s' o Rs Fo) as [s'' [TS Fn]]. eapply tau_star_wtrace; [exact TS | apply wt_final; exact Fn].
    - destruct (sim_step s s' LTau s1 Rs St) as [s1' [WS R1]]. cbn in WS.
      eapply tau_star_wtrace; [exact WS | apply IH; exact R1].
    - destruct (sim_step s s' _ s1 Rs St) as [s1' [WS R1]]. cbn in WS. destruct WS as [u1 [u2 [T1 [L T2]]]].
      eapply tau_star_wtrace; [exact T1|]. eapply wt_ev; [exact L|].
      eapply tau_star_wtrace; [exact T2 | apply IH; exact R1].
  Qed.
End Sim.

Lemma tau_star_refl g lv env s : tau_star lv env g s s.
Proof. apply rt_refl. Qed.
Lemma tau_star_one g lv env s s' : lstep g lv env s LTau s' -> tau_star lv env g s s'.
Proof. intros H. apply rt_step. exact H. Qed.
Lemma tau_star_trans g lv env s1 s2 s3 : tau_star lv env g s1 s2 -> tau_star lv env g s2 s3 -> tau_star lv env g s1 s3.
Proof. intros A B. eapply rt_trans; eassumption. Qed.

Lemma wstep_one g lv env s l s' : lstep g lv env s l s' -> wstep lv env g s l s'.
Proof.
  intros H. destruct l; cbn.
  - apply tau_star_one. exact H.
  - exists s, s'. split; [apply tau_star_refl | split; [exact H | apply tau_star_refl]].
Qed.

(* ------------------------------------------------------------------ word states are preserved *)
Lemma istep_cenv_ok lv env ins c l c' : cenv_ok c -> istep lv env ins c l c' -> cenv_ok c'.
Proof. intros Hc [S _]. eapply step_conc_cenv_ok; eassumption. Qed.

Definition state_ok (s : state) : Prop := cenv_ok (snd s).
Lemma lstep_ok g lv env s l s' : state_ok s -> lstep g lv env s l s' -> state_ok s'.
Proof.
  intros Hs H. destruct H; unfold state_ok in *; cbn in *.
  - eapply istep_cenv_ok; eassumption.
  - eapply phi_assign_ok; eassumption.
Qed.

(* ------------------------------------------------------------------ agreement below a bound *)
Definition agree (nv : N) (c c' : cenv) : Prop := forall x, (x < nv)%N -> c x = c' x.

Lemma agree_refl nv c : agree nv c c. Proof. intros x _. reflexivity. Qed.
Lemma agree_sym nv c c' : agree nv c c' -> agree nv c' c. Proof. intros H x Hx. symmetry. apply H. exact Hx. Qed.

Lemma op_below_oval nv lv c c' a : op_below nv a = true -> agree nv c c' -> oval lv c a = oval lv c' a.
Proof. intros B A. destruct a; cbn in *; try reflexivity. apply A. apply N.ltb_lt. exact B. Qed.

Lemma args_below_map nv lv c c' l : forallb (op_below nv) l = true -> agree nv c c' ->
  map (oval lv c) l = map (oval lv c') l.
Proof.
  intros B A. induction l as [|a t IH]; cbn in *; [reflexivity|].
  apply andb_prop in B as [B1 B2]. rewrite (op_below_oval nv lv c c' a B1 A), (IH B2). reflexivity.
Qed.

Lemma is_var_below nv l x : forallb (op_below nv) l = true -> existsb (is_var x) l = true -> (x < nv)%N.
Proof.
  intros B E. apply existsb_exists in E as [a [Ia Va]]. rewrite forallb_forall in B. specialize (B a Ia).
  destruct a; cbn in *; try discriminate. apply N.eqb_eq in Va. subst. apply N.ltb_lt. exact B.
Qed.

Lemma sem_fun_agree nv lv ins g c c' : sem_fun lv ins = Some g -> forallb (op_below nv) (i_args ins) = true ->
  agree nv c c' -> g c = g c'.
Proof.
  intros S B A. eapply sem_fun_ext; [exact S|]. intros x Hx. apply A. eapply is_var_below; eassumption.
Qed.

Lemma final_of_agree nv lv ins c c' : forallb (op_below nv) (i_args ins) = true -> agree nv c c' ->
  final_of lv ins c = final_of lv ins c'.
Proof.
  intros B A. unfold final_of. rewrite (args_below_map nv lv c c' _ B A).
  destruct (mem_str (i_op ins) halting_ops); [reflexivity|].
  destruct (i_args ins) as [|a [|a2 t]] eqn:E; try reflexivity.
  cbn in B. apply andb_prop in B as [B1 _]. rewrite (op_below_oval nv lv c c' a B1 A). reflexivity.
Qed.

Definition upd_outs (outs : list N) (c1' c2 : cenv) : cenv := fun x => if in_outs x outs then c1' x else c2 x.

Lemma map_upd_outs outs c1' c2 : map (upd_outs outs c1' c2) outs = map c1' outs.
Proof.
  apply map_ext_in. intros x Hx. unfold upd_outs. apply in_outs_In in Hx. rewrite Hx. reflexivity.
Qed.

(* an instruction over variables below nv steps identically from states that agree below nv *)
Lemma istep_agree nv lv env ins c1 l c1' c2 : inst_below nv ins = true -> agree nv c1 c2 ->
  istep lv env ins c1 l c1' -> istep lv env ins c2 l (upd_outs (i_outs ins) c1' c2) /\ agree nv c1' (upd_outs (i_outs ins) c1' c2).
Proof.
  intros B A [[Hk [Hw [Hv Ha]]] [Fn [Nj [Pe Lb]]]].
  apply andb_prop in B as [Ba Bo].
  assert (M : map (oval lv c1) (i_args ins) = map (oval lv c2) (i_args ins)) by (eapply args_below_map; eassumption).
  split.
  - split; [split; [|split; [|split]]|split; [|split; [|split]]].
    + intros x Hx. unfold upd_outs. destruct (in_outs x (i_outs ins)) eqn:E; [apply in_outs_In in E; contradiction | reflexivity].
    + intros x Hx. unfold upd_outs. apply in_outs_In in Hx. rewrite Hx. apply Hw. apply in_outs_In. exact Hx.
    + intros g o Sg Ho. unfold upd_outs. rewrite Ho. cbn [in_outs existsb]. rewrite N.eqb_refl. cbn [orb].
      rewrite (Hv g o Sg Ho). eapply sem_fun_agree; eassumption.
    + intros Ho a Ea. rewrite <- (op_below_oval nv lv c1 c2 a); [apply Ha; assumption | | exact A].
      rewrite Ea in Ba. cbn in Ba. apply andb_prop in Ba as [X _]. exact X.
    + rewrite <- (final_of_agree nv lv ins c1 c2 Ba A). exact Fn.
    + exact Nj.
    + intros P o Ho. unfold upd_outs. rewrite Ho. cbn [in_outs existsb]. rewrite N.eqb_refl. cbn [orb].
      rewrite <- M. apply Pe; assumption.
    + rewrite Lb, M, map_upd_outs. reflexivity.
  - intros x Hx. unfold upd_outs. destruct (in_outs x (i_outs ins)) eqn:E; [reflexivity|].
    rewrite Hk; [apply A; exact Hx|]. intros I. apply in_outs_In in I. congruence.
Qed.

Lemma targets_agree nv lv ins c c' : forallb (op_below nv) (i_args ins) = true -> agree nv c c' ->
  targets lv ins c = targets lv ins c'.
Proof.
  intros B A. unfold targets. destruct (String.eqb (i_op ins) "jmp"); [reflexivity|].
  destruct (String.eqb (i_op ins) "jnz"); [|reflexivity].
  destruct (i_args ins) as [|cond [|[| |t] [|[| |e] [|? ?]]]]; try reflexivity.
  cbn in B. apply andb_prop in B as [B1 _]. rewrite (op_below_oval nv lv c c' cond B1 A). reflexivity.
Qed.

(* parallel phi assignment from agreeing states *)
Definition is_phi_out (phis : list inst) (x : N) : bool :=
  existsb (fun ins => match phi_out ins with Some o => N.eqb o x | None => false end) phis.
Definition upd_phis (phis : list inst) (c1' c2 : cenv) : cenv := fun x => if is_phi_out phis x then c1' x else c2 x.

Lemma is_phi_out_false phis x : is_phi_out phis x = false -> forall ins, In ins phis -> phi_out ins <> Some x.
Proof.
  intros H ins I E. unfold is_phi_out in H.
  assert (existsb (fun ins => match phi_out ins with Some o => N.eqb o x | None => false end) phis = true).
  { apply existsb_exists. exists ins. split; [exact I|]. rewrite E. apply N.eqb_refl. }
  congruence.
Qed.

Lemma phi_pairs_below nv : forall n l p v, (List.length l <= n)%nat -> forallb (op_below nv) l = true ->
  In (p, v) (phi_pairs l) -> (v < nv)%N.
Proof.
  induction n as [|n IH]; intros l p v Ln B I.
  - destruct l; [cbn in I; contradiction | cbn in Ln; lia].
  - destruct l as [|a [|b t]]; try (cbn in I; destruct a; contradiction); [cbn in I; contradiction|].
    destruct a as [?|?|q]; try (cbn in I; contradiction).
    destruct b as [?|y|?]; try (cbn in I; contradiction).
    cbn in I. destruct I as [I|I].
    + injection I as <- <-. cbn in B. apply andb_prop in B as [B1 _]. apply N.ltb_lt. exact B1.
    + apply (IH t p v); [cbn in Ln; lia | cbn in B; apply andb_prop in B as [_ B]; exact B | exact I].
Qed.

Lemma phi_assign_agree nv phis p c1 c1' c2 : forallb (inst_below nv) phis = true -> agree nv c1 c2 ->
  phi_assign phis p c1 c1' -> phi_assign phis p c2 (upd_phis phis c1' c2) /\ agree nv c1' (upd_phis phis c1' c2).
Proof.
  intros B A [P1 P2]. split; [split|].
  - intros x Hx. unfold upd_phis. destruct (is_phi_out phis x) eqn:E; [|reflexivity].
    exfalso. unfold is_phi_out in E. apply existsb_exists in E as [ins [I E]].
    destruct (phi_out ins) as [o|] eqn:PO; [|discriminate]. apply N.eqb_eq in E. subst. exact (Hx ins I PO).
  - intros ins o I PO. destruct (P2 ins o I PO) as [v [Iv Ev]]. exists v. split; [exact Iv|].
    unfold upd_phis. assert (is_phi_out phis o = true) as ->.
    { unfold is_phi_out. apply existsb_exists. exists ins. split; [exact I|]. rewrite PO. apply N.eqb_refl. }
    rewrite Ev. apply A. rewrite forallb_forall in B. specialize (B ins I). apply andb_prop in B as [Ba _].
    eapply (phi_pairs_below nv (List.length (i_args ins))); [apply Nat.le_refl | exact Ba | exact Iv].
  - intros x Hx. unfold upd_phis. destruct (is_phi_out phis x) eqn:E; [reflexivity|].
    rewrite (P1 x (is_phi_out_false phis x E)). apply A. exact Hx.
Qed.

(* ------------------------------------------------------------------ inversion of a transition *)
Lemma lstep_inv g lv env b i rest c l s1 : lstep g lv env (b, i :: rest, c) l s1 ->
  (exists c1, istep lv env i c l c1 /\ s1 = (b, rest, c1)) \/
  (exists b1 c1, is_jump i = true /\ In b1 (targets lv i c) /\ phi_assign (leading_phis (nth_block g b1)) b c c1 /\
                 l = LTau /\ s1 = (b1, body (nth_block g b1), c1)).
Proof.
  intros H. inversion H as [b0 ins0 rest0 c0 l0 c1 I | b0 ins0 rest0 c0 b1 c1 J T P]; subst.
  - left. exists c1. split; [exact I | reflexivity].
  - right. exists b1, c1. split; [exact J | split; [exact T | split; [exact P | split; reflexivity]]].
Qed.

Lemma lstep_nil g lv env b c l s1 : lstep g lv env (b, [], c) l s1 -> False.
Proof. intros H. inversion H. Qed.
