(* C14L -- replacing determined instructions by determined instructions that compute the same value (same outputs)
   preserves behaviour: the two functions have exactly the same transitions. *)
From Coq Require Import ZArith NArith Bool List String Lia Relations.
From Verif Require Import Base.Word256 Base.PyInt C14.RangeBase C14.RangeFix C14.RangeFixProofs C14.WordClosed
  C14L.Sem C14L.SemProofs.
Import ListNotations.
Open Scope string_scope.
Open Scope Z_scope.

Definition plain (ins : inst) : bool :=
  determined ins && negb (is_jump ins) && negb (is_pure_env ins) && negb (mem_str (i_op ins) halting_ops)
  && negb (String.eqb (i_op ins) "assert") && negb (String.eqb (i_op ins) "assert_unreachable") && negb (is_phi ins).

Definition iequiv (lv : N -> Z) (i i' : inst) : Prop :=
  i = i' \/ (plain i = true /\ plain i' = true /\ i_outs i = i_outs i' /\
             forall g g' c, sem_fun lv i = Some g -> sem_fun lv i' = Some g' -> g c = g' c).

Lemma iequiv_sym lv i i' : iequiv lv i i' -> iequiv lv i' i.
Proof.
  intros [E|[P [P' [O V]]]]; [left; symmetry; exact E | right].
  repeat split; try assumption; [symmetry; exact O|]. intros g g' c S S'. symmetry. apply V; assumption.
Qed.

Lemma determined_some lv ins : determined ins = true -> exists g, sem_fun lv ins = Some g.
Proof.
  unfold determined, sem_fun.
  destruct (has_label (i_args ins)); [discriminate|].
  destruct (i_outs ins) as [|o [|? ?]]; try discriminate.
  destruct (String.eqb (i_op ins) "assign").
  { destruct (i_args ins) as [|a [|? ?]]; try discriminate. intros _. eexists. reflexivity. }
  destruct (word_op (i_op ins)); [|discriminate].
  destruct (is_unary (i_op ins)).
  { destruct (i_args ins) as [|a [|? ?]]; try discriminate. intros _. eexists. reflexivity. }
  destruct (i_args ins) as [|a2 [|a1 [|? ?]]]; try discriminate. intros _. eexists. reflexivity.
Qed.

Lemma determined_outs ins : determined ins = true -> exists o, i_outs ins = [o].
Proof.
  unfold determined, sem_fun. destruct (has_label (i_args ins)); [discriminate|].
  destruct (i_outs ins) as [|o [|? ?]]; try discriminate. intros _. exists o. reflexivity.
Qed.

Ltac plain_split P :=
  unfold plain in P;
  repeat match type of P with (_ && _) = true => let X := fresh "P" in apply andb_prop in P as [P X] end;
  repeat match goal with H : negb _ = true |- _ => apply negb_true_iff in H end.

Lemma plain_final lv ins c : plain ins = true -> final_of lv ins c = None.
Proof.
  intros P. plain_split P. unfold final_of.
  match goal with H : mem_str _ halting_ops = false |- _ => rewrite H end.
  match goal with H : String.eqb _ "assert" = false |- _ => rewrite H end.
  match goal with H : String.eqb _ "assert_unreachable" = false |- _ => rewrite H end.
  reflexivity.
Qed.

Lemma plain_silent ins : plain ins = true -> silent ins = true.
Proof. intros P. plain_split P. unfold silent. rewrite P. reflexivity. Qed.

Lemma iequiv_istep lv env i i' c l c' : iequiv lv i i' -> istep lv env i c l c' -> istep lv env i' c l c'.
Proof.
  intros [<-|[P [P' [O V]]]] H; [exact H|].
  destruct H as [[Hk [Hw [Hv Ha]]] [Fn [Nj [Pe Lb]]]].
  pose proof (plain_final lv i' c P') as F'. pose proof (plain_silent i P) as Si. pose proof (plain_silent i' P') as Si'.
  pose proof P as Pc. pose proof P' as Pc'.
  plain_split P. plain_split P'.
  destruct (determined_some lv i P) as [g Sg].
  split; [split; [|split; [|split]]|split; [|split; [|split]]].
  - rewrite <- O. exact Hk.
  - rewrite <- O. exact Hw.
  - intros g' o Sg' Ho. rewrite <- O in Ho. rewrite (Hv g o Sg Ho). apply V; assumption.
  - intros X. match goal with H : String.eqb (i_op i') "assert" = false |- _ => rewrite H in X end. discriminate.
  - exact F'.
  - assumption.
  - intros X. match goal with H : is_pure_env i' = false |- _ => rewrite H in X end. discriminate.
  - rewrite Lb, Si, Si'. reflexivity.
Qed.

Lemma iequiv_final lv i i' c : iequiv lv i i' -> final_of lv i c = final_of lv i' c.
Proof. intros [<-|[P [P' _]]]; [reflexivity|]. rewrite !plain_final by assumption. reflexivity. Qed.

Lemma iequiv_phi lv i i' : iequiv lv i i' -> (is_phi i = true \/ is_phi i' = true) -> i = i'.
Proof.
  intros [E|[P [P' _]]] H; [exact E|]. plain_split P. plain_split P'. destruct H; congruence.
Qed.

Lemma iequiv_jump lv i i' : iequiv lv i i' -> (is_jump i = true \/ is_jump i' = true) -> i = i'.
Proof.
  intros [E|[P [P' _]]] H; [exact E|]. plain_split P. plain_split P'. destruct H; congruence.
Qed.

Lemma bequiv_phis lv : forall b b', Forall2 (iequiv lv) b b' ->
  leading_phis b = leading_phis b' /\ Forall2 (iequiv lv) (body b) (body b').
Proof.
  induction 1 as [|i i' t t' E Ft IH]; [split; constructor|].
  cbn [leading_phis body]. destruct (is_phi i) eqn:Pi.
  - rewrite <- (iequiv_phi lv i i' E (or_introl Pi)). rewrite Pi. destruct IH as [-> IH]. split; [reflexivity | exact IH].
  - destruct (is_phi i') eqn:Pi'.
    + rewrite (iequiv_phi lv i i' E (or_intror Pi')) in Pi. congruence.
    + split; [reflexivity | constructor; assumption].
Qed.

Lemma fequiv_nth lv f f' b : Forall2 (Forall2 (iequiv lv)) f f' -> Forall2 (iequiv lv) (nth_block f b) (nth_block f' b).
Proof.
  intros H. unfold nth_block. generalize (N.to_nat b). induction H; intros [|n]; cbn; try constructor; try assumption.
  apply IHForall2.
Qed.

Section PW.
  Variable f f' : func.
  Variable lv : N -> Z.
  Variable env : string -> list Z -> Z.
  Hypothesis FE : Forall2 (Forall2 (iequiv lv)) f f'.

  Definition Rpw (s s' : state) : Prop :=
    fst (fst s) = fst (fst s') /\ Forall2 (iequiv lv) (snd (fst s)) (snd (fst s')) /\ snd s = snd s'.

  Lemma pw_step s s' l s1 : Rpw s s' -> lstep f lv env s l s1 -> exists s1', wstep lv env f' s' l s1' /\ Rpw s1 s1'.
  Proof.
    intros [Eb [Er Ec]] H. destruct s' as [[b' rest'] c']. cbn in *. destruct H as [b ins rest c l c1 I | b ins rest c b1 c1 J T P].
    - cbn in *. subst. inversion Er as [|? i' ? t' Ei Et]; subst.
      exists (b', t', c1). split; [apply wstep_one; apply ls_inst; eapply iequiv_istep; eassumption|].
      split; [reflexivity | split; [exact Et | reflexivity]].
    - cbn in *. subst. inversion Er as [|? i' ? t' Ei Et]; subst.
      pose proof (iequiv_jump lv ins i' Ei (or_introl J)) as <-.
      destruct (bequiv_phis lv _ _ (fequiv_nth lv f f' b1 FE)) as [EP EB].
      exists (b1, body (nth_block f' b1), c1). split.
      + apply (wstep_one f' lv env _ LTau). apply ls_jump; [exact J | exact T | rewrite <- EP; exact P].
      + split; [reflexivity | split; [exact EB | reflexivity]].
  Qed.

  Lemma pw_final s s' o : Rpw s s' -> final lv s o -> exists s'', tau_star lv env f' s' s'' /\ final lv s'' o.
  Proof.
    intros [Eb [Er Ec]] F. exists s'. split; [apply tau_star_refl|].
    destruct s as [[b rest] c], s' as [[b' rest'] c']. cbn in *. subst.
    destruct rest as [|i t]; [contradiction|]. inversion Er as [|? i' ? t' Ei Et]; subst.
    rewrite <- (iequiv_final lv i i' c' Ei). exact F.
  Qed.

  Lemma pw_wtrace s s' t r : Rpw s s' -> wtrace f lv env s t r -> wtrace f' lv env s' t r.
  Proof. intros Rs T. eapply (sim_wtrace f f' lv env Rpw pw_step pw_final); eassumption. Qed.
End PW.

Lemma Forall2_sym {A} (P : A -> A -> Prop) : (forall x y, P x y -> P y x) -> forall l l', Forall2 P l l' -> Forall2 P l' l.
Proof. intros S. induction 1; constructor; auto. Qed.

Theorem pointwise_beh f f' : (forall lv, Forall2 (Forall2 (iequiv lv)) f f') -> beh_equiv f f'.
Proof.
  intros FE lv env c0 _ _ _ t r.
  assert (R0 : Rpw lv (init_state f c0) (init_state f' c0)).
  { unfold init_state, Rpw. cbn. split; [reflexivity | split; [|reflexivity]].
    apply (bequiv_phis lv _ _ (fequiv_nth lv f f' 0%N (FE lv))). }
  split.
  - apply (pw_wtrace f f' lv env (FE lv)). exact R0.
  - apply (pw_wtrace f' f lv env).
    + apply Forall2_sym; [|exact (FE lv)]. intros x y. apply Forall2_sym. apply iequiv_sym.
    + destruct R0 as [A [B C]]. split; [symmetry; exact A | split; [|symmetry; exact C]].
      apply Forall2_sym; [apply iequiv_sym | exact B].
Qed.
