(* C14L -- AssertCombinerPass: the value-level facts behind a merge step, for all 256-bit words.
   The pass-level theorem `ac_pass_correct` is in AcStep.v (via SegRepl.v). *)
From Coq Require Import ZArith NArith Bool List String Lia.
From Verif Require Import Base.Word256 Base.PyInt C14.RangeBase C14.RangeFix C14.RangeFixProofs C14.WordClosed
  C14L.Sem C14L.SemProofs C14L.Pointwise C14L.Steps C14L.AssertComb.
Import ListNotations.
Open Scope string_scope.
Open Scope Z_scope.

(* `assert iszero(or p q)` passes iff `assert iszero p` and `assert iszero q` both pass *)
Theorem ac_combined_assert_partial : forall p q, 0 <= p -> 0 <= q ->
  (w_iszero (w_or p q) <> 0 <-> (w_iszero p <> 0 /\ w_iszero q <> 0)).
Proof.
  intros p q Hp Hq. unfold w_iszero, w_or.
  assert (L : Z.lor p q = 0 <-> p = 0 /\ q = 0) by apply Z.lor_eq_0_iff.
  destruct (Z.lor p q =? 0) eqn:E; [apply Z.eqb_eq in E | apply Z.eqb_neq in E].
  - destruct L as [L _]. destruct (L E) as [-> ->]. cbn. split; [intros _; split; discriminate | intros _; discriminate].
  - split; [intros X; exfalso; apply X; reflexivity|]. intros [A B].
    destruct (p =? 0) eqn:Ep; [|exfalso; apply A; reflexivity]. destruct (q =? 0) eqn:Eq; [|exfalso; apply B; reflexivity].
    apply Z.eqb_eq in Ep, Eq. exfalso. apply E. apply L. split; assumption.
Qed.

(* executing the inserted instructions `%o = or P, Q ; %z = iszero %o` from a word state: the merged assertion
   `assert %z` fails exactly when P or Q is non-zero at that point *)
Theorem ac_merged_tail_partial lv env P Q nv m c c1 c2 : lv_ok lv -> cenv_ok c -> is_lab P = false -> is_lab Q = false ->
  (forall x, is_var x P = true \/ is_var x Q = true -> x <> nv /\ x <> N.succ nv) ->
  istep lv env (mkI "or" [P; Q] [nv]) c LTau c1 -> istep lv env (mkI "iszero" [OVar nv] [N.succ nv]) c1 LTau c2 ->
  (final_of lv (fst (nth 2 (merged_tail P Q nv m) (mkI "nop" [] [], 0%N))) c2 = Some ORevert0
   <-> (oval lv c P <> 0 \/ oval lv c Q <> 0)).
Proof.
  intros Hl Hc LP LQ Fr I1 I2. cbn [merged_tail nth fst].
  assert (S1 : sem_fun lv (mkI "or" [P; Q] [nv]) = Some (fun c => w_or (oval lv c Q) (oval lv c P))).
  { unfold sem_fun. cbn [i_args i_outs i_op has_label existsb]. rewrite LP, LQ. reflexivity. }
  assert (P1 : plain (mkI "or" [P; Q] [nv]) = true).
  { unfold plain, determined, sem_fun. cbn [i_args i_outs i_op has_label existsb]. rewrite LP, LQ. reflexivity. }
  destruct (istep_plain_inv lv env _ _ nv c LTau c1 P1 S1 eq_refl I1) as [_ [V1 F1]].
  assert (S2 : sem_fun lv (mkI "iszero" [OVar nv] [N.succ nv]) = Some (fun c => w_iszero (oval lv c (OVar nv)))) by reflexivity.
  assert (P2 : plain (mkI "iszero" [OVar nv] [N.succ nv]) = true) by reflexivity.
  destruct (istep_plain_inv lv env _ _ (N.succ nv) c1 LTau c2 P2 S2 eq_refl I2) as [_ [V2 F2]].
  rewrite final_of_assert. cbn [oval] in *. rewrite V2, V1.
  pose proof (oval_word lv c P Hl Hc) as WP. pose proof (oval_word lv c Q Hl Hc) as WQ.
  pose proof (ac_combined_assert_partial (oval lv c Q) (oval lv c P) ltac:(lia) ltac:(lia)) as K.
  destruct (w_iszero (w_or (oval lv c Q) (oval lv c P)) =? 0) eqn:E; [apply Z.eqb_eq in E | apply Z.eqb_neq in E].
  - split; [intros _ | reflexivity].
    destruct (Z.eq_dec (oval lv c P) 0) as [ZP|]; [|left; assumption].
    destruct (Z.eq_dec (oval lv c Q) 0) as [ZQ|]; [|right; assumption].
    exfalso. rewrite ZP, ZQ in E. discriminate E.
  - split; [discriminate|]. intros D. exfalso. apply K in E as [A B].
    apply w_iszero_nz_iff in A. apply w_iszero_nz_iff in B. destruct D; contradiction.
Qed.
