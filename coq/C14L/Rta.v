(* C14L -- model of RevertToAssert (vyper/venom/passes/revert_to_assert.py).
   A block that consists of the single instruction `revert 0, 0` is a revert block.  Every block that ends in
   `jnz cond, @then, @else` with a revert block as a target is rewritten:
     then is a revert block:  ... ; %t = iszero cond ; assert %t ; jmp @else         (%t fresh)
     else is a revert block:  ... ; assert cond ; jmp @then
   (when both are revert blocks the pass handles the one that comes first in block order; then first when equal).
   Fresh variables are numbered from `nv` in block order (the exporter numbers the new variables of the real output in
   order of appearance, which is the same order).  Definitions only. *)
From Coq Require Import ZArith NArith Bool List String.
From Verif Require Import Base.Word256 Base.PyInt C14.RangeBase C14.RangeFix C14L.Sem.
Import ListNotations.
Open Scope string_scope.
Open Scope Z_scope.

Definition is_lit0 (o : operand) : bool := match o with OLit v => v =? 0 | _ => false end.
Definition is_revert_block (blk : block) : bool :=
  match blk with [i] => String.eqb (i_op i) "revert" && forallb is_lit0 (i_args i) | _ => false end.
Definition is_rev (f : func) (l : N) : bool := is_revert_block (nth_block f l).

Inductive rta_kind := RKeep | RThen (cond : operand) (e : N) | RElse (cond : operand) (t : N).

Definition rta_decide (f : func) (blk : block) : rta_kind :=
  match term_of blk with
  | Some T =>
    if String.eqb (i_op T) "jnz" then
      match i_args T with
      | [cond; OLab t; OLab e] =>
        if is_lab cond then RKeep else
        let rt := is_rev f t in
        let re := is_rev f e in
        if rt && (negb re || (t <=? e)%N) then RThen cond e
        else if re then RElse cond t else RKeep
      | _ => RKeep
      end
    else RKeep
  | None => RKeep
  end.

Definition then_tail (cond : operand) (x e : N) : list inst :=
  [mkI "iszero" [cond] [x]; mkI "assert" [OVar x] []; mkI "jmp" [OLab e] []].
Definition else_tail (cond : operand) (t : N) : list inst :=
  [mkI "assert" [cond] []; mkI "jmp" [OLab t] []].

Definition rta_block (f : func) (nv : N) (blk : block) : block * N :=
  match rta_decide f blk with
  | RKeep => (blk, nv)
  | RThen cond e => ((removelast blk ++ then_tail cond nv e)%list, N.succ nv)
  | RElse cond t => ((removelast blk ++ else_tail cond t)%list, nv)
  end.

Fixpoint rta_blocks (f : func) (nv : N) (l : list block) : list block :=
  match l with
  | [] => []
  | blk :: t => let r := rta_block f nv blk in fst r :: rta_blocks f (snd r) t
  end.

Definition rta_pass (f : func) (nv : N) : func := rta_blocks f nv f.
