(* C14L -- model of ReduceLiteralsCodesize (vyper/venom/passes/literals_codesize.py).  The decision kernel
   `lit_decide` is the py2coq translation of the loop body of `_process_bb` (GenLit.v, regenerated on every run);
   this file only adds the (trivial) traversal: every `%o = <literal>` is looked at, nothing else.  Definitions only. *)
From Coq Require Import ZArith NArith Bool List String.
From Verif Require Import Base.Word256 Base.PyInt C14.RangeBase C14.RangeFix C14L.LitBase C14L.GenLit C14L.Sem.
Import ListNotations.
Open Scope string_scope.
Open Scope Z_scope.

Definition lit_inst (ins : inst) : res inst :=
  if String.eqb (i_op ins) "assign" then
    match i_args ins, i_outs ins with
    | [OLit v], [o] =>
      r <- lit_decide v ;;
      match r with
      | (k, a, b) =>
        if k =? 1 then Ok (mkI "not" [OLit a] [o])
        else if k =? 2 then Ok (mkI "shl" [OLit a; OLit b] [o])
        else Ok ins
      end
    | _, _ => Ok ins
    end
  else Ok ins.

Fixpoint mapM {A B} (g : A -> res B) (l : list A) : res (list B) :=
  match l with
  | [] => Ok []
  | x :: t => y <- g x ;; t' <- mapM g t ;; Ok (y :: t')
  end.

Definition lit_pass (f : func) : res func := mapM (mapM lit_inst) f.

(* harness: encode the decision for printing *)
Definition enc_decide (v : Z) : list Z :=
  match lit_decide v with Ok (k, a, b) => [k; a; b] | Err _ => [-1; 0; 0] end.
