(* C14L -- AssertCombinerPass: one merge step of the model (AssertComb.ac_find) preserves behaviour.
   Part 1: operational facts about safe instructions, soundness of the predicate lookup. *)
From Coq Require Import ZArith NArith Bool List String Lia Relations.
From Verif Require Import Base.Word256 Base.PyInt C14.RangeBase C14.RangeFix C14.RangeFixProofs C14.WordClosed
  C14L.Sem C14L.SemProofs C14L.Pointwise C14L.Steps C14L.Rta C14L.RtaProofs C14L.SegRepl C14L.AssertComb.
Import ListNotations.
Open Scope string_scope.
Open Scope Z_scope.

Lemma word_op_names op w : word_op op = Some w ->
  In op ["add"; "sub"; "mul"; "and"; "or"; "xor"; "byte"; "signextend"; "mod"; "div"; "sdiv"; "smod"; "shr"; "shl"; "sar";
         "eq"; "lt"; "gt"; "slt"; "sgt"; "iszero"; "not"].
Proof.
  unfold word_op.
  repeat match goal with
  | |- (if String.eqb op ?s then _ else _) = _ -> _ =>
      let E := fresh "E" in destruct (String.eqb op s) eqn:E; [apply String.eqb_eq in E; subst op; intros _; cbn; tauto|]
  end. discriminate.
Qed.

Lemma determined_plain ins : determined ins = true -> plain ins = true.
Proof.
  intros D. unfold plain. rewrite D. cbn [andb].
  assert (K : i_op ins = "assign" \/ exists w, word_op (i_op ins) = Some w).
  { revert D. unfold determined, sem_fun. destruct (has_label (i_args ins)); [discriminate|].
    destruct (i_outs ins) as [|o [|? ?]]; try discriminate.
    destruct (String.eqb (i_op ins) "assign") eqn:E; [left; apply String.eqb_eq; exact E|].
    destruct (word_op (i_op ins)) as [w|]; [right; eexists; reflexivity | discriminate]. }
  unfold is_jump, is_pure_env, is_phi.
  destruct K as [->|[w Hw]]; [reflexivity|].
  apply word_op_names in Hw. cbn in Hw.
  repeat (destruct Hw as [<-|Hw]; [reflexivity|]). contradiction.
Qed.

Lemma sem_fun_none_lv lv lv' ins : sem_fun lv ins = None -> sem_fun lv' ins = None.
Proof.
  unfold sem_fun. destruct (has_label (i_args ins)); [reflexivity|].
  destruct (i_outs ins) as [|o [|? ?]]; try reflexivity.
  destruct (String.eqb (i_op ins) "assign").
  { destruct (i_args ins) as [|a [|? ?]]; try reflexivity. discriminate. }
  destruct (word_op (i_op ins)); [|reflexivity].
  destruct (is_unary (i_op ins)).
  { destruct (i_args ins) as [|a [|? ?]]; try reflexivity. discriminate. }
  destruct (i_args ins) as [|a2 [|a1 [|? ?]]]; try reflexivity. discriminate.
Qed.

Lemma not_determined_none lv ins : determined ins = false -> sem_fun lv ins = None.
Proof.
  unfold determined. destruct (sem_fun (fun _ => 0) ins) eqn:E; [discriminate|]. intros _.
  eapply sem_fun_none_lv. exact E.
Qed.

(* a safe instruction is silent, never final, never a jump *)
Lemma safe_facts lv ins c : ac_safe ins = true ->
  silent ins = true /\ final_of lv ins c = None /\ is_jump ins = false /\ is_phi ins = false.
Proof.
  unfold ac_safe. intros H. apply andb_prop in H as [S N]. apply negb_true_iff in N.
  split; [exact S|].
  unfold silent in S.
  destruct (determined ins) eqn:D.
  { pose proof (determined_plain ins D) as P. pose proof (plain_final lv ins c P) as F. plain_split P.
    split; [exact F | split; assumption]. }
  cbn [orb] in S.
  assert (K : In (i_op ins) (pure_env_ops ++ quiet_havoc_ops ++ ["nop"])).
  { unfold is_pure_env, mem_str in S. unfold mem_str in N.
    repeat rewrite orb_true_iff in S. destruct S as [[S|S]|S].
    - apply existsb_exists in S as [x [Ix Ex]]. apply String.eqb_eq in Ex. subst x. apply in_or_app. left. exact Ix.
    - apply existsb_exists in S as [x [Ix Ex]]. apply String.eqb_eq in Ex. subst x. apply in_or_app. right. apply in_or_app. left. exact Ix.
    - apply existsb_exists in S as [x [Ix Ex]]. apply String.eqb_eq in Ex. subst x.
      cbn in Ix. destruct Ix as [E|[E|[E|[]]]].
      + rewrite <- E. apply in_or_app. right. apply in_or_app. right. left. reflexivity.
      + rewrite <- E in N. discriminate N.
      + rewrite <- E in N. discriminate N. }
  unfold final_of, is_jump, is_phi. cbn in K.
  repeat (destruct K as [<-|K]; [split; [reflexivity | split; reflexivity]|]). contradiction.
Qed.

(* a safe instruction can always be executed (silently) from a word state *)
Lemma safe_progress lv env ins c : lv_ok lv -> env_ok env -> cenv_ok c -> ac_safe ins = true ->
  exists c', istep lv env ins c LTau c'.
Proof.
  intros Hl He Hc S. destruct (safe_facts lv ins c S) as [Si [Fn [Nj _]]].
  destruct (determined ins) eqn:D.
  - pose proof (determined_plain ins D) as P. destruct (determined_some lv ins D) as [g Sg].
    destruct (determined_outs ins D) as [o Ho]. eexists. exact (istep_plain lv env ins g o c Hl Hc P Sg Ho).
  - pose proof (not_determined_none lv ins D) as Sn.
    set (v := if is_pure_env ins then env (i_op ins) (map (oval lv c) (i_args ins)) else 0).
    assert (Hv : 0 <= v < W) by (unfold v; destruct (is_pure_env ins); [apply He | split; [lia | reflexivity]]).
    exists (fun x => if in_outs x (i_outs ins) then v else c x).
    split; [split; [|split; [|split]]|split; [|split; [|split]]].
    + intros x Hx. destruct (in_outs x (i_outs ins)) eqn:E; [apply in_outs_In in E; contradiction | reflexivity].
    + intros x Hx. apply in_outs_In in Hx. rewrite Hx. exact Hv.
    + intros g o Sg. rewrite Sn in Sg. discriminate.
    + intros Ha a Ea. unfold ac_safe in S. apply andb_prop in S as [_ S]. apply negb_true_iff in S.
      cbn in S. rewrite Ha in S. discriminate.
    + exact Fn.
    + exact Nj.
    + intros Pe o Ho. rewrite Ho. cbn [in_outs existsb]. rewrite N.eqb_refl. cbn [orb]. unfold v. rewrite Pe. reflexivity.
    + rewrite Si. reflexivity.
Qed.

Lemma safe_label lv env ins c l c' : ac_safe ins = true -> istep lv env ins c l c' -> l = LTau.
Proof.
  intros S [_ [_ [_ [_ L]]]]. destruct (safe_facts lv ins c S) as [Si _]. rewrite Si in L. exact L.
Qed.

Lemma istep_frame lv env ins c l c' x : istep lv env ins c l c' -> ~ In x (i_outs ins) -> c' x = c x.
Proof. intros [[Hk _] _] Hx. apply Hk. exact Hx. Qed.

(* ------------------------------------------------------------------ the predicate lookup *)
Lemma fact_iszero lv c t p : fact_holds lv c (t, ("iszero", [p])) -> is_lab p = false /\ c t = w_iszero (oval lv c p).
Proof.
  intros [g [Sg Eg]]. cbn [fst snd] in *. unfold sem_fun in Sg. cbn [i_args i_outs i_op has_label existsb] in Sg.
  destruct (is_lab p) eqn:L; [cbn in Sg; discriminate|]. cbn in Sg. injection Sg as <-. split; [reflexivity | exact Eg].
Qed.

Lemma fact_assign lv c t a : fact_holds lv c (t, ("assign", [a])) -> c t = oval lv c a.
Proof.
  intros [g [Sg Eg]]. cbn [fst snd] in *. unfold sem_fun in Sg. cbn [i_args i_outs i_op has_label existsb] in Sg.
  destruct (is_lab a) eqn:L; [cbn in Sg; discriminate|]. cbn in Sg. injection Sg as <-. exact Eg.
Qed.

Lemma iszero_pred_sound lv c F : Forall (fact_holds lv c) F -> forall n o P, iszero_pred n F o = Some P ->
  is_lab P = false /\ oval lv c o = w_iszero (oval lv c P).
Proof.
  intros HF. induction n as [|n IH]; intros o P H; [discriminate|]. cbn [iszero_pred] in H.
  destruct o as [v|x|l]; try discriminate.
  destruct (find_fact F x) as [[op args]|] eqn:E; [|discriminate].
  apply find_fact_In in E. rewrite Forall_forall in HF. specialize (HF _ E).
  destruct (String.eqb op "assign") eqn:Ea.
  - apply String.eqb_eq in Ea. subst op. destruct args as [|a [|? ?]]; try discriminate.
    destruct (IH a P H) as [L V]. split; [exact L|]. cbn [oval]. rewrite (fact_assign lv c x a HF). exact V.
  - destruct (String.eqb op "iszero") eqn:Ei; [|discriminate]. apply String.eqb_eq in Ei. subst op.
    destruct args as [|p [|? ?]]; try discriminate. destruct p as [v|y|l]; try discriminate; injection H as <-;
      destruct (fact_iszero lv c x _ HF) as [L V]; (split; [exact L | cbn [oval]; exact V]).
Qed.

Lemma pred_sound lv c F t P : Forall (fact_holds lv c) F -> pred_of F (OVar t) = Some P ->
  is_lab P = false /\ c t = w_iszero (oval lv c P).
Proof. intros HF H. exact (iszero_pred_sound lv c F HF _ _ _ H). Qed.

(* ------------------------------------------------------------------ Part 2: shape of a successful merge step *)
Lemma operand_eqb_eq a b : operand_eqb a b = true -> a = b.
Proof.
  destruct a, b; cbn; try discriminate; intros H; first [apply Z.eqb_eq in H | apply N.eqb_eq in H]; subst; reflexivity.
Qed.

Lemma ac_scan_acc P ta m nv : forall l F acc,
  ac_scan F P ta m nv acc l = option_map (fun r => ((rev acc ++ fst r)%list, snd r)) (ac_scan F P ta m nv [] l).
Proof.
  induction l as [|[j mj] t IH]; intros F acc; cbn [ac_scan]; [reflexivity|].
  destruct (String.eqb (i_op j) "assert").
  - destruct (i_args j) as [|[?|tb|?] [|? ?]]; try reflexivity. destruct (i_outs j); [|reflexivity].
    destruct (pred_of F (OVar tb)); [|reflexivity]. destruct (pred_of F (OVar ta)); [|reflexivity].
    destruct (N.eqb mj m && operand_eqb P o0 && op_below nv P && op_below nv o); [|reflexivity].
    destruct (operand_eqb P o); reflexivity.
  - destruct (ac_safe j && negb (kills (i_outs j) ta P)); [|reflexivity].
    rewrite (IH (facts_step F j) ((j, mj) :: acc)). match goal with |- _ = option_map _ (ac_scan ?F2 _ _ _ _ ?a2 t) => rewrite (IH F2 a2) end.
    destruct (ac_scan (facts_step F j) P ta m nv [] t) as [[r k]|]; cbn [option_map fst snd rev app]; [|reflexivity].
    rewrite <- app_assoc. reflexivity.
Qed.

Definition safe_item (ta : N) (P : operand) (it : itm) : Prop :=
  ac_safe (fst it) = true /\ kills (i_outs (fst it)) ta P = false.

Lemma ac_scan_split P ta m nv : forall l F l' k, ac_scan F P ta m nv [] l = Some (l', k) ->
  exists Sx j tb Q post X,
    l = (Sx ++ (j, m) :: post)%list /\ l' = (Sx ++ X ++ post)%list /\
    i_op j = "assert" /\ i_args j = [OVar tb] /\ i_outs j = [] /\
    Forall (safe_item ta P) Sx /\
    pred_of (fold_left facts_step (map fst Sx) F) (OVar tb) = Some Q /\
    pred_of (fold_left facts_step (map fst Sx) F) (OVar ta) = Some P /\
    op_below nv P = true /\ op_below nv Q = true /\
    ((P = Q /\ X = [(j, m)] /\ k = 0%N) \/ (operand_eqb P Q = false /\ X = merged_tail P Q nv m /\ k = 2%N)).
Proof.
  induction l as [|[j mj] t IH]; intros F l' k H; cbn [ac_scan] in H; [discriminate|].
  destruct (String.eqb (i_op j) "assert") eqn:Eo.
  - apply String.eqb_eq in Eo.
    destruct (i_args j) as [|[?|tb|?] [|? ?]] eqn:Ea; try discriminate. destruct (i_outs j) eqn:Eu; [|discriminate].
    destruct (pred_of F (OVar tb)) as [Q|] eqn:Pb; [|discriminate]. destruct (pred_of F (OVar ta)) as [P'|] eqn:Pa; [|discriminate].
    destruct (N.eqb mj m && operand_eqb P P' && op_below nv P && op_below nv Q) eqn:G; [|discriminate].
    apply andb_prop in G as [G G4]. apply andb_prop in G as [G G3]. apply andb_prop in G as [G1 G2].
    apply N.eqb_eq in G1. apply operand_eqb_eq in G2. subst mj P'.
    exists [], j, tb, Q, t. cbn [app map fold_left rev] in *.
    destruct (operand_eqb P Q) eqn:E.
    + injection H as <- <-. exists [(j, m)]. apply operand_eqb_eq in E.
      repeat (split; [first [reflexivity | assumption | constructor]|]). left. repeat split; assumption.
    + injection H as <- <-. exists (merged_tail P Q nv m).
      repeat (split; [first [reflexivity | assumption | constructor]|]). right. repeat split; assumption.
  - destruct (ac_safe j && negb (kills (i_outs j) ta P)) eqn:G; [|discriminate].
    apply andb_prop in G as [G1 G2]. apply negb_true_iff in G2.
    rewrite ac_scan_acc in H.
    destruct (ac_scan (facts_step F j) P ta m nv [] t) as [[r k']|] eqn:E; [|discriminate].
    cbn [option_map fst snd rev app] in H. injection H as <- <-.
    destruct (IH (facts_step F j) r k' E) as [Sx [j' [tb [Q [post [X [E1 [E2 R]]]]]]]].
    exists ((j, mj) :: Sx), j', tb, Q, post, X. cbn [app map fold_left].
    split; [rewrite E1; reflexivity|]. split; [rewrite E2; reflexivity|].
    destruct R as [R1 [R2 [R3 [R4 R5]]]]. repeat (split; [assumption|]).
    split; [constructor; [split; assumption | exact R4]|]. exact R5.
Qed.

Lemma ac_find_split nv : forall its F its' k, ac_find F nv its = Some (its', k) ->
  exists preI a m ta P l l',
    its = (preI ++ (a, m) :: l)%list /\ its' = (preI ++ l')%list /\
    i_op a = "assert" /\ i_args a = [OVar ta] /\ i_outs a = [] /\
    pred_of (fold_left facts_step (map fst preI) F) (OVar ta) = Some P /\
    ac_scan (facts_step (fold_left facts_step (map fst preI) F) a) P ta m nv [] l = Some (l', k).
Proof.
  induction its as [|[i m] t IH]; intros F its' k H; cbn [ac_find] in H; [discriminate|].
  set (here := if String.eqb (i_op i) "assert" then
                 match i_args i, i_outs i with
                 | [OVar ta], [] => match pred_of F (OVar ta) with Some P => ac_scan (facts_step F i) P ta m nv [] t | None => None end
                 | _, _ => None
                 end else None) in *.
  destruct here as [r|] eqn:Eh.
  - injection H as H. subst r. subst here.
    destruct (String.eqb (i_op i) "assert") eqn:Eo; [|discriminate]. apply String.eqb_eq in Eo.
    destruct (i_args i) as [|[?|ta|?] [|? ?]] eqn:Ea; try discriminate. destruct (i_outs i) eqn:Eu; [|discriminate].
    destruct (pred_of F (OVar ta)) as [P|] eqn:Pa; [|discriminate].
    exists [], i, m, ta, P, t, its'. cbn [app map fold_left].
    repeat (split; [first [reflexivity | assumption]|]). exact Eh.
  - destruct (ac_find (facts_step F i) nv t) as [[t' k']|] eqn:E; [|discriminate]. injection H as <- <-.
    destruct (IH _ _ _ E) as [preI [a [m' [ta [P [l [l' [E1 [E2 R]]]]]]]]].
    exists ((i, m) :: preI), a, m', ta, P, l, l'. cbn [app map fold_left].
    split; [rewrite E1; reflexivity|]. split; [rewrite E2; reflexivity|]. exact R.
Qed.

(* ------------------------------------------------------------------ Part 3: big-step behaviour of the two segments *)
Lemma seg_exec_app_inv lv env s1 : forall s2 c c2, seg_exec lv env (s1 ++ s2) c c2 ->
  exists c1, seg_exec lv env s1 c c1 /\ seg_exec lv env s2 c1 c2.
Proof.
  induction s1 as [|i t IH]; intros s2 c c2 H; cbn [app] in H.
  - exists c. split; [constructor | exact H].
  - inversion H as [|? ? ? c1 ? I R]; subst. destruct (IH _ _ _ R) as [c1' [A B]].
    exists c1'. split; [econstructor; eassumption | exact B].
Qed.

Lemma seg_fin_app_inv lv env s1 : forall s2 c o, seg_fin lv env (s1 ++ s2) c o ->
  seg_fin lv env s1 c o \/ exists c1, seg_exec lv env s1 c c1 /\ seg_fin lv env s2 c1 o.
Proof.
  induction s1 as [|i t IH]; intros s2 c o H; cbn [app] in H.
  - right. exists c. split; [constructor | exact H].
  - inversion H as [? ? ? ? F | ? ? ? c1 ? I R]; subst.
    + left. apply sf_here. exact F.
    + destruct (IH _ _ _ R) as [L | [c1' [A B]]].
      * left. eapply sf_later; eassumption.
      * right. exists c1'. split; [econstructor; eassumption | exact B].
Qed.

Lemma seg_exec_agree nv lv env s : forallb (inst_below nv) s = true -> forall c c2 cn, agree nv c cn ->
  seg_exec lv env s c c2 -> exists c2n, seg_exec lv env s cn c2n /\ agree nv c2 c2n.
Proof.
  induction s as [|i t IH]; intros B c c2 cn A H; inversion H as [|? ? ? c1 ? I R]; subst.
  - exists cn. split; [constructor | exact A].
  - cbn in B. apply andb_prop in B as [Bi Bt].
    destruct (istep_agree nv lv env i c LTau c1 cn Bi A I) as [I' A'].
    destruct (IH Bt _ _ _ A' R) as [c2n [X A2]]. exists c2n. split; [econstructor; eassumption | exact A2].
Qed.

Lemma seg_exec_facts lv env s : forall F c c2, Forall (fact_holds lv c) F -> seg_exec lv env s c c2 ->
  Forall (fact_holds lv c2) (fold_left facts_step s F).
Proof.
  induction s as [|i t IH]; intros F c c2 HF H; inversion H as [|? ? ? c1 ? I R]; subst; cbn [fold_left]; [exact HF|].
  apply (IH _ c1 c2); [|exact R]. destruct I as [SC _]. eapply facts_step_sound; eassumption.
Qed.

Lemma seg_exec_frame lv env s x : (forall i, In i s -> ~ In x (i_outs i)) -> forall c c2, seg_exec lv env s c c2 -> c2 x = c x.
Proof.
  induction s as [|i t IH]; intros Hx c c2 H; inversion H as [|? ? ? c1 ? I R]; subst; [reflexivity|].
  rewrite (IH (fun j Hj => Hx j (or_intror Hj)) _ _ R). eapply istep_frame; [exact I | apply Hx; left; reflexivity].
Qed.

Lemma safe_exec_progress lv env s : lv_ok lv -> env_ok env -> Forall (fun i => ac_safe i = true) s ->
  forall c, cenv_ok c -> exists c2, seg_exec lv env s c c2.
Proof.
  intros Hl He. induction 1 as [|i t Si _ IH]; intros c Hc; [exists c; constructor|].
  destruct (safe_progress lv env i c Hl He Hc Si) as [c1 I].
  destruct (IH c1 (istep_cenv_ok lv env i c LTau c1 Hc I)) as [c2 X]. exists c2. econstructor; eassumption.
Qed.

Lemma safe_no_fin lv env s : Forall (fun i => ac_safe i = true) s -> forall c o, seg_fin lv env s c o -> False.
Proof.
  induction 1 as [|i t Si _ IH]; intros c o H; inversion H as [? ? ? ? F | ? ? ? c1 ? I R]; subst.
  - destruct (safe_facts lv i c Si) as [_ [Fn _]]. congruence.
  - eapply IH; eassumption.
Qed.

Lemma w_or_zero a b : 0 <= a -> 0 <= b -> (w_or a b = 0 <-> a = 0 /\ b = 0).
Proof. intros _ _. unfold w_or. apply Z.lor_eq_0_iff. Qed.

Section AcSeg.
  Variable lv : N -> Z.
  Variable env : string -> list Z -> Z.
  Variable nv : N.
  Variable Fa : list fact.
  Variable ta tb : N.
  Variable P Q : operand.
  Variable SxI : list itm.
  Variable m : N.
  Hypothesis LV : lv_ok lv.
  Hypothesis EV : env_ok env.
  Let Sx := map fst SxI.
  Let a := mkI "assert" [OVar ta] [].
  Let j := mkI "assert" [OVar tb] [].
  Let Fb := fold_left facts_step Sx Fa.
  Hypothesis HS : Forall (safe_item ta P) SxI.
  Hypothesis Hpb : pred_of Fb (OVar tb) = Some Q.
  Hypothesis Hpa : pred_of Fb (OVar ta) = Some P.
  Hypothesis BP : op_below nv P = true.
  Hypothesis BQ : op_below nv Q = true.
  Hypothesis Bta : (ta < nv)%N.
  Hypothesis Btb : (tb < nv)%N.
  Hypothesis BS : forallb (inst_below nv) Sx = true.

  Definition Jseg (c : cenv) : Prop := Forall (fact_holds lv c) Fa.

  Lemma Sx_safe : Forall (fun i => ac_safe i = true) Sx.
  Proof.
    apply Forall_forall. intros i Hi. unfold Sx in Hi. apply in_map_iff in Hi as [it [<- Hit]].
    rewrite Forall_forall in HS. exact (proj1 (HS it Hit)).
  Qed.

  Lemma Sx_keeps c c2 : seg_exec lv env Sx c c2 -> c2 ta = c ta /\ oval lv c2 P = oval lv c P.
  Proof.
    intros X.
    assert (K : forall i, In i Sx -> kills (i_outs i) ta P = false).
    { intros i Hi. unfold Sx in Hi. apply in_map_iff in Hi as [it [<- Hit]].
      rewrite Forall_forall in HS. exact (proj2 (HS it Hit)). }
    split.
    - apply (seg_exec_frame lv env Sx ta); [|exact X]. intros i Hi Hin. specialize (K i Hi).
      unfold kills in K. assert (existsb (fun o => N.eqb o ta || is_var o P) (i_outs i) = true); [|congruence].
      apply existsb_exists. exists ta. split; [exact Hin | rewrite N.eqb_refl; reflexivity].
    - destruct P as [v|x|l]; cbn [oval]; try reflexivity.
      apply (seg_exec_frame lv env Sx x); [|exact X]. intros i Hi Hin. specialize (K i Hi).
      unfold kills in K. assert (existsb (fun o => N.eqb o ta || is_var o (OVar x)) (i_outs i) = true); [|congruence].
      apply existsb_exists. exists x. split; [exact Hin | cbn; rewrite N.eqb_refl; apply orb_true_r].
  Qed.

  (* after S, from a state satisfying the facts at the first assertion *)
  Lemma after_S c c2 : Jseg c -> seg_exec lv env Sx c c2 ->
    is_lab P = false /\ is_lab Q = false /\ c2 ta = w_iszero (oval lv c2 P) /\ c2 tb = w_iszero (oval lv c2 Q) /\
    c2 ta = c ta.
  Proof.
    intros Jc X. pose proof (seg_exec_facts lv env Sx Fa c c2 Jc X) as FB. fold Fb in FB.
    destruct (pred_sound lv c2 Fb ta P FB Hpa) as [LP VP]. destruct (pred_sound lv c2 Fb tb Q FB Hpb) as [LQ VQ].
    destruct (Sx_keeps c c2 X) as [Kt _]. repeat split; assumption.
  Qed.

  Definition Xmerged : list inst := map fst (merged_tail P Q nv m).

  Lemma below_oval_set c x v o : op_below nv o = true -> (nv <= x)%N -> oval lv (set_var c x v) o = oval lv c o.
  Proof.
    intros B Hx. destruct o as [?|y|?]; cbn [oval]; try reflexivity. cbn in B. apply N.ltb_lt in B.
    apply set_var_other. lia.
  Qed.

  (* the inserted instructions: value of the merged flag *)
  Lemma merged_exec c : cenv_ok c -> is_lab P = false -> is_lab Q = false ->
    exists c1 c2, istep lv env (mkI "or" [P; Q] [nv]) c LTau c1 /\
                  istep lv env (mkI "iszero" [OVar nv] [N.succ nv]) c1 LTau c2 /\
                  c2 (N.succ nv) = w_iszero (w_or (oval lv c Q) (oval lv c P)) /\
                  agree nv c c2 /\ cenv_ok c2.
  Proof.
    intros Hc LP LQ.
    assert (S1 : sem_fun lv (mkI "or" [P; Q] [nv]) = Some (fun c => w_or (oval lv c Q) (oval lv c P))).
    { unfold sem_fun. cbn [i_args i_outs i_op has_label existsb]. rewrite LP, LQ. reflexivity. }
    assert (P1 : plain (mkI "or" [P; Q] [nv]) = true).
    { unfold plain, determined, sem_fun. cbn [i_args i_outs i_op has_label existsb]. rewrite LP, LQ. reflexivity. }
    pose proof (istep_plain lv env _ _ nv c LV Hc P1 S1 eq_refl) as I1.
    set (c1 := set_var c nv (w_or (oval lv c Q) (oval lv c P))) in *.
    assert (Hc1 : cenv_ok c1) by exact (istep_cenv_ok lv env _ c LTau c1 Hc I1).
    assert (S2 : sem_fun lv (mkI "iszero" [OVar nv] [N.succ nv]) = Some (fun c => w_iszero (oval lv c (OVar nv)))) by reflexivity.
    assert (P2 : plain (mkI "iszero" [OVar nv] [N.succ nv]) = true) by reflexivity.
    pose proof (istep_plain lv env _ _ (N.succ nv) c1 LV Hc1 P2 S2 eq_refl) as I2.
    exists c1, (set_var c1 (N.succ nv) (w_iszero (oval lv c1 (OVar nv)))).
    split; [exact I1 | split; [exact I2 | split; [|split]]].
    - rewrite set_var_same. cbn [oval]. unfold c1. rewrite set_var_same. reflexivity.
    - intros x Hx. rewrite set_var_other by lia. unfold c1. rewrite set_var_other by lia. reflexivity.
    - exact (istep_cenv_ok lv env _ c1 LTau _ Hc1 I2).
  Qed.

  Lemma merged_inv c c' : is_lab P = false -> is_lab Q = false -> seg_exec lv env (firstn 2 Xmerged) c c' ->
    c' (N.succ nv) = w_iszero (w_or (oval lv c Q) (oval lv c P)) /\ agree nv c c'.
  Proof.
    intros LP LQ X. unfold Xmerged in X. cbn [merged_tail map fst firstn] in X.
    inversion X as [|? ? ? c1 ? I1 R1]; subst. inversion R1 as [|? ? ? c2 ? I2 R2]; subst. inversion R2; subst.
    assert (S1 : sem_fun lv (mkI "or" [P; Q] [nv]) = Some (fun c => w_or (oval lv c Q) (oval lv c P))).
    { unfold sem_fun. cbn [i_args i_outs i_op has_label existsb]. rewrite LP, LQ. reflexivity. }
    assert (P1 : plain (mkI "or" [P; Q] [nv]) = true).
    { unfold plain, determined, sem_fun. cbn [i_args i_outs i_op has_label existsb]. rewrite LP, LQ. reflexivity. }
    destruct (istep_plain_inv lv env _ _ nv c LTau c1 P1 S1 eq_refl I1) as [_ [V1 F1]].
    assert (S2 : sem_fun lv (mkI "iszero" [OVar nv] [N.succ nv]) = Some (fun c => w_iszero (oval lv c (OVar nv)))) by reflexivity.
    assert (P2 : plain (mkI "iszero" [OVar nv] [N.succ nv]) = true) by reflexivity.
    destruct (istep_plain_inv lv env _ _ (N.succ nv) c1 LTau c' P2 S2 eq_refl I2) as [_ [V2 F2]].
    split.
    - rewrite V2. cbn [oval]. rewrite V1. reflexivity.
    - intros x Hx. rewrite F2 by lia. rewrite F1 by lia. reflexivity.
  Qed.
End AcSeg.
