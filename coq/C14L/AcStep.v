(* C14L -- AssertCombinerPass: one merge step of the model (AssertComb.ac_find) preserves behaviour.
   Part 1: operational facts about safe instructions, soundness of the predicate lookup. *)
From Coq Require Import ZArith NArith Bool List String Lia Relations.
From Verif Require Import Base.Word256 Base.PyInt C14.RangeBase C14.RangeFix C14.RangeFixProofs C14.WordClosed
  C14L.Sem C14L.SemProofs C14L.Pointwise C14L.Steps C14L.Rta C14L.RtaProofs C14L.SegRepl C14L.AssertComb.
Import ListNotations.
Open Scope string_scope.
Open Scope Z_scope.

Lemma word_op_names op w : word_op op = Some w ->
  In op ["add"; "sub"; "mul"; "and"; "or"; "xor"; "byte"; "signextend"; "mod"; "div"; "sdiv"; "smod"; "shr"; "shl"; "sar";
         "eq"; "lt"; "gt"; "slt"; "sgt"; "iszero"; "not"].
Proof.
  unfold word_op.
  repeat match goal with
  | |- (if String.eqb op ?s then _ else _) = _ -> _ =>
      let E := fresh "E" in destruct (String.eqb op s) eqn:E; [apply String.eqb_eq in E; subst op; intros _; cbn; tauto|]
  end. discriminate.
Qed.

Lemma determined_plain ins : determined ins = true -> plain ins = true.
Proof.
  intros D. unfold plain. rewrite D. cbn [andb].
  assert (K : i_op ins = "assign" \/ exists w, word_op (i_op ins) = Some w).
  { revert D. unfold determined, sem_fun. destruct (has_label (i_args ins)); [discriminate|].
    destruct (i_outs ins) as [|o [|? ?]]; try discriminate.
    destruct (String.eqb (i_op ins) "assign") eqn:E; [left; apply String.eqb_eq; exact E|].
    destruct (word_op (i_op ins)) as [w|]; [right; eexists; reflexivity | discriminate]. }
  unfold is_jump, is_pure_env, is_phi.
  destruct K as [->|[w Hw]]; [reflexivity|].
  apply word_op_names in Hw. cbn in Hw.
  repeat (destruct Hw as [<-|Hw]; [reflexivity|]). contradiction.
Qed.

Lemma sem_fun_none_lv lv lv' ins : sem_fun lv ins = None -> sem_fun lv' ins = None.
Proof.
  unfold sem_fun. destruct (has_label (i_args ins)); [reflexivity|].
  destruct (i_outs ins) as [|o [|? ?]]; try reflexivity.
  destruct (String.eqb (i_op ins) "assign").
  { destruct (i_args ins) as [|a [|? ?]]; try reflexivity. discriminate. }
  destruct (word_op (i_op ins)); [|reflexivity].
  destruct (is_unary (i_op ins)).
  { destruct (i_args ins) as [|a [|? ?]]; try reflexivity. discriminate. }
  destruct (i_args ins) as [|a2 [|a1 [|? ?]]]; try reflexivity. discriminate.
Qed.

Lemma not_determined_none lv ins : determined ins = false -> sem_fun lv ins = None.
Proof.
  unfold determined. destruct (sem_fun (fun _ => 0) ins) eqn:E; [discriminate|]. intros _.
  eapply sem_fun_none_lv. exact E.
Qed.

(* a safe instruction is silent, never final, never a jump *)
Lemma safe_facts lv ins c : ac_safe ins = true ->
  silent ins = true /\ final_of lv ins c = None /\ is_jump ins = false /\ is_phi ins = false.
Proof.
  unfold ac_safe. intros H. apply andb_prop in H as [S N]. apply negb_true_iff in N.
  split; [exact S|].
  unfold silent in S.
  destruct (determined ins) eqn:D.
  { pose proof (determined_plain ins D) as P. pose proof (plain_final lv ins c P) as F. plain_split P.
    split; [exact F | split; assumption]. }
  cbn [orb] in S.
  assert (K : In (i_op ins) (pure_env_ops ++ quiet_havoc_ops ++ ["nop"])).
  { unfold is_pure_env, mem_str in S. unfold mem_str in N.
    repeat rewrite orb_true_iff in S. destruct S as [[S|S]|S].
    - apply existsb_exists in S as [x [Ix Ex]]. apply String.eqb_eq in Ex. subst x. apply in_or_app. left. exact Ix.
    - apply existsb_exists in S as [x [Ix Ex]]. apply String.eqb_eq in Ex. subst x. apply in_or_app. right. apply in_or_app. left. exact Ix.
    - apply existsb_exists in S as [x [Ix Ex]]. apply String.eqb_eq in Ex. subst x.
      cbn in Ix. destruct Ix as [E|[E|[E|[]]]].
      + rewrite <- E. apply in_or_app. right. apply in_or_app. right. left. reflexivity.
      + rewrite <- E in N. discriminate N.
      + rewrite <- E in N. discriminate N. }
  unfold final_of, is_jump, is_phi. cbn in K.
  repeat (destruct K as [<-|K]; [split; [reflexivity | split; reflexivity]|]). contradiction.
Qed.

(* a safe instruction can always be executed (silently) from a word state *)
Lemma safe_progress lv env ins c : lv_ok lv -> env_ok env -> cenv_ok c -> ac_safe ins = true ->
  exists c', istep lv env ins c LTau c'.
Proof.
  intros Hl He Hc S. destruct (safe_facts lv ins c S) as [Si [Fn [Nj _]]].
  destruct (determined ins) eqn:D.
  - pose proof (determined_plain ins D) as P. destruct (determined_some lv ins D) as [g Sg].
    destruct (determined_outs ins D) as [o Ho]. eexists. exact (istep_plain lv env ins g o c Hl Hc P Sg Ho).
  - pose proof (not_determined_none lv ins D) as Sn.
    set (v := if is_pure_env ins then env (i_op ins) (map (oval lv c) (i_args ins)) else 0).
    assert (Hv : 0 <= v < W) by (unfold v; destruct (is_pure_env ins); [apply He | split; [lia | reflexivity]]).
    exists (fun x => if in_outs x (i_outs ins) then v else c x).
    split; [split; [|split; [|split]]|split; [|split; [|split]]].
    + intros x Hx. destruct (in_outs x (i_outs ins)) eqn:E; [apply in_outs_In in E; contradiction | reflexivity].
    + intros x Hx. apply in_outs_In in Hx. rewrite Hx. exact Hv.
    + intros g o Sg. rewrite Sn in Sg. discriminate.
    + intros Ha a Ea. unfold ac_safe in S. apply andb_prop in S as [_ S]. apply negb_true_iff in S.
      cbn in S. rewrite Ha in S. discriminate.
    + exact Fn.
    + exact Nj.
    + intros Pe o Ho. rewrite Ho. cbn [in_outs existsb]. rewrite N.eqb_refl. cbn [orb]. unfold v. rewrite Pe. reflexivity.
    + rewrite Si. reflexivity.
Qed.

Lemma safe_label lv env ins c l c' : ac_safe ins = true -> istep lv env ins c l c' -> l = LTau.
Proof.
  intros S [_ [_ [_ [_ L]]]]. destruct (safe_facts lv ins c S) as [Si _]. rewrite Si in L. exact L.
Qed.

Lemma istep_frame lv env ins c l c' x : istep lv env ins c l c' -> ~ In x (i_outs ins) -> c' x = c x.
Proof. intros [[Hk _] _] Hx. apply Hk. exact Hx. Qed.

(* ------------------------------------------------------------------ the predicate lookup *)
Lemma fact_iszero lv c t p : fact_holds lv c (t, ("iszero", [p])) -> is_lab p = false /\ c t = w_iszero (oval lv c p).
Proof.
  intros [g [Sg Eg]]. cbn [fst snd] in *. unfold sem_fun in Sg. cbn [i_args i_outs i_op has_label existsb] in Sg.
  destruct (is_lab p) eqn:L; [cbn in Sg; discriminate|]. cbn in Sg. injection Sg as <-. split; [reflexivity | exact Eg].
Qed.

Lemma fact_assign lv c t a : fact_holds lv c (t, ("assign", [a])) -> c t = oval lv c a.
Proof.
  intros [g [Sg Eg]]. cbn [fst snd] in *. unfold sem_fun in Sg. cbn [i_args i_outs i_op has_label existsb] in Sg.
  destruct (is_lab a) eqn:L; [cbn in Sg; discriminate|]. cbn in Sg. injection Sg as <-. exact Eg.
Qed.

Lemma iszero_pred_sound lv c F : Forall (fact_holds lv c) F -> forall n o P, iszero_pred n F o = Some P ->
  is_lab P = false /\ oval lv c o = w_iszero (oval lv c P).
Proof.
  intros HF. induction n as [|n IH]; intros o P H; [discriminate|]. cbn [iszero_pred] in H.
  destruct o as [v|x|l]; try discriminate.
  destruct (find_fact F x) as [[op args]|] eqn:E; [|discriminate].
  apply find_fact_In in E. rewrite Forall_forall in HF. specialize (HF _ E).
  destruct (String.eqb op "assign") eqn:Ea.
  - apply String.eqb_eq in Ea. subst op. destruct args as [|a [|? ?]]; try discriminate.
    destruct (IH a P H) as [L V]. split; [exact L|]. cbn [oval]. rewrite (fact_assign lv c x a HF). exact V.
  - destruct (String.eqb op "iszero") eqn:Ei; [|discriminate]. apply String.eqb_eq in Ei. subst op.
    destruct args as [|p [|? ?]]; try discriminate. destruct p as [v|y|l]; try discriminate; injection H as <-;
      destruct (fact_iszero lv c x _ HF) as [L V]; (split; [exact L | cbn [oval]; exact V]).
Qed.

Lemma pred_sound lv c F t P : Forall (fact_holds lv c) F -> pred_of F (OVar t) = Some P ->
  is_lab P = false /\ c t = w_iszero (oval lv c P).
Proof. intros HF H. exact (iszero_pred_sound lv c F HF _ _ _ H). Qed.

(* ------------------------------------------------------------------ Part 2: shape of a successful merge step *)
Lemma operand_eqb_eq a b : operand_eqb a b = true -> a = b.
Proof.
  destruct a, b; cbn; try discriminate; intros H; first [apply Z.eqb_eq in H | apply N.eqb_eq in H]; subst; reflexivity.
Qed.

Lemma ac_scan_acc P ta m nv : forall l F acc,
  ac_scan F P ta m nv acc l = option_map (fun r => ((rev acc ++ fst r)%list, snd r)) (ac_scan F P ta m nv [] l).
Proof.
  induction l as [|[j mj] t IH]; intros F acc; cbn [ac_scan]; [reflexivity|].
  destruct (String.eqb (i_op j) "assert").
  - destruct (i_args j) as [|[?|tb|?] [|? ?]]; try reflexivity. destruct (i_outs j); [|reflexivity].
    destruct (pred_of F (OVar tb)); [|reflexivity]. destruct (pred_of F (OVar ta)); [|reflexivity].
    destruct (N.eqb mj m && operand_eqb P o0 && op_below nv P && op_below nv o); [|reflexivity].
    destruct (operand_eqb P o); reflexivity.
  - destruct (ac_safe j && negb (kills (i_outs j) ta P)); [|reflexivity].
    rewrite (IH (facts_step F j) ((j, mj) :: acc)). match goal with |- _ = option_map _ (ac_scan ?F2 _ _ _ _ ?a2 t) => rewrite (IH F2 a2) end.
    destruct (ac_scan (facts_step F j) P ta m nv [] t) as [[r k]|]; cbn [option_map fst snd rev app]; [|reflexivity].
    rewrite <- app_assoc. reflexivity.
Qed.

Definition safe_item (ta : N) (P : operand) (it : itm) : Prop :=
  ac_safe (fst it) = true /\ kills (i_outs (fst it)) ta P = false.

Lemma ac_scan_split P ta m nv : forall l F l' k, ac_scan F P ta m nv [] l = Some (l', k) ->
  exists Sx j tb Q post X,
    l = (Sx ++ (j, m) :: post)%list /\ l' = (Sx ++ X ++ post)%list /\
    i_op j = "assert" /\ i_args j = [OVar tb] /\ i_outs j = [] /\
    Forall (safe_item ta P) Sx /\
    pred_of (fold_left facts_step (map fst Sx) F) (OVar tb) = Some Q /\
    pred_of (fold_left facts_step (map fst Sx) F) (OVar ta) = Some P /\
    op_below nv P = true /\ op_below nv Q = true /\
    ((P = Q /\ X = [(j, m)] /\ k = 0%N) \/ (operand_eqb P Q = false /\ X = merged_tail P Q nv m /\ k = 2%N)).
Proof.
  induction l as [|[j mj] t IH]; intros F l' k H; cbn [ac_scan] in H; [discriminate|].
  destruct (String.eqb (i_op j) "assert") eqn:Eo.
  - apply String.eqb_eq in Eo.
    destruct (i_args j) as [|[?|tb|?] [|? ?]] eqn:Ea; try discriminate. destruct (i_outs j) eqn:Eu; [|discriminate].
    destruct (pred_of F (OVar tb)) as [Q|] eqn:Pb; [|discriminate]. destruct (pred_of F (OVar ta)) as [P'|] eqn:Pa; [|discriminate].
    destruct (N.eqb mj m && operand_eqb P P' && op_below nv P && op_below nv Q) eqn:G; [|discriminate].
    apply andb_prop in G as [G G4]. apply andb_prop in G as [G G3]. apply andb_prop in G as [G1 G2].
    apply N.eqb_eq in G1. apply operand_eqb_eq in G2. subst mj P'.
    exists [], j, tb, Q, t. cbn [app map fold_left rev] in *.
    destruct (operand_eqb P Q) eqn:E.
    + injection H as <- <-. exists [(j, m)]. apply operand_eqb_eq in E.
      repeat (split; [first [reflexivity | assumption | constructor]|]). left. repeat split; assumption.
    + injection H as <- <-. exists (merged_tail P Q nv m).
      repeat (split; [first [reflexivity | assumption | constructor]|]). right. repeat split; assumption.
  - destruct (ac_safe j && negb (kills (i_outs j) ta P)) eqn:G; [|discriminate].
    apply andb_prop in G as [G1 G2]. apply negb_true_iff in G2.
    rewrite ac_scan_acc in H.
    destruct (ac_scan (facts_step F j) P ta m nv [] t) as [[r k']|] eqn:E; [|discriminate].
    cbn [option_map fst snd rev app] in H. injection H as <- <-.
    destruct (IH (facts_step F j) r k' E) as [Sx [j' [tb [Q [post [X [E1 [E2 R]]]]]]]].
    exists ((j, mj) :: Sx), j', tb, Q, post, X. cbn [app map fold_left].
    split; [rewrite E1; reflexivity|]. split; [rewrite E2; reflexivity|].
    destruct R as [R1 [R2 [R3 [R4 R5]]]]. repeat (split; [assumption|]).
    split; [constructor; [split; assumption | exact R4]|]. exact R5.
Qed.

Lemma ac_find_split nv : forall its F its' k, ac_find F nv its = Some (its', k) ->
  exists preI a m ta P l l',
    its = (preI ++ (a, m) :: l)%list /\ its' = (preI ++ l')%list /\
    i_op a = "assert" /\ i_args a = [OVar ta] /\ i_outs a = [] /\
    pred_of (fold_left facts_step (map fst preI) F) (OVar ta) = Some P /\
    ac_scan (facts_step (fold_left facts_step (map fst preI) F) a) P ta m nv [] l = Some (l', k).
Proof.
  induction its as [|[i m] t IH]; intros F its' k H; cbn [ac_find] in H; [discriminate|].
  set (here := if String.eqb (i_op i) "assert" then
                 match i_args i, i_outs i with
                 | [OVar ta], [] => match pred_of F (OVar ta) with Some P => ac_scan (facts_step F i) P ta m nv [] t | None => None end
                 | _, _ => None
                 end else None) in *.
  destruct here as [r|] eqn:Eh.
  - injection H as H. subst r. subst here.
    destruct (String.eqb (i_op i) "assert") eqn:Eo; [|discriminate]. apply String.eqb_eq in Eo.
    destruct (i_args i) as [|[?|ta|?] [|? ?]] eqn:Ea; try discriminate. destruct (i_outs i) eqn:Eu; [|discriminate].
    destruct (pred_of F (OVar ta)) as [P|] eqn:Pa; [|discriminate].
    exists [], i, m, ta, P, t, its'. cbn [app map fold_left].
    repeat (split; [first [reflexivity | assumption]|]). exact Eh.
  - destruct (ac_find (facts_step F i) nv t) as [[t' k']|] eqn:E; [|discriminate]. injection H as <- <-.
    destruct (IH _ _ _ E) as [preI [a [m' [ta [P [l [l' [E1 [E2 R]]]]]]]]].
    exists ((i, m) :: preI), a, m', ta, P, l, l'. cbn [app map fold_left].
    split; [rewrite E1; reflexivity|]. split; [rewrite E2; reflexivity|]. exact R.
Qed.

(* ------------------------------------------------------------------ Part 3: big-step behaviour of the two segments *)
Lemma seg_exec_app_inv lv env s1 : forall s2 c c2, seg_exec lv env (s1 ++ s2) c c2 ->
  exists c1, seg_exec lv env s1 c c1 /\ seg_exec lv env s2 c1 c2.
Proof.
  induction s1 as [|i t IH]; intros s2 c c2 H; cbn [app] in H.
  - exists c. split; [constructor | exact H].
  - inversion H as [|? ? ? c1 ? I R]; subst. destruct (IH _ _ _ R) as [c1' [A B]].
    exists c1'. split; [econstructor; eassumption | exact B].
Qed.

Lemma seg_fin_app_inv lv env s1 : forall s2 c o, seg_fin lv env (s1 ++ s2) c o ->
  seg_fin lv env s1 c o \/ exists c1, seg_exec lv env s1 c c1 /\ seg_fin lv env s2 c1 o.
Proof.
  induction s1 as [|i t IH]; intros s2 c o H; cbn [app] in H.
  - right. exists c. split; [constructor | exact H].
  - inversion H as [? ? ? ? F | ? ? ? c1 ? I R]; subst.
    + left. apply sf_here. exact F.
    + destruct (IH _ _ _ R) as [L | [c1' [A B]]].
      * left. eapply sf_later; eassumption.
      * right. exists c1'. split; [econstructor; eassumption | exact B].
Qed.

Lemma seg_exec_agree nv lv env s : forallb (inst_below nv) s = true -> forall c c2 cn, agree nv c cn ->
  seg_exec lv env s c c2 -> exists c2n, seg_exec lv env s cn c2n /\ agree nv c2 c2n.
Proof.
  induction s as [|i t IH]; intros B c c2 cn A H; inversion H as [|? ? ? c1 ? I R]; subst.
  - exists cn. split; [constructor | exact A].
  - cbn in B. apply andb_prop in B as [Bi Bt].
    destruct (istep_agree nv lv env i c LTau c1 cn Bi A I) as [I' A'].
    destruct (IH Bt _ _ _ A' R) as [c2n [X A2]]. exists c2n. split; [econstructor; eassumption | exact A2].
Qed.

Lemma seg_exec_facts lv env s : forall F c c2, Forall (fact_holds lv c) F -> seg_exec lv env s c c2 ->
  Forall (fact_holds lv c2) (fold_left facts_step s F).
Proof.
  induction s as [|i t IH]; intros F c c2 HF H; inversion H as [|? ? ? c1 ? I R]; subst; cbn [fold_left]; [exact HF|].
  apply (IH _ c1 c2); [|exact R]. destruct I as [SC _]. eapply facts_step_sound; eassumption.
Qed.

Lemma seg_exec_frame lv env s x : (forall i, In i s -> ~ In x (i_outs i)) -> forall c c2, seg_exec lv env s c c2 -> c2 x = c x.
Proof.
  induction s as [|i t IH]; intros Hx c c2 H; inversion H as [|? ? ? c1 ? I R]; subst; [reflexivity|].
  rewrite (IH (fun j Hj => Hx j (or_intror Hj)) _ _ R). eapply istep_frame; [exact I | apply Hx; left; reflexivity].
Qed.

Lemma safe_exec_progress lv env s : lv_ok lv -> env_ok env -> Forall (fun i => ac_safe i = true) s ->
  forall c, cenv_ok c -> exists c2, seg_exec lv env s c c2.
Proof.
  intros Hl He. induction 1 as [|i t Si _ IH]; intros c Hc; [exists c; constructor|].
  destruct (safe_progress lv env i c Hl He Hc Si) as [c1 I].
  destruct (IH c1 (istep_cenv_ok lv env i c LTau c1 Hc I)) as [c2 X]. exists c2. econstructor; eassumption.
Qed.

Lemma safe_no_fin lv env s : Forall (fun i => ac_safe i = true) s -> forall c o, seg_fin lv env s c o -> False.
Proof.
  induction 1 as [|i t Si _ IH]; intros c o H; inversion H as [? ? ? ? F | ? ? ? c1 ? I R]; subst.
  - destruct (safe_facts lv i c Si) as [_ [Fn _]]. congruence.
  - eapply IH; eassumption.
Qed.

Lemma w_or_zero a b : 0 <= a -> 0 <= b -> (w_or a b = 0 <-> a = 0 /\ b = 0).
Proof. intros _ _. unfold w_or. apply Z.lor_eq_0_iff. Qed.

Section AcSeg.
  Variable lv : N -> Z.
  Variable env : string -> list Z -> Z.
  Variable nv : N.
  Variable Fa : list fact.
  Variable ta tb : N.
  Variable P Q : operand.
  Variable SxI : list itm.
  Variable m : N.
  Hypothesis LV : lv_ok lv.
  Hypothesis EV : env_ok env.
  Let Sx := map fst SxI.
  Let a := mkI "assert" [OVar ta] [].
  Let j := mkI "assert" [OVar tb] [].
  Let Fb := fold_left facts_step Sx Fa.
  Hypothesis HS : Forall (safe_item ta P) SxI.
  Hypothesis Hpb : pred_of Fb (OVar tb) = Some Q.
  Hypothesis Hpa : pred_of Fb (OVar ta) = Some P.
  Hypothesis BP : op_below nv P = true.
  Hypothesis BQ : op_below nv Q = true.
  Hypothesis Bta : (ta < nv)%N.
  Hypothesis Btb : (tb < nv)%N.
  Hypothesis BS : forallb (inst_below nv) Sx = true.

  Definition Jseg (c : cenv) : Prop := Forall (fact_holds lv c) Fa.

  Lemma Sx_safe : Forall (fun i => ac_safe i = true) Sx.
  Proof.
    apply Forall_forall. intros i Hi. unfold Sx in Hi. apply in_map_iff in Hi as [it [<- Hit]].
    rewrite Forall_forall in HS. exact (proj1 (HS it Hit)).
  Qed.

  Lemma Sx_keeps c c2 : seg_exec lv env Sx c c2 -> c2 ta = c ta /\ oval lv c2 P = oval lv c P.
  Proof.
    intros X.
    assert (K : forall i, In i Sx -> kills (i_outs i) ta P = false).
    { intros i Hi. unfold Sx in Hi. apply in_map_iff in Hi as [it [<- Hit]].
      rewrite Forall_forall in HS. exact (proj2 (HS it Hit)). }
    split.
    - apply (seg_exec_frame lv env Sx ta); [|exact X]. intros i Hi Hin. specialize (K i Hi).
      unfold kills in K. assert (existsb (fun o => N.eqb o ta || is_var o P) (i_outs i) = true); [|congruence].
      apply existsb_exists. exists ta. split; [exact Hin | rewrite N.eqb_refl; reflexivity].
    - destruct P as [v|x|l]; cbn [oval]; try reflexivity.
      apply (seg_exec_frame lv env Sx x); [|exact X]. intros i Hi Hin. specialize (K i Hi).
      unfold kills in K. assert (existsb (fun o => N.eqb o ta || is_var o (OVar x)) (i_outs i) = true); [|congruence].
      apply existsb_exists. exists x. split; [exact Hin | cbn; rewrite N.eqb_refl; apply orb_true_r].
  Qed.

  (* after S, from a state satisfying the facts at the first assertion *)
  Lemma after_S c c2 : Jseg c -> seg_exec lv env Sx c c2 ->
    is_lab P = false /\ is_lab Q = false /\ c2 ta = w_iszero (oval lv c2 P) /\ c2 tb = w_iszero (oval lv c2 Q) /\
    c2 ta = c ta.
  Proof.
    intros Jc X. pose proof (seg_exec_facts lv env Sx Fa c c2 Jc X) as FB. fold Fb in FB.
    destruct (pred_sound lv c2 Fb ta P FB Hpa) as [LP VP]. destruct (pred_sound lv c2 Fb tb Q FB Hpb) as [LQ VQ].
    destruct (Sx_keeps c c2 X) as [Kt _]. repeat split; assumption.
  Qed.

  Definition Xmerged : list inst := map fst (merged_tail P Q nv m).

  Lemma below_oval_set c x v o : op_below nv o = true -> (nv <= x)%N -> oval lv (set_var c x v) o = oval lv c o.
  Proof.
    intros B Hx. destruct o as [?|y|?]; cbn [oval]; try reflexivity. cbn in B. apply N.ltb_lt in B.
    apply set_var_other. lia.
  Qed.

  (* the inserted instructions: value of the merged flag *)
  Lemma merged_exec c : cenv_ok c -> is_lab P = false -> is_lab Q = false ->
    exists c1 c2, istep lv env (mkI "or" [P; Q] [nv]) c LTau c1 /\
                  istep lv env (mkI "iszero" [OVar nv] [N.succ nv]) c1 LTau c2 /\
                  c2 (N.succ nv) = w_iszero (w_or (oval lv c Q) (oval lv c P)) /\
                  agree nv c c2 /\ cenv_ok c2.
  Proof.
    intros Hc LP LQ.
    assert (S1 : sem_fun lv (mkI "or" [P; Q] [nv]) = Some (fun c => w_or (oval lv c Q) (oval lv c P))).
    { unfold sem_fun. cbn [i_args i_outs i_op has_label existsb]. rewrite LP, LQ. reflexivity. }
    assert (P1 : plain (mkI "or" [P; Q] [nv]) = true).
    { unfold plain, determined, sem_fun. cbn [i_args i_outs i_op has_label existsb]. rewrite LP, LQ. reflexivity. }
    pose proof (istep_plain lv env _ _ nv c LV Hc P1 S1 eq_refl) as I1.
    set (c1 := set_var c nv (w_or (oval lv c Q) (oval lv c P))) in *.
    assert (Hc1 : cenv_ok c1) by exact (istep_cenv_ok lv env _ c LTau c1 Hc I1).
    assert (S2 : sem_fun lv (mkI "iszero" [OVar nv] [N.succ nv]) = Some (fun c => w_iszero (oval lv c (OVar nv)))) by reflexivity.
    assert (P2 : plain (mkI "iszero" [OVar nv] [N.succ nv]) = true) by reflexivity.
    pose proof (istep_plain lv env _ _ (N.succ nv) c1 LV Hc1 P2 S2 eq_refl) as I2.
    exists c1, (set_var c1 (N.succ nv) (w_iszero (oval lv c1 (OVar nv)))).
    split; [exact I1 | split; [exact I2 | split; [|split]]].
    - rewrite set_var_same. cbn [oval]. unfold c1. rewrite set_var_same. reflexivity.
    - intros x Hx. rewrite set_var_other by lia. unfold c1. rewrite set_var_other by lia. reflexivity.
    - exact (istep_cenv_ok lv env _ c1 LTau _ Hc1 I2).
  Qed.

  Lemma merged_inv c c' : is_lab P = false -> is_lab Q = false -> seg_exec lv env (firstn 2 Xmerged) c c' ->
    c' (N.succ nv) = w_iszero (w_or (oval lv c Q) (oval lv c P)) /\ agree nv c c'.
  Proof.
    intros LP LQ X. unfold Xmerged in X. cbn [merged_tail map fst firstn] in X.
    inversion X as [|? ? ? c1 ? I1 R1]; subst. inversion R1 as [|? ? ? c2 ? I2 R2]; subst. inversion R2; subst.
    assert (S1 : sem_fun lv (mkI "or" [P; Q] [nv]) = Some (fun c => w_or (oval lv c Q) (oval lv c P))).
    { unfold sem_fun. cbn [i_args i_outs i_op has_label existsb]. rewrite LP, LQ. reflexivity. }
    assert (P1 : plain (mkI "or" [P; Q] [nv]) = true).
    { unfold plain, determined, sem_fun. cbn [i_args i_outs i_op has_label existsb]. rewrite LP, LQ. reflexivity. }
    destruct (istep_plain_inv lv env _ _ nv c LTau c1 P1 S1 eq_refl I1) as [_ [V1 F1]].
    assert (S2 : sem_fun lv (mkI "iszero" [OVar nv] [N.succ nv]) = Some (fun c => w_iszero (oval lv c (OVar nv)))) by reflexivity.
    assert (P2 : plain (mkI "iszero" [OVar nv] [N.succ nv]) = true) by reflexivity.
    destruct (istep_plain_inv lv env _ _ (N.succ nv) c1 LTau c' P2 S2 eq_refl I2) as [_ [V2 F2]].
    split.
    - rewrite V2. cbn [oval]. rewrite V1. reflexivity.
    - intros x Hx. rewrite F2 by lia. rewrite F1 by lia. reflexivity.
  Qed.

  (* the two shapes of the rewritten tail *)
  Variable Xi : list inst.
  Hypothesis HX : (P = Q /\ Xi = [j]) \/ Xi = Xmerged.

  Lemma assert_tail c : cenv_ok c -> is_lab P = false -> is_lab Q = false ->
    c ta = w_iszero (oval lv c P) -> c tb = w_iszero (oval lv c Q) ->
    (c ta <> 0 -> c tb <> 0 -> exists c', seg_exec lv env Xi c c' /\ agree nv c c') /\
    (c ta = 0 \/ c tb = 0 -> seg_fin lv env Xi c ORevert0).
  Proof.
    intros Hc LP LQ Va Vb.
    pose proof (oval_word lv c P LV Hc) as WP. pose proof (oval_word lv c Q LV Hc) as WQ.
    destruct HX as [[EPQ ->] | ->].
    - rewrite <- EPQ in Vb. split.
      + intros _ Nb. exists c. split; [|apply agree_refl].
        econstructor; [apply istep_assert; cbn [oval]; exact Nb | constructor].
      + intros Z. apply sf_here. unfold j. rewrite final_of_assert. cbn [oval].
        assert (c tb = 0) as -> by (destruct Z as [Z|Z]; [rewrite Vb, <- Va; exact Z | exact Z]). reflexivity.
    - destruct (merged_exec c Hc LP LQ) as [c1 [c2 [I1 [I2 [V2 [A2 O2]]]]]].
      unfold Xmerged. cbn [merged_tail map fst]. split.
      + intros Na Nb. rewrite Va in Na. rewrite Vb in Nb. apply w_iszero_nz_iff in Na, Nb.
        exists c2. split; [|exact A2].
        econstructor; [exact I1|]. econstructor; [exact I2|]. econstructor; [|constructor].
        apply istep_assert. cbn [oval]. rewrite V2, Na, Nb. discriminate.
      + intros Z. eapply sf_later; [exact I1|]. eapply sf_later; [exact I2|]. apply sf_here.
        rewrite final_of_assert. cbn [oval]. rewrite V2.
        assert (NZ : w_or (oval lv c Q) (oval lv c P) <> 0).
        { intros E. apply (w_or_zero _ _ (proj1 WQ) (proj1 WP)) in E as [EQ EP].
          destruct Z as [Z|Z]; [rewrite Va, EP in Z | rewrite Vb, EQ in Z]; discriminate Z. }
        unfold w_iszero. apply Z.eqb_neq in NZ. rewrite NZ. reflexivity.
  Qed.

  (* inversion: what a run / a failure of the rewritten tail tells about the two flags *)
  Lemma assert_tail_inv c : cenv_ok c -> is_lab P = false -> is_lab Q = false ->
    c ta = w_iszero (oval lv c P) -> c tb = w_iszero (oval lv c Q) ->
    (forall c', seg_exec lv env Xi c c' -> c ta <> 0 /\ c tb <> 0 /\ agree nv c c') /\
    (forall o, seg_fin lv env Xi c o -> o = ORevert0 /\ (c ta = 0 \/ c tb = 0)).
  Proof.
    intros Hc LP LQ Va Vb.
    pose proof (oval_word lv c P LV Hc) as WP. pose proof (oval_word lv c Q LV Hc) as WQ.
    destruct HX as [[EPQ ->] | ->].
    - rewrite <- EPQ in Vb. split.
      + intros c' X. inversion X as [|? ? ? c1 ? I R]; subst. inversion R; subst.
        destruct (istep_assert_inv lv env (OVar tb) c LTau c' I) as [Nz [_ Fr]]. cbn [oval] in Nz.
        split; [rewrite Va, <- Vb; exact Nz | split; [exact Nz | intros x _; symmetry; apply Fr]].
      + intros o X. inversion X as [? ? ? ? F | ? ? ? c1 ? I R]; subst; [|inversion R].
        unfold j in F. rewrite final_of_assert in F. cbn [oval] in F.
        destruct (c tb =? 0) eqn:E; [|discriminate]. apply Z.eqb_eq in E. injection F as <-. split; [reflexivity | right; exact E].
    - unfold Xmerged. cbn [merged_tail map fst].
      assert (PF1 : forall c0, final_of lv (mkI "or" [P; Q] [nv]) c0 = None) by (intros; reflexivity).
      assert (PF2 : forall c0, final_of lv (mkI "iszero" [OVar nv] [N.succ nv]) c0 = None) by (intros; reflexivity).
      split.
      + intros c' X. inversion X as [|? ? ? c1 ? I1 R1]; subst. inversion R1 as [|? ? ? c2 ? I2 R2]; subst.
        inversion R2 as [|? ? ? c3 ? I3 R3]; subst. inversion R3; subst.
        assert (X2 : seg_exec lv env (firstn 2 Xmerged) c c2).
        { unfold Xmerged. cbn [merged_tail map fst firstn]. econstructor; [exact I1|]. econstructor; [exact I2 | constructor]. }
        destruct (merged_inv c c2 LP LQ X2) as [V2 A2].
        destruct (istep_assert_inv lv env _ c2 LTau c' I3) as [Nz [_ Fr]]. cbn [oval] in Nz. rewrite V2 in Nz.
        apply w_iszero_nz_iff in Nz. apply (w_or_zero _ _ (proj1 WQ) (proj1 WP)) in Nz as [EQ EP].
        split; [rewrite Va, EP; discriminate | split; [rewrite Vb, EQ; discriminate|]].
        intros x Hx. rewrite Fr. apply A2. exact Hx.
      + intros o X. inversion X as [? ? ? ? F | ? ? ? c1 ? I1 R1]; subst; [rewrite PF1 in F; discriminate|].
        inversion R1 as [? ? ? ? F | ? ? ? c2 ? I2 R2]; subst; [rewrite PF2 in F; discriminate|].
        inversion R2 as [? ? ? ? F | ? ? ? c3 ? I3 R3]; subst; [|inversion R3].
        assert (X2 : seg_exec lv env (firstn 2 Xmerged) c c2).
        { unfold Xmerged. cbn [merged_tail map fst firstn]. econstructor; [exact I1|]. econstructor; [exact I2 | constructor]. }
        destruct (merged_inv c c2 LP LQ X2) as [V2 A2].
        rewrite final_of_assert in F. cbn [oval] in F. rewrite V2 in F.
        destruct (w_iszero (w_or (oval lv c Q) (oval lv c P)) =? 0) eqn:E; [|discriminate]. injection F as <-.
        split; [reflexivity|]. apply Z.eqb_eq in E.
        destruct (Z.eq_dec (c ta) 0) as [Za|Na]; [left; exact Za|]. right.
        rewrite Va in Na. apply w_iszero_nz_iff in Na. rewrite Vb.
        destruct (Z.eq_dec (oval lv c Q) 0) as [ZQ|NQ]; [rewrite Na, ZQ in E; discriminate E|].
        unfold w_iszero. apply Z.eqb_neq in NQ. rewrite NQ. reflexivity.
  Qed.

  Lemma agree_trans c1 c2 c3 : agree nv c1 c2 -> agree nv c2 c3 -> agree nv c1 c3.
  Proof. intros A B x Hx. rewrite (A x Hx). apply B. exact Hx. Qed.

  Lemma a_final c : final_of lv a c = if c ta =? 0 then Some ORevert0 else None.
  Proof. reflexivity. Qed.

  (* original -> rewritten *)
  Lemma P1_fwd c c' cn : agree nv c cn -> cenv_ok c -> cenv_ok cn -> Jseg c -> Jseg cn ->
    seg_exec lv env (a :: Sx ++ [j]) c c' -> exists cn', seg_exec lv env (Sx ++ Xi) cn cn' /\ agree nv c' cn'.
  Proof.
    intros A O On Jc Jn X. inversion X as [|? ? ? c1 ? Ia R]; subst.
    destruct (istep_assert_inv lv env (OVar ta) c LTau c1 Ia) as [Na [_ Fa1]]. cbn [oval] in Na.
    destruct (seg_exec_app_inv lv env Sx [j] c1 c' R) as [c2 [XS Xj]].
    inversion Xj as [|? ? ? c3 ? Ij R3]; subst. inversion R3; subst.
    destruct (istep_assert_inv lv env (OVar tb) c2 LTau c' Ij) as [Nb [_ Fb3]]. cbn [oval] in Nb.
    assert (A1 : agree nv c1 cn) by (intros x Hx; rewrite Fa1; apply A; exact Hx).
    destruct (seg_exec_agree nv lv env Sx BS c1 c2 cn A1 XS) as [c2n [XSn A2]].
    destruct (after_S cn c2n Jn XSn) as [LP [LQ [Va [Vb Kt]]]].
    pose proof (seg_exec_ok lv env Sx cn c2n On XSn) as O2n.
    destruct (assert_tail c2n O2n LP LQ Va Vb) as [T1 _].
    destruct T1 as [cz [XX AX]].
    - rewrite Kt. rewrite <- (A ta Bta). exact Na.
    - rewrite <- (A2 tb Btb). exact Nb.
    - exists cz. split; [eapply seg_exec_app; eassumption|].
      intros x Hx. rewrite Fb3. rewrite (A2 x Hx). apply AX. exact Hx.
  Qed.

  Lemma P2_fwd c cn o : agree nv c cn -> cenv_ok c -> cenv_ok cn -> Jseg c -> Jseg cn ->
    seg_fin lv env (a :: Sx ++ [j]) c o -> seg_fin lv env (Sx ++ Xi) cn o.
  Proof.
    intros A O On Jc Jn X. inversion X as [? ? ? ? F | ? ? ? c1 ? Ia R]; subst.
    - rewrite a_final in F. destruct (c ta =? 0) eqn:E; [|discriminate]. apply Z.eqb_eq in E. injection F as <-.
      destruct (safe_exec_progress lv env Sx LV EV Sx_safe cn On) as [c2n XSn].
      destruct (after_S cn c2n Jn XSn) as [LP [LQ [Va [Vb Kt]]]].
      pose proof (seg_exec_ok lv env Sx cn c2n On XSn) as O2n.
      destruct (assert_tail c2n O2n LP LQ Va Vb) as [_ T2].
      eapply seg_exec_fin; [exact XSn|]. apply T2. left. rewrite Kt, <- (A ta Bta). exact E.
    - destruct (istep_assert_inv lv env (OVar ta) c LTau c1 Ia) as [Na [_ Fa1]].
      destruct (seg_fin_app_inv lv env Sx [j] c1 o R) as [L | [c2 [XS Fj]]]; [destruct (safe_no_fin lv env Sx Sx_safe _ _ L)|].
      inversion Fj as [? ? ? ? F | ? ? ? c3 ? Ij R3]; subst; [|inversion R3].
      unfold j in F. rewrite final_of_assert in F. cbn [oval] in F. destruct (c2 tb =? 0) eqn:E; [|discriminate].
      apply Z.eqb_eq in E. injection F as <-.
      assert (A1 : agree nv c1 cn) by (intros x Hx; rewrite Fa1; apply A; exact Hx).
      destruct (seg_exec_agree nv lv env Sx BS c1 c2 cn A1 XS) as [c2n [XSn A2]].
      destruct (after_S cn c2n Jn XSn) as [LP [LQ [Va [Vb Kt]]]].
      pose proof (seg_exec_ok lv env Sx cn c2n On XSn) as O2n.
      destruct (assert_tail c2n O2n LP LQ Va Vb) as [_ T2].
      eapply seg_exec_fin; [exact XSn|]. apply T2. right. rewrite <- (A2 tb Btb). exact E.
  Qed.

  (* rewritten -> original *)
  Lemma P1_bwd x x' y : agree nv x y -> cenv_ok x -> cenv_ok y -> Jseg x -> Jseg y ->
    seg_exec lv env (Sx ++ Xi) x x' -> exists y', seg_exec lv env (a :: Sx ++ [j]) y y' /\ agree nv x' y'.
  Proof.
    intros A Ox Oy Jx Jy X. destruct (seg_exec_app_inv lv env Sx Xi x x' X) as [x2 [XS XX]].
    destruct (after_S x x2 Jx XS) as [LP [LQ [Va [Vb Kt]]]].
    pose proof (seg_exec_ok lv env Sx x x2 Ox XS) as O2.
    destruct (assert_tail_inv x2 O2 LP LQ Va Vb) as [T1 _]. destruct (T1 x' XX) as [Na [Nb AX]].
    destruct (seg_exec_agree nv lv env Sx BS x x2 y A XS) as [y2 [YS A2]].
    exists y2. split.
    - econstructor; [apply istep_assert; cbn [oval]; rewrite <- (A ta Bta), <- Kt; exact Na|].
      eapply seg_exec_app; [exact YS|]. econstructor; [|constructor].
      apply istep_assert. cbn [oval]. rewrite <- (A2 tb Btb). exact Nb.
    - intros z Hz. rewrite <- (AX z Hz). apply A2. exact Hz.
  Qed.

  Lemma P2_bwd x y o : agree nv x y -> cenv_ok x -> cenv_ok y -> Jseg x -> Jseg y ->
    seg_fin lv env (Sx ++ Xi) x o -> seg_fin lv env (a :: Sx ++ [j]) y o.
  Proof.
    intros A Ox Oy Jx Jy X.
    destruct (seg_fin_app_inv lv env Sx Xi x o X) as [L | [x2 [XS FX]]]; [destruct (safe_no_fin lv env Sx Sx_safe _ _ L)|].
    destruct (after_S x x2 Jx XS) as [LP [LQ [Va [Vb Kt]]]].
    pose proof (seg_exec_ok lv env Sx x x2 Ox XS) as O2.
    destruct (assert_tail_inv x2 O2 LP LQ Va Vb) as [_ T2]. destruct (T2 o FX) as [-> Z].
    destruct (Z.eq_dec (y ta) 0) as [Za|Na].
    - apply sf_here. rewrite a_final. apply Z.eqb_eq in Za. rewrite Za. reflexivity.
    - eapply sf_later; [apply istep_assert; cbn [oval]; exact Na|].
      destruct (seg_exec_agree nv lv env Sx BS x x2 y A XS) as [y2 [YS A2]].
      eapply seg_exec_fin; [exact YS|]. apply sf_here. unfold j. rewrite final_of_assert. cbn [oval].
      destruct Z as [Z|Z]; [exfalso; apply Na; rewrite <- (A ta Bta), <- Kt; exact Z|].
      rewrite <- (A2 tb Btb), Z. reflexivity.
  Qed.
End AcSeg.

Lemma iszero_pred_not_lab F : forall n o P, iszero_pred n F o = Some P -> is_lab P = false.
Proof.
  induction n as [|n IH]; intros o P H; [discriminate|]. cbn [iszero_pred] in H.
  destruct o as [v|x|l]; try discriminate.
  destruct (find_fact F x) as [[op args]|]; [|discriminate].
  destruct (String.eqb op "assign").
  - destruct args as [|a [|? ?]]; try discriminate. exact (IH a P H).
  - destruct (String.eqb op "iszero"); [|discriminate]. destruct args as [|p [|? ?]]; try discriminate.
    destruct p; try discriminate; injection H as <-; reflexivity.
Qed.

Lemma silent_or P Q x : is_lab P = false -> is_lab Q = false -> silent (mkI "or" [P; Q] [x]) = true.
Proof. intros LP LQ. unfold silent, determined, sem_fun. cbn [i_args i_outs i_op has_label existsb]. rewrite LP, LQ. reflexivity. Qed.

(* ------------------------------------------------------------------ Part 4: one step on a function, and the pass *)
Lemma facts_step_phi_nil i : is_phi i = true -> facts_step [] i = [].
Proof.
  intros H. unfold facts_step. cbn [filter]. destruct (i_outs i) as [|o [|? ?]]; try reflexivity.
  unfold is_phi in H. apply String.eqb_eq in H. rewrite H. reflexivity.
Qed.

(* splitting a block at a non-phi instruction: phis in front, then p, then the rest *)
Lemma block_split l : exists phs p, l = (phs ++ p)%list /\ fold_left facts_step l [] = fold_left facts_step p [] /\
  forall i r, is_phi i = false -> leading_phis (l ++ i :: r)%list = phs /\ body (l ++ i :: r)%list = (p ++ i :: r)%list.
Proof.
  induction l as [|x t IH].
  - exists [], []. split; [reflexivity | split; [reflexivity|]]. intros i r Hi. cbn. rewrite Hi. split; reflexivity.
  - destruct (is_phi x) eqn:Px.
    + destruct IH as [phs [p [E [Ff Hs]]]]. exists (x :: phs), p. split; [rewrite E; reflexivity|]. split.
      * cbn [fold_left]. rewrite (facts_step_phi_nil x Px). exact Ff.
      * intros i r Hi. destruct (Hs i r Hi) as [A B]. cbn [app leading_phis body]. rewrite Px, A, B. split; reflexivity.
    + exists [], (x :: t). split; [reflexivity | split; [reflexivity|]]. intros i r Hi. cbn [app leading_phis body]. rewrite Px.
      split; reflexivity.
Qed.

Lemma facts_step_noouts F i : i_outs i = [] -> facts_step F i = F.
Proof.
  intros H. unfold facts_step. rewrite H. cbn [existsb negb]. induction F as [|x t IH]; cbn; [reflexivity | rewrite IH; reflexivity].
Qed.

Lemma beh_equiv_refl f : beh_equiv f f.
Proof. intros lv env c0 _ _ _ t r. tauto. Qed.
Lemma beh_equiv_trans f g h : beh_equiv f g -> beh_equiv g h -> beh_equiv f h.
Proof. intros A B lv env c0 H1 H2 H3 t r. rewrite (A lv env c0 H1 H2 H3 t r). apply B; assumption. Qed.

Definition set_block (b0 : nat) (blk : block) (f : func) : func := (firstn b0 f ++ blk :: skipn (Datatypes.S b0) f)%list.

Lemma nth_set_block_same b0 blk f : (b0 < List.length f)%nat -> nth b0 (set_block b0 blk f) [] = blk.
Proof.
  intros H. unfold set_block. rewrite app_nth2 by (rewrite firstn_length; lia).
  rewrite firstn_length. replace (b0 - Nat.min b0 (List.length f))%nat with 0%nat by lia. reflexivity.
Qed.

Lemma nth_set_block_other b0 blk f b : (b0 < List.length f)%nat -> b <> b0 -> nth b (set_block b0 blk f) [] = nth b f [].
Proof.
  intros Lt Ne. unfold set_block.
  destruct (Nat.lt_ge_cases b b0) as [L1|G1].
  - rewrite app_nth1 by (rewrite firstn_length; lia). rewrite <- (firstn_skipn b0 f) at 2.
    rewrite app_nth1 by (rewrite firstn_length; lia). reflexivity.
  - rewrite app_nth2 by (rewrite firstn_length; lia). rewrite firstn_length.
    replace (Nat.min b0 (List.length f)) with b0 by lia.
    destruct (b - b0)%nat as [|d] eqn:Ed; [lia|]. cbn [nth].
    rewrite <- (firstn_skipn (Datatypes.S b0) f) at 2. rewrite app_nth2 by (rewrite firstn_length; lia).
    rewrite firstn_length. f_equal. lia.
Qed.

Lemma ac_step_split nv : forall L L' k, ac_step nv L = Some (L', k) ->
  exists b0 blkI blkI', nth_error L b0 = Some blkI /\ ac_find [] nv blkI = Some (blkI', k) /\
    strip L' = set_block b0 (map fst blkI') (strip L).
Proof.
  induction L as [|blk t IH]; intros L' k H; cbn [ac_step] in H; [discriminate|].
  destruct (ac_find [] nv blk) as [[blk' k']|] eqn:E.
  - injection H as <- <-. exists 0%nat, blk, blk'. split; [reflexivity | split; [exact E | reflexivity]].
  - destruct (ac_step nv t) as [[t' k']|] eqn:E2; [|discriminate]. injection H as <- <-.
    destruct (IH _ _ eq_refl) as [b0 [bI [bI' [N1 [F1 S1]]]]].
    exists (Datatypes.S b0), bI, bI'. split; [exact N1 | split; [exact F1|]].
    unfold strip, set_block in *. cbn [map firstn skipn app]. f_equal. exact S1.
Qed.

Lemma nth_error_strip L : forall b0 blkI, nth_error L b0 = Some blkI ->
  nth b0 (strip L) [] = map fst blkI /\ (b0 < List.length (strip L))%nat.
Proof.
  induction L as [|x t IH]; intros [|b0] blkI H; cbn in H; try discriminate.
  - injection H as <-. split; [reflexivity | unfold strip; cbn [map List.length]; lia].
  - destruct (IH b0 blkI H) as [A B]. split; [exact A | unfold strip in *; cbn [map List.length] in *; lia].
Qed.

Lemma inst_below_app nv l1 l2 : forallb (inst_below nv) (l1 ++ l2) = true ->
  forallb (inst_below nv) l1 = true /\ forallb (inst_below nv) l2 = true.
Proof. rewrite forallb_app. apply andb_prop. Qed.

Section AcFunc.
  Variable L : list (list itm).
  Variable nv : N.
  Variable L' : list (list itm).
  Variable k : N.
  Hypothesis FB : func_below nv (strip L) = true.
  Hypothesis HS : ac_step nv L = Some (L', k).

  Theorem ac_step_correct : beh_equiv (strip L) (strip L').
  Proof.
    destruct (ac_step_split nv L L' k HS) as [b0 [blkI [blkI' [N0 [F0 E']]]]].
    destruct (nth_error_strip L b0 blkI N0) as [NB LB].
    destruct (ac_find_split nv blkI [] blkI' k F0) as [preI [a [m [ta [P [l [l' [E1 [E2 [Ao [Aa [Au [Pa SC]]]]]]]]]]]]].
    destruct (ac_scan_split P ta m nv l _ l' k SC) as [SxI [j [tb [Q [postI [X [E3 [E4 [Jo [Ja [Ju [HSx [Pb [Pa2 [BP [BQ HX]]]]]]]]]]]]]]]].
    set (f := strip L) in *. set (f' := strip L') in *.
    set (preB := map fst preI) in *. set (Sx := map fst SxI) in *. set (post := map fst postI) in *. set (Xi := map fst X) in *.
    destruct a as [aop aargs aouts]. cbn [i_op i_args i_outs] in Ao, Aa, Au. subst aop aargs aouts.
    destruct j as [jop jargs jouts]. cbn [i_op i_args i_outs] in Jo, Ja, Ju. subst jop jargs jouts.
    set (a := mkI "assert" [OVar ta] []) in *. set (j := mkI "assert" [OVar tb] []) in *.
    assert (EB : nth b0 f [] = (preB ++ a :: Sx ++ j :: post)%list).
    { rewrite NB, E1, E3. unfold preB, Sx, post. rewrite map_app. cbn [map fst]. rewrite map_app. reflexivity. }
    assert (EB' : nth b0 f' [] = (preB ++ Sx ++ Xi ++ post)%list).
    { rewrite E'. rewrite nth_set_block_same by exact LB. rewrite E2, E4. unfold preB, Sx, post, Xi.
      rewrite !map_app. reflexivity. }
    assert (EO : forall b, b <> b0 -> nth b f' [] = nth b f []).
    { intros b Ne. rewrite E'. apply nth_set_block_other; [exact LB | exact Ne]. }
    (* facts at the first assertion *)
    destruct (block_split preB) as [phs [p [Ep [Ff Hsplit]]]].
    assert (Fa_eq : facts_step (fold_left facts_step preB []) a = fold_left facts_step p []).
    { rewrite facts_step_noouts by reflexivity. exact Ff. }
    rewrite Ff in Pa. rewrite Fa_eq in Pb, Pa2.
    set (Fa := fold_left facts_step p []) in *.
    (* below *)
    assert (BB : forallb (inst_below nv) (nth b0 f []) = true).
    { pose proof (func_below_nth nv f (N.of_nat b0) FB) as H. unfold nth_block in H. rewrite Nat2N.id in H. exact H. }
    rewrite EB in BB. destruct (inst_below_app nv _ _ BB) as [Bpre BB1]. cbn [forallb] in BB1.
    apply andb_prop in BB1 as [Ba BB2]. destruct (inst_below_app nv _ _ BB2) as [BSx BB3]. cbn [forallb] in BB3.
    apply andb_prop in BB3 as [Bj Bpost].
    assert (Bta : (ta < nv)%N).
    { unfold inst_below in Ba. cbn in Ba. rewrite andb_true_r in Ba. rewrite andb_true_r in Ba. apply N.ltb_lt. exact Ba. }
    assert (Btb : (tb < nv)%N).
    { unfold inst_below in Bj. cbn in Bj. rewrite andb_true_r in Bj. rewrite andb_true_r in Bj. apply N.ltb_lt. exact Bj. }
    assert (Bp : forallb (inst_below nv) p = true).
    { rewrite Ep in Bpre. apply (inst_below_app nv phs p Bpre). }
    (* shape of the rewritten tail *)
    assert (HXi : (P = Q /\ Xi = [j]) \/ Xi = Xmerged nv P Q m).
    { destruct HX as [[EPQ [-> _]] | [_ [-> _]]]; [left; split; [exact EPQ | reflexivity] | right; reflexivity]. }
    assert (Xne : exists x0 xr, Xi = x0 :: xr /\ is_phi x0 = false).
    { destruct HXi as [[_ ->] | ->]; eexists; eexists; (split; [reflexivity | reflexivity]). }
    assert (SxNP : forall i, In i Sx -> is_phi i = false).
    { intros i Hi. unfold Sx in Hi. apply in_map_iff in Hi as [it [<- Hit]]. rewrite Forall_forall in HSx.
      destruct (HSx it Hit) as [Sf _]. apply (safe_facts (fun _ => 0) (fst it) (fun _ => 0) Sf). }
    (* bodies *)
    destruct (Hsplit a (Sx ++ j :: post)%list eq_refl) as [PH1 BD1].
    assert (H2 : exists h2 r2, (Sx ++ Xi ++ post)%list = h2 :: r2 /\ is_phi h2 = false).
    { destruct Sx as [|s0 sr] eqn:ES.
      - destruct Xne as [x0 [xr [-> Px]]]. eexists; eexists; split; [reflexivity | exact Px].
      - eexists; eexists; split; [reflexivity | apply SxNP; left; reflexivity]. }
    destruct H2 as [h2 [r2 [E2' Ph2]]].
    destruct (Hsplit h2 r2 Ph2) as [PH2 BD2]. rewrite <- E2' in PH2, BD2.
    assert (Hph : forall b, leading_phis (nth_block f' b) = leading_phis (nth_block f b)).
    { intros b. unfold nth_block. destruct (Nat.eq_dec (N.to_nat b) b0) as [->|Ne]; [rewrite EB, EB', PH1, PH2; reflexivity | rewrite (EO _ Ne); reflexivity]. }
    assert (Hbd : forall b, b <> N.of_nat b0 -> body (nth_block f' b) = body (nth_block f b)).
    { intros b Ne. unfold nth_block. rewrite EO; [reflexivity|]. intros E. apply Ne. rewrite <- E. rewrite N2Nat.id. reflexivity. }
    assert (Hb0 : body (nth_block f (N.of_nat b0)) = (p ++ (a :: Sx ++ [j]) ++ post)%list).
    { unfold nth_block. rewrite Nat2N.id, EB, BD1. cbn [app]. rewrite <- app_assoc. reflexivity. }
    assert (Hb0' : body (nth_block f' (N.of_nat b0)) = (p ++ (Sx ++ Xi) ++ post)%list).
    { unfold nth_block. rewrite Nat2N.id, EB', BD2. rewrite <- app_assoc. reflexivity. }
    assert (Hphb : forall b, forallb (inst_below nv) (leading_phis (nth_block f b)) = true).
    { intros b. apply below_phis_body. apply func_below_nth. exact FB. }
    assert (Hob : forall b, b <> N.of_nat b0 -> forallb (inst_below nv) (body (nth_block f b)) = true).
    { intros b _. apply below_phis_body. apply func_below_nth. exact FB. }
    intros lv env c0 LV EV C0 t r.
    (* the invariant in front of the segment: the available definitions hold *)
    set (J := fun (rr : list inst) (c : cenv) => exists pd, p = (pd ++ rr)%list /\ Forall (fact_holds lv c) (fold_left facts_step pd [])).
    assert (J_init : forall c, cenv_ok c -> J p c).
    { intros c _. exists []. split; [reflexivity | constructor]. }
    assert (J_step : forall i rr c l0 c', J (i :: rr) c -> istep lv env i c l0 c' -> J rr c').
    { intros i rr c l0 c' [pd [Epd Fh]] I. exists (pd ++ [i])%list. split; [rewrite <- app_assoc; exact Epd|].
      rewrite fold_left_app. cbn [fold_left]. destruct I as [SCc _]. eapply facts_step_sound; eassumption. }
    assert (J_nil : forall c, J [] c -> Jseg lv Fa c).
    { intros c [pd [Epd Fh]]. rewrite app_nil_r in Epd. subst pd. exact Fh. }
    assert (SxSafe : forall i, In i Sx -> ac_safe i = true).
    { intros i Hi. unfold Sx in Hi. apply in_map_iff in Hi as [it [<- Hit]]. rewrite Forall_forall in HSx. exact (proj1 (HSx it Hit)). }
    split.
    - apply (seg_sim f f' nv lv env (N.of_nat b0) p (a :: Sx ++ [j]) (Sx ++ Xi) post J Hph Hphb Hbd Hob Hb0 Hb0' Bp Bpost J_init J_step).
      + intros i c l0 c' Hi I. destruct Hi as [<-|Hi]; [destruct (istep_assert_inv lv env _ c l0 c' I) as [_ [E _]]; exact E|].
        apply in_app_or in Hi as [Hi|[<-|[]]]; [exact (safe_label lv env i c l0 c' (SxSafe i Hi) I)|].
        destruct (istep_assert_inv lv env _ c l0 c' I) as [_ [E _]]. exact E.
      + intros i Hi. destruct Hi as [<-|Hi]; [reflexivity|]. apply in_app_or in Hi as [Hi|[<-|[]]]; [|reflexivity].
        apply (safe_facts lv i (fun _ => 0) (SxSafe i Hi)).
      + discriminate.
      + intros c c' cn A O On Jc Jn Xe.
        exact (P1_fwd lv env nv Fa ta tb P Q SxI m LV HSx Pb Pa2 BP Bta Btb BSx Xi HXi c c' cn A O On (J_nil c Jc) (J_nil cn Jn) Xe).
      + intros c cn o A O On Jc Jn Xe.
        exact (P2_fwd lv env nv Fa ta tb P Q SxI m LV EV HSx Pb Pa2 BP Bta Btb BSx Xi HXi c cn o A O On (J_nil c Jc) (J_nil cn Jn) Xe).
      + exact C0.
    - assert (Hphb' : forall b, forallb (inst_below nv) (leading_phis (nth_block f' b)) = true) by (intros b; rewrite Hph; apply Hphb).
      assert (Hob' : forall b, b <> N.of_nat b0 -> forallb (inst_below nv) (body (nth_block f' b)) = true)
        by (intros b Ne; rewrite (Hbd b Ne); apply Hob; exact Ne).
      apply (seg_sim f' f nv lv env (N.of_nat b0) p (Sx ++ Xi) (a :: Sx ++ [j]) post J (fun b => eq_sym (Hph b)) Hphb'
               (fun b Ne => eq_sym (Hbd b Ne)) Hob' Hb0' Hb0 Bp Bpost J_init J_step).
      + intros i c l0 c' Hi I. apply in_app_or in Hi as [Hi|Hi]; [exact (safe_label lv env i c l0 c' (SxSafe i Hi) I)|].
        destruct I as [_ [_ [_ [_ Lb]]]]. rewrite Lb.
        assert (LP : is_lab P = false) by exact (iszero_pred_not_lab _ _ _ _ Pa).
        assert (LQ : is_lab Q = false) by exact (iszero_pred_not_lab _ _ _ _ Pb).
        destruct HXi as [[_ ->] | ->]; cbn in Hi.
        * destruct Hi as [<-|[]]. unfold j. rewrite silent_assert. reflexivity.
        * destruct Hi as [<-|[<-|[<-|[]]]]; [rewrite (silent_or P Q nv LP LQ); reflexivity | reflexivity | rewrite silent_assert; reflexivity].
      + intros i Hi. apply in_app_or in Hi as [Hi|Hi]; [apply (safe_facts lv i (fun _ => 0) (SxSafe i Hi))|].
        destruct HXi as [[_ ->] | ->]; cbn in Hi.
        * destruct Hi as [<-|[]]. reflexivity.
        * destruct Hi as [<-|[<-|[<-|[]]]]; reflexivity.
      + destruct Xne as [x0 [xr [-> _]]]. destruct Sx; discriminate.
      + intros x x' y A Ox Oy Jx Jy Xe.
        exact (P1_bwd lv env nv Fa ta tb P Q SxI m LV HSx Pb Pa2 BP Bta Btb BSx Xi HXi x x' y A Ox Oy (J_nil x Jx) (J_nil y Jy) Xe).
      + intros x y o A Ox Oy Jx Jy Xe.
        exact (P2_bwd lv env nv Fa ta tb P Q SxI m LV HSx Pb Pa2 BP Bta Btb BSx Xi HXi x y o A Ox Oy (J_nil x Jx) (J_nil y Jy) Xe).
      + exact C0.
  Qed.
End AcFunc.

Theorem ac_iter_correct : forall fuel nv l, beh_equiv (strip l) (strip (ac_iter fuel nv l)).
Proof.
  induction fuel as [|n IH]; intros nv l; cbn [ac_iter]; [apply beh_equiv_refl|].
  destruct (func_below nv (strip l)) eqn:FB; [|apply beh_equiv_refl].
  destruct (ac_step nv l) as [[l' k]|] eqn:E; [|apply beh_equiv_refl].
  eapply beh_equiv_trans; [exact (ac_step_correct l nv l' k FB E) | apply IH].
Qed.

Lemma strip_zip f : forall M, strip (zip_func f M) = f.
Proof.
  assert (Z : forall b ms, map fst (zip_msgs b ms) = b).
  { induction b as [|i t IH]; intros ms; [reflexivity|]. destruct ms; cbn; rewrite IH; reflexivity. }
  induction f as [|b t IH]; intros M; [reflexivity|]. destruct M; cbn; unfold strip in IH; rewrite IH, Z; reflexivity.
Qed.

(* AssertCombinerPass (the model ac_pass) preserves behaviour *)
Theorem ac_pass_correct f M nv : beh_equiv f (ac_pass f M nv).
Proof.
  unfold ac_pass. rewrite <- (strip_zip f M) at 1. apply ac_iter_correct.
Qed.
