(* C14L -- PhiEliminationPass validator: soundness of the copy-equivalence domain (PARTIAL).
   Proved here: the transfer function is sound for every instruction of the concrete semantics (`phi_transfer_sound_partial`),
   a checked CFG edge transports the claimed classes through the parallel phi assignment (`phi_edge_sound_partial`), and a
   checked replacement `%x = phi ...` -> `%x = %v` assigns the same value on that edge (`phi_repl_sound_partial`).
   NOT proved: the simulation that assembles these into `phi_check f As Rs = true -> beh_equiv f (phi_apply f Rs)`. *)
From Coq Require Import ZArith NArith Bool List String Lia.
From Verif Require Import Base.Word256 Base.PyInt C14.RangeBase C14.RangeFix C14.RangeFixProofs C14L.Sem C14L.PhiElim.
Import ListNotations.
Open Scope string_scope.
Open Scope Z_scope.

Definition holds (a : astate) (c : cenv) : Prop := forall x y, idof (a_ids a) x = idof (a_ids a) y -> c x = c y.
Definition awf (a : astate) : Prop := forall x i, ifind (a_ids a) x = Some i -> N.even i = true -> (i < 2 * a_next a)%N.

Lemma idof_cons m x i z : idof ((x, i) :: m) z = if N.eqb z x then i else idof m z.
Proof. unfold idof. cbn [ifind]. destruct (N.eqb z x); reflexivity. Qed.

Lemma even_double n : N.even (2 * n) = true.
Proof. rewrite N.even_mul. reflexivity. Qed.
Lemma odd_default x : N.even (2 * x + 1) = false.
Proof. rewrite N.add_comm. rewrite N.even_add_mul_2. reflexivity. Qed.

Lemma fresh_new a z : awf a -> idof (a_ids a) z <> (2 * a_next a)%N.
Proof.
  intros Wf E. unfold idof in E. destruct (ifind (a_ids a) z) as [i|] eqn:F.
  - subst i. pose proof (Wf z _ F (even_double _)) as H. apply N.lt_irrefl in H. exact H.
  - pose proof (odd_default z) as O. rewrite E in O. rewrite even_double in O. discriminate.
Qed.

(* one output gets a fresh class *)
Lemma fresh_step a c c1 o : holds a c -> awf a -> (forall z, z <> o -> c1 z = c z) ->
  holds (mkA ((o, (2 * a_next a)%N) :: a_ids a) (N.succ (a_next a))) c1 /\
  awf (mkA ((o, (2 * a_next a)%N) :: a_ids a) (N.succ (a_next a))).
Proof.
  intros H Wf Fr. split.
  - intros x y. cbn [a_ids]. rewrite !idof_cons.
    destruct (N.eqb x o) eqn:Ex; destruct (N.eqb y o) eqn:Ey.
    + apply N.eqb_eq in Ex, Ey. subst. reflexivity.
    + intros E. symmetry in E. destruct (fresh_new a y Wf E).
    + intros E. destruct (fresh_new a x Wf E).
    + intros E. apply N.eqb_neq in Ex, Ey. rewrite (Fr x Ex), (Fr y Ey). apply H. exact E.
  - intros x i. cbn [a_ids a_next ifind]. destruct (N.eqb x o).
    + intros F _. injection F as <-. rewrite N.mul_succ_r. apply N.lt_add_pos_r. reflexivity.
    + intros F Ev. pose proof (Wf x i F Ev) as L. rewrite N.mul_succ_r. eapply N.lt_trans; [exact L | apply N.lt_add_pos_r; reflexivity].
Qed.

Definition upto (outs : list N) (c' c : cenv) : cenv := fun z => if memN z outs then c' z else c z.

Lemma fresh_fold outs : forall a c c', holds a c -> awf a ->
  let a' := fold_left (fun st o => mkA ((o, (2 * a_next st)%N) :: a_ids st) (N.succ (a_next st))) outs a in
  holds a' (upto outs c' c) /\ awf a'.
Proof.
  induction outs as [|o t IH] using rev_ind; intros a c c' H Wf; cbn zeta.
  - cbn. split; [exact H | exact Wf].
  - rewrite fold_left_app. cbn [fold_left].
    destruct (IH a c c' H Wf) as [H1 W1]. cbn zeta in H1, W1.
    set (a1 := fold_left (fun st o0 => mkA ((o0, (2 * a_next st)%N) :: a_ids st) (N.succ (a_next st))) t a) in *.
    apply (fresh_step a1 (upto t c' c) (upto (t ++ [o]) c' c) o H1 W1).
    intros z Hz. unfold upto, memN. rewrite existsb_app. cbn [existsb]. apply N.eqb_neq in Hz. rewrite Hz. rewrite !orb_false_r. reflexivity.
Qed.

Lemma holds_ext a c c' : (forall z, c z = c' z) -> holds a c -> holds a c'.
Proof. intros E H x y I. rewrite <- !E. apply H. exact I. Qed.

Lemma is_copy_spec ins x y : is_copy ins = Some (x, y) ->
  i_op ins = "assign" /\ i_args ins = [OVar y] /\ i_outs ins = [x] /\ x <> y.
Proof.
  unfold is_copy. destruct (String.eqb (i_op ins) "assign") eqn:E; [|discriminate]. apply String.eqb_eq in E.
  destruct (i_args ins) as [|[?|y'|?] [|? ?]]; try discriminate. destruct (i_outs ins) as [|x' [|? ?]]; try discriminate.
  destruct (N.eqb x' y') eqn:N; [discriminate|]. intros H. injection H as <- <-. apply N.eqb_neq in N. repeat split; assumption.
Qed.

(* the transfer function is sound for every step of the concrete semantics *)
Theorem phi_transfer_sound_partial lv a ins c c' : holds a c -> awf a -> step_conc lv ins c c' ->
  holds (atransfer a ins) c' /\ awf (atransfer a ins).
Proof.
  intros H Wf [Hk [Hw [Hv _]]]. unfold atransfer. destruct (is_copy ins) as [[x y]|] eqn:C.
  - destruct (is_copy_spec ins x y C) as [Eo [Ea [Eu Nxy]]].
    assert (Vx : c' x = c y).
    { apply (Hv (fun c0 => oval lv c0 (OVar y)) x); [|exact Eu]. unfold sem_fun. rewrite Ea, Eu, Eo. reflexivity. }
    assert (Fr : forall z, z <> x -> c' z = c z) by (intros z Hz; apply Hk; rewrite Eu; intros [E|[]]; congruence).
    split.
    + intros u v. cbn [a_ids]. rewrite !idof_cons.
      destruct (N.eqb u x) eqn:Eu'; destruct (N.eqb v x) eqn:Ev'.
      * apply N.eqb_eq in Eu', Ev'. subst. reflexivity.
      * intros E. apply N.eqb_eq in Eu'. apply N.eqb_neq in Ev'. subst u. rewrite Vx, (Fr v Ev'). apply H. exact E.
      * intros E. apply N.eqb_eq in Ev'. apply N.eqb_neq in Eu'. subst v. rewrite Vx, (Fr u Eu'). apply H. exact E.
      * intros E. apply N.eqb_neq in Eu', Ev'. rewrite (Fr u Eu'), (Fr v Ev'). apply H. exact E.
    + intros z i. cbn [a_ids a_next ifind]. destruct (N.eqb z x).
      * intros F Ev. injection F as <-. unfold idof in Ev |- *. destruct (ifind (a_ids a) y) as [j|] eqn:Fy.
        -- exact (Wf y j Fy Ev).
        -- rewrite odd_default in Ev. discriminate.
      * apply Wf.
  - destruct (fresh_fold (i_outs ins) a c c' H Wf) as [H1 W1]. cbn zeta in H1, W1. split; [|exact W1].
    eapply holds_ext; [|exact H1]. intros z. unfold upto. destruct (memN z (i_outs ins)) eqn:M; [reflexivity|].
    symmetry. apply Hk. intros I. assert (memN z (i_outs ins) = true); [|congruence].
    unfold memN. apply existsb_exists. exists z. split; [exact I | apply N.eqb_refl].
Qed.

(* ------------------------------------------------------------------ edges *)
Lemma pair_for_In p l v : pair_for p l = Some v -> In (p, v) l.
Proof.
  induction l as [|[q w] t IH]; cbn; [discriminate|]. destruct (N.eqb p q) eqn:E.
  - apply N.eqb_eq in E. subst. intros H. injection H as <-. left. reflexivity.
  - intros H. right. apply IH. exact H.
Qed.

Lemma pair_for_unique p l v w : nodupb (map fst l) = true -> pair_for p l = Some v -> In (p, w) l -> w = v.
Proof.
  induction l as [|[q u] t IH]; cbn; [discriminate|]. intros N. apply andb_prop in N as [N1 N2]. apply negb_true_iff in N1.
  destruct (N.eqb p q) eqn:E.
  - apply N.eqb_eq in E. subst q. intros H. injection H as <-. intros [I|I]; [injection I as <-; reflexivity|].
    exfalso. assert (memN p (map fst t) = true); [|congruence].
    unfold memN. apply existsb_exists. exists p. split; [apply in_map_iff; exists (p, w); split; [reflexivity | exact I] | apply N.eqb_refl].
  - intros H [I|I]; [injection I as <- _; rewrite N.eqb_refl in E; discriminate | apply IH; assumption].
Qed.

(* the value a variable has after the parallel phi assignment *)
Lemma phi_src_sound phis p c c1 x s : phi_assign phis p c c1 ->
  forallb (fun ins => nodupb (map fst (phi_pairs (i_args ins)))) phis = true ->
  phi_src phis p x = Some s -> c1 x = c s.
Proof.
  intros [P1 P2] ND.
  assert (G : forall t pre, phis = (pre ++ t)%list -> (forall ins, In ins pre -> phi_out ins <> Some x) ->
              phi_src t p x = Some s -> c1 x = c s).
  { induction t as [|ins t IH]; intros pre E Hpre H; cbn [phi_src] in H.
    - injection H as <-. apply P1. intros ins I. apply Hpre. rewrite E, app_nil_r in I. exact I.
    - assert (Iin : In ins phis) by (rewrite E; apply in_or_app; right; left; reflexivity).
      destruct (phi_out ins) as [o|] eqn:PO.
      + destruct (N.eqb o x) eqn:Eo.
        * apply N.eqb_eq in Eo. subst o. destruct (P2 ins x Iin PO) as [v [Iv Ev]]. rewrite Ev. f_equal.
          rewrite forallb_forall in ND. exact (pair_for_unique p _ s v (ND ins Iin) H Iv).
        * apply (IH (pre ++ [ins])%list); [rewrite <- app_assoc; exact E | | exact H].
          intros j Ij. apply in_app_or in Ij as [Ij|[<-|[]]]; [apply Hpre; exact Ij|].
          rewrite PO. intros X. injection X as X. apply N.eqb_neq in Eo. congruence.
      + apply (IH (pre ++ [ins])%list); [rewrite <- app_assoc; exact E | | exact H].
        intros j Ij. apply in_app_or in Ij as [Ij|[<-|[]]]; [apply Hpre; exact Ij|]. rewrite PO. discriminate. }
  apply (G phis []); [reflexivity | intros ins []].
Qed.

(* a checked edge transports the claimed classes through the parallel phi assignment *)
Theorem phi_edge_sound_partial outp phis p Ab c c1 : edge_ok outp phis p Ab = true -> acert_ok Ab = true ->
  forallb (fun ins => nodupb (map fst (phi_pairs (i_args ins)))) phis = true ->
  holds outp c -> phi_assign phis p c c1 -> holds Ab c1.
Proof.
  intros EO CO ND H PA x y I.
  destruct (N.eq_dec x y) as [->|Ne]; [reflexivity|].
  assert (Kx : forall z, ifind (a_ids Ab) z = None -> idof (a_ids Ab) z = (2 * z + 1)%N) by (intros z F; unfold idof; rewrite F; reflexivity).
  assert (Ev : forall z i, ifind (a_ids Ab) z = Some i -> N.even i = true).
  { intros z i F. unfold acert_ok in CO. rewrite forallb_forall in CO.
    assert (In (z, i) (a_ids Ab)).
    { clear -F. induction (a_ids Ab) as [|[u j] t IH]; cbn in F; [discriminate|]. destruct (N.eqb z u) eqn:E.
      - apply N.eqb_eq in E. subst. injection F as <-. left. reflexivity.
      - right. apply IH. exact F. }
    specialize (CO _ H0). cbn [snd] in CO. apply andb_prop in CO as [CO _]. exact CO. }
  assert (Key : forall z i, ifind (a_ids Ab) z = Some i -> In z (keys (a_ids Ab))).
  { intros z i F. clear -F. unfold keys. induction (a_ids Ab) as [|[u j] t IH]; cbn in F; [discriminate|]. destruct (N.eqb z u) eqn:E.
    - apply N.eqb_eq in E. subst. left. reflexivity.
    - right. apply IH. exact F. }
  destruct (ifind (a_ids Ab) x) as [ix|] eqn:Fx; destruct (ifind (a_ids Ab) y) as [iy|] eqn:Fy.
  - unfold edge_ok in EO. rewrite forallb_forall in EO. specialize (EO x (Key x ix Fx)). rewrite forallb_forall in EO.
    specialize (EO y (Key y iy Fy)). rewrite I, N.eqb_refl in EO.
    destruct (phi_src phis p x) as [sx|] eqn:Sx; [|discriminate]. destruct (phi_src phis p y) as [sy|] eqn:Sy; [|discriminate].
    apply N.eqb_eq in EO. rewrite (phi_src_sound phis p c c1 x sx PA ND Sx), (phi_src_sound phis p c c1 y sy PA ND Sy).
    apply H. exact EO.
  - exfalso. unfold idof in I. rewrite Fx, Fy in I. pose proof (Ev x ix Fx) as E. rewrite I, odd_default in E. discriminate.
  - exfalso. unfold idof in I. rewrite Fx, Fy in I. pose proof (Ev y iy Fy) as E. rewrite <- I, odd_default in E. discriminate.
  - exfalso. rewrite (Kx x Fx), (Kx y Fy) in I. apply Ne. lia.
Qed.

(* a checked replacement: on that edge the phi assigns to x the value v has (and keeps) *)
Theorem phi_repl_sound_partial outp phis p x v c c1 : repl_ok outp phis p (x, v) = true ->
  forallb (fun ins => nodupb (map fst (phi_pairs (i_args ins)))) phis = true ->
  memN v (phi_outs phis) = false ->
  holds outp c -> phi_assign phis p c c1 -> c1 x = c1 v.
Proof.
  intros RO ND Nv H PA. unfold repl_ok in RO. cbn [fst snd] in RO.
  destruct (phi_src phis p x) as [sx|] eqn:Sx; [|discriminate]. apply N.eqb_eq in RO.
  rewrite (phi_src_sound phis p c c1 x sx PA ND Sx). rewrite (H sx v RO). symmetry.
  destruct PA as [P1 _]. apply P1. intros ins I PO.
  assert (memN v (phi_outs phis) = true); [|congruence].
  unfold memN. apply existsb_exists. exists v. split; [|apply N.eqb_refl].
  unfold phi_outs. apply in_flat_map. exists ins. split; [exact I | rewrite PO; left; reflexivity].
Qed.
