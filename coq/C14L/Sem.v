(* C14L -- labelled small-step semantics of an exported Venom function, used to state that the small rewriting passes
   (literals_codesize, revert_to_assert, assert_combiner, phi_elimination) preserve behaviour.

   It extends the semantics of C14/RangeFix.v (same syntax `inst`/`func`, same `step_conc`, `targets`, `phi_assign`):
   variables hold 256-bit words; `assign` and the 22 opcodes of `word_op` compute the Word256 function of their operands;
   every other instruction may write ANY word to its outputs.  Added here:
   * OUTCOMES: a halting terminator ends the run with `OHalt op operand-values`, except `revert` with all operands 0, which is
     `ORevert0` (revert with empty return data); an `assert a` with a = 0 also ends with `ORevert0` (that is what the back
     end emits for `assert`); `assert_unreachable a` with a = 0 ends with `OHalt "invalid" []`;
   * EVENTS: an instruction whose result/effect the semantics does not determine (loads, stores, calls, logs, ...) is a
     visible event `LEv op operand-values output-values`; two runs with the same event sequence perform the same
     memory/storage/log/call operations with the same arguments and receive the same answers;
   * silent instructions: determined ones, `nop`, passing asserts, jumps (tau);  instructions that only read the immutable
     transaction environment or are pure functions outside `word_op` (`pure_env_ops`) take their result from an oracle
     `env op operand-values` that is fixed for the run (universally quantified in the theorems) and are silent;
     `gas`/`msize`/`alloca`-like instructions are silent with an arbitrary result.
   The state is (current block, remaining instructions of the block, variable values).  Definitions only. *)
From Coq Require Import ZArith NArith Bool List String Lia.
From Verif Require Import Base.Word256 Base.PyInt C14.RangeBase C14.RangeFix.
Import ListNotations.
Open Scope string_scope.
Open Scope Z_scope.

Definition mem_str (s : string) (l : list string) : bool := existsb (String.eqb s) l.

Definition halting_ops : list string :=
  ["stop"; "return"; "revert"; "invalid"; "selfdestruct"; "ret"; "dret"; "retfmp"; "sink"].
Definition jump_ops : list string := ["jmp"; "jnz"; "djmp"].
Definition pure_env_ops : list string :=
  ["calldataload"; "calldatasize"; "caller"; "callvalue"; "address"; "origin"; "gasprice"; "coinbase"; "timestamp";
   "number"; "prevrandao"; "difficulty"; "gaslimit"; "chainid"; "basefee"; "blobbasefee"; "blobhash"; "blockhash";
   "codesize"; "offset"; "exp"; "addmod"; "mulmod"].
Definition quiet_havoc_ops : list string := ["gas"; "msize"; "alloca"; "palloca"; "calloca"].

Definition is_jump (ins : inst) : bool := mem_str (i_op ins) jump_ops.
Definition is_pure_env (ins : inst) : bool := mem_str (i_op ins) pure_env_ops.
(* instructions that are not observable *)
Definition silent (ins : inst) : bool :=
  determined ins || is_pure_env ins || mem_str (i_op ins) quiet_havoc_ops
  || mem_str (i_op ins) ["nop"; "assert"; "assert_unreachable"].

Inductive outcome := ORevert0 | OHalt (op : string) (vals : list Z).
Inductive label := LTau | LEv (op : string) (args : list Z) (outs : list Z).

Definition outcome_of (op : string) (vals : list Z) : outcome :=
  if String.eqb op "revert" && forallb (Z.eqb 0) vals then ORevert0 else OHalt op vals.

(* does the instruction end the run in state c? *)
Definition final_of (lv : N -> Z) (ins : inst) (c : cenv) : option outcome :=
  if mem_str (i_op ins) halting_ops then Some (outcome_of (i_op ins) (map (oval lv c) (i_args ins)))
  else if String.eqb (i_op ins) "assert" then
    match i_args ins with [a] => if oval lv c a =? 0 then Some ORevert0 else None | _ => None end
  else if String.eqb (i_op ins) "assert_unreachable" then
    match i_args ins with [a] => if oval lv c a =? 0 then Some (OHalt "invalid" []) else None | _ => None end
  else None.

Definition env_ok (env : string -> list Z -> Z) : Prop := forall op vals, 0 <= env op vals < W.

(* one non-jump instruction *)
Definition istep (lv : N -> Z) (env : string -> list Z -> Z) (ins : inst) (c : cenv) (l : label) (c' : cenv) : Prop :=
  step_conc lv ins c c' /\ final_of lv ins c = None /\ is_jump ins = false /\
  (is_pure_env ins = true -> forall o, i_outs ins = [o] -> c' o = env (i_op ins) (map (oval lv c) (i_args ins))) /\
  l = (if silent ins then LTau else LEv (i_op ins) (map (oval lv c) (i_args ins)) (map c' (i_outs ins))).

Definition state := (N * list inst * cenv)%type.

Inductive lstep (f : func) (lv : N -> Z) (env : string -> list Z -> Z) : state -> label -> state -> Prop :=
| ls_inst b ins rest c l c' : istep lv env ins c l c' -> lstep f lv env (b, ins :: rest, c) l (b, rest, c')
| ls_jump b ins rest c b' c' : is_jump ins = true -> In b' (targets lv ins c) ->
    phi_assign (leading_phis (nth_block f b')) b c c' ->
    lstep f lv env (b, ins :: rest, c) LTau (b', body (nth_block f b'), c').

Definition final (lv : N -> Z) (s : state) (o : outcome) : Prop :=
  match s with (_, ins :: _, c) => final_of lv ins c = Some o | _ => False end.

(* weak traces: the visible events of a finite run prefix, and the outcome if the run has ended *)
Inductive wtrace (f : func) (lv : N -> Z) (env : string -> list Z -> Z) : state -> list label -> option outcome -> Prop :=
| wt_stop s : wtrace f lv env s [] None
| wt_final s o : final lv s o -> wtrace f lv env s [] (Some o)
| wt_tau s s' t r : lstep f lv env s LTau s' -> wtrace f lv env s' t r -> wtrace f lv env s t r
| wt_ev s s' op a o t r : lstep f lv env s (LEv op a o) s' -> wtrace f lv env s' t r ->
    wtrace f lv env s (LEv op a o :: t) r.

Definition init_state (f : func) (c0 : cenv) : state := (0%N, body (nth_block f 0%N), c0).

(* the two functions have the same behaviours: for every label valuation, environment oracle and initial variable
   values, the same sets of (visible event sequence, outcome) *)
Definition beh_equiv (f f' : func) : Prop :=
  forall lv env c0, lv_ok lv -> env_ok env -> cenv_ok c0 ->
  forall t r, wtrace f lv env (init_state f c0) t r <-> wtrace f' lv env (init_state f' c0) t r.

(* ------------------------------------------------------------------ variables below a bound (freshness) *)
Definition op_below (nv : N) (o : operand) : bool := match o with OVar x => N.ltb x nv | _ => true end.
Definition inst_below (nv : N) (ins : inst) : bool :=
  forallb (op_below nv) (i_args ins) && forallb (fun x => N.ltb x nv) (i_outs ins).
Definition func_below (nv : N) (f : func) : bool := forallb (forallb (inst_below nv)) f.

(* syntactic equality of exported functions (used by the per-invocation tie: real pass output = model output) *)
Definition operand_eqb (a b : operand) : bool :=
  match a, b with
  | OLit x, OLit y => Z.eqb x y
  | OVar x, OVar y => N.eqb x y
  | OLab x, OLab y => N.eqb x y
  | _, _ => false
  end.
Fixpoint list_eqb {A} (e : A -> A -> bool) (l l' : list A) : bool :=
  match l, l' with
  | [], [] => true
  | x :: t, y :: t' => e x y && list_eqb e t t'
  | _, _ => false
  end.
Definition inst_eqb (i j : inst) : bool :=
  String.eqb (i_op i) (i_op j) && list_eqb operand_eqb (i_args i) (i_args j) && list_eqb N.eqb (i_outs i) (i_outs j).
Definition func_eqb (f g : func) : bool := list_eqb (list_eqb inst_eqb) f g.
