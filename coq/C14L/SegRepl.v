(* C14L -- replacing a silent, jump-free SEGMENT of one block by another preserves behaviour, provided the two segments
   have the same big-step behaviour (same final variable values below nv, same failure outcome) from every pair of states
   that agree below nv and satisfy an invariant J established by the instructions in front of the segment.
   One direction (trace inclusion); used twice. *)
From Coq Require Import ZArith NArith Bool List String Lia Relations.
From Verif Require Import Base.Word256 Base.PyInt C14.RangeBase C14.RangeFix C14.RangeFixProofs C14.WordClosed
  C14L.Sem C14L.SemProofs C14L.Pointwise C14L.Steps C14L.Rta C14L.RtaProofs.
Import ListNotations.
Open Scope string_scope.
Open Scope Z_scope.

Inductive seg_exec (lv : N -> Z) (env : string -> list Z -> Z) : list inst -> cenv -> cenv -> Prop :=
| se_nil c : seg_exec lv env [] c c
| se_cons i r c c1 c2 : istep lv env i c LTau c1 -> seg_exec lv env r c1 c2 -> seg_exec lv env (i :: r) c c2.

Inductive seg_fin (lv : N -> Z) (env : string -> list Z -> Z) : list inst -> cenv -> outcome -> Prop :=
| sf_here i r c o : final_of lv i c = Some o -> seg_fin lv env (i :: r) c o
| sf_later i r c c1 o : istep lv env i c LTau c1 -> seg_fin lv env r c1 o -> seg_fin lv env (i :: r) c o.

Lemma seg_exec_app lv env s1 : forall s2 c c1 c2, seg_exec lv env s1 c c1 -> seg_exec lv env s2 c1 c2 ->
  seg_exec lv env (s1 ++ s2) c c2.
Proof. induction s1 as [|i t IH]; intros s2 c c1 c2 H1 H2; inversion H1; subst; [exact H2|]. cbn. econstructor; [eassumption | eapply IH; eassumption]. Qed.

Lemma seg_exec_snoc lv env s i c c1 c2 : seg_exec lv env s c c1 -> istep lv env i c1 LTau c2 -> seg_exec lv env (s ++ [i]) c c2.
Proof. intros H I. eapply seg_exec_app; [exact H|]. econstructor; [exact I | constructor]. Qed.

Lemma seg_exec_fin lv env s1 : forall s2 c c1 o, seg_exec lv env s1 c c1 -> seg_fin lv env s2 c1 o -> seg_fin lv env (s1 ++ s2) c o.
Proof. induction s1 as [|i t IH]; intros s2 c c1 o H1 H2; inversion H1; subst; [exact H2|]. cbn. eapply sf_later; [eassumption | eapply IH; eassumption]. Qed.

Lemma seg_exec_ok lv env s : forall c c', cenv_ok c -> seg_exec lv env s c c' -> cenv_ok c'.
Proof. induction s; intros c c' Hc H; inversion H; subst; [exact Hc|]. eapply IHs; [|eassumption]. eapply istep_cenv_ok; eassumption. Qed.

Lemma seg_exec_tau g lv env b post s : forall c c', seg_exec lv env s c c' -> tau_star lv env g (b, (s ++ post)%list, c) (b, post, c').
Proof.
  induction s as [|i t IH]; intros c c' H; inversion H; subst; [apply tau_star_refl|].
  cbn. eapply tau_star_trans; [apply tau_star_one; apply ls_inst; eassumption | apply IH; assumption].
Qed.

Lemma seg_fin_tau g lv env b post s : forall c o, seg_fin lv env s c o ->
  exists s'', tau_star lv env g (b, (s ++ post)%list, c) s'' /\ final lv s'' o.
Proof.
  induction s as [|i t IH]; intros c o H; inversion H; subst.
  - eexists. split; [apply tau_star_refl|]. cbn. assumption.
  - destruct (IH _ _ H5) as [s'' [T F]]. exists s''. split; [|exact F].
    cbn. eapply tau_star_trans; [apply tau_star_one; apply ls_inst; eassumption | exact T].
Qed.

Section SegSim.
  Variable f f' : func.
  Variable nv : N.
  Variable lv : N -> Z.
  Variable env : string -> list Z -> Z.
  Variable b0 : N.
  Variable pre seg seg' post : list inst.
  Variable J : list inst -> cenv -> Prop.

  Hypothesis LV : lv_ok lv.
  Hypothesis Hphis : forall b, leading_phis (nth_block f' b) = leading_phis (nth_block f b).
  Hypothesis Hphis_below : forall b, forallb (inst_below nv) (leading_phis (nth_block f b)) = true.
  Hypothesis Hother : forall b, b <> b0 -> body (nth_block f' b) = body (nth_block f b).
  Hypothesis Hother_below : forall b, b <> b0 -> forallb (inst_below nv) (body (nth_block f b)) = true.
  Hypothesis Hb0 : body (nth_block f b0) = (pre ++ seg ++ post)%list.
  Hypothesis Hb0' : body (nth_block f' b0) = (pre ++ seg' ++ post)%list.
  Hypothesis Hpre_below : forallb (inst_below nv) pre = true.
  Hypothesis Hpost_below : forallb (inst_below nv) post = true.
  Hypothesis J_init : forall c, cenv_ok c -> J pre c.
  Hypothesis J_step : forall i r c l c', J (i :: r) c -> istep lv env i c l c' -> J r c'.
  (* the segment of f: silent, no jumps *)
  Hypothesis Hsilent : forall i c l c', In i seg -> istep lv env i c l c' -> l = LTau.
  Hypothesis Hnojump : forall i, In i seg -> is_jump i = false.
  Hypothesis Hnonempty : seg <> [].
  (* big-step correspondence *)
  Hypothesis P1 : forall c c' cn, agree nv c cn -> cenv_ok c -> cenv_ok cn -> J [] c -> J [] cn ->
    seg_exec lv env seg c c' -> exists cn', seg_exec lv env seg' cn cn' /\ agree nv c' cn'.
  Hypothesis P2 : forall c cn o, agree nv c cn -> cenv_ok c -> cenv_ok cn -> J [] c -> J [] cn ->
    seg_fin lv env seg c o -> seg_fin lv env seg' cn o.

  Inductive RG : state -> state -> Prop :=
  | RG_same b rest c c' : agree nv c c' -> cenv_ok c -> cenv_ok c' -> forallb (inst_below nv) rest = true ->
      RG (b, rest, c) (b, rest, c')
  | RG_pre p c c' : agree nv c c' -> cenv_ok c -> cenv_ok c' -> J p c -> J p c' -> forallb (inst_below nv) p = true ->
      RG (b0, (p ++ seg ++ post)%list, c) (b0, (p ++ seg' ++ post)%list, c')
  | RG_seg sp ss cs c c' : ss <> [] -> seg = (sp ++ ss)%list -> seg_exec lv env sp cs c -> agree nv cs c' -> cenv_ok cs -> cenv_ok c' ->
      J [] cs -> J [] c' -> RG (b0, (ss ++ post)%list, c) (b0, (seg' ++ post)%list, c').

  Lemma RG_entry b1 c1 c1' : agree nv c1 c1' -> cenv_ok c1 -> cenv_ok c1' ->
    RG (b1, body (nth_block f b1), c1) (b1, body (nth_block f' b1), c1').
  Proof.
    intros A O O'. destruct (N.eq_dec b1 b0) as [->|Ne].
    - rewrite Hb0, Hb0'. apply RG_pre; auto.
    - rewrite (Hother b1 Ne). apply RG_same; auto.
  Qed.

  (* an instruction that both sides execute *)
  Lemma RG_common b i ro rn c c' l s1 : agree nv c c' -> cenv_ok c -> cenv_ok c' -> inst_below nv i = true ->
    lstep f lv env (b, i :: ro, c) l s1 ->
    (exists c1 c1', s1 = (b, ro, c1) /\ istep lv env i c l c1 /\ istep lv env i c' l c1' /\
                    lstep f' lv env (b, i :: rn, c') l (b, rn, c1') /\ agree nv c1 c1' /\ cenv_ok c1 /\ cenv_ok c1') \/
    (exists s1', l = LTau /\ lstep f' lv env (b, i :: rn, c') LTau s1' /\ RG s1 s1').
  Proof.
    intros A O O' Bi H.
    destruct (lstep_inv _ _ _ _ _ _ _ _ _ H) as [[c1 [I ->]] | [b1 [c1 [Jm [T [P [-> ->]]]]]]].
    - left. destruct (istep_agree nv lv env i c l c1 c' Bi A I) as [I' A'].
      exists c1, (upd_outs (i_outs i) c1 c').
      split; [reflexivity | split; [exact I | split; [exact I' | split; [apply ls_inst; exact I' | split; [exact A' | split]]]]].
      + exact (istep_cenv_ok lv env i c l c1 O I).
      + exact (istep_cenv_ok lv env i c' l _ O' I').
    - right. destruct (jump_agree f f' nv lv env b i rn c c' b1 c1 (Hphis b1) (Hphis_below b1) Bi A Jm T P) as [c1' [L [A' Ok']]].
      exists (b1, body (nth_block f' b1), c1'). split; [reflexivity | split; [exact L|]].
      apply RG_entry; [exact A' | exact (phi_assign_ok _ b c c1 O P) | apply Ok'; exact O'].
  Qed.

  (* inside the segment: the original moves, the new code waits; when the original leaves the segment the new code runs
     its whole segment *)
  Lemma RG_seg_step sp ss cs c c' l s1 : seg = (sp ++ ss)%list -> seg_exec lv env sp cs c -> agree nv cs c' -> cenv_ok cs ->
    cenv_ok c' -> J [] cs -> J [] c' -> lstep f lv env (b0, (ss ++ post)%list, c) l s1 ->
    ss <> [] -> exists s1', wstep lv env f' (b0, (seg' ++ post)%list, c') l s1' /\ RG s1 s1'.
  Proof.
    intros E X A O O' Jc Jc' H Ne. destruct ss as [|i ss']; [contradiction|]. cbn [app] in H.
    assert (Ii : In i seg) by (rewrite E; apply in_or_app; right; left; reflexivity).
    destruct (lstep_inv _ _ _ _ _ _ _ _ _ H) as [[c1 [I ->]] | [b1 [c1 [Jm _]]]].
    2:{ rewrite (Hnojump i Ii) in Jm. discriminate. }
    pose proof (Hsilent i c l c1 Ii I) as ->.
    assert (X' : seg_exec lv env (sp ++ [i]) cs c1) by (eapply seg_exec_snoc; eassumption).
    destruct ss' as [|j ss''].
    - (* the segment is finished *)
      assert (Es : seg = (sp ++ [i])%list) by exact E.
      rewrite <- Es in X'. destruct (P1 cs c1 c' A O O' Jc Jc' X') as [cn' [Xn An]].
      exists (b0, post, cn'). split; [cbn; apply seg_exec_tau; exact Xn|]. cbn [app].
      apply RG_same; [exact An | exact (seg_exec_ok lv env _ _ _ O X') | exact (seg_exec_ok lv env _ _ _ O' Xn) | exact Hpost_below].
    - exists (b0, (seg' ++ post)%list, c'). split; [cbn; apply tau_star_refl|].
      apply (RG_seg (sp ++ [i]) (j :: ss'') cs c1 c'); try assumption; [discriminate|].
      rewrite E. rewrite <- app_assoc. reflexivity.
  Qed.

  Lemma RG_step s s' l s1 : RG s s' -> lstep f lv env s l s1 -> exists s1', wstep lv env f' s' l s1' /\ RG s1 s1'.
  Proof.
    intros R H. destruct R as [b rest c c' A O O' B | p c c' A O O' Jp Jp' Bp | sp ss cs c c' Nss E X A O O' Jc Jc'].
    - destruct rest as [|i r]; [destruct (lstep_nil _ _ _ _ _ _ _ H)|].
      cbn in B. apply andb_prop in B as [Bi Br].
      destruct (RG_common b i r r c c' l s1 A O O' Bi H) as [[c1 [c1' [-> [_ [_ [L [A1 [O1 O1']]]]]]]] | [s1' [-> [L R1]]]].
      + eexists. split; [apply wstep_one; exact L | apply RG_same; assumption].
      + eexists. split; [apply (wstep_one f' lv env _ LTau); exact L | exact R1].
    - destruct p as [|i r].
      + (* at the segment *)
        cbn [app] in *. apply (RG_seg_step [] seg c c c' l s1 eq_refl (se_nil _ _ _) A O O' Jp Jp' H Hnonempty).
      + cbn [app] in *. cbn in Bp. apply andb_prop in Bp as [Bi Br].
        destruct (RG_common b0 i _ (r ++ seg' ++ post)%list c c' l s1 A O O' Bi H) as [[c1 [c1' [-> [I [I' [L [A1 [O1 O1']]]]]]]] | [s1' [-> [L R1]]]].
        * eexists. split; [apply wstep_one; exact L|]. apply RG_pre; try assumption; [exact (J_step i r c l c1 Jp I) | exact (J_step i r c' l c1' Jp' I')].
        * eexists. split; [apply (wstep_one f' lv env _ LTau); exact L | exact R1].
    - apply (RG_seg_step sp ss cs c c' l s1 E X A O O' Jc Jc' H Nss).
  Qed.

  Lemma RG_final s s' o : RG s s' -> final lv s o -> exists s'', tau_star lv env f' s' s'' /\ final lv s'' o.
  Proof.
    intros R F. destruct R as [b rest c c' A O O' B | p c c' A O O' Jp Jp' Bp | sp ss cs c c' Nss E X A O O' Jc Jc'].
    - exists (b, rest, c'). split; [apply tau_star_refl|]. destruct rest as [|i r]; [contradiction|].
      cbn in B. apply andb_prop in B as [Bi _]. apply andb_prop in Bi as [Bi _].
      unfold final in *. rewrite <- (final_of_agree nv lv i c c' Bi A). exact F.
    - destruct p as [|i r].
      + cbn [app] in *. destruct seg as [|i r] eqn:Es; [contradiction|]. cbn [app] in F. unfold final in F.
        apply (seg_fin_tau f' lv env b0 post seg' c' o). apply (P2 c c' o A O O' Jp Jp'). apply sf_here. exact F.
      + cbn [app] in *. exists (b0, (i :: r ++ seg' ++ post)%list, c'). split; [apply tau_star_refl|].
        cbn in Bp. apply andb_prop in Bp as [Bi _]. apply andb_prop in Bi as [Bi _].
        unfold final in *. rewrite <- (final_of_agree nv lv i c c' Bi A). exact F.
    - destruct ss as [|i ss']; [contradiction|]. cbn [app] in F. unfold final in F.
      apply (seg_fin_tau f' lv env b0 post seg' c' o). apply (P2 cs c' o A O O' Jc Jc').
      rewrite E. eapply seg_exec_fin; [exact X | apply sf_here; exact F].
  Qed.

  Theorem seg_sim c0 t r : cenv_ok c0 -> wtrace f lv env (init_state f c0) t r -> wtrace f' lv env (init_state f' c0) t r.
  Proof.
    intros O T. eapply (sim_wtrace f f' lv env RG RG_step RG_final); [exact T|].
    unfold init_state. apply RG_entry; [apply agree_refl | exact O | exact O].
  Qed.
End SegSim.
