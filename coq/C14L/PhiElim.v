(* C14L -- verified validator for PhiEliminationPass (vyper/venom/passes/phi_elimination.py).
   The pass replaces a phi `%x = phi @p1, %u1, @p2, %u2, ...` all of whose operands are (copies of) one variable %v by
   `%x = %v`, placed behind the remaining phis of the block.
   Certificate (computed by tools/vlib/c14l_phi.py, NOT trusted): for every block a copy-equivalence state at the start of
   its body (variable -> class id; variables in one class hold equal values) and the list of replaced phis (x, v).
   The checker verifies that the states are inductive (re-running the transfer function below over every block and
   every CFG edge, parallel phi semantics) and that on every edge into the block the replaced phi's operand is in the class
   of v; then it rebuilds the function after the pass (`phi_apply`).  Definitions only. *)
From Coq Require Import ZArith NArith Bool List String.
From Verif Require Import Base.Word256 Base.PyInt C14.RangeBase C14.RangeFix C14L.Sem.
Import ListNotations.
Open Scope string_scope.
Open Scope Z_scope.

Definition idmap := list (N * N).
Fixpoint ifind (m : idmap) (x : N) : option N :=
  match m with [] => None | (y, i) :: t => if N.eqb x y then Some i else ifind t x end.
(* class id of a variable: explicit entry, or the variable's own (odd) default id *)
Definition idof (m : idmap) (x : N) : N := match ifind m x with Some i => i | None => (2 * x + 1)%N end.

Record astate := mkA { a_ids : idmap; a_next : N }.   (* fresh class ids are the even numbers 2 * a_next, ... *)

Definition is_copy (ins : inst) : option (N * N) :=
  if String.eqb (i_op ins) "assign" then
    match i_args ins, i_outs ins with
    | [OVar y], [x] => if N.eqb x y then None else Some (x, y)
    | _, _ => None
    end
  else None.

Definition atransfer (a : astate) (ins : inst) : astate :=
  match is_copy ins with
  | Some (x, y) => mkA ((x, idof (a_ids a) y) :: a_ids a) (a_next a)
  | None => fold_left (fun st o => mkA ((o, (2 * a_next st)%N) :: a_ids st) (N.succ (a_next st))) (i_outs ins) a
  end.
Definition arun (a : astate) (l : list inst) : astate := fold_left atransfer l a.

Definition keys (m : idmap) : list N := map fst m.
Definition memN (x : N) (l : list N) : bool := existsb (N.eqb x) l.

(* the operand a phi of the block selects for predecessor p (the variable itself if it is not a phi output) *)
Fixpoint pair_for (p : N) (l : list (N * N)) : option N :=
  match l with [] => None | (q, v) :: t => if N.eqb p q then Some v else pair_for p t end.
Fixpoint phi_src (phis : list inst) (p : N) (x : N) : option N :=
  match phis with
  | [] => Some x
  | ins :: t => match phi_out ins with
                | Some o => if N.eqb o x then pair_for p (phi_pairs (i_args ins)) else phi_src t p x
                | None => phi_src t p x
                end
  end.
Definition phi_outs (phis : list inst) : list N := flat_map (fun ins => match phi_out ins with Some o => [o] | None => [] end) phis.
Fixpoint nodupb (l : list N) : bool := match l with [] => true | x :: t => negb (memN x t) && nodupb t end.

(* certificate state is well formed: only even ids, all below the counter *)
Definition acert_ok (a : astate) : bool :=
  forallb (fun e : N * N => N.even (snd e) && N.ltb (snd e) (2 * a_next a)) (a_ids a).

(* the state A_b claimed at the body of b is implied, over the edge p -> b, by the state at the end of p *)
Definition edge_ok (outp : astate) (phis : list inst) (p : N) (Ab : astate) : bool :=
  let ks := keys (a_ids Ab) in
  forallb (fun x => forallb (fun y =>
     if N.eqb (idof (a_ids Ab) x) (idof (a_ids Ab) y) then
       match phi_src phis p x, phi_src phis p y with
       | Some sx, Some sy => N.eqb (idof (a_ids outp) sx) (idof (a_ids outp) sy)
       | _, _ => false
       end
     else true) ks) ks.

(* a replaced phi (x, v): on the edge from p its operand is in the class of v *)
Definition repl_ok (outp : astate) (phis : list inst) (p : N) (xv : N * N) : bool :=
  match phi_src phis p (fst xv) with
  | Some sx => N.eqb (idof (a_ids outp) sx) (idof (a_ids outp) (snd xv))
  | None => false
  end.

Definition nth_a (As : list astate) (b : N) : astate := nth (N.to_nat b) As (mkA [] 0).
Definition nth_r (Rs : list (list (N * N))) (b : N) : list (N * N) := nth (N.to_nat b) Rs [].

Definition block_phis_ok (blk : block) : bool :=
  nodupb (phi_outs (leading_phis blk)) &&
  forallb (fun ins => nodupb (map fst (phi_pairs (i_args ins)))) (leading_phis blk) &&
  forallb (fun ins => match phi_out ins with Some _ => true | None => false end) (leading_phis blk) &&
  forallb (fun ins => negb (is_phi ins)) (body blk).

Definition check_edges (f : func) (As : list astate) (Rs : list (list (N * N))) (p : N) : bool :=
  let blk := nth_block f p in
  let outp := arun (nth_a As p) (body blk) in
  match term_of blk with
  | None => true
  | Some T =>
    forallb (fun b => N.ltb b (N.of_nat (List.length f)) &&
                      edge_ok outp (leading_phis (nth_block f b)) p (nth_a As b) &&
                      forallb (repl_ok outp (leading_phis (nth_block f b)) p) (nth_r Rs b)) (succs T)
  end.

Definition repl_wf (blk : block) (R : list (N * N)) : bool :=
  let outs := phi_outs (leading_phis blk) in
  nodupb (map fst R) &&
  forallb (fun xv : N * N => memN (fst xv) outs && negb (memN (snd xv) outs)) R.

Definition phi_check (f : func) (As : list astate) (Rs : list (list (N * N))) : bool :=
  Nat.eqb (List.length As) (List.length f) && Nat.eqb (List.length Rs) (List.length f) &&
  match As with a0 :: _ => match a_ids a0 with [] => true | _ => false end | [] => true end &&
  forallb acert_ok As &&
  forallb block_phis_ok f &&
  forallb (fun br : block * list (N * N) => repl_wf (fst br) (snd br)) (combine f Rs) &&
  forallb (fun p => check_edges f As Rs (N.of_nat p)) (seq 0 (List.length f)).

(* the function after the pass *)
Definition phi_apply_block (blk : block) (R : list (N * N)) : block :=
  let phis := leading_phis blk in
  let kept := filter (fun ins => match phi_out ins with Some o => negb (memN o (map fst R)) | None => true end) phis in
  let replaced := filter (fun ins => match phi_out ins with Some o => memN o (map fst R) | None => false end) phis in
  let asg := flat_map (fun ins => match phi_out ins with
                                  | Some o => match ifind R o with Some v => [mkI "assign" [OVar v] [o]] | None => [] end
                                  | None => [] end) replaced in
  (kept ++ asg ++ body blk)%list.
Fixpoint phi_apply (f : func) (Rs : list (list (N * N))) : func :=
  match f with
  | [] => []
  | b :: t => match Rs with r :: rt => phi_apply_block b r :: phi_apply t rt | [] => b :: phi_apply t [] end
  end.
