(* C14L -- how individual instruction shapes step in the labelled semantics (construction and inversion lemmas). *)
From Coq Require Import ZArith NArith Bool List String Lia Relations.
From Verif Require Import Base.Word256 Base.PyInt C14.RangeBase C14.RangeFix C14.RangeFixProofs C14.WordClosed
  C14L.Sem C14L.SemProofs C14L.Pointwise.
Import ListNotations.
Open Scope string_scope.
Open Scope Z_scope.

Definition set_var (c : cenv) (o : N) (v : Z) : cenv := fun y => if N.eqb y o then v else c y.

Lemma set_var_same c o v : set_var c o v o = v.
Proof. unfold set_var. rewrite N.eqb_refl. reflexivity. Qed.
Lemma set_var_other c o v y : y <> o -> set_var c o v y = c y.
Proof. intros H. unfold set_var. apply N.eqb_neq in H. rewrite H. reflexivity. Qed.

Lemma istep_plain lv env ins g o c : lv_ok lv -> cenv_ok c -> plain ins = true -> sem_fun lv ins = Some g ->
  i_outs ins = [o] -> istep lv env ins c LTau (set_var c o (g c)).
Proof.
  intros Hl Hc P Sg Ho.
  pose proof (plain_final lv ins c P) as Fn. pose proof (plain_silent ins P) as Si.
  plain_split P.
  split; [split; [|split; [|split]]|split; [|split; [|split]]].
  - intros x Hx. apply set_var_other. intros ->. apply Hx. rewrite Ho. left. reflexivity.
  - intros x Hx. rewrite Ho in Hx. destruct Hx as [<-|[]]. rewrite set_var_same. exact (sem_fun_word lv ins g c Hl Hc Sg).
  - intros g0 o0 S0 H0. rewrite Sg in S0. injection S0 as <-. rewrite Ho in H0. injection H0 as <-. apply set_var_same.
  - intros X. match goal with H : String.eqb (i_op ins) "assert" = false |- _ => rewrite H in X end. discriminate.
  - exact Fn.
  - assumption.
  - intros X. match goal with H : is_pure_env ins = false |- _ => rewrite H in X end. discriminate.
  - rewrite Si. reflexivity.
Qed.

Lemma istep_plain_inv lv env ins g o c l c1 : plain ins = true -> sem_fun lv ins = Some g -> i_outs ins = [o] ->
  istep lv env ins c l c1 -> l = LTau /\ c1 o = g c /\ (forall y, y <> o -> c1 y = c y).
Proof.
  intros P Sg Ho [[Hk [Hw [Hv Ha]]] [Fn [Nj [Pe Lb]]]]. rewrite (plain_silent ins P) in Lb.
  split; [exact Lb|]. split; [apply Hv; assumption|].
  intros y Hy. apply Hk. rewrite Ho. intros [E|[]]. congruence.
Qed.

Lemma sem_fun_noouts lv op args : sem_fun lv (mkI op args []) = None.
Proof. unfold sem_fun. cbn [i_args i_outs]. destruct (has_label args); reflexivity. Qed.

Lemma silent_assert a : silent (mkI "assert" [a] []) = true.
Proof. unfold silent. cbn [i_op]. replace (mem_str "assert" ["nop"; "assert"; "assert_unreachable"]) with true by reflexivity. apply orb_true_r. Qed.

Lemma final_of_assert lv a c : final_of lv (mkI "assert" [a] []) c = if oval lv c a =? 0 then Some ORevert0 else None.
Proof. reflexivity. Qed.

Lemma istep_assert lv env a c : oval lv c a <> 0 -> istep lv env (mkI "assert" [a] []) c LTau c.
Proof.
  intros Hz.
  split; [split; [|split; [|split]]|split; [|split; [|split]]].
  - intros x _. reflexivity.
  - intros x [].
  - intros g o Sg. rewrite sem_fun_noouts in Sg. discriminate.
  - intros _ a0 E. cbn in E. injection E as <-. exact Hz.
  - rewrite final_of_assert. apply Z.eqb_neq in Hz. rewrite Hz. reflexivity.
  - reflexivity.
  - intros X. discriminate X.
  - rewrite silent_assert. reflexivity.
Qed.

Lemma istep_assert_inv lv env a c l c1 : istep lv env (mkI "assert" [a] []) c l c1 ->
  oval lv c a <> 0 /\ l = LTau /\ (forall y, c1 y = c y).
Proof.
  intros [[Hk [Hw [Hv Ha]]] [Fn [Nj [Pe Lb]]]]. rewrite silent_assert in Lb.
  split; [|split; [exact Lb|]].
  - rewrite final_of_assert in Fn. intros Z0. rewrite Z0 in Fn. discriminate.
  - intros y. apply Hk. intros [].
Qed.

Lemma cenv_ok_set_var c o v : cenv_ok c -> 0 <= v < W -> cenv_ok (set_var c o v).
Proof. intros Hc Hv y. unfold set_var. destruct (N.eqb y o); [exact Hv | apply Hc]. Qed.

Lemma phi_assign_nil p c : phi_assign [] p c c.
Proof. split; [intros; reflexivity | intros ins o []]. Qed.

Lemma phi_assign_nil_inv p c c' : phi_assign [] p c c' -> forall x, c' x = c x.
Proof. intros [H _] x. apply H. intros ins []. Qed.

Lemma forallb_app {A} (P : A -> bool) l1 l2 : forallb P (l1 ++ l2) = forallb P l1 && forallb P l2.
Proof. induction l1; cbn; [reflexivity | rewrite IHl1, andb_assoc; reflexivity]. Qed.

Lemma below_phis_body nv blk : forallb (inst_below nv) blk = true ->
  forallb (inst_below nv) (leading_phis blk) = true /\ forallb (inst_below nv) (body blk) = true.
Proof.
  induction blk as [|i t IH]; cbn; [split; reflexivity|]. intros H. apply andb_prop in H as [H1 H2].
  destruct (is_phi i); cbn; [|rewrite H1, H2; split; reflexivity].
  destruct (IH H2) as [A B]. rewrite H1, A. split; [reflexivity | exact B].
Qed.

Lemma func_below_nth nv f b : func_below nv f = true -> forallb (inst_below nv) (nth_block f b) = true.
Proof.
  unfold func_below, nth_block. intros H. generalize (N.to_nat b). induction f as [|x t IH]; intros [|n]; cbn in *; try reflexivity.
  - apply andb_prop in H as [H _]. exact H.
  - apply andb_prop in H as [_ H]. apply IH. exact H.
Qed.

Lemma w_iszero_nz_iff a : w_iszero a <> 0 <-> a = 0.
Proof. unfold w_iszero. destruct (a =? 0) eqn:E; cbn; [apply Z.eqb_eq in E | apply Z.eqb_neq in E]; split; intros; try lia; congruence. Qed.
