#!/usr/bin/env python3
"""Validate MANIFEST.json, evidence/*.json, properties.jsonl against the schemas (run with python3-vt)."""
import json, sys, glob
import jsonschema
ok = True
man = json.load(open('/verif/MANIFEST.json'))
jsonschema.validate(man, json.load(open('/root/.vp/MANIFEST.schema.json')))
ev_schema = json.load(open('/root/.vp/EVIDENCE.schema.json'))
claimed = {c["property_id"]: c for c in man["checks"]}
for pid, c in sorted(claimed.items()):
    f = c["evidence_file"]
    try:
        ev = json.load(open(f))
        jsonschema.validate(ev, ev_schema)
        cov = ev["coverage"]
        note = ""
        if ev["level"] != c["level_claimed"]["category"]:
            note = f" LEVEL MISMATCH manifest={c['level_claimed']['category']} evidence={ev['level']}"
            ok = False
        if ev["level"] == "proof" and cov.get("obligations") != cov.get("discharged"):
            note += " obligations!=discharged"
        print(f"{pid}: ok level={ev['level']} obligations={cov.get('obligations')} evals={cov.get('evaluations')} wall={ev['wall_s']}{note}")
    except Exception as e:
        ok = False
        print(f"{pid}: INVALID {type(e).__name__}: {str(e)[:200]}")
sys.exit(0 if ok else 1)
