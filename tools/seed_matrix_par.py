#!/usr/bin/env python3
"""Seed matrix, parallel: for every seeded change run the quick check of the property it was written for
(plus the extra checks named in EXTRA) against a scratch worktree of /repo HEAD with the change applied, from a
private copy of /verif per worker (so evidence/, replays/ and generated Coq files of concurrent runs do not mix),
and record the verdicts in /verif/seeded/<seed>/meta.json["matrix"].
usage: seed_matrix_par.py [-j N] [seed_name ...]      (default: all of /verif/seeded/*_m*, N = 4)
Scratch: /tmp/mx (copies and worktrees; removed at the end)."""
import json
import os
import queue
import shutil
import subprocess
import sys
import threading
import time
from pathlib import Path

V = Path("/verif")
ROOT = Path(f"/tmp/mx{os.getpid()}")
# checks other than the primary that are known to see a seed (second line of defence), from the validation batches
EXTRA = {"C16_m3": ["C13"], "C02_m4": ["C07"], "C02_m3": ["C14"], "C09_m3": ["C14"], "C12_m4": ["C05"], "C01_m3": ["C08"],
         "C01_m4": ["C08"], "C04_m4": ["C14"], "C13_m4": ["C05"], "C16_m4": ["C13"], "C03_m5": ["C14"], "C01_m6": ["C07", "C05"], "C02_m6": ["C08", "C14"]}


def sh(*a, **kw):
    return subprocess.run(list(a), capture_output=True, text=True, **kw)


def worker(k, q, lock):
    copy = ROOT / f"verif_{k}"
    if copy.exists():
        shutil.rmtree(copy)
    sh("rsync", "-a", "--exclude", ".git", "--exclude", "replays", "--exclude", "seeded", str(V) + "/", str(copy) + "/")
    # tracked files come from the committed HEAD (workers may be editing the live tree); build output (.vo) from the live tree
    subprocess.run(f"git -C {V} archive HEAD | tar -x -C {copy} --exclude=seeded --exclude=evidence", shell=True)
    while True:
        try:
            name = q.get_nowait()
        except queue.Empty:
            break
        sd = V / "seeded" / name
        primary = name.split("_")[0]
        wt = ROOT / ("wt_" + name)
        sh("git", "-C", "/repo", "worktree", "remove", "--force", str(wt))
        sh("git", "-C", "/repo", "worktree", "add", "-q", "--detach", str(wt), "HEAD")
        res, secs, demo = {}, {}, {}
        try:
            ap = sh("git", "-C", str(wt), "apply", str(sd / "patch.diff"))
            if ap.returncode != 0:
                res = {"error": "patch does not apply to /repo HEAD: " + ap.stderr[-200:]}
            else:
                env = dict(os.environ, PYTHONHASHSEED="0", PYTHONDONTWRITEBYTECODE="1")
                d0 = sh("timeout", "900", "/venv/bin/python", str(sd / "demo.py"), "/repo", env=dict(env, PYTHONPATH="/repo"), cwd="/tmp")
                d1 = sh("timeout", "900", "/venv/bin/python", str(sd / "demo.py"), str(wt), env=dict(env, PYTHONPATH=str(wt)), cwd="/tmp")
                demo = {"clean_exit": d0.returncode, "patched_exit": d1.returncode, "patched_output": (d1.stdout + d1.stderr)[-400:]}
                for pid in [primary] + EXTRA.get(name, []):
                    t0 = time.time()
                    ck = sh("timeout", "2400", "python3", "tools/check.py", pid, "--tier", "quick", cwd=str(copy),
                            env=dict(os.environ, VERIF_REPO=str(wt)))
                    out = ck.stdout + ck.stderr
                    viol = [l for l in out.splitlines() if l.startswith("VIOLATION")]
                    if ck.returncode not in (0, 1):
                        res[pid] = f"check error rc={ck.returncode}"
                    elif not viol:
                        res[pid] = "silent"
                    elif all("no-failing-input-found" in v for v in viol):
                        res[pid] = "reported (no failing input)"
                    else:
                        res[pid] = "reported with failing input"
                    secs[pid] = round(time.time() - t0)
        finally:
            sh("git", "-C", "/repo", "worktree", "remove", "--force", str(wt))
        with lock:
            meta = json.loads((sd / "meta.json").read_text())
            meta["matrix"] = {"repo_commit": sh("git", "-C", "/repo", "rev-parse", "--short", "HEAD").stdout.strip(),
                              "verif_commit": sh("git", "-C", str(V), "rev-parse", "--short", "HEAD").stdout.strip(),
                              "checks": res, "seconds": secs, "demo": demo}
            (sd / "meta.json").write_text(json.dumps(meta, indent=1))
            print(name, res, secs, flush=True)
    shutil.rmtree(copy, ignore_errors=True)


def main():
    args = sys.argv[1:]
    n = 4
    if args[:1] == ["-j"]:
        n = int(args[1])
        args = args[2:]
    names = args or sorted(p.name for p in (V / "seeded").glob("*_m*"))
    ROOT.mkdir(parents=True, exist_ok=True)
    q = queue.Queue()
    for s in names:
        q.put(s)
    lock = threading.Lock()
    ts = [threading.Thread(target=worker, args=(k, q, lock)) for k in range(n)]
    for t in ts:
        t.start()
    for t in ts:
        t.join()
    sh("git", "-C", "/repo", "worktree", "prune")
    shutil.rmtree(ROOT, ignore_errors=True)


if __name__ == "__main__":
    main()
