"""C20P: test driver for the proof-level pre-parser part of C20 (helper; the real entry is tools/checks/c20.py)."""
LEVEL = "proof"
META = {"not_applicable": "helper part of C20"}


def prebuild(ctx):
    from vlib import c20_preparse_part
    return c20_preparse_part.prebuild(ctx)


def run(ctx):
    from vlib import c20_preparse_part
    ctx.is_known = lambda key: next((f for f in ctx.known.get("findings", []) if f.get("property") == "C20"
                                     and f.get("key") == key and f.get("status") == "open"), None)
    n = c20_preparse_part.part_preparse(ctx)
    ctx.corr["evaluations"] = n
    ctx.corr["distinct_nontrivial"] = n
    ctx.corr["rule"] = ("one evaluation per source text run through parse_to_ast (outcome classification) and per token stream "
                        "run through the real PreParser._parse and the Coq model(s) with exact comparison of all outputs")
