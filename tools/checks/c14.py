"""C14: Venom passes preserve behaviour -- kernel proofs + pass-level correspondence."""
from vlib import coqrun, wordtie
from vlib.common import COQ
from vlib.grid import lit_grid, small_word_grid, W
from vlib.py2coq import Translator, Ty, Unsupported

LEVEL = "proof"
META = {
    "category": "proof",
    "text": "Kernel theorems (Coq) about the reasoning kernels every Venom pass relies on, stated against an EVM word "
            "specification tied to a real EVM; the translated kernels are regenerated from /repo on every run. "
            "Pass-level preservation is covered by correspondence only (partial, see DESIGN.md C14).",
    "level_note": "Trusted: Coq kernel + vm_compute, py2coq translator (validated per run by CPython-vs-model differential), "
                  "Word256.v tied to pyrevm on a boundary grid. Not proved: pass control logic (dataflow, SSA, CFG rewriting).",
    "technique": "Coq proof over py2coq-translated source + differential correspondence",
}

BIN = ["add", "sub", "mul", "div", "sdiv", "mod", "smod", "exp", "eq", "lt", "gt", "slt", "sgt", "or", "and",
       "xor", "signextend", "shr", "shl", "sar", "byte"]
UN = ["not", "iszero"]
TER = ["addmod", "mulmod"]


def gen_eval():
    tr = Translator("vyper.venom.passes.sccp.eval", extra_modules=["vyper.utils"])
    tr.arg_types_hint[("signed_to_unsigned", "strict")] = Ty.B
    tr.arg_types_hint[("unsigned_to_signed", "strict")] = Ty.B
    tr.arg_types_hint[("int_bounds", "signed")] = Ty.B
    keys = tr.translate_dispatch_table("ARITHMETIC_OPS", "ARITHMETIC_OPS", Ty.lst(Ty.Z), Ty.Z)
    return tr.render(), keys


def eval_kernel_differential(ctx, with_model):
    """real eval_arith vs Word256 (Coq) on the literal grid; and (if the generated model
    compiled) vs the translated model = validation of the translator."""
    from vyper.venom.basicblock import IRLiteral
    from vyper.venom.passes.sccp.eval import ARITHMETIC_OPS, eval_arith

    rnd = ctx.rng("evalgrid")
    full = lit_grid()
    must = [0, 1, 2, -1, -2, -7, 7, 8, 31, 32, 255, 256, 2**255 - 1, 2**255, -(2**255), 2**256 - 1, 2**128, -(2**127)]
    g = full if ctx.tier == "thorough" else sorted(set(rnd.sample(full, 14) + must))
    g = g + [rnd.randrange(-(2**255), 2**256) for _ in range(4)]
    g3 = [-1, -(2**255), 0, 1, 2, 3, 2**255, 2**256 - 1, rnd.randrange(2**256)]
    ge = [0, 1, 2, 3, 8, 255, 256, 257, -1, 2**255, 2**256 - 1]
    gb = g[::2]
    imports = ("From Verif Require Import Base.Word256 Base.PyInt" + (" C14.GenEval.\n" if with_model else ".\n") +
               f"Definition G := {coqrun.zlist(g)}.\nDefinition G3 := {coqrun.zlist(g3)}.\n"
               f"Definition GB := {coqrun.zlist(gb)}.\nDefinition GE := {coqrun.zlist(ge)}.\n"
               "Definition run1 (r : option (list Z -> res Z)) (l : list Z) : Z := "
               "match r with Some f => match f l with Ok v => v | Err _ => -1 end | None => -2 end.")
    exprs, meta = [], []
    for name in sorted(ARITHMETIC_OPS):
        if name in BIN:
            dom, cases = ("(list_prod GB GE)", [(a, b) for a in gb for b in ge]) if name == "exp" else \
                ("(list_prod G G)", [(a, b) for a in g for b in g])
            exprs.append(f"map (fun p => w_{name} (wrap (fst p)) (wrap (snd p))) {dom}")
            meta.append((name, cases, "spec"))
            if with_model:
                exprs.append(f'map (fun p => run1 (ARITHMETIC_OPS "{name}") [snd p; fst p]) {dom}')
                meta.append((name, cases, "model"))
        elif name in UN:
            cases = [(a,) for a in g]
            exprs.append(f"map (fun p => w_{name} (wrap p)) G")
            meta.append((name, cases, "spec"))
            if with_model:
                exprs.append(f'map (fun p => run1 (ARITHMETIC_OPS "{name}") [p]) G')
                meta.append((name, cases, "model"))
        elif name in TER:
            cases = [(a, b, c) for a in g3 for b in g3 for c in g3]
            dom = "(list_prod (list_prod G3 G3) G3)"
            exprs.append(f"map (fun p => w_{name} (wrap (fst (fst p))) (wrap (snd (fst p))) (wrap (snd p))) {dom}")
            meta.append((name, cases, "spec"))
            if with_model:
                exprs.append(f'map (fun p => run1 (ARITHMETIC_OPS "{name}") [snd p; snd (fst p); fst (fst p)]) {dom}')
                meta.append((name, cases, "model"))
        else:
            ctx.violation("correspondence-broken", f"eval.py has opcode {name} with no Word256 spec", {"op": name})
    outs = coqrun.eval_zlists(imports, exprs, "c14eval", shard=3)
    n = 0
    found = False
    for (name, cases, kind), exp in zip(meta, outs):
        assert len(exp) == len(cases), (name, kind, len(exp), len(cases))
        for args, e in zip(cases, exp):
            ops = [IRLiteral(x) for x in reversed(args)]
            try:
                got = eval_arith(name, ops)
            except Exception as ex:  # noqa
                got = f"exception {type(ex).__name__}"
            n += 1
            if got != e:
                if kind == "spec":
                    found = True
                    ctx.violation(
                        "failing-input", "eval_arith disagrees with EVM word semantics",
                        {"call": f"vyper.venom.passes.sccp.eval.eval_arith({name!r}, [IRLiteral(x) for x in {list(reversed(args))}])",
                         "expected_word256": str(e), "observed": str(got)},
                        key=f"eval_arith:{name}:{args}")
                else:
                    ctx.violation("correspondence-broken", "py2coq model of eval.py disagrees with CPython",
                                  {"op": name, "args": [str(a) for a in args], "model": str(e), "python": str(got)})
                break
    ctx.corr["eval_kernel_cases"] = n
    ctx.samples.append({"eval_arith": ["sdiv", [2, -7]], "expected": str(W - 3)})
    return n, found


def part_eval_kernel(ctx):
    gen_ok = True
    try:
        text, keys = gen_eval()
        (COQ / "C14" / "GenEval.v").write_text(text)
    except Unsupported as e:
        gen_ok = False
        gen_err = str(e)
    b = {"ok": False}
    if gen_ok:
        b = ctx.coq_build(["C14/GenEval.v", "C14/EvalSound.v", "C14/PropsEval.v"])
    model_ok = gen_ok and (COQ / "C14" / "GenEval.vo").exists() and (b["ok"] or "GenEval" not in b.get("file", ""))
    n, found = eval_kernel_differential(ctx, with_model=model_ok)
    if not gen_ok:
        if not found:
            ctx.violation("translator-rejected", "py2coq cannot translate sccp/eval.py: " + gen_err, {"error": gen_err})
    elif not b["ok"] and not found:
        ctx.violation("theorem-broken", f"{b.get('failed_lemma')} in {b['file']}",
                      {"theorem": b.get("failed_lemma"), "file": b["file"], "coq_output": b["out"][-1500:]})
    return n


def run(ctx):
    total = 0
    total += wordtie.run(ctx)
    total += part_eval_kernel(ctx)
    ctx.corr.setdefault("evaluations", 0)
    ctx.corr["evaluations"] += total
    ctx.corr["distinct_nontrivial"] = total
    ctx.corr["rule"] = "boundary grid x grid per opcode (distinct operand tuples); non-trivial = all (every tuple is a distinct opcode/operand combination)"
    ctx.trusted += ["Coq 8.16.1 kernel + vm_compute", "tools/vlib/py2coq.py (translator, validated by CPython-vs-model differential each run)",
                    "pyrevm as EVM reference for Word256.v"]
