"""C14: Venom passes preserve behaviour -- kernel proofs + pass-level correspondence."""
from vlib import coqrun, wordtie
from vlib.common import COQ
from vlib.grid import lit_grid, small_word_grid, W
from vlib.py2coq import Translator, Ty, Unsupported

LEVEL = "proof"
META = {
    "category": "proof",
    "text": "Three layers, all Coq. (1) Kernel theorems about the reasoning kernels the Venom passes rely on (constant "
            "folding, 22 range evaluators, branch refinement, overlap tests, effect commutation, algebraic rewrite rules, "
            "SCCP lattice, stack model/spiller), for all 256-bit values, over source regenerated from /repo by py2coq on "
            "every run. (2) Verified validators: the RESULT of the real analysis/pass on every function the corpus produces "
            "is exported and checked by a Gallina checker under vm_compute, and a theorem says an accepted instance is "
            "sound / behaviour-preserving on EVERY execution of a small-step semantics (range analysis as a whole, "
            "assert/overflow elimination, affine folding, liveness, dominators/SSA/DFG, remove-unused-variables, copy "
            "elimination, DFT reordering, SCCP, CFG passes, load elimination / DSE / CSE, memmerging, copy forwarding, instruction "
            "selection, inliner / Mem2Var, FMP lowering (LIFO reclaim discipline), memory liveness + concretisation (allocas that share an address; "
            "the call family only may-write its output buffer) and further passes as listed in DESIGN IV.4). (3) An executable Venom semantics "
            "(Venom.v) tied to the real back end on pyrevm, used for per-pass differential search. Passes without a "
            "validator are covered by (3) only.",
    "level_note": "Trusted: Coq kernel + vm_compute; py2coq (validated per run by CPython-vs-model differential); Word256.v "
                  "tied to pyrevm; the exporters that print real IR as Coq literals (cross-checked between two independent "
                  "exporters); the small-step semantics of RangeFix.v (linked to Venom.v by venom_refines_rangefix). A "
                  "validator proves each observed invocation, not the pass for all inputs; invocations outside a "
                  "validator's domain are counted as unsupported in the evidence.",
    "technique": "Coq proof over py2coq-translated source + verified result validators (certificate checking under vm_compute "
                 "with a soundness theorem) + differential correspondence",
}

BIN = ["add", "sub", "mul", "div", "sdiv", "mod", "smod", "exp", "eq", "lt", "gt", "slt", "sgt", "or", "and",
       "xor", "signextend", "shr", "shl", "sar", "byte"]
UN = ["not", "iszero"]
TER = ["addmod", "mulmod"]


def gen_eval():
    tr = Translator("vyper.venom.passes.sccp.eval", extra_modules=["vyper.utils"])
    tr.arg_types_hint[("signed_to_unsigned", "strict")] = Ty.B
    tr.arg_types_hint[("unsigned_to_signed", "strict")] = Ty.B
    tr.arg_types_hint[("int_bounds", "signed")] = Ty.B
    keys = tr.translate_dispatch_table("ARITHMETIC_OPS", "ARITHMETIC_OPS", Ty.lst(Ty.Z), Ty.Z)
    return tr.render(), keys


def eval_kernel_differential(ctx, with_model):
    """real eval_arith vs Word256 (Coq) on the literal grid; and (if the generated model
    compiled) vs the translated model = validation of the translator."""
    from vyper.venom.basicblock import IRLiteral
    from vyper.venom.passes.sccp.eval import ARITHMETIC_OPS, eval_arith

    rnd = ctx.rng("evalgrid")
    full = lit_grid()
    must = [0, 1, 2, -1, -2, -7, 7, 8, 31, 32, 255, 256, 2**255 - 1, 2**255, -(2**255), 2**256 - 1, 2**128, -(2**127)]
    g = full if ctx.tier == "thorough" else sorted(set(rnd.sample(full, 8) + must))
    g = g + [rnd.randrange(-(2**255), 2**256) for _ in range(4)]
    g3 = [-1, -(2**255), 0, 1, 2, 3, 2**255, 2**256 - 1, rnd.randrange(2**256)]
    ge = [0, 1, 2, 3, 8, 255, 256, 257, -1, 2**255, 2**256 - 1]
    gb = g[::2]
    imports = ("From Verif Require Import Base.Word256 Base.PyInt" + (" C14.GenEval.\n" if with_model else ".\n") +
               f"Definition G := {coqrun.zlist(g)}.\nDefinition G3 := {coqrun.zlist(g3)}.\n"
               f"Definition GB := {coqrun.zlist(gb)}.\nDefinition GE := {coqrun.zlist(ge)}.\n"
               "Definition run1 (r : option (list Z -> res Z)) (l : list Z) : Z := "
               "match r with Some f => match f l with Ok v => v | Err _ => -1 end | None => -2 end.")
    exprs, meta = [], []
    for name in sorted(ARITHMETIC_OPS):
        if name in BIN:
            dom, cases = ("(list_prod GB GE)", [(a, b) for a in gb for b in ge]) if name == "exp" else \
                ("(list_prod G G)", [(a, b) for a in g for b in g])
            exprs.append(f"map (fun p => w_{name} (wrap (fst p)) (wrap (snd p))) {dom}")
            meta.append((name, cases, "spec"))
            if with_model:
                exprs.append(f'map (fun p => run1 (ARITHMETIC_OPS "{name}") [snd p; fst p]) {dom}')
                meta.append((name, cases, "model"))
        elif name in UN:
            cases = [(a,) for a in g]
            exprs.append(f"map (fun p => w_{name} (wrap p)) G")
            meta.append((name, cases, "spec"))
            if with_model:
                exprs.append(f'map (fun p => run1 (ARITHMETIC_OPS "{name}") [p]) G')
                meta.append((name, cases, "model"))
        elif name in TER:
            cases = [(a, b, c) for a in g3 for b in g3 for c in g3]
            dom = "(list_prod (list_prod G3 G3) G3)"
            exprs.append(f"map (fun p => w_{name} (wrap (fst (fst p))) (wrap (snd (fst p))) (wrap (snd p))) {dom}")
            meta.append((name, cases, "spec"))
            if with_model:
                exprs.append(f'map (fun p => run1 (ARITHMETIC_OPS "{name}") [snd p; snd (fst p); fst (fst p)]) {dom}')
                meta.append((name, cases, "model"))
        else:
            ctx.violation("correspondence-broken", f"eval.py has opcode {name} with no Word256 spec", {"op": name})
    outs = coqrun.eval_zlists(imports, exprs, "c14eval", shard=3 if ctx.tier == "quick" else 1,
                              timeout=240 if ctx.tier == "quick" else 1800)
    n = 0
    found = False
    for (name, cases, kind), exp in zip(meta, outs):
        assert len(exp) == len(cases), (name, kind, len(exp), len(cases))
        for args, e in zip(cases, exp):
            ops = [IRLiteral(x) for x in reversed(args)]
            try:
                got = eval_arith(name, ops)
            except Exception as ex:  # noqa
                got = f"exception {type(ex).__name__}"
            n += 1
            if got != e:
                if kind == "spec":
                    found = True
                    ctx.violation(
                        "failing-input", "eval_arith disagrees with EVM word semantics",
                        {"call": f"vyper.venom.passes.sccp.eval.eval_arith({name!r}, [IRLiteral(x) for x in {list(reversed(args))}])",
                         "expected_word256": str(e), "observed": str(got)},
                        key=f"eval_arith:{name}:{args}")
                else:
                    ctx.violation("correspondence-broken", "py2coq model of eval.py disagrees with CPython",
                                  {"op": name, "args": [str(a) for a in args], "model": str(e), "python": str(got)})
                break
    ctx.corr["eval_kernel_cases"] = n
    ctx.samples.append({"eval_arith": ["sdiv", [2, -7]], "expected": str(W - 3)})
    return n, found


def part_eval_kernel(ctx):
    gen_ok = True
    try:
        text, keys = gen_eval()
        (COQ / "C14" / "GenEval.v").write_text(text)
    except Unsupported as e:
        gen_ok = False
        gen_err = str(e)
    b = {"ok": False}
    if gen_ok:
        b = ctx.coq_build_cached(["C14/GenEval.v", "C14/EvalSound.v", "C14/PropsEval.v"])
    model_ok = gen_ok and (COQ / "C14" / "GenEval.vo").exists() and (b["ok"] or "GenEval" not in b.get("file", ""))
    n, found = eval_kernel_differential(ctx, with_model=model_ok)
    if not gen_ok:
        if not found:
            ctx.violation("translator-rejected", "py2coq cannot translate sccp/eval.py: " + gen_err, {"error": gen_err})
    elif not b["ok"] and not found:
        ctx.violation("theorem-broken", f"{b.get('failed_lemma')} in {b['file']}",
                      {"theorem": b.get("failed_lemma"), "file": b["file"], "coq_output": b["out"][-1500:]})
    return n


# ---------------------------------------------------------------- value-range evaluators
RANGE_OPS2 = ["add", "sub", "mul", "and", "or", "xor", "byte", "signextend", "mod", "div", "sdiv", "smod",
              "shr", "shl", "sar", "eq", "lt", "gt", "slt", "sgt"]
RANGE_OPS1 = ["iszero", "not"]
RANGE_PROOF_FILES = ["RangeEq", "RangeLt", "RangeGt", "RangeDiv", "RangeSlt", "RangeSgt", "RangeSdiv", "RangeSmod",
                     "RangeBits", "RangeByte", "RangeSignext"]
HASH_P = 2**127 - 1
HASH_B = 1000003


def gen_range():
    from vlib.py2coq_ext import ExtTranslator, opt
    VR = "vrange"
    ab = {
        (VR, "lo"): dict(coq="vr_lo", ret=Ty.Z, partial=True),
        (VR, "hi"): dict(coq="vr_hi", ret=Ty.Z, partial=True),
        (VR, "is_top"): dict(coq="vr_is_top", ret=Ty.B),
        (VR, "is_empty"): dict(coq="vr_is_empty", ret=Ty.B),
        (VR, "is_constant"): dict(coq="vr_is_constant", ret=Ty.B),
        (VR, "as_constant"): dict(coq="vr_as_constant", ret=opt(Ty.Z), call=True, args=[]),
    }
    binds = {
        "ValueRange.top": dict(coq="TOP", args=[], ret=VR),
        "ValueRange.empty": dict(coq="BOT", args=[], ret=VR),
        "ValueRange.iv": dict(coq="vr_iv", args=[Ty.Z, Ty.Z], ret=VR),
        "ValueRange.constant": dict(coq="vr_constant", args=[Ty.Z], ret=VR),
        "ValueRange.bool_range": dict(coq="vr_bool", args=[], ret=VR),
        "ValueRange.bytes_range": dict(coq="vr_bytes1", args=[], ret=VR),
    }
    tr = ExtTranslator("vyper.venom.analysis.variable_range.evaluators", extra_modules=["vyper.utils"],
                       bindings=binds, attr_bindings=ab, type_names={"ValueRange": VR, "str": Ty.S},
                       none_hints={("eval_and", "mask"): opt(Ty.Z), ("eval_and", "other"): opt(VR)})
    tr.arg_types_hint[("wrap256", "signed")] = Ty.B
    tr.arg_types_hint[("unsigned_to_signed", "strict")] = Ty.B
    tr.arg_types_hint[("int_bounds", "signed")] = Ty.B
    tr.translate_function("eval_op")
    return tr.render(header="From Verif Require Import C14.RangeBase.")


def range_grid(ctx):
    K = [-(2**255), -(2**255) + 1, -(2**127), -129, -128, -127, -17, -2, -1, 0, 1, 2, 7, 8, 16, 31, 32, 127, 128, 255,
         256, 2**128, 2**255 - 1, 2**255, 2**255 + 4, 2**256 - 2, 2**256 - 1]
    rnd = ctx.rng("ranges")
    ranges = [("TOP",), ("BOT",)]
    consts = K if ctx.tier == "thorough" else sorted(set(rnd.sample(K, 9) + [0, 1, -1, 16, 2**255 + 4, 2**256 - 1]))
    ranges += [("IV", k, k) for k in consts]
    n_iv = 60 if ctx.tier == "thorough" else 22
    must = [(-129, -127), (-128, -1), (2**255 - 1, 2**255 + 4), (0, 255), (-5, 5), (1, 2**128), (0, 2**256 - 1)]
    ivs = set(must)
    while len(ivs) < n_iv:
        a, b = sorted(rnd.sample(K, 2))
        if rnd.random() < 0.3:
            b = a + rnd.choice([1, 2, 255, 2**64, 2**128, 2**128 + 1])
            if b > 2**256 - 1:
                continue
        ivs.add((a, b))
    ranges += [("IV", a, b) for a, b in sorted(ivs)]
    return ranges


def _vr_coq(r):
    if r[0] == "TOP":
        return "TOP"
    if r[0] == "BOT":
        return "BOT"
    return f"(IV {coqrun.hexlit(r[1])} {coqrun.hexlit(r[2])})"


def _vr_py(r):
    from vyper.venom.analysis.variable_range.value_range import ValueRange
    if r[0] == "TOP":
        return ValueRange.top()
    if r[0] == "BOT":
        return ValueRange.empty()
    return ValueRange.iv(r[1], r[2])


def _enc_py(fn):
    try:
        r = fn()
    except Exception:
        return [3, 0, 0]
    if r.is_top:
        return [0, 0, 0]
    if r.is_empty:
        return [1, 0, 0]
    return [2, r.lo, r.hi]


def _hash(seq):
    h = 7
    for x in seq:
        h = (h * HASH_B + (x % HASH_P)) % HASH_P
    return h


def range_model_differential(ctx, ranges):
    """Exact-output differential: real eval_op vs the translated model (validates the translator and
    the hand-bound RangeBase.v) on every (op, A, B) of the grid; compared through a rolling hash
    computed on both sides, with a full dump of one opcode only on mismatch."""
    from vyper.venom.analysis.variable_range.evaluators import eval_op
    imports = ("From Verif Require Import Base.PyInt C14.RangeBase C14.GenRange.\n"
               f"Definition RS : list vrange := [{'; '.join(_vr_coq(r) for r in ranges)}].\n"
               "Definition enc (r : res vrange) : list Z := match r with Ok TOP => [0;0;0] | Ok BOT => [1;0;0] "
               "| Ok (IV l h) => [2;l;h] | Err _ => [3;0;0] end.\n"
               f"Definition hashl (l : list Z) : Z := fold_left (fun h x => (h * {HASH_B} + (x mod {HASH_P})) mod {HASH_P}) l 7.\n"
               'Definition allres (op : string) : list Z := flat_map (fun p => enc (eval_op op (fst p) (snd p))) (list_prod RS RS).\n'
               'Definition allres1 (op : string) : list Z := flat_map (fun a => enc (eval_op op a TOP)) RS.')
    ops = RANGE_OPS2 + RANGE_OPS1
    exprs = [f'[hashl (allres "{op}")]' for op in RANGE_OPS2] + [f'[hashl (allres1 "{op}")]' for op in RANGE_OPS1]
    outs = coqrun.eval_zlists(imports, exprs, "c14range", shard=6)
    pr = [_vr_py(r) for r in ranges]
    n = 0
    bad_ops = []
    for op, out in zip(ops, outs):
        seq = []
        if op in RANGE_OPS2:
            for a in pr:
                for b in pr:
                    seq += _enc_py(lambda: eval_op(op, a, b))
                    n += 1
        else:
            from vyper.venom.analysis.variable_range.value_range import ValueRange
            for a in pr:
                seq += _enc_py(lambda: eval_op(op, a, ValueRange.top()))
                n += 1
        if _hash(seq) != out[0]:
            bad_ops.append(op)
    for op in bad_ops[:3]:
        full = coqrun.eval_zlists(imports, [f'allres "{op}"' if op in RANGE_OPS2 else f'allres1 "{op}"'], "c14range_dump")[0]
        k = 0
        first = None
        items = [(a, b) for a in ranges for b in ranges] if op in RANGE_OPS2 else [(a, ("TOP",)) for a in ranges]
        for (a, b) in items:
            py = _enc_py(lambda: eval_op(op, _vr_py(a), _vr_py(b)))
            if full[k:k + 3] != py:
                first = {"op": op, "lhs": a, "rhs": b, "model": full[k:k + 3], "python": py}
                break
            k += 3
        ctx.violation("correspondence-broken", f"py2coq model of evaluators.py / RangeBase.v disagrees with CPython on eval_op({op!r})",
                      first or {"op": op})
    ctx.corr["range_model_cases"] = n
    return n


def _members(r, rnd):
    """Sample words denoted by range r (python tuple form)."""
    if r[0] == "TOP":
        return [0, 1, 2**255, 2**256 - 1, rnd.randrange(2**256)]
    lo, hi = r[1], r[2]
    pts = {lo, hi, (lo + hi) // 2, min(hi, lo + 1), max(lo, hi - 1)}
    for p in (0, -1, 2**255 - 1, 2**255, -(2**255)):
        if lo <= p <= hi:
            pts.add(p)
    if hi > lo:
        pts.add(rnd.randint(lo, hi))
    return sorted(x % 2**256 for x in pts)


def _in_range(w, res):
    if res.is_top:
        return True
    if res.is_empty:
        return False
    return any(res.lo <= v <= res.hi for v in (w, w - 2**256))


def range_soundness_search(ctx, ranges):
    """The property's own oracle on the real code: every value that occurs is inside the computed range."""
    from vyper.venom.analysis.variable_range.evaluators import eval_op
    from vyper.venom.analysis.variable_range.value_range import ValueRange
    from vyper.venom.basicblock import IRLiteral
    from vyper.venom.passes.sccp.eval import eval_arith
    rnd = ctx.rng("members")
    n = 0
    found = 0
    pr = [(r, _vr_py(r), None) for r in ranges if r[0] != "BOT"]
    pr = [(r, v, _members(r, rnd)) for r, v, _ in pr]
    for op in RANGE_OPS2:
        hit = False
        for ra, va, ma in pr:
            if hit:
                break
            for rb, vb, mb in pr:
                try:
                    res = eval_op(op, va, vb)
                except Exception as e:
                    res = None
                for a in ma:
                    for b in mb:
                        n += 1
                        w = eval_arith(op, [IRLiteral(b), IRLiteral(a)])
                        if res is None or not _in_range(w, res):
                            hit = True
                            found += 1
                            ctx.violation("failing-input", f"value range computed by eval_{op} misses a value that occurs",
                                          {"call": f"eval_op({op!r}, {ra}, {rb})", "result": repr(res), "a": str(a), "b": str(b),
                                           "word": str(w)}, key=f"range:{op}:{ra}:{rb}")
                            break
                    if hit:
                        break
                if hit:
                    break
    for op in RANGE_OPS1:
        for ra, va, ma in pr:
            res = eval_op(op, va, ValueRange.top())
            for a in ma:
                n += 1
                w = eval_arith(op, [IRLiteral(a)])
                if not _in_range(w, res):
                    found += 1
                    ctx.violation("failing-input", f"value range computed by eval_{op} misses a value that occurs",
                                  {"call": f"eval_op({op!r}, {ra})", "result": repr(res), "a": str(a), "word": str(w)},
                                  key=f"range:{op}:{ra}")
                    break
    ctx.corr["range_soundness_samples"] = n
    ctx.samples.append({"eval_op": ["sdiv", ["IV", -129, -127], ["IV", 16, 16]], "member": -128, "must_contain": -8})
    return n, found


RANGE_PRE = ["C14/RangeBase.v", "C14/GenRange.v", "C14/RangeSound.v", "C14/RangeLemmas2.v"]
RANGE_POST = ["C14/RangeOp.v", "C14/PropsRange.v"]


def _range_build(ctx):
    """RangeBase/GenRange/RangeSound/RangeLemmas2 -> per-evaluator files (parallel) -> RangeOp -> PropsRange.
    Files are recompiled unless their .vo was produced from byte-identical inputs (source, all
    dependency sources, Coq version): see coqrun.coqc_cached."""
    b = ctx.coq_build_cached(RANGE_PRE)
    if not b["ok"]:
        return b
    files = [f"C14/{f}.v" for f in RANGE_PROOF_FILES]
    # RangeBits imports C14.EvalSound (bit lemmas), which is built by part_eval_kernel before
    b = ctx.coq_build_parallel(files, deps=RANGE_PRE + ["C14/GenEval.v", "C14/EvalSound.v"], timeout=1500, workers=6)
    if not b["ok"]:
        return b
    return ctx.coq_build_cached(RANGE_POST, deps=RANGE_PRE + ["C14/GenEval.v", "C14/EvalSound.v"] + files, timeout=1500)


def part_range(ctx):
    gen_err = None
    try:
        text = gen_range()
        (COQ / "C14" / "GenRange.v").write_text(text)
    except Unsupported as e:
        gen_err = str(e)
    import time
    ranges = range_grid(ctx)
    t = time.time()
    n_s, found = range_soundness_search(ctx, ranges)
    ctx.log(f"range soundness search {time.time()-t:.0f}s ({n_s} samples)"); t = time.time()
    n_m = 0
    if gen_err is None:
        b = _range_build(ctx)
        ctx.log(f"range build {time.time()-t:.0f}s reused={len(ctx.extra.get('reused_vo', []))}"); t = time.time()
        model_ok = (COQ / "C14" / "GenRange.vo").exists() and (b["ok"] or "GenRange" not in b.get("file", ""))
        if model_ok:
            n_m = range_model_differential(ctx, ranges)
        if not b["ok"] and not found:
            ctx.violation("theorem-broken", f"{b.get('failed_lemma')} in {b['file']}",
                          {"theorem": b.get("failed_lemma"), "file": b["file"], "coq_output": b["out"][-1500:]})
    elif not found:
        ctx.violation("translator-rejected", "py2coq cannot translate variable_range/evaluators.py: " + gen_err, {"error": gen_err})
    return n_s + n_m



FMP_FILES = ["C14/FmpLifo.v", "C14/FmpLifoProofs.v", "C14/PropsFmp.v"]
FMP_CONTRACTS = ["""
@external
@payable
def fwd(t: address) -> Bytes[64]:
    a: uint256 = 7
    r: Bytes[64] = raw_call(t, msg.data, max_outsize=64)
    if len(r) > 3:
        r = raw_call(t, msg.data, max_outsize=64, value=msg.value)
    return r
""", """
@external
def mk(t: address, n: uint256) -> address:
    c: address = empty(address)
    for i: uint256 in range(n, bound=3):
        c = create_copy_of(t)
    return c

@external
def bp(t: address, x: uint256) -> address:
    if x > 3:
        return create_from_blueprint(t, x, code_offset=1)
    return create_from_blueprint(t, x + 1, x, code_offset=1, revert_on_failure=False)
"""]


def part_fmp(ctx):
    """FmpLoweringPass: verified validator for the reclaim (restore) logic + dead-mark oracle (tools/vlib/c14_fmp.py)."""
    import random
    from vlib import c14_fmp
    b = ctx.coq_build_cached(FMP_FILES, timeout=600)
    rnd = random.Random(ctx.seed * 7919 + 5)
    stats = {"programs": 0, "programs_rejected_by_lowering": 0, "functions_lowered": 0, "restores": 0, "bumps": 0, "accepted": 0,
             "rejected": 0, "oracle_disagreements": 0, "corpus_functions": 0, "export_errors": 0}
    samples = []
    # corpus: the three front-end producers of dalloca, all Venom levels
    try:
        import vyper
        from vyper.compiler.settings import OptimizationLevel, Settings
        with c14_fmp.Observer() as obs:
            for src in FMP_CONTRACTS:
                for lvl in (OptimizationLevel.GAS, OptimizationLevel.CODESIZE, OptimizationLevel.O3):
                    vyper.compile_code(src, output_formats=["bytecode_runtime"], settings=Settings(experimental_codegen=True, optimize=lvl))
        for s_ in obs.samples:
            s_["prog"], s_["src"] = "corpus", None
        stats["corpus_functions"] = len(obs.samples)
        stats["export_errors"] += len(obs.errors)
        samples += obs.samples
        if obs.errors:
            ctx.violation("correspondence-broken", "FmpLoweringPass output could not be exported: " + obs.errors[0], {"errors": obs.errors[:5]})
    except Exception as e:  # noqa
        ctx.violation("correspondence-broken", "FmpLoweringPass could not be observed on the corpus contracts", {"error": repr(e)[:800]})
    for name, src in c14_fmp.family(rnd, 80 if ctx.tier == "quick" else 800):
        stats["programs"] += 1
        try:
            _, ss, ee = c14_fmp.lower(src)
        except Exception:  # noqa  (unit-test snippets that are meant to be rejected, or need another pipeline)
            stats["programs_rejected_by_lowering"] += 1
            continue
        stats["export_errors"] += len(ee)
        if ee:
            ctx.violation("correspondence-broken", "FmpLoweringPass output could not be exported: " + ee[0], {"venom": src, "errors": ee[:5]})
        for s_ in ss:
            s_["prog"], s_["src"] = name, src
        samples += ss
    stats["functions_lowered"] = len(samples)
    stats["restores"] = sum(s_["restores"] for s_ in samples)
    stats["bumps"] = sum(s_["bumps"] for s_ in samples)
    if stats["programs"] and stats["programs_rejected_by_lowering"] * 4 > stats["programs"]:
        ctx.violation("correspondence-broken", "most FMP family programs no longer go through the lowering pipeline", dict(stats))
    found = False
    res = None
    if b["ok"] and samples:
        try:
            res = c14_fmp.evaluate(samples, shard=max(1, len(samples) // 12), timeout=900)
        except RuntimeError as e:
            ctx.violation("correspondence-broken", "the FMP LIFO validator could not be evaluated", {"error": str(e)[-1500:]})
    for k, s_ in enumerate(samples):
        ok = res is not None and res[k] == [1]
        if ok:
            stats["accepted"] += 1
        elif res is not None:
            stats["rejected"] += 1
        if s_["oracle"]:
            stats["oracle_disagreements"] += 1
        if (res is not None and not ok and stats["rejected"] <= 2) or (s_["oracle"] and stats["oracle_disagreements"] <= 2):
            wit = c14_fmp.search(s_["src"]) if s_["src"] else None
            why = ("the block-entry stacks / restores of FmpLoweringPass are not a LIFO discipline (fmp_check = false)" if not ok and res is not None
                   else "FmpLoweringPass popped a mark that is not dead: " + "; ".join(s_["oracle"][:2]))
            if wit is not None:
                found = True
                ctx.violation("failing-input", "FmpLoweringPass frees memory that is still in use: reclaiming and non-reclaiming lowering of the "
                              "same program return different data", dict(wit, why=why), key="fmp:" + s_["prog"])
            else:
                ctx.violation("theorem-broken" if not ok and res is not None else "correspondence-broken",
                              "fmp_restore_sound does not apply: " + why + " (function " + s_["name"] + " of " + s_["prog"] + ")",
                              {"theorem": "fmp_restore_sound", "why": why, "function_after": s_["text"][:6000], "certificate": s_["cert"][:2000],
                               "venom": s_["src"]})
    if not b["ok"] and not found:
        ctx.violation("theorem-broken", f"{b.get('failed_lemma')} in {b['file']}",
                      {"theorem": b.get("failed_lemma"), "file": b["file"], "coq_output": b["out"][-1500:]})
    ctx.corr["fmp_lowering"] = stats
    return stats["accepted"] + stats["restores"]


SS_FILES = ["C14/StackSafe.v", "C14/StackSafeProofs.v", "C14/PropsStackSafe.v"]


def _stacksafe_eval(ctx, sobs):
    """StackCleanupSafety (stack_safety.py): the memo tables of every observed back-end run, checked by ss_check
    (theorem stack_cleanup_safety_sound) + exact ties of the safe heights and frame bounds."""
    from vlib import c14_stacksafe
    b = ctx.coq_build_cached(SS_FILES, timeout=600)
    st = {"contexts": len(sobs.samples), "block_summaries": sum(s_["n_blocks"] for s_ in sobs.samples),
          "elision_points": sum(s_["n_safe"] for s_ in sobs.samples), "accepted": 0, "rejected": 0, "tie_mismatches": 0,
          "export_errors": len(sobs.errors)}
    ctx.corr["stack_cleanup_safety"] = st
    if sobs.errors:
        ctx.violation("correspondence-broken", "StackCleanupSafety tables could not be exported: " + sobs.errors[0], {"errors": sobs.errors[:5]})
    if not b["ok"]:
        ctx.violation("theorem-broken", f"{b.get('failed_lemma')} in {b['file']}",
                      {"theorem": b.get("failed_lemma"), "file": b["file"], "coq_output": b["out"][-1500:]})
        return 0
    if not sobs.samples:
        ctx.violation("correspondence-broken", "StackCleanupSafety.verify_codegen was never reached by the observed compiles", {})
        return 0
    try:
        res = c14_stacksafe.evaluate(sobs.samples, shard=max(1, len(sobs.samples) // 10), timeout=900)
    except RuntimeError as e:
        ctx.violation("correspondence-broken", "the stack-safety validator could not be evaluated", {"error": str(e)[-1500:]})
        return 0
    for s_, r in zip(sobs.samples, res):
        frs = [(n, g, x) for (n, g), x in zip(s_["frames"], r[1:]) if g != x]
        if s_["ties"] or frs:
            st["tie_mismatches"] += 1
            if st["tie_mismatches"] <= 2:
                ctx.violation("correspondence-broken", "StackCleanupSafety: a reported number is not the one the model derives from the "
                              "analysis' own tables (safe height / frame bound)", {"safe_height_ties": s_["ties"][:4], "frame_bounds": frs[:4],
                                                                                   "entry": s_["entry"]})
        if r and r[0] == 1:
            st["accepted"] += 1
        else:
            st["rejected"] += 1
            if st["rejected"] <= 2:
                ctx.violation("theorem-broken", "stack_cleanup_safety_sound does not apply: the memo tables of StackCleanupSafety are not "
                              "locally consistent (ss_check = false): a summary misses variables / transients of a successor or callee, or a "
                              "caller height misses a frame", {"theorem": "stack_cleanup_safety_sound", "block_summaries": s_["bc"][:3000],
                                                               "function_growth": s_["gc"], "caller_heights": s_["hc"], "safe": s_["safe"][:1500]})
    return st["accepted"] + st["elision_points"]

def prebuild(ctx):
    """Called by setup_cmd: generate and compile once so that checks can reuse byte-identical inputs."""
    text, _ = gen_eval()
    (COQ / "C14" / "GenEval.v").write_text(text)
    ctx.coq_build_cached(["C14/GenEval.v", "C14/EvalSound.v", "C14/PropsEval.v"])
    (COQ / "C14" / "GenRange.v").write_text(gen_range())
    _range_build(ctx)
    from vlib import c14_clients, c14_memloc
    text, _ = c14_memloc.gen_coq()
    (COQ / "C14" / "GenMemLoc.v").write_text(text)
    ctx.coq_build_cached(["C14/MemLocBase.v", "C14/GenMemLoc.v", "C14/MemLocSound.v", "C14/PropsMemLoc.v"], deps=["C14/RangeBase.v"], timeout=600)
    text, _ = c14_clients.gen_coq()
    (COQ / "C14" / "GenRangeClients.v").write_text(text)
    ctx.coq_build_cached(["C14/GenRangeClients.v", "C14/RangeClients.v", "C14/RangeRefine.v", "C14/PropsClients.v"], deps=RANGE_PRE, timeout=900)
    ctx.coq_build_cached(FIX_FILES[:1], deps=FIX_MODEL_DEPS, timeout=600)
    ctx.coq_build_cached(FIX_FILES[1:], deps=_fix_deps() + FIX_FILES[:1], timeout=900)
    ctx.coq_build_cached(ELIM_FILES[:1], deps=FIX_MODEL_DEPS + FIX_FILES[:1], timeout=600)
    ctx.coq_build_cached(ELIM_FILES[1:], deps=_fix_deps() + FIX_FILES[:2] + ELIM_FILES[:1], timeout=900)
    ctx.coq_build_cached(AFF_FILES[:1], deps=FIX_MODEL_DEPS + FIX_FILES[:1] + ELIM_FILES[:1], timeout=600)
    ctx.coq_build_cached(AFF_FILES[1:], deps=_fix_deps() + FIX_FILES[:2] + ELIM_FILES[:2] + AFF_FILES[:1], timeout=900)
    ctx.coq_build_cached(FMP_FILES, timeout=600)
    ctx.coq_build_cached(SS_FILES, timeout=600)
    from vlib import c14_dret
    c14_dret.prebuild(ctx)
    from vlib import c14_pass, c14a_part, c14d_part, c14g_part, c14l_part
    c14a_part.prebuild(ctx)
    c14d_part.prebuild(ctx)
    c14g_part.prebuild(ctx)
    c14l_part.prebuild(ctx)
    from vlib import c14mm_part, c14_sccp, c14c_part, c14_isel, c14m_part
    c14_isel.prebuild(ctx)
    c14m_part.prebuild(ctx)
    from vlib import c14_memlive
    c14_memlive.prebuild(ctx)        # after c14m_part: C14/MemLiveTie.v imports C14M/MemSem.v
    c14mm_part.prebuild(ctx)
    c14_sccp.prebuild(ctx)
    c14c_part.prebuild(ctx)
    c14_pass.prebuild(ctx)
    from vlib import c14_fixvenom
    c14_fixvenom.build(ctx)          # C14/WordClosed.vo etc. (C14L/SemProofs.v imports it): never leave that to a race
    c14l_part.prebuild(ctx)          # again, now that everything it imports exists
    from vlib import c14i_part
    ctx.coq_build_cached(c14i_part.COQ_MODEL, timeout=600)


# ---------------------------------------------------------------- range-based check removal (clients of the range kernel)
def part_clients(ctx):
    """Decision kernels of overflow_elimination / assert_elimination / algebraic_optimization (signextend, range cmp):
    sliced from the pass methods, translated, proved (RangeClients.v); validated against CPython and searched with
    the property's own oracle (a removed check must pass for every value in the range)."""
    from vlib import c14_clients
    from vyper.venom.basicblock import IRLiteral
    from vyper.venom.passes.sccp.eval import eval_arith
    gen_err = None
    try:
        text, src = c14_clients.gen_coq()
        (COQ / "C14" / "GenRangeClients.v").write_text(text)
        mod, _ = c14_clients.load_module()
    except Unsupported as e:
        gen_err = str(e)
        try:
            mod, _ = c14_clients.load_module()
        except Exception:
            mod = None
    ranges = [r for r in range_grid(ctx)]
    rnd = ctx.rng("clients")
    found = False
    n = 0

    def ev(op, *args):
        return eval_arith(op, [IRLiteral(x) for x in reversed(args)])

    def report(kind, call, detail, key):
        nonlocal found
        found = True
        ctx.violation("failing-input", f"range-based check removal is unsound: {kind}", dict(detail, call=call), key=key)

    if mod is not None:
        pr = [(r, _vr_py(r)) for r in ranges]
        mem = {i: (_members(r, rnd) if r[0] != "BOT" else []) for i, (r, _) in enumerate(pr)}
        hit = set()
        for i, (ra, va) in enumerate(pr):
            # assert elimination
            try:
                ez = mod._range_excludes_zero(va)
            except Exception as e:
                ez = None
            n += 1
            if ez and "ez" not in hit and any(a == 0 for a in mem[i]):
                hit.add("ez"); report("assert removed although the value can be zero", f"_range_excludes_zero({ra})", {"a": "0"}, f"clients:excludes_zero:{ra}")
            # signextend no-op
            for nb in (0, 1, 15, 30):
                try:
                    c = mod.signextend_noop_cond(nb, va)
                except Exception:
                    c = None
                n += 1
                if c and "se" not in hit:
                    for a in mem[i]:
                        if ev("signextend", nb, a) != a:
                            hit.add("se"); report("signextend folded to a no-op although it changes the value",
                                                  f"signextend_noop_cond({nb}, {ra})", {"a": str(a)}, f"clients:signextend:{nb}:{ra}")
                            break
            # range cmp
            for lit in (0, 1, 5, 100, 255, 2**255 - 1, 2**255, 2**256 - 1, -1, -128):
                for is_gt in (True, False):
                    for signed in (True, False):
                        for lf in (True, False):
                            try:
                                k = mod.range_cmp_kernel(lit, va, is_gt, signed, lf)
                            except Exception:
                                k = None
                            n += 1
                            if k is None or "rc" in hit:
                                continue
                            op = ("s" if signed else "") + ("gt" if is_gt else "lt")
                            for a in mem[i]:
                                res = ev(op, lit, a) if lf else ev(op, a, lit)
                                if res != k:
                                    hit.add("rc"); report("comparison folded to a constant that is wrong for a value in the range",
                                                          f"range_cmp_kernel({lit}, {ra}, is_gt={is_gt}, signed={signed}, lit_is_first={lf}) = {k}",
                                                          {"a": str(a), "actual": str(res)}, f"clients:range_cmp:{op}:{lit}:{ra}:{lf}")
                                    break
            # branch refinement: a member that takes the branch must stay in the refined range
            if ra[0] != "BOT" and "rf" not in hit:
                for lit in (0, 1, 5, 10, 100, 255, 2**255 - 1, 2**255, 2**256 - 1, -1, -128):
                    for opc in ("lt", "gt", "slt", "sgt"):
                        for side, fn in (("left", mod.refine_compare_left), ("right", mod.refine_compare_right)):
                            for tk in (True, False):
                                try:
                                    r2 = fn(mod._R(va), lit, opc, tk)
                                except Exception as e:
                                    r2 = None
                                n += 1
                                if r2 is None or "rf" in hit:
                                    continue
                                for a in mem[i]:
                                    c = ev(opc, a, lit) if side == "left" else ev(opc, lit, a)
                                    if (c == 1) == tk and not _in_range(a, r2):
                                        hit.add("rf"); report("branch refinement excludes a value that takes the branch",
                                                              f"refine_compare_{side}({ra}, {lit}, {opc!r}, is_true={tk}) = {r2!r}",
                                                              {"a": str(a)}, f"clients:refine:{opc}:{side}:{tk}:{lit}:{ra}")
                                        break
                try:
                    r2 = mod.refine_iszero_false(mod._R(va))
                except Exception:
                    r2 = None
                if r2 is not None:
                    for a in mem[i]:
                        if a != 0 and not _in_range(a, r2) and "rz" not in hit:
                            hit.add("rz"); report("iszero refinement (false branch) excludes a non-zero value",
                                                  f"refine_iszero_false({ra}) = {r2!r}", {"a": str(a)}, f"clients:refine_iszero:{ra}")
            for j, (rb, vb) in enumerate(pr):
                try:
                    r2 = mod.refine_eq_vars(va, vb)
                except Exception:
                    r2 = None
                n += 1
                if r2 is not None and "re" not in hit:
                    mb = set(mem[j])
                    for a in mem[i]:
                        if a in mb and not _in_range(a, r2):
                            hit.add("re"); report("eq refinement (true branch, two variables) excludes a word both ranges denote",
                                                  f"refine_eq_vars({ra}, {rb}) = {r2!r}", {"a": str(a)}, f"clients:refine_eq:{ra}:{rb}")
                            break
                for nm, fn, chk in (("add", mod.add_elim_cond, lambda a, b: ev("iszero", ev("lt", ev("add", a, b), a))),
                                    ("sub", mod.sub_elim_cond, lambda a, b: ev("iszero", ev("gt", ev("sub", a, b), a)))):
                    try:
                        c = fn(va, vb)
                    except Exception:
                        c = None
                    n += 1
                    if c and nm not in hit:
                        for a in mem[i]:
                            for b in mem[j]:
                                if chk(a, b) != 1:
                                    hit.add(nm); report(f"safe{nm} overflow check removed although it can fail",
                                                        f"{nm}_elim_cond({ra}, {rb})", {"a": str(a), "b": str(b)}, f"clients:{nm}:{ra}:{rb}")
                                    break
                            if nm in hit:
                                break
    ctx.corr["range_client_decisions"] = n
    if gen_err is not None:
        if not found:
            ctx.violation("translator-rejected", "cannot slice/translate the range-based decision code: " + gen_err, {"error": gen_err})
        return n
    b = ctx.coq_build_cached(["C14/GenRangeClients.v", "C14/RangeClients.v", "C14/RangeRefine.v", "C14/PropsClients.v"],
                             deps=RANGE_PRE, timeout=900)
    if (COQ / "C14" / "GenRangeClients.vo").exists() and (b["ok"] or "GenRangeClients" not in b.get("file", "")):
        # translator validation: model vs CPython on the grid (rolling hash, as for the evaluators)
        imports = ("From Verif Require Import Base.PyInt C14.RangeBase C14.GenRangeClients.\n"
                   f"Definition RS : list vrange := [{'; '.join(_vr_coq(r) for r in ranges)}].\n"
                   "Definition eb (r : res bool) : Z := match r with Ok true => 1 | Ok false => 0 | Err _ => 2 end.\n"
                   "Definition eo (r : res (option Z)) : Z := match r with Ok (Some k) => k | Ok None => 7 | Err _ => 9 end.\n"
                   f"Definition hashl (l : list Z) : Z := fold_left (fun h x => (h * {HASH_B} + (x mod {HASH_P})) mod {HASH_P}) l 7.")
        lits = [0, 1, 5, 255, 2**255 - 1, 2**255, 2**256 - 1, -1, -128]
        exprs = ["[hashl (map (fun p => eb (add_elim_cond (fst p) (snd p))) (list_prod RS RS))]",
                 "[hashl (map (fun p => eb (sub_elim_cond (fst p) (snd p))) (list_prod RS RS))]",
                 "[hashl (map (fun r => eb (_range_excludes_zero r)) RS)]",
                 "[hashl (flat_map (fun r => map (fun n => eb (signextend_noop_cond n r)) [0; 1; 15; 30]) RS)]",
                 "[hashl (flat_map (fun r => flat_map (fun l => flat_map (fun g => flat_map (fun s => map (fun f => "
                 "eo (range_cmp_kernel l r g s f)) [true; false]) [true; false]) [true; false]) "
                 + coqrun.zlist(lits) + ") RS)]"]
        imports += ("\nDefinition er (r : res (option vrange)) : list Z := match r with Ok (Some TOP) => [0;0;0] | Ok (Some BOT) => [1;0;0] "
                    "| Ok (Some (IV l h)) => [2;l;h] | Ok None => [5;0;0] | Err _ => [9;0;0] end.")
        rlits = [0, 5, 255, 2**255 - 1, 2**255, 2**256 - 1, -1, -128]
        exprs.append("[hashl (flat_map (fun r => flat_map (fun l => flat_map (fun o => flat_map (fun t => "
                     "er (refine_compare_left r l o t) ++ er (refine_compare_right r l o t)) [true; false]) "
                     '["lt"%string; "gt"%string; "slt"%string; "sgt"%string]) ' + coqrun.zlist(rlits) + ") RS)]")
        exprs.append("[hashl (flat_map (fun r => er (refine_iszero_false r)) RS)]")
        exprs.append("[hashl (flat_map (fun p => er (refine_eq_vars (fst p) (snd p))) (list_prod RS RS))]")
        outs = coqrun.eval_zlists(imports, exprs, "c14clients", shard=7)
        pr = [_vr_py(r) for r in ranges]

        def sb(f):
            try:
                return 1 if f() else 0
            except Exception:
                return 2

        def so(f):
            try:
                k = f()
                return 7 if k is None else k
            except Exception:
                return 9
        py = [
            _hash([sb(lambda: mod.add_elim_cond(a, b)) for a in pr for b in pr]),
            _hash([sb(lambda: mod.sub_elim_cond(a, b)) for a in pr for b in pr]),
            _hash([sb(lambda: mod._range_excludes_zero(r)) for r in pr]),
            _hash([sb(lambda: mod.signextend_noop_cond(nb, r)) for r in pr for nb in (0, 1, 15, 30)]),
            _hash([so(lambda: mod.range_cmp_kernel(l, r, g, s_, f)) for r in pr for l in lits for g in (True, False)
                   for s_ in (True, False) for f in (True, False)]),
        ]
        def sr(f):
            try:
                r = f()
            except Exception:
                return [9, 0, 0]
            if r is None:
                return [5, 0, 0]
            return _enc_py(lambda: r)
        seq = []
        for r in pr:
            for l in rlits:
                for o in ("lt", "gt", "slt", "sgt"):
                    for t_ in (True, False):
                        seq += sr(lambda: mod.refine_compare_left(mod._R(r), l, o, t_)) + sr(lambda: mod.refine_compare_right(mod._R(r), l, o, t_))
        py.append(_hash(seq))
        py.append(_hash([x for r in pr for x in sr(lambda: mod.refine_iszero_false(mod._R(r)))]))
        py.append(_hash([x for a in pr for b in pr for x in sr(lambda: mod.refine_eq_vars(a, b))]))
        names = ["add_elim_cond", "sub_elim_cond", "_range_excludes_zero", "signextend_noop_cond", "range_cmp_kernel",
                 "refine_compare_left/right", "refine_iszero_false", "refine_eq_vars"]
        for nm, o, p_ in zip(names, outs, py):
            if o[0] != p_:
                ctx.violation("correspondence-broken", f"py2coq model of sliced decision code {nm} disagrees with CPython", {"fn": nm})
    if not b["ok"] and not found:
        ctx.violation("theorem-broken", f"{b.get('failed_lemma')} in {b['file']}",
                      {"theorem": b.get("failed_lemma"), "file": b["file"], "coq_output": b["out"][-1500:]})
    ctx.samples.append({"sub_elim_cond": [["IV", 50, 100], ["IV", 5, 50]], "means": "assert iszero(gt(sub x y, x)) may be deleted"})
    return n


# ---------------------------------------------------------------- memory location aliasing tests
def part_memloc(ctx):
    from vlib import c14_memloc
    from vyper.venom.basicblock import IRInstruction, IRLiteral
    from vyper.venom.memory_location import Allocation, MemoryLocation
    gen_err = None
    mod = None
    try:
        text, _ = c14_memloc.gen_coq()
        (COQ / "C14" / "GenMemLoc.v").write_text(text)
        mod, _ = c14_memloc.load_module()
    except Unsupported as e:
        gen_err = str(e)
    allocs = [None, Allocation(IRInstruction("alloca", [IRLiteral(64)])), Allocation(IRInstruction("alloca", [IRLiteral(64)]))]
    offs = [None, 0, 31, 32, 33, 64]
    sizes = [None, 0, 1, 32, 33]
    locs = [(o, sz, ai) for o in offs for sz in sizes for ai in range(3)]
    n = 0
    found = False

    def cells(loc):
        """byte cells denoted by a location inside a 0..127 window of its region (None = unbounded)"""
        o, sz, ai = loc
        if sz == 0:
            return set()
        if o is None:
            return {(ai, k) for k in range(0, 128)}
        hi = 128 if sz is None else min(128, o + sz)
        return {(ai, k) for k in range(o, hi)}

    real = [MemoryLocation(offset=o, size=sz, alloca=allocs[ai]) for (o, sz, ai) in locs]
    py_mo, py_cc = [], []
    for i, a in enumerate(locs):
        for j, b in enumerate(locs):
            n += 1
            try:
                r = MemoryLocation.may_overlap(real[i], real[j])
            except Exception as e:
                r = None
            try:
                c = real[i].completely_contains(real[j])
            except Exception as e:
                c = None
            py_mo.append(2 if r is None else int(r))
            py_cc.append(2 if c is None else int(c))
            if r is False and (cells(a) & cells(b)) and not found:
                found = True
                ctx.violation("failing-input", "MemoryLocation.may_overlap says 'no overlap' for locations that share a byte",
                              {"loc1": str(a), "loc2": str(b), "call": "MemoryLocation.may_overlap(MemoryLocation(offset,size,alloca#), ...)"},
                              key=f"memloc:may_overlap:{a}:{b}")
            if c is True and not (cells(b) <= cells(a)) and not found:
                found = True
                ctx.violation("failing-input", "MemoryLocation.completely_contains says 'contains' but a byte of the other location is outside",
                              {"self": str(a), "other": str(b)}, key=f"memloc:contains:{a}:{b}")
            if mod is not None:
                try:
                    if mod.may_overlap(real[i], real[j]) != r or mod.completely_contains(real[i], real[j]) != c:
                        ctx.violation("correspondence-broken", "sliced alias test differs from the real method", {"loc1": str(a), "loc2": str(b)})
                        mod = None
                except Exception:
                    pass
    ctx.corr["memloc_pairs"] = n
    if gen_err is not None:
        if not found:
            ctx.violation("translator-rejected", "cannot slice/translate memory_location.py alias tests: " + gen_err, {"error": gen_err})
        return n
    b = ctx.coq_build_cached(["C14/MemLocBase.v", "C14/GenMemLoc.v", "C14/MemLocSound.v", "C14/PropsMemLoc.v"], deps=["C14/RangeBase.v"], timeout=600)
    if (COQ / "C14" / "GenMemLoc.vo").exists() and (b["ok"] or "GenMemLoc" not in b.get("file", "")):
        def oz(x):
            return "None" if x is None else f"(Some {coqrun.hexlit(x)})"
        ls = "[" + "; ".join(f"{{| ml_offset := {oz(o)}; ml_size := {oz(sz)}; ml_alloca := {oz(None if ai == 0 else ai)} |}}" for (o, sz, ai) in locs) + "]"
        imports = ("From Verif Require Import Base.PyInt C14.RangeBase C14.MemLocBase C14.GenMemLoc.\n"
                   f"Definition LS : list memloc := {ls}.\n"
                   "Definition eb (r : res bool) : Z := match r with Ok true => 1 | Ok false => 0 | Err _ => 2 end.\n"
                   f"Definition hashl (l : list Z) : Z := fold_left (fun h x => (h * {HASH_B} + (x mod {HASH_P})) mod {HASH_P}) l 7.")
        outs = coqrun.eval_zlists(imports, ["[hashl (map (fun p => eb (may_overlap (fst p) (snd p))) (list_prod LS LS))]",
                                            "[hashl (map (fun p => eb (completely_contains (fst p) (snd p))) (list_prod LS LS))]"], "c14memloc", shard=2)
        if outs[0][0] != _hash(py_mo) or outs[1][0] != _hash(py_cc):
            ctx.violation("correspondence-broken", "py2coq model of may_overlap/completely_contains disagrees with CPython", {})
    if not b["ok"] and not found:
        ctx.violation("theorem-broken", f"{b.get('failed_lemma')} in {b['file']}",
                      {"theorem": b.get("failed_lemma"), "file": b["file"], "coq_output": b["out"][-1500:]})
    ctx.assumptions.append("memloc_disjoint_sound: distinct not-yet-placed allocations are modelled as disjoint regions "
                           "(the allocator's obligation, proved for the concretize loop in C04)")
    return n


# ---------------------------------------------------------------- the analysis result, validated per function
FIX_FILES = ["C14/RangeFix.v", "C14/RangeFixProofs.v", "C14/PropsFix.v"]
ELIM_FILES = ["C14/RangeElim.v", "C14/RangeElimProofs.v", "C14/PropsElim.v"]
AFF_FILES = ["C14/RangeAffine.v", "C14/RangeAffineProofs.v", "C14/PropsAffine.v"]
FIX_MODEL_DEPS = ["C14/RangeBase.v", "C14/GenRange.v", "C14/GenRangeClients.v"]


def _fix_deps():
    return (RANGE_PRE + [f"C14/{f}.v" for f in RANGE_PROOF_FILES] + [RANGE_POST[0]]
            + ["C14/GenRangeClients.v", "C14/RangeClients.v", "C14/RangeRefine.v"])


def part_fixpoint(ctx):
    """VariableRangeAnalysis as a whole (worklist, widening, phis, branch refinement on CFG edges): every result the
    real analysis produces while corpus contracts are compiled is checked by the verified validator
    (coq/C14/RangeFix.v, theorem range_fixpoint_sound), and the transfer functions of the model are tied to
    `_run_block` by comparing exit states and per-instruction state hashes."""
    import warnings
    from vlib import c14_fix, c14_pass_corpus as PC
    from vyper.compiler import compile_code
    from vyper.compiler.settings import OptimizationLevel, Settings
    # the validator itself (definitions only) does not depend on any proof file
    ctx.coq_build_cached(FIX_FILES[:1], deps=FIX_MODEL_DEPS, timeout=600)
    b = ctx.coq_build_cached(FIX_FILES[1:], deps=_fix_deps() + FIX_FILES[:1], timeout=900)
    ctx.coq_build_cached(ELIM_FILES[:1], deps=FIX_MODEL_DEPS + FIX_FILES[:1], timeout=600)
    b2 = ctx.coq_build_cached(ELIM_FILES[1:], deps=_fix_deps() + FIX_FILES[:2] + ELIM_FILES[:1], timeout=900)
    ctx.coq_build_cached(AFF_FILES[:1], deps=FIX_MODEL_DEPS + FIX_FILES[:1] + ELIM_FILES[:1], timeout=600)
    b3 = ctx.coq_build_cached(AFF_FILES[1:], deps=_fix_deps() + FIX_FILES[:2] + ELIM_FILES[:2] + AFF_FILES[:1], timeout=900)
    rnd = ctx.rng("fixpoint")
    progs = PC.select(ctx.tier, rnd)
    levels = [OptimizationLevel.GAS] if ctx.tier == "quick" else [OptimizationLevel.GAS, OptimizationLevel.CODESIZE, OptimizationLevel.O3]
    nfail = 0
    with warnings.catch_warnings():
        warnings.simplefilter("ignore")
        from vlib import c14_stacksafe
        with c14_fix.Observer(max_insts=600 if ctx.tier == "quick" else 1200, rnd=rnd, fuzz_paths=3 if ctx.tier == "quick" else 8) as obs, \
                c14_stacksafe.Observer(max_samples=60 if ctx.tier == "quick" else 2000) as sobs:
            for c in [{"src": x} for x in c14_stacksafe.EXTRA_SOURCES] + list(progs):
                for lvl in levels:
                    try:
                        compile_code(c["src"], output_formats=["bytecode"], settings=Settings(experimental_codegen=True, optimize=lvl))
                    except Exception:
                        nfail += 1
    n_ss = _stacksafe_eval(ctx, sobs)
    errs = obs.samples.pop("__errors__", [])
    samples = sorted(obs.samples.values(), key=lambda s_: (-s_["nblocks"], s_["name"], s_["ninsts"]))
    trivial = [s_ for s_ in samples if s_["nblocks"] <= 1]
    samples = [s_ for s_ in samples if s_["nblocks"] > 1]
    cap = 90 if ctx.tier == "quick" else 100000
    if len(samples) > cap:
        # the largest third, plus a seeded sample of the rest
        head = samples[:cap // 3]
        samples = head + rnd.sample(samples[cap // 3:], cap - len(head))
    found = False
    for ff in obs.fuzz_fail:
        found = True
        ctx.violation("failing-input", "a variable takes a value outside the range VariableRangeAnalysis reports", ff,
                      key="fixpoint:fuzz:" + ff["variable"] + ":" + ff["instruction"][:60])
    if errs:
        ctx.violation("correspondence-broken", "cannot export the analysis result: " + errs[0], {"errors": errs[:5]})
    stats = {"analysis_runs": obs.calls, "distinct_functions": len(obs.samples), "single_block_skipped": len(trivial),
             "too_big_skipped": obs.skipped_big, "validated": 0, "rejected": 0, "exit_state_mismatch": 0, "hash_mismatch": 0,
             "dynamic_executions": obs.fuzz_runs, "compile_failures": nfail,
             "instructions": sum(s_["ninsts"] for s_ in samples), "blocks": sum(s_["nblocks"] for s_ in samples)}
    if (COQ / "C14" / "RangeFix.vo").exists() and samples:
        try:
            res = c14_fix.evaluate(samples, shard=max(1, len(samples) // 12), timeout=1500)
        except RuntimeError as e:
            res = None
            ctx.violation("correspondence-broken", "the validator could not be evaluated on the exported analysis results", {"error": str(e)[-1500:]})
        if res is not None:
            for s_, r in zip(samples, res):
                ok = len(r) >= 1 and r[0] == 1
                if ok:
                    stats["validated"] += 1
                else:
                    stats["rejected"] += 1
                    if not found and stats["rejected"] <= 2:
                        ctx.violation("theorem-broken", "range_fixpoint_sound does not apply: the result of VariableRangeAnalysis is not a "
                                      "post-fixpoint of the proved transfer/refinement functions (function " + s_["name"] + ")",
                                      {"theorem": "range_fixpoint_sound (check f E = false)", "function": s_["text"][:6000],
                                       "entry_states": s_["E"][:60]})
                if not s_["unvisited"] and len(r) >= 3:
                    if r[1] != 0:
                        stats["exit_state_mismatch"] += 1
                    if r[2] != s_["hash"]:
                        stats["hash_mismatch"] += 1
                    if (r[1] != 0 or r[2] != s_["hash"]) and ok and stats["exit_state_mismatch"] + stats["hash_mismatch"] <= 2 and not found:
                        ctx.violation("correspondence-broken", "the model's transfer functions disagree with _run_block/_evaluate_inst on "
                                      "function " + s_["name"] + " (exit states or per-instruction states differ)",
                                      {"function": s_["text"][:6000], "exit_blocks_differ": r[1], "hash_model": r[2], "hash_real": s_["hash"]})
    # ---- AssertEliminationPass / OverflowEliminationPass: every invocation that deleted an assertion
    efound = False
    for ff in obs.elim_fail:
        efound = True
        ctx.violation("failing-input", f"{ff['pass']} deleted an assertion that fails on some execution", ff,
                      key="elim:fuzz:" + ff["pass"] + ":" + ff["deleted_assert_operand"])
    estats = {"pass_invocations_with_deletions": len(obs.elim), "assertions_deleted": sum(e_["deleted"] for e_ in obs.elim),
              "validated": 0, "rejected": 0,
              "by_pass": {nm: sum(1 for e_ in obs.elim if e_["pass_name"] == nm) for nm in ("AssertEliminationPass", "OverflowEliminationPass")}}
    if (COQ / "C14" / "RangeElim.vo").exists() and obs.elim:
        try:
            eres = c14_fix.evaluate_elim(obs.elim, shard=max(1, len(obs.elim) // 8), timeout=1200)
        except RuntimeError as e:
            eres = None
            ctx.violation("correspondence-broken", "the assert-elimination validator could not be evaluated", {"error": str(e)[-1500:]})
        if eres is not None:
            for e_, r in zip(obs.elim, eres):
                if len(r) >= 1 and r[0] == 1:
                    estats["validated"] += 1
                else:
                    estats["rejected"] += 1
                    if not efound and not found and estats["rejected"] <= 2:
                        ctx.violation("theorem-broken", "assert_elimination_sound does not apply: " + e_["pass_name"] + " deleted an assertion "
                                      "that neither the range of its operand nor the safe-add/safe-sub pattern justifies (function "
                                      + e_["name"] + ")",
                                      {"theorem": "assert_elimination_sound (elim_check f E f' = false)", "pass": e_["pass_name"],
                                       "range_certificate_accepted": bool(len(r) >= 2 and r[1] == 1), "function_after": e_["text"][:6000]})
    # ---- AffineFoldingPass: every invocation that rewrote an instruction
    astats = {"pass_invocations_with_rewrites": len(obs.affine), "validated": 0, "rejected": 0, "instructions_rewritten": 0}
    aff = obs.affine
    if ctx.tier == "quick" and len(aff) > 40:
        aff = sorted(aff, key=lambda e_: -e_["ninsts"])[:12] + rnd.sample(sorted(aff, key=lambda e_: -e_["ninsts"])[12:], 28)
    # hand-made families: add/sub/assign chains the corpus never produces (literal minus variable, re-used roots, ...)
    fam = c14_fix.affine_family(rnd, 150 if ctx.tier == "quick" else 1500)
    for e_ in [e_ for e_ in fam if "error" in e_][:2]:
        ctx.violation("failing-input", "AffineFoldingPass raises on a well-formed function: " + e_["error"], {"venom": e_["text"]},
                      key="affine:exception:" + e_["error"][:60])
    fam = [e_ for e_ in fam if "error" not in e_]
    astats["family_functions_rewritten"] = len(fam)
    aff = aff + fam
    afound = False
    if (COQ / "C14" / "RangeAffine.vo").exists() and aff:
        try:
            ares = c14_fix.evaluate_affine(aff, shard=max(1, len(aff) // 10), timeout=1200)
        except RuntimeError as e:
            ares = None
            ctx.violation("correspondence-broken", "the affine-folding validator could not be evaluated", {"error": str(e)[-1500:]})
        if ares is not None:
            for e_, r in zip(aff, ares):
                if len(r) >= 2:
                    astats["instructions_rewritten"] += r[1]
                if len(r) >= 1 and r[0] == 1:
                    astats["validated"] += 1
                else:
                    astats["rejected"] += 1
                    if astats["rejected"] <= 2:
                        wit = c14_fix.search_value_change(e_, rnd)
                        if wit is not None:
                            afound = True
                            ctx.violation("failing-input", "AffineFoldingPass changes the value an instruction computes", wit,
                                          key="affine:" + wit["instruction_after"][:80])
                        else:
                            ctx.violation("theorem-broken", "affine_folding_sound does not apply: AffineFoldingPass rewrote an instruction "
                                          "whose normal form (root + offset) differs from the original's (function " + e_["name"] + ")",
                                          {"theorem": "affine_folding_sound (affine_check f f' = false)", "function_after": e_["text"][:6000]})
    ctx.corr["affine_folding"] = astats
    for bb_ in (b, b2, b3):
        if not bb_["ok"] and not found and not efound and not afound:
            ctx.violation("theorem-broken", f"{bb_.get('failed_lemma')} in {bb_['file']}",
                          {"theorem": bb_.get("failed_lemma"), "file": bb_["file"], "coq_output": bb_["out"][-1500:]})
    ctx.corr["range_fixpoint"] = stats
    ctx.corr["assert_elimination"] = estats
    if samples:
        ctx.samples.append({"validated_function": samples[0]["name"], "blocks": samples[0]["nblocks"], "instructions": samples[0]["ninsts"]})
    return stats["validated"] + stats["dynamic_executions"] + estats["validated"] + astats["validated"] + n_ss


def run(ctx):
    import time
    from vlib import c14_dret
    from vlib import (c14_fixvenom, c14_isel, c14_memlive, c14_pass, c14_sccp, c14a_part, c14c_part, c14d_part, c14g_part, c14l_part,
                      c14i_part, c14m_part, c14mm_part, c14s_part)
    total = 0
    t = time.time()
    # phase A: the parts that regenerate and build the translated kernels (GenEval, GenRange, GenRangeClients,
    # GenMemLoc) and everything stated directly about them
    total += ctx.run_groups([
        [("wordtie", wordtie.run)],
        [("eval kernel", part_eval_kernel)],
        [("range", part_range), ("range clients", part_clients), ("memloc", part_memloc), ("fixpoint validator", part_fixpoint)],
        [("fmp lowering validator", part_fmp), ("dret desugar / fmp prune validators", c14_dret.part_dret)],
    ])
    ctx.log(f"phase A {time.time()-t:.0f}s"); t = time.time()
    # phase B: per-pass parts (independent directories; they only read what phase A / setup built)
    total += ctx.run_groups([
        [("algebraic/sccp", c14a_part.part_algebraic), ("sccp whole-function validator", c14_sccp.part_sccp)],
        [("dominators/ssa/dfg/makessa", c14d_part.part_dom)],
        [("cfg passes", c14g_part.part_cfg_passes), ("assembly control flow", c14g_part.part_asm_cfg)],
        [("small rewrite passes", c14l_part.part_small_passes), ("memmerging", c14mm_part.part_memmerge),
         ("memory liveness / concretisation validator", c14_memlive.part_memlive)],
        [("copy forwarding / elision passes", c14c_part.part_copy_passes), ("load elimination / DSE / CSE", c14m_part.part_mem_passes)],
        [("stack model", c14s_part.part_stack), ("inliner / mem2var validators", c14i_part.part_inline_mem2var)],
        [("passes", c14_pass.part_passes), ("rangefix/venom link", c14_fixvenom.part_fixvenom),
         ("instruction selection", c14_isel.part_isel)],
    ])
    ctx.log(f"phase B {time.time()-t:.0f}s")
    ctx.corr.setdefault("evaluations", 0)
    ctx.corr["evaluations"] += total
    ctx.corr["distinct_nontrivial"] = total
    ctx.corr["rule"] = "boundary grid x grid per opcode (distinct operand tuples); non-trivial = all (every tuple is a distinct opcode/operand combination)"
    ctx.trusted += ["Coq 8.16.1 kernel + vm_compute", "tools/vlib/py2coq.py (translator, validated by CPython-vs-model differential each run)",
                    "pyrevm as EVM reference for Word256.v"]
