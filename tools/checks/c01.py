"""C01: compiled bytecode implements the source semantics (reference semantics VyCore + differential)."""
import time

from vlib import c01_driver as D
from vlib import c01_harness as H
from vlib.c01_gen import ALL_FEATURES
from vlib.c01_shrink import shrink
from vlib.configs import configs

LEVEL = "proof"
META = {
    "category": "proof",
    "text": "A reference source semantics for a Vyper fragment (coq/C01/VyCore.v: checked integer arithmetic, bool, "
            "arrays, DynArray, structs, HashMap, Bytes/String, bytesM, flags, decimals, shifts, **, storage/transient, immutables + "
            "constructor, default arguments, internal calls, calls to a scripted external callee, self.balance/send, loops, "
            "asserts with reasons, logs) written independently of "
            "both code generators, with machine-checked laws (determinism, exact-or-revert arithmetic, store lens laws, "
            "termination with a static fuel bound) and a verified compiler for the legacy int/bool expression fragment "
            "(expr_compile_correct, tied by syntactic equality with the real IR), extended for BOTH front ends to a larger expression "
            "fragment (expr_x_compile_correct / vexpr_x_compile_correct: decimals, flags with in / not in, shifts, ~, signed bitwise "
            "operations, state-variable leaves; real legacy IR and real Venom blocks compared syntactically with the verified "
            "compilers' output on a fixed operator table + random expressions every run, a subset executed on pyrevm against the "
            "Coq meaning). The pure value-level builtins (as_wei_value, min/max, abs, floor/ceil, isqrt, uint256_addmod/mulmod, "
            "pow_mod256, unsafe_add/sub/mul/div, shift, uint2str, len, empty, extract32, slice, concat, keccak256/sha256 via an oracle "
            "table, method_id) have a source-level meaning in coq/C01/VyBuiltin.v written from the documentation with exact-or-revert "
            "laws (PropsBuiltin.v), executed against every configuration on boundary-biased runtime arguments, so a change made "
            "identically in both code generators is still caught. The real compiler is tied to it per generated program: every "
            "configuration's bytecode is executed on pyrevm and status/return data/logs/final storage are compared with "
            "the semantics' prediction computed by vm_compute. Partial: the compiler is not proved correct; coverage of "
            "the compiler is per generated program.",
    "level_note": "Trusted: Coq kernel + vm_compute; VyCore.v as a faithful reading of the language documentation (it is the "
                  "oracle); pyrevm as the EVM; eth_abi for encoding expected return/log data. Theorems are about the "
                  "reference semantics, not about the compiler.",
    "technique": "Coq proofs over a hand-written reference semantics + seeded differential against compiler+EVM under all configurations",
}

COQ_FILES = ["C01/VyCore.v", "C01/VyWf.v", "C01/VyShow.v", "C01/VyUnfold.v", "C01/VyLaws.v", "C01/Terminates.v",
             "C01/PropsC01.v"]


def order_tags(prog):
    """shapes whose result depends on the evaluation order of effectful operands (root causes C08 reports separately)"""
    from vlib.c01_ast import e_children, s_exprs, s_blocks
    tags = set()

    def has_call(e):
        return e.k in ("call", "pop") or any(has_call(c) for c in e_children(e))

    def reads_state(e):
        return e.k in ("self", "tra", "idx", "fld") or any(reads_state(c) for c in e_children(e))

    def ve(e):
        if (e.k == "cmp" or (e.k == "bin" and e.op in ("BAnd", "BOr", "BXor"))) and has_call(e.a) and has_call(e.b):
            tags.add("compare-or-bitwise-operands-with-calls")
        if (e.k == "cmp" or (e.k == "bin" and e.op in ("BAnd", "BOr", "BXor"))) and \
                ((has_call(e.a) and reads_state(e.b)) or (has_call(e.b) and reads_state(e.a))):
            tags.add("compare-or-bitwise-operand-read-vs-call")
        if e.k == "call":
            for i, a in enumerate(e.args):
                if reads_state(a) and any(has_call(b) for b in e.args[i + 1:]):
                    tags.add("call-arg-read-then-effect")
        for c in e_children(e):
            ve(c)

    def vs(s):
        if s.k == "aug" and s.op in ("BAnd", "BOr", "BXor") and has_call(s.e):
            tags.add("augassign-bitwise-rhs-call")
        for e in s_exprs(s):
            ve(e)
        for b in s_blocks(s):
            for x in b:
                vs(x)
    def writes(b, base):
        for s in b:
            if s.k in ("assign", "aug") and s.base[:2] == base[:2]:
                return True
            if any(writes(x, base) for x in s_blocks(s)):
                return True
        return False

    def vb(b):
        for i, s in enumerate(b):
            if s.k == "assign" and not s.path:
                for s2 in b[i + 1:i + 3]:
                    if s2.k in ("for", "fordyn", "forin") and writes(s2.body, s.base):
                        tags.add("loop-store-forwarding")
                # value loaded from a storage/transient variable before a loop that updates that variable
                if s.e.k in ("self", "tra"):
                    src_base = ("sto" if s.e.k == "self" else "tra", s.e.name)
                    for s2 in b[i + 1:i + 3]:
                        if s2.k in ("for", "fordyn", "forin") and writes(s2.body, src_base):
                            tags.add("loop-load-forwarding")
            for x in s_blocks(s):
                vb(x)
    for f in prog.ints + prog.exts:
        for s in f.body:
            vs(s)
        vb(f.body)
    return tags


def report_diff(ctx, it, cfg, diff, also=(), seen_keys=None):
    """shrink and report one model-vs-EVM difference"""
    prog, calls = it["prog"], it["calls"]
    t0 = time.time()
    try:
        if it.get("key"):
            sp, sc, sd = prog, calls, None      # already minimal
        else:
            sp, sc, sd = shrink(prog, calls, cfg, diff["what"], budget_s=40 if ctx.tier == "quick" else 180)
    except Exception as e:  # shrinking is best effort
        ctx.log(f"shrink failed: {type(e).__name__}: {e}")
        sp, sc, sd = prog, calls, None
    if sd is None:
        sp, sc, sd = prog, calls, diff
    detail = {
        "config": cfg.name, "difference": sd, "source": sp.vy(),
        "calls": [{"function": H.fun_of(sp, c).abi_sig(), "args": [str(a) for a in c.args], "sender": c.sender,
                   "value": c.value, "calldata": H.calldata(H.fun_of(sp, c), c).hex()} for c in sc],
        "rule": "VyCore source semantics (coq/C01/VyCore.v): expected = model prediction, observed = EVM execution of "
                "the compiled bytecode under this configuration",
        "shrink_s": round(time.time() - t0, 1),
    }
    if diff["what"] == "model-error":
        ctx.violation("correspondence-broken", "VyCore got stuck / out of fuel on a generated program", detail)
    else:
        tags = order_tags(sp)
        pipe = "venom" if cfg.venom else "legacy"
        key = f"C01:{sd['what']}:{cfg.name}"
        if len(tags) == 1 and len(sp.exts) <= 2:
            # the shrunk program is an instance of a shape with a known root cause: stable key per (pipeline, shape)
            tag = sorted(tags)[0]
            key = f"C01:{pipe}:{tag}" if tag.startswith("loop-") else f"C01:{pipe}:order:{tag}"
        if it.get("key"):
            key = it["key"]
        detail["order_sensitive_shapes"] = sorted(tags)
        detail["also_failing_under"] = list(also)
        if seen_keys is not None:
            if key in seen_keys:
                return
            seen_keys.add(key)
        ctx.violation("failing-input", f"compiled bytecode disagrees with source semantics ({sd['what']}) under {cfg.name}",
                      detail, key=key)


def regress_items():
    """minimized past failures as VyCore programs (run first, same comparison as the generated ones)"""
    from vlib.c01_ast import E, S, Fun, Program, U256
    I256 = ("int", 256, True)
    U8 = ("int", 8, False)
    out = []
    # venom: `self.s = a; for ..: self.s += a` computed `self.s += self.s` (store->load forwarding across the loop back-edge)
    p = Program()
    p.events = [("Ev0", [("x", U256)])]
    p.sto = [("s1", U256), ("s2", I256)]
    a = E("var", U256, name="a0", id=0)
    p.exts.append(Fun("f1", [("a0", U256)], U256, [
        S("assign", base=("sto", "s1", 0), path=[], e=a, decl=None),
        S("for", name="v0", id=1, vty=U8, start=0, n=2, body=[S("aug", op="Add", ty=U256, base=("sto", "s1", 0), path=[], e=a)]),
        S("return", e=E("self", U256, name="s1", id=0))], True))
    b = E("var", I256, name="a0", id=0)
    s2 = E("self", I256, name="s2", id=1)
    p.exts.append(Fun("f2", [("a0", I256)], I256, [
        S("assign", base=("sto", "s2", 1), path=[], e=b, decl=None),
        S("for", name="v0", id=1, vty=U8, start=0, n=3,
          body=[S("assign", base=("sto", "s2", 1), path=[], e=E("bin", I256, op="Sub", a=E("neg", I256, a=s2), b=b), decl=None)]),
        S("return", e=s2)], True))
    calls = [H.Call(0, [5]), H.Call(1, [(-6) % 2 ** 256]), H.Call(0, [0]), H.Call(1, [7])]
    out.append({"prog": p, "calls": calls, "name": "venom-loop-store-forwarding", "key": "C01:venom:loop-store-forwarding"})
    return out


def differential(ctx, n_prog, cfgs, salt="gen", features=None):
    t0 = time.time()
    items, stats = D.generate(ctx, salt, n_prog, features=features, ncalls=8 if ctx.tier == "thorough" else 5,
                              nprobe=4 if ctx.tier == "quick" else 12)
    reg = regress_items()
    for it, m in zip(reg, H.model_eval([(r["prog"], r["calls"]) for r in reg], "c01reg")):
        it["model"] = m
    items = reg + items
    stats["regression_programs"] = [r["name"] for r in reg]
    t_gen = time.time() - t0
    # every random program runs under a rotating subset of the configurations (quick 4 of 10, thorough 24 of ~110: the 40
    # minute budget does not allow the full product); probe-only and regression programs run under all of them
    D.sample_configs(items, cfgs, 4 if ctx.tier == "quick" else 24, salt=ctx.seed)
    obs = D.observe_all(items, cfgs, procs=4)
    n_cmp = 0
    n_calls = 0
    rejected = {}
    reported = 0
    reg_reported = set()
    seen_keys = set()
    for i, it in enumerate(items):
        failing = []
        for j, cfg in enumerate(cfgs):
            if not D.cfg_applicable(it["prog"], cfg) or (i, j) not in obs:
                continue
            st, o = obs[(i, j)]
            if st == "exc":
                key = o[0]
                rejected[key] = rejected.get(key, 0) + 1
                if o[0] not in D.BENIGN_REJECT:
                    # the reference configuration compiled it: a crash/rejection here is configuration dependent (C02's
                    # subject); C01 records it and moves on
                    ctx.corr.setdefault("config_dependent_rejections", []).append(
                        {"config": cfg.name, "exception": o[0], "message": o[1][:200]})
                continue
            n_cmp += 1
            n_calls += len(it["calls"])
            d = H.compare(it["prog"], it["calls"], it["model"], o)
            if d is not None:
                failing.append((cfg, d))
        if failing and (reported < 2 or it.get("key")):
            # one report per program (first failing configuration; the others are listed)
            if not it.get("key"):
                reported += 1
            cfg, d = failing[0]
            report_diff(ctx, it, cfg, d, also=[c.name for c, _ in failing[1:]], seen_keys=seen_keys)
        elif failing:
            ctx.corr["further_failing_programs"] = ctx.corr.get("further_failing_programs", 0) + 1
    stats["revert"] = D.revert_stats(items)
    stats["compile_rejections_by_config"] = rejected
    stats["program_config_pairs_compared"] = n_cmp
    stats["calls_compared"] = n_calls
    stats["seconds"] = {"generate+model": round(t_gen, 1), "total": round(time.time() - t0, 1)}
    return items, stats


def part_expr_tie(ctx):
    """expr_compile_correct + its O-tie: real legacy IR of generated expressions == ExprCompile.compile, syntactically"""
    from vlib import c01_exprtie as T
    from vlib import coqrun
    from vlib.common import COQ
    rng = ctx.rng("exprtie")
    want = 60 if ctx.tier == "quick" else 800
    ok, stats, bad = [], {"none": 0, "rejected": 0, "shape_mismatch": 0}, []
    tries = 0
    while len(ok) < want and tries < want * 4:
        tries += 1
        s = T.sample(rng, rng.choice([1, 2, 2, 3, 3]))
        if s is None:
            stats["none"] += 1
        elif "rejected" in s:
            stats["rejected"] += 1
        elif "error" in s:
            stats["shape_mismatch"] += 1
            bad.append(s)
        else:
            ok.append(s)
    for s in bad[:2]:
        ctx.violation("correspondence-broken", "the real front end emits IR of a shape ExprCompile.compile does not produce",
                      {"source": s["src"], "error": s["error"], "real_ir": s.get("ir", "")[:1500]})
    (COQ / "C01" / "GenExprTie.v").write_text(T.render(ok))
    c03 = ["C03/LIR.v", "C03/ArithSpec.v", "C03/WordArith.v", "C03/TypeLemmas.v", "C03/ArithModel.v", "C03/LegacyExact.v", "C03/TieBase.v"]
    b = ctx.coq_build_cached(["C01/ExprCompile.v", "C01/ExprCompileProofs.v", "C01/ExprBridge.v", "C01/GenExprTie.v", "C01/PropsExpr.v"],
                             deps=c03 + ["C01/VyCore.v"])
    if not b["ok"]:
        located = None
        if "PropsExpr" in b.get("file", "") and (COQ / "C01" / "GenExprTie.vo").exists():
            # locate the sample whose real IR differs from the model's output
            try:
                outs = coqrun.eval_cases("From Verif Require Import C01.ExprCompile C01.GenExprTie.\n",
                                         ["map (fun p => tie_ok (fst p) (snd p)) samples"], "c01tie")
                flags = [x.strip() for x in outs[0].strip("[] ").split(";")]
                for s, f in zip(ok, flags):
                    if f != "true":
                        located = s
                        break
            except Exception as e:
                ctx.log(f"locating the failing sample failed: {e}")
        detail = {"theorem": b.get("failed_lemma"), "file": b["file"], "coq_output": b["out"][-1200:]}
        if located is not None:
            detail.update({"source": located["src"], "model_term": located["coq_e"], "real_ir_term": located["coq_t"][:2000],
                           "note": "ExprCompile.compile (model of Expr.parse_*) and the real legacy front end disagree syntactically "
                                   "on this expression; the VyCore-vs-EVM differential below is the search for a failing input"})
            ctx.violation("correspondence-broken", "real legacy IR of an expression differs from ExprCompile.compile", detail)
        else:
            ctx.violation("theorem-broken", f"{b.get('failed_lemma')} in {b['file']}", detail)
    ctx.corr["expr_tie"] = {"samples_tied": len(ok) if b["ok"] else 0, "generated": tries, **stats,
                            "kinds": "int/bool expressions over 2-4 locals, depth 1-3, 9 integer types; -O none legacy IR"}
    return len(ok)


def run(ctx):
    from vlib.c01_replay import replay
    if replay(ctx):
        return
    b = ctx.coq_build_cached(COQ_FILES)
    if not b["ok"]:
        ctx.violation("theorem-broken", f"{b.get('failed_lemma')} in {b['file']}",
                      {"theorem": b.get("failed_lemma"), "file": b["file"], "coq_output": b["out"][-1500:]})
        if "VyCore" in b["file"] or "VyShow" in b["file"] or "VyWf" in b["file"]:
            return
    n_tie = part_expr_tie(ctx)
    from vlib import c01v_part
    n_tie += c01v_part.part_vexpr(ctx)  # Venom front end: expression lowering model, O-tie, theorem vexpr_compile_correct
    from vlib import c01v_stmt
    n_tie += c01v_stmt.part_vstmt(ctx)  # ... and statement lowering (vstmt_compile_correct)
    from vlib import c01l_stmt
    n_tie += c01l_stmt.part_lstmt(ctx)  # legacy statement lowering (lstmt_compile_correct) + legacy_venom_agree
    try:
        from vlib import c01_exprx
        n_tie += c01_exprx.part_expr_x(ctx)  # larger expression fragment, both front ends (expr_x_ / vexpr_x_compile_correct)
    except Exception as ex:  # noqa  (fail closed: an exception in the additional part is a violation, the other parts still run)
        ctx.violation("gate", "the larger-fragment expression part (c01_exprx) raised", {"exception": f"{type(ex).__name__}: {ex}"[:600]})
    try:
        from vlib import c01_builtins
        n_tie += c01_builtins.part_builtins(ctx)  # pure value-level builtins: VyBuiltin.v (docs meaning) vs every configuration on pyrevm
    except Exception as ex:  # noqa  (fail closed, the other parts still run)
        ctx.violation("gate", "the builtin part (c01_builtins) raised", {"exception": f"{type(ex).__name__}: {ex}"[:600]})
    cfgs = configs(ctx.tier)
    n = 24 if ctx.tier == "quick" else 240
    items, stats = differential(ctx, n, cfgs)
    ctx.corr["generator"] = stats
    ctx.corr["configs"] = [c.name for c in cfgs]
    ctx.corr["evaluations"] = stats["calls_compared"] + n_tie
    distinct = len({(i, H.calldata(H.fun_of(it["prog"], c), c)) for i, it in enumerate(items) for c in it["calls"]})
    ctx.corr["distinct_nontrivial"] = distinct * len(cfgs)
    ctx.corr["rule"] = ("evaluations = external calls executed on the EVM and compared with VyCore (status, return data, "
                        "ordered logs) summed over configurations, plus final raw storage per program/config; distinct = "
                        "distinct (program, calldata) pairs x configurations")
    ctx.corr["features_outside_fragment"] = ["modules", "raw_call/create and the other environment builtins", "abi_encode/decode",
                                             "external calls other than to the scripted callee", "@nonreentrant", "tuples",
                                             "HashMap with Bytes/String keys", "math.sqrt (decimal), ecrecover/ecadd/ecmul, blockhash/blobhash",
                                             "convert() involving bytesM/Bytes (C04's subject)"]
    for it in items[:3]:
        c = it["calls"][0] if it["calls"] else None
        if c is not None:
            ctx.samples.append({"source_head": it["prog"].vy()[:300], "call": repr(c), "model": str(it["model"][0][0])[:200]})
    ctx.trusted += ["Coq 8.16.1 kernel + vm_compute", "coq/C01/VyCore.v as the reading of the language reference (oracle)",
                    "pyrevm (EVM)", "eth_abi (expected ABI bytes)"]
    ctx.assumptions += ["theorems are about the reference semantics; the compiler is tied to it only for the generated programs"]


def prebuild(ctx):
    """Called by setup_cmd: compile the static development once (content-keyed), so that the check itself only compiles the
    per-run generated sample file and the small Props file depending on it."""
    ctx.coq_build_cached(COQ_FILES)
    c03 = ["C03/LIR.v", "C03/ArithSpec.v", "C03/WordArith.v", "C03/TypeLemmas.v", "C03/ArithModel.v", "C03/LegacyExact.v", "C03/TieBase.v"]
    ctx.coq_build_cached(["C01/ExprCompile.v", "C01/ExprCompileProofs.v", "C01/ExprBridge.v"], deps=c03 + ["C01/VyCore.v"])
    from vlib import c01v_part, c01v_stmt
    c01v_part.prebuild(ctx)
    c01v_stmt.prebuild(ctx)
    from vlib import c01l_stmt
    c01l_stmt.prebuild(ctx)
    from vlib import c01_exprx
    c01_exprx.prebuild(ctx)
    from vlib import c01_builtins
    c01_builtins.prebuild(ctx)
