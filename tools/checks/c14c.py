"""C14C: test driver for the memory COPY passes part of C14 (helper; the real entry is tools/checks/c14.py)."""
LEVEL = "proof"
META = {"not_applicable": "helper part of C14"}


def prebuild(ctx):
    from vlib import c14c_part
    c14c_part.prebuild(ctx)


def run(ctx):
    from vlib import c14c_part
    ctx.is_known = lambda key: next((f for f in ctx.known.get("findings", []) if f.get("property") == "C14"
                                     and f.get("key") == key and f.get("status") == "open"), None)
    orig = ctx.violation

    def violation(kind, name, detail, key=None):
        ctx.log(f"  -> {kind}: {name[:260]} [key={key}]")
        return orig(kind, name, detail, key=key)
    ctx.violation = violation
    n = c14c_part.part_copy_passes(ctx)
    ctx.corr["evaluations"] = n
    ctx.corr["distinct_nontrivial"] = n
    ctx.corr["rule"] = "distinct changed invocations of the copy passes: validated by check_func under vm_compute, or counted as unsupported"
