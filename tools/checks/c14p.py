"""C14P: test driver for the pass-level part of C14 (helper; the real entry is tools/checks/c14.py)."""
LEVEL = "proof"
META = {"not_applicable": "helper for C14"}


def run(ctx):
    from vlib import c14_pass
    n = c14_pass.part_passes(ctx)
    ctx.corr["evaluations"] = n
    ctx.corr["distinct_nontrivial"] = n
    ctx.corr["rule"] = "calls x configurations + well-formedness checks + round trips + Coq evaluations"
