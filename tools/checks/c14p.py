"""C14P: test driver for the pass-level part of C14 (helper; the real entry is tools/checks/c14.py)."""
LEVEL = "proof"
META = {"not_applicable": "helper for C14"}


def run(ctx):
    from vlib import c14_pass
    # the known-findings file lists keys under property C14; this driver runs under the id C14P
    ctx.is_known = lambda key: next((f for f in ctx.known.get("findings", []) if f.get("property") == "C14"
                                     and f.get("key") == key and f.get("status") == "open"), None)
    orig = ctx.violation

    def violation(kind, name, detail, key=None):
        ctx.log(f"  -> {kind}: {name[:260]} [key={key}]")
        return orig(kind, name, detail, key=key)
    ctx.violation = violation
    n = c14_pass.part_passes(ctx)
    ctx.corr["evaluations"] = n
    ctx.corr["distinct_nontrivial"] = n
    ctx.corr["rule"] = "calls x configurations + well-formedness checks + round trips + Coq evaluations"
