"""C14S: helper part of C14 (stack scheduling kernels of the venom back end); runnable on its own:
python3 tools/check.py C14S --tier quick.  Not registered (the coordinator calls vlib.c14s_part.part_stack from c14.py)."""
from vlib import c14s_part

LEVEL = "proof"
META = {"not_applicable": "helper part of C14"}


def run(ctx):
    n = c14s_part.part_stack(ctx)
    ctx.corr["evaluations"] = n
    ctx.corr["distinct_nontrivial"] = n
    ctx.corr["rule"] = ("StackModel method cases + spiller/reorder commands + EVM executions of emitted assembly + corpus compiles/calls; "
                        "all distinct seeded inputs")
