"""C14I (helper part of C14): verified validators for FunctionInlinerPass (per inlined call site) and Mem2Var (per
promoted alloca).  Coq: coq/C14I/{ISyn,M2V}.v (models, checkers), {IProofs,M2VProofs}.v, PropsInline.v
(inline_check_sound, mem2var_check_sound).  The real passes are observed during corpus compiles and on hand-written
Venom IR; see notes/C14-inliner.md."""
from vlib import c14i_part

META = {"not_applicable": "helper part of C14"}


def prebuild(ctx):
    ctx.coq_build_cached(c14i_part.COQ_MODEL, timeout=600)


def run(ctx):
    n = c14i_part.part_inline_mem2var(ctx)
    ctx.corr["evaluations"] = n
    ctx.corr["distinct_nontrivial"] = n
    ctx.corr["rule"] = "distinct (context, call site) inlinings accepted by inline_check + distinct (function, alloca) promotions accepted by mem2var_check"
    ctx.trusted += ["Coq 8.16.1 kernel + vm_compute",
                    "tools/vlib/c14i_part.py exporter (IRFunction -> ISyn.func literal: blocks in get_basic_blocks order, operands in "
                    "IRInstruction.operands order, outputs from get_outputs) and the renaming certificate %x -> %<prefix>x",
                    "hand-written semantics coq/C14I/ISyn.v exec (call stack, phis, oracle for all other instructions)"]
    ctx.assumptions += ["inline_check_sound is a forward refinement: every complete run before is a run after (runs that are stuck before are not constrained)"]
