"""C16: bytecode is a faithful encoding of the assembly -- Coq theorems about a model of the two-pass
assembler + exact-bytes correspondence with the real assembler + property oracle on real output."""
import warnings
from pathlib import Path

from vlib import c16_asm as A
from vlib import c16_instr, c16_loops
from vlib.py2coq import Unsupported
from vlib.common import COQ, REPO
from vlib.configs import configs, core_configs

LEVEL = "proof"
META = {
    "category": "proof",
    "text": "Coq theorems about an executable model of vyper's two-pass assembler (resolve_symbols / _assembly_to_evm): "
            "pass-1 pc accounting equals pass-2 emitted length at every split point and for every item kind; every "
            "Label of a well-formed assembly resolves to a 0x5b at an instruction boundary of the final bytes (EVM "
            "jumpdest analysis); PUSHLABEL/PUSH_OFST/CONST immediates are the big-endian resolved value, PUSH is "
            "minimal-width and total on [0,2^256), PUSH_N never truncates; data verbatim; code_end = length. "
            "instructions.py (num_to_bytearray, PUSH, PUSH_N, calc_push_size) and the opcode table are regenerated "
            "from /repo each run and proved equal to the specification; the assembler loops are tied by exact-bytes "
            "correspondence on compiled corpus assemblies in all configurations and on boundary-crossing synthetic "
            "assemblies (both PUSH0 modes, error behaviour included).",
    "level_note": "Trusted: Coq kernel + vm_compute; py2coq translator (+ C16 loop extension, validated by the "
                  "CPython-vs-model differential each run); the item serialiser (tools/vlib/c16_asm.py); the "
                  "hand model of the two assembler loops is tied to /repo by exact-bytes correspondence, not by "
                  "translation. Well-formedness (wf_asm) of compiler-produced assemblies is checked per assembly, "
                  "not proved of the code generators.",
    "technique": "Coq proof over py2coq-translated source + hand model with exact-bytes differential correspondence",
}

KNOWN_PUSH0 = "venom-revert-postamble-push0-pre-shanghai"
STATIC = ["C16/Asm.v", "C16/HexBytes.v", "C16/InstrBridge.v", "C16/LoopsPrelude.v", "C16/PushProofs.v", "C16/AsmProofs.v", "C16/DecodeProofs.v", "C16/EvmOpcodes.v", "C16/Views.v", "C16/ViewsProofs.v"]


# ------------------------------------------------------------------ real side helpers

def real_assemble(asm, evm):
    """Run the real assembler under the given EVM version.  -> ("ok", bytes, symmap, constmap) | ("err", exc)"""
    from vyper.compiler.settings import Settings, anchor_settings
    from vyper.evm.assembler.core import _assembly_to_evm
    from vyper.evm.assembler.symbols import resolve_symbols
    with anchor_settings(Settings(evm_version=evm)):
        try:
            sm, cm, _ = resolve_symbols(asm)
            code = _assembly_to_evm(asm, sm, cm)
        except Exception as e:  # noqa: any failure of the assembler is "rejected"
            return ("err", f"{type(e).__name__}: {str(e)[:80]}")
    return ("ok", code, sm, cm)


def evm_index(evm):
    from vyper.evm.opcodes import EVM_VERSIONS
    return EVM_VERSIONS[evm]


def has_push0(evm):
    return A.EVM_NAMES.index(evm) >= A.EVM_NAMES.index("shanghai")


# ------------------------------------------------------------------ (a) compiled corpus

def corpus_cases(ctx):
    """-> list of dict(name,cfg,which,evm,asm,code,sm,cm,cd) for every distinct (assembly, evm)."""
    from vyper.compiler.settings import anchor_settings
    rnd = ctx.rng("corpus")
    cfgs = configs(ctx.tier)
    if ctx.tier == "thorough":
        base = configs("quick")
        extra = [c for c in cfgs if c.name not in {b.name for b in base}]
        cfgs = base + rnd.sample(extra, min(len(extra), 30))
    jobs = [(n, s, c) for n, s in A.CORPUS.items() for c in cfgs]
    ex = A.example_sources(REPO)
    for n, p in ex.items():
        pick = cfgs if ctx.tier == "thorough" else rnd.sample(cfgs, 1)
        jobs += [(n, p, c) for c in pick]
    out, skipped, compiled = [], {}, 0
    seen = set()
    import vyper.ir.compile_ir, vyper.venom.venom_to_assembly, vyper.venom.stack_spiller  # noqa: load PUSH importers
    probe_total = A.PushProbe()
    for name, src, cfg in jobs:
        probe = A.PushProbe()
        try:
            with probe:
                cd = A.compile_data(name, src, cfg)
                with anchor_settings(cd.settings):
                    pairs = [("assembly", cd.assembly, cd.bytecode), ("assembly_runtime", cd.assembly_runtime, cd.bytecode_runtime)]
        except Exception as e:  # noqa: compile failures are C20's business; record
            skipped[f"{name}:{type(e).__name__}"] = skipped.get(f"{name}:{type(e).__name__}", 0) + 1
            continue
        finally:
            probe_total.calls += probe.calls
            probe_total.max_seen = max(probe_total.max_seen, probe.max_seen)
            if probe.min_seen is not None:
                probe_total.min_seen = probe.min_seen if probe_total.min_seen is None else min(probe_total.min_seen, probe.min_seen)
            for k, v in probe.sites.items():
                probe_total.sites[k] = probe_total.sites.get(k, 0) + v
            if probe.bad and not probe_total.bad:
                probe_total.bad = probe.bad
                src_text = src if isinstance(src, str) else str(src)
                ctx.violation("failing-input", "a compiler path calls PUSH with a value outside [0, 2^256): "
                              "the emitted bytes do not push it (push_total hypothesis violated)",
                              {"contract": name, "source": src_text, "config": cfg.name, "calls": probe.bad},
                              key=f"c16:push-out-of-range:{probe.bad[0]['call_site']}")
                ctx.extra["push_probe_found"] = True
        compiled += 1
        for which, asm, code in pairs:
            r = real_assemble(asm, cfg.evm)
            assert r[0] == "ok" and r[1] == code, (name, cfg.name, which, r[0])
            term, L, C = A.serialise(asm)
            key = (term, cfg.evm)
            fresh = key not in seen
            seen.add(key)
            out.append(dict(name=name, cfg=cfg, which=which, evm=cfg.evm, asm=asm, code=code, sm=r[2], cm=r[3],
                            term=term, L=L, C=C, cd=cd, fresh=fresh))
    ctx.corr["push_probe"] = {"calls": probe_total.calls, "min_argument": str(probe_total.min_seen),
                              "max_argument_bits": probe_total.max_seen.bit_length() if probe_total.max_seen >= 0 else None,
                              "out_of_range_calls": len(probe_total.bad), "call_sites": probe_total.sites}
    ctx.corr["corpus_compiled"] = compiled
    ctx.corr["corpus_skipped"] = skipped
    unexpected = {k: v for k, v in skipped.items()
                  if k not in ("transient:EvmVersionException", "ex/abstract/basic/abstract_module.vy:FunctionDeclarationException")}
    if unexpected:
        ctx.violation("correspondence-broken", "corpus contracts no longer compile (assembler tie not exercised on them)",
                      {"failures": unexpected})
    return out


def compare_model(ctx, cases, tag):
    """exact comparison model vs real for `cases` (dicts with term/evm/real result).  Returns #mismatches."""
    todo = [c for c in cases if c.get("fresh", True)]
    res = A.run_model([(evm_index(c["evm"]), c["code"] if c["code"] is not None else b"", c["term"]) for c in todo],
                      f"c16{tag}", with_gen=bool(ctx.extra.get("loops_ready")))
    bad = 0
    for c, (verdict, wf, sm, cm) in zip(todo, res):
        c["wf"] = wf
        if c["code"] is None:
            ok = verdict == "err"
            why = f"real assembler rejects ({c['err']}), model gives {verdict[:60]}"
        else:
            want_sm = {c["L"].ids[k.label]: v for k, v in c["sm"].items() if k.label in c["L"].ids}
            want_cm = {c["C"].ids[k.label]: v for k, v in c["cm"].items() if k.label in c["C"].ids}
            ok = verdict == "ok" and sm == want_sm and cm == want_cm and len(want_sm) == len(c["sm"])
            why = (f"model verdict {verdict[:80]!r}; symbol_map equal={sm == want_sm}; const_map equal={cm == want_cm}")
        c["model_ok"] = ok
        if not ok:
            bad += 1
            c["why"] = why
    return bad


# ------------------------------------------------------------------ (b) synthetic assemblies

def synth_cases(ctx):
    I = A._imports()
    rnd = ctx.rng("synth")
    from vyper.evm import opcodes as O
    plain = [k for k, v in O.OPCODES.items() if not k.startswith("PUSH") and k not in ("DEBUG", "BREAKPOINT")
             and not isinstance(v[3], tuple)]
    bvals = [0, 1, 2, 127, 128, 255, 256, 257, 65535, 65536, 2**24 - 1, 2**24, 2**32, 2**64 - 1, 2**64, 2**128,
             2**160 - 1, 2**248 - 1, 2**248, 2**255, 2**256 - 1]
    bvals += [256**k for k in range(1, 32)] + [256**k - 1 for k in range(1, 33)]
    out = []

    def add(asm, evm, kind):
        out.append((asm, evm, kind))

    def code_chunk(n, labels_avail, consts_avail, defs):
        asm = []
        for _ in range(n):
            r = rnd.random()
            if r < 0.35:
                asm.append(rnd.choice(plain))
            elif r < 0.55:
                k = rnd.choice([1, 1, 2, 2, 3, 4, 8, 16, 20, 31, 32, rnd.randrange(1, 33)])
                asm.append(f"PUSH{k}")
                asm += [rnd.choice([0, 0x5B, 0x60, 0x7F, 0xFF, rnd.randrange(256)]) for _ in range(k)]
            elif r < 0.70 and labels_avail:
                asm.append(I.PUSHLABEL(I.Label(rnd.choice(labels_avail))))
            elif r < 0.80 and labels_avail:
                asm.append(I.PUSH_OFST(I.Label(rnd.choice(labels_avail)), rnd.choice([0, 0, 1, 2, 32, 64, 255])))
            elif r < 0.92 and consts_avail:
                asm.append(I.PUSH_OFST(I.CONSTREF(rnd.choice(consts_avail)), rnd.choice([0, 0, 1, 32, 255, 256])))
            elif defs:
                asm.append(I.Label(defs.pop()))
            else:
                asm.append("JUMPDEST")
        return asm

    nprog = 60 if ctx.tier == "quick" else 400
    for i in range(nprog):
        evm = rnd.choice(A.EVM_NAMES)
        nl = rnd.randrange(1, 8)
        labels = [f"L{j}" for j in range(nl)] + ["code_end"]
        consts = [f"K{j}" for j in range(rnd.randrange(0, 5))]
        dlabels = [f"D{j}" for j in range(rnd.randrange(0, 3))]
        defs = [f"L{j}" for j in range(nl)]
        rnd.shuffle(defs)
        asm = []
        cdecl = [I.CONST(c, rnd.choice(bvals)) for c in consts]
        # pad so that label offsets straddle 0xff / 0x100 (and sometimes 0x1ff)
        pad = rnd.choice([0, 0, 200, 230, 250, 254, 255, 256, 500])
        asm += code_chunk(rnd.randrange(3, 25), labels + dlabels, consts, defs)
        asm += ["JUMPDEST"] * pad
        while defs:
            asm += code_chunk(rnd.randrange(1, 12), labels + dlabels, consts, defs)
        pos = rnd.randrange(0, len(asm) + 1) if rnd.random() < 0.5 else len(asm)
        if pos < len(asm):  # never split a push from its immediates
            while pos > 0 and isinstance(asm[pos - 1], int) or (pos > 0 and isinstance(asm[pos - 1], str) and asm[pos - 1].startswith("PUSH") and asm[pos - 1] != "PUSH0"):
                pos -= 1
        asm[pos:pos] = cdecl
        for d in dlabels:
            asm.append(I.DataHeader(I.Label(d)))
            for _ in range(rnd.randrange(0, 4)):
                if rnd.random() < 0.6:
                    asm.append(I.DATA_ITEM(bytes(rnd.choice([0x60, 0x7F, 0x5B, 0, rnd.randrange(256)])
                                                 for _ in range(rnd.choice([0, 1, 2, 31, 32, 33, 100])))))
                else:
                    asm.append(I.DATA_ITEM(I.Label(rnd.choice(labels + dlabels))))
        add(asm, evm, "random-wf")

    # every push width x both PUSH0 modes, constants at exact boundaries (via CONST + PUSH_OFST)
    for evm in ("paris", "shanghai"):
        asm = []
        for j, v in enumerate(sorted(set(bvals))):
            asm.append(I.CONST(f"c{j}", v))
            asm.append(I.PUSH_OFST(I.CONSTREF(f"c{j}"), 0))
            if v:
                asm.append(I.PUSH_OFST(I.CONSTREF(f"c{j}"), -1))
        asm += [I.Label("end"), I.PUSHLABEL(I.Label("end")), "JUMP"]
        add(asm, evm, "all-widths")

    # offsets crossing 0xffff: big data in front of a label (not wf: bytes tie only) -- accepted below
    # 65536, rejected (PUSH_N / to_bytes overflow) at and above
    for delta in (-4, -3, -2, -1, 0, 1, 2):
        for use in ("pushlabel", "datalabel", "push_ofst"):
            evm = rnd.choice(A.EVM_NAMES)
            n = 65536 + delta
            asm = [I.DataHeader(I.Label("blob")), I.DATA_ITEM(bytes([rnd.choice([0x60, 0x7F, 0x5B, 0])]) * n), I.Label("far")]
            if use == "pushlabel":
                asm += [I.PUSHLABEL(I.Label("far")), "JUMP"]
            elif use == "datalabel":
                asm += [I.DataHeader(I.Label("tbl")), I.DATA_ITEM(I.Label("far"))]
            else:
                asm += [I.PUSH_OFST(I.Label("blob"), n), I.PUSH_OFST(I.Label("far"), -5), "JUMP"]
            add(asm, evm, "cross-ffff")
    if ctx.tier == "thorough":
        asm = ["JUMPDEST"] * 65532 + [I.Label("a"), I.PUSHLABEL(I.Label("a")), I.PUSHLABEL(I.Label("code_end")), "JUMP"]
        add(asm, "prague", "cross-ffff-wf")

    # error behaviour
    L = I.Label
    errs = [
        [L("a"), L("a")], [I.PUSHLABEL(L("nope"))], [I.DATA_ITEM(L("nope"))], [I.PUSH_OFST(L("nope"), 0)],
        [I.PUSH_OFST(I.CONSTREF("nope"), 0)], [I.CONST("k", 1), I.CONST("k", 1)], [I.CONST("k", 1), I.CONST("k", 2)],
        ["PUSH1", 256], ["PUSH1", -1], ["NOTANOP"], ["push1", 1], ["add"], [L("code_end")], [I.DataHeader(L("a")), L("a")],
        [L("a"), I.PUSH_OFST(L("a"), -1)], [L("a"), I.PUSH_OFST(L("a"), 65535)], [L("a"), I.PUSH_OFST(L("a"), 65536)],
        [I.CONST("k", 5), I.PUSH_OFST(I.CONSTREF("k"), -5)], I.mkdebug(True, None) + ["STOP"], ["STOP"] + I.mkdebug(True, None) + [L("z")],
        [I.PUSHLABEL(L("code_end"))], [], ["PUSH0"], ["MCOPY"], ["TLOAD"], ["BLOBHASH"], ["PUSH33"], ["DUP17"], ["SWAP0"],
        ["PREVRANDAO", "DIFFICULTY"], ["JUMP"], ["JUMP", "STOP"], [L("a"), "JUMP"], ["JUMPI"], [I.CONST("k", 1), "JUMP"], [I.DATA_ITEM(b"")], [I.CONST("k", 3), I.PUSH_OFST(I.CONSTREF("k"), 2**256 - 4)],
    ]
    for asm in errs:
        for evm in ("london", "paris", "shanghai", "cancun", "prague"):
            add(list(asm), evm, "edge")
    cases = []
    for asm, evm, kind in out:
        r = real_assemble(asm, evm)
        term, Lb, Cb = A.serialise(asm)
        cv = {x.name: x.value for x in asm if isinstance(x, I.CONST)}
        dom = all(0 <= cv.get(x.label.label, 0) + x.ofst < 2**256 for x in asm
                  if isinstance(x, I.PUSH_OFST) and isinstance(x.label, I.CONSTREF))
        c = dict(name=f"synthetic:{kind}", evm=evm, asm=asm, term=term, L=Lb, C=Cb, kind=kind, fresh=True, in_domain=dom)
        if r[0] == "ok":
            c.update(code=r[1], sm=r[2], cm=r[3])
        else:
            c.update(code=None, err=r[1])
        cases.append(c)
    return cases


# ------------------------------------------------------------------ oracle / search on real output

def describe(c):
    d = {"assembler_input": "vyper.evm.assembler.assembly_to_evm(asm) under evm_version=" + c["evm"]}
    if "cfg" in c:
        src = A.CORPUS.get(c["name"])
        d["contract"] = c["name"]
        d["source"] = src if src is not None else f"{REPO}/examples/{c['name'][3:]} (version pragma stripped)"
        d["config"] = c["cfg"].name
        d["output"] = c["which"]
    else:
        a = [repr(x) for x in c["asm"]]
        d["asm"] = a if len(a) < 80 else a[:40] + [f"... {len(a) - 80} items ..."] + a[-40:]
    return d


def run_oracle(ctx, cases):
    """property oracle on every real (assembly, bytes) pair; returns number of failing inputs."""
    yp = A.yp_table()
    found = 0
    known_reported = []
    for c in cases:
        if c["code"] is None:
            continue
        I0 = A._imports()
        defs = [x.label for x in c["asm"] if isinstance(x, I0.Label)] + \
               [x.label.label for x in c["asm"] if isinstance(x, I0.DataHeader)] + ["code_end"]
        cdefs = [x.name for x in c["asm"] if isinstance(x, I0.CONST)]
        if len(set(defs)) != len(defs) or len(set(cdefs)) != len(cdefs):
            found += 1
            if len(known_reported) < 100 and sum(1 for x in known_reported if x == "dup") < 2:
                known_reported.append("dup")
                ctx.violation("failing-input", "assembler accepts a duplicate label/constant definition (one silently "
                              "shadows the other)", describe(c), key=f"c16:dup:{c['evm']}:{sorted(defs)[:3]}")
            continue
        if "cfg" not in c and (c["kind"] not in ("random-wf", "all-widths", "cross-ffff-wf") or not c["in_domain"]):
            continue  # PUSH of a value outside [0, 2^256) is outside the property's domain (see notes/C16.md)
        probs = A.oracle(c["asm"], c["code"], c["sm"], c["cm"], has_push0(c["evm"]), yp.get, evm=c["evm"])
        if "cfg" in c:
            # independent byte-level decode of the code part: every opcode must exist on the target fork
            I_ = A._imports()
            heads = [c["sm"][it.label] for it in c["asm"] if isinstance(it, I_.DataHeader)]
            code_len = min(heads) if heads else len(c["code"])
            for m in A.target_validity(c["code"], code_len, c["evm"]):
                probs.append(m)
            c["target_checked"] = code_len
        c["oracle"] = probs
        if not probs:
            continue
        I = A._imports()
        postamble = all((i is not None and i > 0 and c["asm"][i - 1] == I.Label("revert") and "PUSH0 emitted" in m)
                        or (i is None and "0x5f" in m) for i, m in probs.items) and any(i is not None for i, _ in probs.items)
        d = describe(c)
        d["oracle_problems"] = probs[:8]
        d["bytecode"] = c["code"].hex()[:4000]
        if postamble:
            # genuine defect of the unchanged tree (see notes/C16.md Findings): reported once, stable key
            if 1 not in known_reported:
                known_reported.append(1)
                d["cause"] = ("vyper/venom/venom_to_assembly.py:_REVERT_POSTAMBLE = [Label('revert'), *PUSH(0), 'DUP1', "
                              "'REVERT'] is evaluated at import time under the default EVM version, so the byte 0x5f "
                              "(PUSH0, EIP-3855, Shanghai) is emitted for london/paris targets where it is an invalid opcode")
                d["py_evm_opcode_0x5f_defined"] = _pyevm_has_push0(c["evm"])
                d["affected_in_this_run"] = sum(
                    1 for x in cases if x["code"] is not None and "cfg" in x and x["cfg"].venom and not has_push0(x["evm"]))
                ctx.violation("failing-input", "venom back end emits PUSH0 (0x5f) in the shared revert block for a "
                              "pre-Shanghai target (regression of the defect fixed by commit 1e339b4)", d, key=KNOWN_PUSH0)
            if ctx.is_known(KNOWN_PUSH0) is None:
                found += 1
            continue
        found += 1
        if found <= 3:
            ctx.violation("failing-input", "real assembler output violates the encoding property: " + probs[0],
                          d, key=f"c16:{c['name']}:{c['evm']}:{probs[0][:60]}")
    return found


def _pyevm_has_push0(evm):
    try:
        import importlib
        mod = {"london": "london", "paris": "paris", "shanghai": "shanghai", "cancun": "cancun", "prague": "prague"}[evm]
        m = importlib.import_module(f"eth.vm.forks.{mod}.computation")
        cls = [v for k, v in vars(m).items() if k.endswith("Computation") and k.lower().startswith(mod)][0]
        return 0x5F in cls.opcodes
    except Exception as e:  # noqa
        return f"unavailable ({type(e).__name__})"


def output_views(ctx, cases):
    """opcodes / symbol_map / source_map outputs describe exactly the bytes (re-derived with the
    independent scanner).  Returns number of failing inputs."""
    from vyper.compiler import output as out
    from vyper.compiler.settings import anchor_settings
    from vyper.evm.opcodes import get_opcodes
    yp = A.yp_table()
    found = 0
    n = 0
    done = set()
    for c in cases:
        if "cfg" not in c or (id(c["cd"]), c["which"]) in done:
            continue
        done.add((id(c["cd"]), c["which"]))
        cd, code = c["cd"], c["code"]
        rt = c["which"] == "assembly_runtime"
        probs = []
        with anchor_settings(cd.settings):
            opc = (out.build_opcodes_runtime_output if rt else out.build_opcodes_output)(cd).split()
            sym = (out.build_symbol_map_runtime if rt else out.build_symbol_map)(cd)
            smap = cd.source_map_runtime if rt else cd.source_map
            vy = get_opcodes()
        # opcodes: token stream = names and 0x-immediates of a linear decode
        i = t = 0
        while i < len(code) and not probs:
            b = code[i]
            tok = opc[t] if t < len(opc) else None
            exp = yp.get(tok) if tok in yp else (vy.get(tok) or (None,))[0]
            if tok is None or not (exp == b or tok == f"VERBATIM_{hex(b)}"):
                probs.append(f"opcodes token {t}={tok!r} does not name byte {b:#x} at offset {i}")
                break
            t += 1
            k = b - 0x5F if 0x60 <= b <= 0x7F else 0
            imm = code[i + 1:i + 1 + k]
            if k:
                if t >= len(opc) or opc[t].lower() != "0x" + imm.hex():
                    probs.append(f"opcodes immediates at offset {i}: {opc[t] if t < len(opc) else None} != 0x{imm.hex()}")
                t += 1
            i += 1 + k
        if not probs and t != len(opc):
            probs.append("opcodes output has trailing tokens")
        if sym != {k.label: v for k, v in c["sm"].items()}:
            probs.append("symbol_map output differs from the symbol map used for assembly")
        # source map pcs are instruction boundaries inside the code part
        starts = set(A.py_scan(code))
        for key in ("pc_raw_ast_map", "error_map", "pc_jump_map"):
            for pc in smap.get(key, {}):
                if pc not in starts and pc != 0:
                    probs.append(f"source_map[{key}] has pc {pc} which is not an instruction boundary")
                    break
        for pc, kind in smap.get("pc_jump_map", {}).items():
            if pc < len(code) and pc in starts and pc != 0 and code[pc] not in (0x56, 0x57, 0x5B):
                probs.append(f"pc_jump_map[{pc}] points at byte {code[pc]:#x}, not JUMP/JUMPI/JUMPDEST")
                break
        n += 1
        if probs:
            found += 1
            if found <= 3:
                d = describe(c)
                d["problems"] = probs[:6]
                ctx.violation("failing-input", "compiler output view does not describe the bytes: " + probs[0], d,
                              key=f"c16:view:{c['name']}:{probs[0][:50]}")
    ctx.corr["output_views_checked"] = n
    return found


def views_model(ctx, cases):
    """exact comparison of the Coq printer models (Views.v) with the real `opcodes`, `asm` outputs and of the
    model's source-map pcs with the real key sets.  Returns (#compared, mismatch descriptions)."""
    from vyper.compiler import output as out
    from vyper.compiler.settings import anchor_settings
    from vlib import coqrun
    rnd = ctx.rng("views")
    pool = [c for c in cases if "cfg" in c and c.get("fresh")]
    if ctx.tier == "quick":
        small = [c for c in pool if len(c["code"]) < 5000]
        pool = rnd.sample(small, min(36, len(small)))
    exprs, used = [], []
    for c in pool:
        cd, rt = c["cd"], c["which"] == "assembly_runtime"
        with anchor_settings(cd.settings):
            opc = (out.build_opcodes_runtime_output if rt else out.build_opcodes_output)(cd)
            atext = (out.build_asm_runtime_output if rt else out.build_asm_output)(cd)
            smap = cd.source_map_runtime if rt else cd.source_map
        try:
            ia, ka, ie, ke, ij, kj = A.source_map_indices(c["asm"], smap)
            exprs.append(A.views_expr(evm_index(c["evm"]), c["code"], c["term"], c["L"], c["C"], opc, atext,
                                      ia, ka, ie, ke, ij, kj))
            used.append(c)
        except AssertionError:
            continue
    outs = coqrun.eval_cases(A.VIEWS_PRELUDE, exprs, "c16views", shard=6, timeout=600) if exprs else []
    bad = []
    names = ("opcodes text", "asm text", "pc_raw_ast_map keys", "error_map keys", "pc_jump_map keys")
    for c, o in zip(used, outs):
        flags = [x.strip(" ()") for x in o.split(",")]
        for nm, f in zip(names, flags):
            if f != "true":
                bad.append((c, nm))
    return len(used), bad


# ------------------------------------------------------------------ main

def run(ctx):
    import time
    warnings.simplefilter("ignore")
    t0 = time.time()

    def lap(what):
        nonlocal t0
        ctx.log(f"{what}: {time.time() - t0:.1f}s")
        t0 = time.time()
    text, names, problems = A.gen_opcodes()
    (COQ / "C16" / "GenOpcodes.v").write_text(text)
    if names != A.EVM_NAMES:
        ctx.violation("correspondence-broken", f"EVM version list changed: {names}", {"expected": A.EVM_NAMES, "got": names})
    if problems:
        ctx.violation("translator-rejected", "opcode table outside the modelled shape: " + problems[0], {"problems": problems})
    gen_instr = c16_instr.generate(ctx)  # writes GenAsmInstr.v (or reports)
    gen_loops, loops_err = False, None
    if gen_instr:
        try:
            (COQ / "C16" / "GenAsmLoops.v").write_text(c16_loops.gen_loops())
            gen_loops = True
        except Unsupported as e:
            loops_err = str(e)
    files = ["C16/GenOpcodes.v"] + (["C16/GenAsmInstr.v"] if gen_instr else []) + STATIC + \
            (["C16/GenAsmLoops.v"] if gen_loops else []) + (["C16/InstrSound.v"] if gen_instr else []) + \
            (["C16/LoopsSound.v"] if gen_loops else []) + ["C16/PropsAsm.v", "C16/PropsViews.v"] + \
            (["C16/PropsInstr.v"] if gen_instr else []) + (["C16/PropsLoops.v"] if gen_loops else [])
    b = ctx.coq_build(files)
    lap("coq build")
    model_ready = all((COQ / (f[:-2] + ".vo")).exists() for f in ["C16/GenOpcodes.v", "C16/Asm.v", "C16/HexBytes.v"])
    ctx.extra["loops_ready"] = bool(gen_loops and (COQ / "C16" / "GenAsmLoops.vo").exists())
    instr_ready = gen_instr and all((COQ / (f[:-2] + ".vo")).exists() for f in ["C16/GenAsmInstr.v", "C16/InstrBridge.v"])
    if not model_ready:
        ctx.violation("correspondence-broken", "model files did not compile", {"out": b.get("out", "")[-1500:]})
        return

    found = 0
    # (a) compiled corpus
    cc = corpus_cases(ctx)
    lap(f"compile corpus ({len(cc)} assemblies)")
    bad_a = compare_model(ctx, cc, "corpus")
    lap("model on corpus")
    # (b) synthetic
    sc = synth_cases(ctx)
    lap(f"synthetic ({len(sc)} assemblies)")
    bad_b = compare_model(ctx, sc, "synth")
    lap("model on synthetic")
    # translation validation of instructions.py (model vs CPython)
    n_instr, bad_instr = c16_instr.differential(ctx) if instr_ready else (0, 0)
    lap(f"instructions.py differential ({n_instr} cases)")

    # Search = the property oracle on all real outputs (always run; cheap)
    found += 1 if ctx.extra.pop("push_probe_found", False) else 0
    found += run_oracle(ctx, cc + sc)
    found += output_views(ctx, cc)
    found += c16_instr.search(ctx)
    lap("oracle + output views")
    n_views, bad_views = (0, [])
    if (COQ / "C16" / "Views.vo").exists():
        n_views, bad_views = views_model(ctx, cc)
        lap(f"printer models vs real outputs ({n_views} assemblies)")
    if bad_views and not found:
        c, what = bad_views[0]
        d = describe(c)
        d["view"] = what
        d["all_mismatches"] = [(x["name"], x["cfg"].name, x["which"], w) for x, w in bad_views[:8]]
        ctx.violation("correspondence-broken", f"Views.v model of the {what} output disagrees with the real output", d)

    notwf = [c for c in cc if c.get("fresh") and not c.get("wf")]
    if notwf and not found:
        c = notwf[0]
        ctx.violation("correspondence-broken", "compiler-produced assembly is not of the form wf_asm assumes "
                      "(label_is_jumpdest hypothesis not met)", describe(c))
    for c in (cc + sc):
        if c.get("model_ok") is False and __import__("os").environ.get("C16_DEBUG"):
            ctx.log("MISMATCH", c["name"], c["evm"], [repr(x) for x in c["asm"]][:12], c.get("why"))
        if c.get("model_ok") is False and not found:
            d = describe(c)
            d["mismatch"] = c.get("why")
            ctx.violation("correspondence-broken", "Asm.v model disagrees with the real assembler", d)
            break
    if loops_err and not found:
        ctx.violation("translator-rejected", "cannot translate the assembler loops (symbols.py / core.py): " + loops_err,
                      {"error": loops_err})
    if bad_instr and not found:
        ctx.violation("correspondence-broken", "py2coq model of instructions.py disagrees with CPython", {"cases": bad_instr})
    if not b["ok"] and not found:
        ctx.violation("theorem-broken", f"{b.get('failed_lemma')} in {b['file']}",
                      {"theorem": b.get("failed_lemma"), "file": b["file"], "coq_output": b["out"][-1500:]})

    fresh = [c for c in cc if c.get("fresh")]
    kinds = {}
    for c in cc + sc:
        for it in c["asm"]:
            k = type(it).__name__
            kinds[k] = kinds.get(k, 0) + 1
    ctx.corr.update({
        "evaluations": len(cc) + len(sc) + n_instr,
        "distinct_nontrivial": len(fresh) + len(sc) + n_instr,
        "rule": "one evaluation = one assembly assembled by the real assembler and by the Coq model with byte-exact, "
                "symbol-map and const-map comparison (distinct = distinct (item list, evm version)); plus one per "
                "instructions.py helper call compared CPython vs regenerated Coq model",
        "corpus_assemblies": len(cc), "corpus_distinct": len(fresh), "synthetic_assemblies": len(sc),
        "synthetic_rejected_by_both": sum(1 for c in sc if c["code"] is None and c.get("model_ok")),
        "wf_assemblies": sum(1 for c in fresh if c.get("wf")),
        "model_mismatches": bad_a + bad_b, "item_kinds": kinds,
        "bytes_compared": sum(len(c["code"]) for c in fresh + sc if c["code"] is not None),
        "oracle_runs": sum(1 for c in cc + sc if "oracle" in c),
        "target_validity_code_bytes": sum(c.get("target_checked", 0) for c in cc),
        "target_validity_by_evm": {e: sum(1 for c in cc if c["evm"] == e and "target_checked" in c) for e in A.EVM_NAMES},
        "instr_differential_cases": n_instr, "printer_models_compared": n_views,
        "regenerated_loops_compared": (len(fresh) + len(sc)) if ctx.extra.get("loops_ready") else 0,
    })
    if fresh:
        c = fresh[0]
        ctx.samples.append({"contract": c["name"], "config": c["cfg"].name, "which": c["which"], "items": len(c["asm"]),
                            "bytes": len(c["code"]), "labels": len(c["sm"])})
    ctx.samples.append({"synthetic": "CONST k=65536; PUSH_OFST(CONSTREF k, -1) under paris", "expected_bytes": "61ffff"})
    ctx.trusted += ["Coq 8.16.1 kernel + vm_compute", "tools/vlib/c16_asm.py serialiser (assembly items -> Coq terms)",
                    "tools/vlib/py2coq.py + tools/vlib/c16_instr.py loop extension (validated by CPython-vs-model differential)",
                    "coq/C16/EvmOpcodes.v (EVM mnemonic/byte specification written from the Yellow Paper + EIPs)"]
    ctx.assumptions += ["label_is_jumpdest assumes wf_asm (code then data; every PUSHk followed by k ints; constant "
                        "pushes in [0,2^256)); checked for every compiled assembly in this run, not proved of the code generators",
                        "the two assembler loops (symbols.py, core.py) are hand-modelled; tie = exact bytes on this run's inputs"]
