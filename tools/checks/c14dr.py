"""C14DR: helper part of C14 (DretDesugarPass / FmpPrunePass of vyper/venom/passes/fmp_lowering.py); runnable on its own:
python3 tools/check.py C14DR --tier quick.  Not registered (the coordinator calls vlib.c14_dret.part_dret from c14.py)."""
from vlib import c14_dret

LEVEL = "proof"
META = {"not_applicable": "helper part of C14"}


def prebuild(ctx):
    c14_dret.prebuild(ctx)


def run(ctx):
    n = c14_dret.part_dret(ctx)
    ctx.corr["evaluations"] = n
    ctx.corr["distinct_nontrivial"] = n
    ctx.corr["rule"] = "before/after exports of every DretDesugarPass invocation checked by dret_check + EVM executions of the family"
