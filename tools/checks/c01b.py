"""C01B: helper part of C01 (pure value-level builtins: coq/C01/VyBuiltin*.v, PropsBuiltin.v); runnable on its own:
python3 tools/check.py C01B --tier quick.  Not registered (c01.py calls vlib.c01_builtins.part_builtins)."""
from vlib import c01_builtins

LEVEL = "proof"
META = {"not_applicable": "helper part of C01"}


def prebuild(ctx):
    c01_builtins.prebuild(ctx)


def run(ctx):
    n = c01_builtins.part_builtins(ctx)
    ctx.corr["evaluations"] = n
    ctx.corr["distinct_nontrivial"] = n
    ctx.corr["rule"] = ("calls of generated builtin probe functions executed on pyrevm under every configuration and compared with "
                        "coq/C01/VyBuiltin.v (vm_compute)")
