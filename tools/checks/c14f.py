"""C14F: helper part of C14 (FmpLoweringPass reclaim validator); runnable on its own: python3 tools/check.py C14F --tier quick.
Not registered (tools/checks/c14.py calls part_fmp)."""
from checks import c14

LEVEL = "proof"
META = {"not_applicable": "helper part of C14"}


def prebuild(ctx):
    ctx.coq_build_cached(c14.FMP_FILES, timeout=600)


def run(ctx):
    n = c14.part_fmp(ctx)
    ctx.corr["evaluations"] = n
    ctx.corr["distinct_nontrivial"] = n
    ctx.corr["rule"] = "functions lowered by the real FmpLoweringPass and accepted by fmp_check (vm_compute) + restores covered"
