"""C14R: helper part of C14 (whole-function verified validation of SCCP); runnable on its own:
python3 tools/check.py C14R --tier quick.  Not registered (the coordinator calls vlib.c14_sccp.part_sccp from c14.py)."""
from vlib import c14_sccp

LEVEL = "proof"
META = {"not_applicable": "helper part of C14"}


def prebuild(ctx):
    c14_sccp.prebuild(ctx)


def run(ctx):
    n = c14_sccp.part_sccp(ctx)
    ctx.corr["evaluations"] = n
    ctx.corr["distinct_nontrivial"] = n
    ctx.corr["rule"] = "distinct SCCP invocations (corpus compiles + hand-written families) validated in Coq (vm_compute)"
